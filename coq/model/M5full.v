(** M5full.v — trace acceptor for the whole life of a client request against
    deploys, drains and the pause gate (properties C02 and C03).  One rule per
    hook event of /repo (see Trace.v); [None] = the real trace is not a
    behaviour of this model.  Executable; no proofs here.

    Granularity: every event is one lock region (or one unsynchronised step) of
    the Go code; runs are recorded with GOMAXPROCS(1), so the events of one
    region are adjacent in the trace. *)
From KP Require Import model.Base model.Trace.
Local Open Scope N_scope.

(** ** State *)

Record drain := mkD {
  d_orig : tstate;                (* state to restore when this Drain call ends *)
  d_deadline : N;                 (* mark time + drain timeout *)
  d_snap : option (list nat);     (* in-flight requests copied at the snapshot *)
  d_deadline_hit : bool;          (* the wait loop gave up at the deadline *)
  d_cancelled : bool              (* "cancel any remaining requests" done *)
}.

Record tgt := mkT {
  t_lb : nat;
  t_state : tstate;
  t_inflight : list nat;          (* requests between claim and end *)
  t_drains : list (nat * drain);  (* open Drain calls, keyed by the goroutine running them *)
  t_ever_drained : bool           (* ghost: some Drain call has marked it *)
}.

Record lbr := mkL {
  l_targets : list nat;
  l_rot : list nat;               (* healthy rotation *)
  l_idx : nat;
  l_waited : bool;                (* WaitUntilHealthy succeeded, or restored *)
  l_tainted : bool                (* ghost: a target was drained, disposed or went unhealthy *)
}.

Record svc := mkS {
  s_active : option nat;
  s_rollout : option nat
}.

(** How far a request got. *)
Inductive rphase :=
| PArrived
| PRouted (s : option nat)
| PGate (s : nat) (a : gaction)          (* Wait() returned *)
| PPicked (s : nat) (lb : nat)
| PLbClaimed (lb : nat) (t : option nat)
| PRefused (t : nat)                      (* StartRequest: target is draining *)
| PClaimed (t : nat)
| PAtTarget (t : nat)
| PReplied (t : nat) (status : N)
| PFailed (t : nat) (why : N)
| PEnded (t : nat) (status : N)           (* left the in-flight set; status to report *)
| PDone.

Record req := mkR {
  r_phase : rphase;
  r_cancelled : bool                      (* a drain cancelled its context *)
}.

Record state := mkSt {
  targets : list (nat * tgt);
  lbs : list (nat * lbr);
  svcs : list (nat * svc);
  svc_names : list (nat * str);
  tgt_names : list (nat * str);
  installed : list nat;                   (* service objects currently in the router's table *)
  reqs : list (nat * req);
  clock : N
}.

Definition init : state := mkSt [] [] [] [] [] [] [] 0.

Definition upd_targets (st : state) (x : list (nat * tgt)) : state :=
  mkSt x (lbs st) (svcs st) (svc_names st) (tgt_names st) (installed st) (reqs st) (clock st).
Definition upd_lbs (st : state) (x : list (nat * lbr)) : state :=
  mkSt (targets st) x (svcs st) (svc_names st) (tgt_names st) (installed st) (reqs st) (clock st).
Definition upd_svcs (st : state) (x : list (nat * svc)) : state :=
  mkSt (targets st) (lbs st) x (svc_names st) (tgt_names st) (installed st) (reqs st) (clock st).
Definition upd_installed (st : state) (x : list nat) : state :=
  mkSt (targets st) (lbs st) (svcs st) (svc_names st) (tgt_names st) x (reqs st) (clock st).
Definition upd_reqs (st : state) (x : list (nat * req)) : state :=
  mkSt (targets st) (lbs st) (svcs st) (svc_names st) (tgt_names st) (installed st) x (clock st).

Definition set_phase (st : state) (r : nat) (p : rphase) : state :=
  let c := match nget (reqs st) r with Some q => r_cancelled q | None => false end in
  upd_reqs st (nset (reqs st) r (mkR p c)).

Definition phase_of (st : state) (r : nat) : option rphase :=
  match nget (reqs st) r with Some q => Some (r_phase q) | None => None end.

Definition taint (st : state) (lb : nat) : state :=
  match nget (lbs st) lb with
  | Some l => upd_lbs st (nset (lbs st) lb (mkL (l_targets l) (l_rot l) (l_idx l) (l_waited l) true))
  | None => st
  end.

Definition healthy_of (st : state) (ts : list nat) : list nat :=
  filter (fun t => match nget (targets st) t with
                   | Some x => tstate_eqb (t_state x) THealthy
                   | None => false end) ts.

Definition set_tstate (st : state) (t : nat) (x : tgt) (s' : tstate) : state :=
  upd_targets st (nset (targets st) t
    (mkT (t_lb x) s' (t_inflight x) (t_drains x) (t_ever_drained x))).

Definition set_drains (st : state) (t : nat) (x : tgt) (ds : list (nat * drain)) : state :=
  upd_targets st (nset (targets st) t
    (mkT (t_lb x) (t_state x) (t_inflight x) ds true)).

Fixpoint ndel {A} (l : list (nat * A)) (k : nat) : list (nat * A) :=
  match l with
  | [] => []
  | (k', v) :: r => if Nat.eqb k k' then r else (k', v) :: ndel r k
  end.

(** no request id twice (the Go snapshot is built from a map keyed by request) *)
Fixpoint nodup_ids (l : list nat) : bool :=
  match l with [] => true | x :: r => negb (nmem x r) && nodup_ids r end.

Definition goid (a : actor) : nat := match a with AGo g => g | ACmd c => c | AReq r => r | AEnv => 0 end.

(** Locked transition of HealthCheckCompleted. *)
Definition probe_transition (cur : tstate) (ok : bool) : tstate :=
  if ok then THealthy
  else match cur with THealthy => TUnhealthy | _ => cur end.

Definition same_name (st : state) (a b : nat) : bool :=
  match nget (svc_names st) a, nget (svc_names st) b with
  | Some x, Some y => str_eqb x y
  | _, _ => false
  end.

Definition opt_nat_eqb (a b : option nat) : bool := option_eqb Nat.eqb a b.

Definition is_slot (sv : svc) (lb : nat) : bool :=
  opt_nat_eqb (s_active sv) (Some lb) || opt_nat_eqb (s_rollout sv) (Some lb).

(** The status the proxy reports for a request that reached a target. *)
Definition outcome_status (p : rphase) : option (nat * N) :=
  match p with
  | PReplied t s => Some (t, s)
  | PFailed t 0 => Some (t, 502)
  | PFailed t 1 => Some (t, 504)     (* cancelled by a drain *)
  | PFailed t _ => Some (t, 499)     (* client went away *)
  | _ => None
  end.

(** ** The acceptor *)

Definition step (st0 : state) (e : event) : option state :=
  if e_t e <? clock st0 then None else               (* the clock never runs backwards *)
  let st := mkSt (targets st0) (lbs st0) (svcs st0) (svc_names st0) (tgt_names st0)
                 (installed st0) (reqs st0) (e_t e) in
  match e_k e with
  | KSvcName s n => Some (mkSt (targets st) (lbs st) (svcs st) (nset (svc_names st) s n) (tgt_names st)
                               (installed st) (reqs st) (clock st))
  | KTargetName t n => Some (mkSt (targets st) (lbs st) (svcs st) (svc_names st) (nset (tgt_names st) t n)
                                  (installed st) (reqs st) (clock st))

  (* ---- balancers and targets ---- *)
  | KLbNew lb ts =>
    match nget (lbs st) lb with
    | Some _ => None
    | None =>
      if existsb (fun t => match nget (targets st) t with Some _ => true | None => false end) ts then None else
      let tg := fold_left (fun acc t => nset acc t (mkT lb TAdding [] [] false)) ts (targets st) in
      Some (upd_lbs (upd_targets st tg) (nset (lbs st) lb (mkL ts [] 0 false false)))
    end
  | KProbeApply t ok _ new =>
    match nget (targets st) t with
    | None => None
    | Some x =>
      if tstate_eqb new (probe_transition (t_state x) ok) then
        let st1 := set_tstate st t x new in
        Some (match t_state x, new with
              | THealthy, TUnhealthy => taint st1 (t_lb x)
              | _, _ => st1 end)
      else None
    end
  | KStateSet t orig new =>
    match nget (targets st) t with
    | None => None
    | Some x =>
      if tstate_eqb orig (t_state x) then
        match new with
        | TDraining => Some (set_tstate st t x new)          (* the mark; the drain record follows in KDrainBegin *)
        | _ =>
          match nget (t_drains x) (goid (e_by e)) with
          | Some d =>                                          (* end of this goroutine's Drain: restore *)
            if d_cancelled d && tstate_eqb new (d_orig d) then
              Some (upd_targets st (nset (targets st) t
                     (mkT (t_lb x) new (t_inflight x) (ndel (t_drains x) (goid (e_by e))) true)))
            else None
          | None => Some (set_tstate st t x new)               (* MarkAllHealthy after a restore *)
          end
        end
      else None
    end
  | KDrainBegin t orig timeout =>
    match nget (targets st) t with
    | None => None
    | Some x =>
      if negb (tstate_eqb (t_state x) TDraining) then None else
      match orig with
      | TDraining => Some st                                   (* already draining: this call returns at once *)
      | _ =>
        match nget (t_drains x) (goid (e_by e)) with
        | Some _ => None
        | None =>
          Some (taint (set_drains st t x
                  (nset (t_drains x) (goid (e_by e)) (mkD orig (e_t e + timeout) None false false))) (t_lb x))
        end
      end
    end
  | KDrainSnapshot t rs =>
    match nget (targets st) t with
    | Some x =>
      match nget (t_drains x) (goid (e_by e)) with
      | Some d =>
        match d_snap d with
        | Some _ => None
        | None =>
          if Nat.eqb (length rs) (length (t_inflight x)) && forallb (fun r => nmem r (t_inflight x)) (map fst rs)
             && nodup_ids (map fst rs)
             (* the "hijacked" flag is exactly: the target answered 101 and the connection was taken over *)
             && forallb (fun rh => Bool.eqb (snd rh) (match phase_of st (fst rh) with
                                                      | Some (PReplied _ s101) => s101 =? 101 | _ => false end)) rs
          then
            (* upgraded connections are cancelled at once, "as they may be long-running" *)
            let rq := fold_left (fun acc (rh : nat * bool) => if snd rh then
                                   match nget acc (fst rh) with
                                   | Some q => nset acc (fst rh) (mkR (r_phase q) true)
                                   | None => acc end else acc) rs (reqs st) in
            Some (upd_reqs (set_drains st t x (nset (t_drains x) (goid (e_by e))
                       (mkD (d_orig d) (d_deadline d) (Some (map fst rs)) false false))) rq)
          else None
        end
      | None => None
      end
    | None => None
    end
  | KDrainDeadline t =>
    match nget (targets st) t with
    | Some x =>
      match nget (t_drains x) (goid (e_by e)) with
      | Some d =>
        match d_snap d with
        | Some sn =>
          (* the timer fires at the deadline; the goroutine may notice it later (parked at a yield) *)
          if (d_deadline d <=? e_t e) && negb (d_cancelled d) then
            Some (set_drains st t x (nset (t_drains x) (goid (e_by e))
                    (mkD (d_orig d) (d_deadline d) (Some sn) true false)))
          else None
        | None => None
        end
      | None => None
      end
    | None => None
    end
  | KDrainCancelRest t =>
    match nget (targets st) t with
    | Some x =>
      match nget (t_drains x) (goid (e_by e)) with
      | Some d =>
        match d_snap d with
        | Some sn =>
          (* either the deadline passed, or every request of the snapshot has ended *)
          (* (the wait loop watches the request contexts: done = ended, or cancelled by another drain) *)
          if d_deadline_hit d ||
             forallb (fun r => negb (nmem r (t_inflight x)) ||
                               match nget (reqs st) r with Some q => r_cancelled q | None => false end) sn then
            let still := filter (fun r => nmem r (t_inflight x)) sn in
            let rq := fold_left (fun acc r => match nget acc r with
                                              | Some q => nset acc r (mkR (r_phase q) true)
                                              | None => acc end) still (reqs st) in
            Some (upd_reqs (set_drains st t x (nset (t_drains x) (goid (e_by e))
                              (mkD (d_orig d) (d_deadline d) (Some sn) (d_deadline_hit d) true))) rq)
          else None
        | None => None
        end
      | None => None
      end
    | None => None
    end
  | KRotation lb hs =>
    match nget (lbs st) lb with
    | Some l =>
      if nlist_eqb hs (healthy_of st (l_targets l))
      then Some (upd_lbs st (nset (lbs st) lb (mkL (l_targets l) hs (l_idx l) (l_waited l) (l_tainted l))))
      else None
    | None => None
    end
  | KDeployWaited lb ok =>
    match nget (lbs st) lb with
    | Some l =>
      if ok then
        (* unless a target has flapped since (tainted), every target is healthy and
           already in rotation: the repaired signalling order *)
        if l_tainted l || (nlist_eqb (l_rot l) (l_targets l) && nlist_eqb (healthy_of st (l_targets l)) (l_targets l))
        then Some (upd_lbs st (nset (lbs st) lb (mkL (l_targets l) (l_rot l) (l_idx l) true (l_tainted l))))
        else None
      else Some (taint st lb)
    | None => None
    end
  | KLbDispose lb => Some (taint st lb)

  (* ---- services ---- *)
  | KSvcCopy old new =>
    match nget (svcs st) old with
    | Some sv => Some (upd_svcs st (nset (svcs st) new sv))
    | None => None
    end
  | KSlot s rollout lb replaced =>
    match nget (lbs st) lb with
    | Some l =>
      if negb (l_waited l) then None else
      let sv := match nget (svcs st) s with Some x => x | None => mkS None None end in
      let prev := if rollout then s_rollout sv else s_active sv in
      if opt_nat_eqb prev replaced then
        Some (upd_svcs st (nset (svcs st) s
               (if rollout then mkS (s_active sv) (Some lb) else mkS (Some lb) (s_rollout sv))))
      else None
    | None => None
    end
  | KInstall s ok =>
    if ok then
      Some (upd_installed st (s :: filter (fun x => negb (same_name st x s) && negb (Nat.eqb x s)) (installed st)))
    else Some st
  | KRemoved s => Some (upd_installed st (nremove s (installed st)))

  (* ---- requests ---- *)
  | KArrive r =>
    match nget (reqs st) r with
    | Some _ => None
    | None => Some (upd_reqs st (nset (reqs st) r (mkR PArrived false)))
    end
  | KRouted r so =>
    match phase_of st r with
    | Some PArrived =>
      match so with
      | Some s => if nmem s (installed st) then Some (set_phase st r (PRouted so)) else None
      | None => Some (set_phase st r (PRouted None))
      end
    | _ => None
    end
  | KGateResult r s a =>
    match phase_of st r with
    | Some (PRouted (Some s')) => if Nat.eqb s s' then Some (set_phase st r (PGate s a)) else None
    | _ => None
    end
  | KPick r s olb =>
    match phase_of st r, olb with
    | Some (PGate s' AProceed), Some lb =>
      if Nat.eqb s s' then
        match nget (svcs st) s with
        | Some sv => if is_slot sv lb then Some (set_phase st r (PPicked s lb)) else None
        | None => None
        end
      else None
    | _, _ => None
    end
  | KLbClaim lb ot r =>
    match phase_of st r, nget (lbs st) lb with
    | Some (PPicked _ lb'), Some l =>
      if negb (Nat.eqb lb lb') then None else
      match l_rot l, ot with
      | [], None => Some (set_phase st r (PLbClaimed lb None))
      | _ :: _, Some t =>
        let i := Nat.modulo (S (l_idx l)) (length (l_rot l)) in
        if opt_nat_eqb (nth_error (l_rot l) i) (Some t) then
          Some (set_phase (upd_lbs st (nset (lbs st) lb
                  (mkL (l_targets l) (l_rot l) i (l_waited l) (l_tainted l)))) r (PLbClaimed lb (Some t)))
        else None
      | _, _ => None
      end
    | _, _ => None
    end
  | KClaimRefused t r =>
    match phase_of st r, nget (targets st) t with
    | Some (PLbClaimed _ (Some t')), Some x =>
      if Nat.eqb t t' && tstate_eqb (t_state x) TDraining then Some (set_phase st r (PRefused t)) else None
    | _, _ => None
    end
  | KClaim t r =>
    match phase_of st r, nget (targets st) t with
    | Some (PLbClaimed _ (Some t')), Some x =>
      if Nat.eqb t t' && negb (tstate_eqb (t_state x) TDraining) && negb (nmem r (t_inflight x)) then
        Some (set_phase (upd_targets st (nset (targets st) t
                (mkT (t_lb x) (t_state x) (r :: t_inflight x) (t_drains x) (t_ever_drained x))))
              r (PClaimed t))
      else None
    | _, _ => None
    end
  | KAtTarget t r =>
    match phase_of st r with
    | Some (PClaimed t') => if Nat.eqb t t' then Some (set_phase st r (PAtTarget t)) else None
    | _ => None
    end
  | KTargetReplied t r status =>
    match phase_of st r with
    | Some (PAtTarget t') => if Nat.eqb t t' then Some (set_phase st r (PReplied t status)) else None
    | _ => None
    end
  | KTargetFailed t r why =>
    match nget (reqs st) r with
    | Some q =>
      match r_phase q with
      | PAtTarget t' =>
        (* "cancelled by a drain" only if a drain did cancel it *)
        if Nat.eqb t t' && (negb (why =? 1) || r_cancelled q) then Some (set_phase st r (PFailed t why)) else None
      | _ => None
      end
    | None => None
    end
  | KHijacked r =>
    (* targetResponseWriter.Hijack: only after the target answered 101 Switching Protocols *)
    match phase_of st r with
    | Some (PReplied _ s101) => if s101 =? 101 then Some st else None
    | _ => None
    end
  | KEnd t r =>
    match phase_of st r, nget (targets st) t with
    | Some p, Some x =>
      match outcome_status p with
      | Some (t', status) =>
        if Nat.eqb t t' && nmem r (t_inflight x) then
          Some (set_phase (upd_targets st (nset (targets st) t
                  (mkT (t_lb x) (t_state x) (nremove r (t_inflight x)) (t_drains x) (t_ever_drained x))))
                r (PEnded t status))
        else None
      | None => None
      end
    | _, _ => None
    end
  | KRespond r status served_by =>
    match phase_of st r with
    | Some (PRouted None) => if status =? 404 then Some (set_phase st r PDone) else None
    | Some (PRouted (Some _)) =>
      (* health-check shortcut of a paused/stopped service, TLS redirect/refusal: decided before the gate *)
      if (status =? 200) || (status =? 301) || (status =? 503) then
        match served_by with [] => Some (set_phase st r PDone) | _ => None end
      else None
    | Some (PGate _ AStopped) => if status =? 503 then Some (set_phase st r PDone) else None
    | Some (PGate _ ATimedOut) => if status =? 504 then Some (set_phase st r PDone) else None
    | Some (PLbClaimed _ None) => if status =? 503 then Some (set_phase st r PDone) else None
    | Some (PRefused _) => if status =? 503 then Some (set_phase st r PDone) else None
    | Some (PEnded t s) =>
      if status =? s then
        match served_by, nget (tgt_names st) t with
        | [], _ => if s =? 200 then None else Some (set_phase st r PDone)
        | n, Some n' => if str_eqb n n' then Some (set_phase st r PDone) else None
        | _, None => None
        end
      else None
    | _ => None
    end
  | _ => Some st
  end.

Definition accepted (tr : trace) : bool :=
  match run step init tr with Some _ => true | None => false end.
