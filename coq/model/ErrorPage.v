(** ErrorPage.v — error_page_middleware.go (SetErrorResponse, the two nested
    ErrorPageMiddlewares of server.go buildHandler and service.go
    createMiddleware) and the response a client gets for one proxied request:
    what the handler chain below the logging middleware does to its
    ResponseWriter for every behaviour of the target.
    Executable definitions only. *)
From KP Require Import model.Base model.Trace model.Buffer model.ProxyError.
Local Open Scope N_scope.

(** Calls on the ResponseWriter handed to the root error-page middleware (in
    the real chain: the loggerResponseWriter, then net/http's response). *)
Inductive wev :=
| WSetCT (html : bool)   (* Header().Set("Content-Type", "text/html; charset=utf-8") / http.Error's text/plain *)
| WWriteHeader (s : N)
| WWrite (b : str).

(** ** Pages *)

(** A template set: status -> page.  Pages are static here: the built-in
    pages for 404/413/502/504 contain no template actions and every
    proxy-error response is rendered with nil arguments (the 503 page with
    its message is model/Html.v). *)
Definition templates := list (N * str).

Fixpoint lookup (s : N) (t : templates) : option str :=
  match t with
  | [] => None
  | (k, v) :: r => if k =? s then Some v else lookup s r
  end.

(** fmt "%d" *)
Fixpoint dec_aux (fuel : nat) (n : N) (acc : str) : str :=
  match fuel with
  | O => acc
  | S f =>
    let acc' := (match Byte.of_N (48 + n mod 10) with Some b => b | None => x00 end) :: acc in
    if n / 10 =? 0 then acc' else dec_aux f (n / 10) acc'
  end.
Definition dec (n : N) : str := dec_aux 20 n [].

(** http.StatusText for the statuses the proxy produces ("" for 499 and any
    unknown code). *)
Definition status_text (s : N) : str :=
  if s =? 404 then bs "Not Found"
  else if s =? 413 then bs "Request Entity Too Large"
  else if s =? 500 then bs "Internal Server Error"
  else if s =? 502 then bs "Bad Gateway"
  else if s =? 503 then bs "Service Unavailable"
  else if s =? 504 then bs "Gateway Timeout"
  else [].

(** writeErrorWithoutTemplate of the root middleware *)
Definition h1_page (s : N) : str :=
  bs "<h1>" ++ dec s ++ bs " " ++ status_text s ++ bs "</h1>".

(** respondWithErrorPage: header first, then the template if there is one;
    without one only the root middleware writes the fallback.  Returns the
    calls made and whether the response counts as handled. *)
Definition respond (root : bool) (tpl : templates) (s : N) : list wev * bool :=
  let head := [WSetCT true; WWriteHeader s] in
  match lookup s tpl with
  | Some page => (head ++ [WWrite page], true)
  | None => if root then (head ++ [WWrite (h1_page s)], true) else (head, false)
  end.

(** The part of ErrorPageMiddleware.ServeHTTP after [next] has returned:
    [slot] is errorResp.StatusCode (None = 0). *)
Definition mw_after (root : bool) (tpl : templates) (slot : option N) : list wev * option N :=
  match slot with
  | None => ([], None)
  | Some s => let '(evs, handled) := respond root tpl s in (evs, if handled then None else Some s)
  end.

(** Service middleware (only if the service has an error-page directory)
    nested inside the root middleware. *)
Definition error_pages (custom : option templates) (builtin : templates) (slot : option N)
  : list wev * option N :=
  let '(e1, s1) := match custom with Some c => mw_after false c slot | None => ([], slot) end in
  let '(e2, s2) := mw_after true builtin s1 in
  (e1 ++ e2, s2).

(** The page the property asks for. *)
Definition builtin_page (builtin : templates) (s : N) : str :=
  match lookup s builtin with Some p => p | None => h1_page s end.
Definition page_for (custom : option templates) (builtin : templates) (s : N) : str :=
  match custom with
  | Some c => match lookup s c with Some p => p | None => builtin_page builtin s end
  | None => builtin_page builtin s
  end.

(** ** What a client makes of the calls: the first WriteHeader fixes status
    and headers; later ones are "superfluous" and ignored; a Write without a
    header implies 200; bodies concatenate. *)
Record cview := mkCv {
  cv_status : option N;      (* None: nothing written *)
  cv_html : bool;            (* Content-Type was text/html when the header was fixed *)
  cv_body : str }.

Fixpoint cview_aux (evs : list wev) (ct : bool) (st : option N) (html : bool) (body : str) : cview :=
  match evs with
  | [] => mkCv st html body
  | WSetCT h :: r => cview_aux r h st html body
  | WWriteHeader s :: r =>
    match st with
    | Some _ => cview_aux r ct st html body
    | None => cview_aux r ct (Some s) ct body
    end
  | WWrite b :: r =>
    match st with
    | Some _ => cview_aux r ct st html (body ++ b)
    | None => cview_aux r ct (Some 200) ct (body ++ b)
    end
  end.
Definition cview_of (evs : list wev) : cview := cview_aux evs false None false [].

(** net/http answers 200 with an empty body when the handler returns without
    having written anything. *)
Definition client_status (v : cview) : N := match cv_status v with Some s => s | None => 200 end.

(** ** One proxied request below the logging middleware *)

Record chain_cfg := mkCfg {
  c_buffer_resp : bool; c_maxm : N; c_max_resp : N;
  c_custom : option templates; c_builtin : templates }.

(** What ReverseProxy does to its ResponseWriter. *)
Definition proxy_hops (r : proxy_result) : list hop :=
  match r with
  | PRServed s body => [HWriteHeader s false; HWrite body]
  | PRError (ASetError _) => []
  | PRError (AWriteHeader s) => [HWriteHeader s false]
  | PRAbort s sent => [HWriteHeader s false; HWrite sent]
  end.

Definition proxy_slot (r : proxy_result) : option N :=
  match r with PRError (ASetError s) => Some s | _ => None end.

Definition hop_wev (h : hop) : list wev :=
  match h with HWriteHeader s _ => [WWriteHeader s] | HWrite p => [WWrite p] | _ => [] end.

Definition cev_wev (c : cev) : list wev :=
  match c with
  | CWriteHeader s => [WWriteHeader s]
  | CWrite p => [WWrite p]
  | CError500 => [WSetCT false; WWriteHeader 500; WWrite err500_body]
  | _ => []
  end.

(** Target.proxyHandler: ReverseProxy, inside the response-buffer middleware
    when responses are buffered.  A panic leaves that middleware through its
    deferred Close only: nothing of the buffer is sent. *)
Definition target_events (c : chain_cfg) (r : proxy_result) : list wev :=
  if c_buffer_resp c then
    if panics r then []
    else flat_map cev_wev (fst (resp_mw (c_maxm c) (c_max_resp c) (proxy_hops r)))
  else flat_map hop_wev (proxy_hops r).

Record outcome := mkOut {
  o_events : list wev;   (* calls on the logging writer, in order *)
  o_aborted : bool }.    (* the handler panicked with http.ErrAbortHandler: net/http drops the connection *)

(** The whole chain for one behaviour of the target.  The error-page
    middlewares have no deferred code: a panic skips them. *)
Definition serve (c : chain_cfg) (b : target_behaviour) : outcome :=
  let r := reverse_proxy b in
  let inner := target_events c r in
  if panics r then mkOut inner true
  else mkOut (inner ++ fst (error_pages (c_custom c) (c_builtin c) (proxy_slot r))) false.

(** The client got a complete response. *)
Definition complete (o : outcome) : bool := negb (o_aborted o).
