(** M5own.v — the ownership view (property C05, concurrent form): an acceptor
    over the sequence of the router's WRITE-LOCK regions that change or test the
    routing table, in the order the lock was taken:

      [OInstall name hosts prefixes ok]   Router.installService's region:
                                          CheckAvailability(name, options) and, when it
                                          finds no conflict, services.Set(service)
      [ORemove name]                      Router.RemoveService's region: services.Remove

    Racing deploys are serialised by the lock, so every execution — however the
    commands overlap — yields one such sequence; the harness records it through
    the `install` / `removed` hook events (which sit inside the regions) together
    with the options of the service object being installed.  [None] = the
    recorded sequence is not a behaviour of this model.  Executable; no proofs. *)
From KP Require Import model.Base model.ServiceMap.

Inductive oev :=
| OInstall (name : str) (hosts prefixes : list str) (ok : bool)
| ORemove (name : str).

Definition ostep (t : table) (e : oev) : option table :=
  match e with
  | OInstall n hs ps ok =>
    if Bool.eqb ok (negb (conflicts t n hs ps))
    then Some (if ok then tbl_set t (mkBI n hs ps) else t)
    else None
  | ORemove n => Some (tbl_remove t n)
  end.

Fixpoint orun (t : table) (l : list oev) : option table :=
  match l with
  | [] => Some t
  | e :: r => match ostep t e with Some t' => orun t' r | None => None end
  end.

Definition oaccepted (l : list oev) : bool :=
  match orun [] l with Some _ => true | None => false end.

(** index of the first rejected region, for diagnostics *)
Fixpoint ofirst_reject (t : table) (l : list oev) (i : nat) : option nat :=
  match l with
  | [] => None
  | e :: r => match ostep t e with Some t' => ofirst_reject t' r (S i) | None => Some i end
  end.

(** the pair (h, p) is claimed by an install attempt *)
Definition claims (e : oev) (h p : str) : bool :=
  match e with
  | OInstall _ hs ps _ => mem_str h hs && mem_str p ps
  | ORemove _ => false
  end.

Definition is_win (e : oev) : bool :=
  match e with OInstall _ _ _ ok => ok | ORemove _ => false end.

Definition ev_name (e : oev) : str :=
  match e with OInstall n _ _ _ => n | ORemove n => n end.

(** [e] makes service [n] give up the pair (h, p): its removal, or a successful
    redeploy of [n] whose new options no longer list the pair *)
Definition releases (e : oev) (n h p : str) : bool :=
  match e with
  | ORemove n' => str_eqb n' n
  | OInstall n' hs ps ok => str_eqb n' n && ok && negb (mem_str h hs && mem_str p ps)
  end.

(** the monitor: the property read off the recorded sequence alone, without the
    model — every state of the table, rebuilt from the successful regions only,
    has each pair owned once, and an attempt that claims a pair owned by another
    service did not succeed *)
Definition replay_step (t : table) (e : oev) : table :=
  match e with
  | OInstall n hs ps true => tbl_set t (mkBI n hs ps)
  | OInstall _ _ _ false => t
  | ORemove n => tbl_remove t n
  end.

Fixpoint c05c_ok_from (t : table) (l : list oev) : bool :=
  match l with
  | [] => true
  | e :: r => let t' := replay_step t e in pair_owned_once t' && c05c_ok_from t' r
  end.

Definition c05c_ok (l : list oev) : bool := c05c_ok_from [] l.

(** the racing form on the recorded sequence: among the attempts of a list that all
    claim (h, p), with no release in between, at most one succeeded *)
Definition winners (l : list oev) (h p : str) : nat :=
  length (filter (fun e => is_win e && claims e h p) l).
