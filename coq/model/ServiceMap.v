(** ServiceMap.v — model of internal/server/service_map.go: bindings,
    host keys, longest-prefix routing, availability check, TLS option sync.
    Executable; no proofs. *)
From KP Require Import model.Base.

(** ** Normalisation (NormalizeHosts / NormalizePathPrefixes) *)

Definition normalize_hosts (hs : list str) : list str :=
  match hs with [] => [[]] | _ => hs end.

Definition root_path : str := [slash].

Definition normalize_prefix (p : str) : str := slash :: trim_byte slash p.

Definition normalize_prefixes (ps : list str) : list str :=
  match ps with [] => [root_path] | _ => map normalize_prefix ps end.

(** EnsureTrailingSlash *)
Definition ensure_trailing_slash (p : str) : str :=
  if has_suffix p [slash] then p else p ++ [slash].

(** strings.HasPrefix(EnsureTrailingSlash(path), EnsureTrailingSlash(prefix)) *)
Definition prefix_matches (path prefix : str) : bool :=
  has_prefix (ensure_trailing_slash path) (ensure_trailing_slash prefix).

(** ** net.SplitHostPort, as far as ServiceForRequest and redirectToHTTPS use it *)

(** Returns [Some host] when the input splits without error. *)
Definition split_host_port (hp : str) : option str :=
  match last_index_byte hp colon with
  | None => None                                   (* missing port *)
  | Some i =>
    match hp with
    | x5b :: _ =>                                  (* '[' : bracketed literal *)
      match index_byte hp x5d with                 (* first ']' *)
      | None => None                               (* missing ']' *)
      | Some e =>
        if Nat.eqb (S e) i then
          if contains_byte (skipn 1 hp) x5b || contains_byte (skipn (S e) hp) x5d
          then None else Some (firstn (e - 1) (skipn 1 hp))
        else None                                  (* missing port / too many colons *)
      end
    | _ =>
      let host := firstn i hp in
      if contains_byte host colon then None        (* too many colons *)
      else if contains_byte hp x5b || contains_byte hp x5d then None
      else Some host
    end
  end.

(** Host key used for the lookup (ServiceMap.ServiceForRequest). *)
Definition request_host_key (host : str) : str :=
  match index_byte host colon with
  | Some (S _) =>
    match split_host_port host with
    | Some h => if contains_byte h colon then x5b :: h ++ [x5d] else h   (* IPv6 literal: brackets kept *)
    | None => host
    end
  | _ => host
  end.

(** the tree as given: "[::1]:80" was looked up as "::1", "[::1]" as "[::1]" *)
Definition request_host_key_pinned (host : str) : str :=
  match index_byte host colon with
  | Some (S _) => match split_host_port host with Some h => h | None => host end
  | _ => host
  end.

(** ** Tables *)

(** What routing needs to know of a deployed service. *)
Record binding_info := mkBI {
  bi_name : str;
  bi_hosts : list str;      (* normalised: never empty; [""] = default *)
  bi_prefixes : list str    (* normalised: never empty *)
}.

Definition table := list binding_info.   (* unique names: a Go map keyed by name *)

(** requestServiceMap[host]: all (prefix, owner) pairs bound to [host],
    in table order (the code sorts them by descending prefix length). *)
Definition bindings_for (t : table) (host : str) : list (str * str) :=
  flat_map (fun s =>
    flat_map (fun h => if str_eqb h host then map (fun p => (p, bi_name s)) (bi_prefixes s) else [])
             (bi_hosts s)) t.

Definition host_bound (t : table) (host : str) : bool :=
  existsb (fun s => mem_str host (bi_hosts s)) t.

(** bindingsForHost: exact key, else "*"+parent, else "". *)
Definition wildcard_key (host : str) : option str :=
  match index_byte host dot with
  | Some (S n) => Some (star :: skipn (S n) host)
  | _ => None
  end.

Definition host_level (t : table) (host : str) : str :=
  if host_bound t host then host
  else match wildcard_key host with
       | Some w => if host_bound t w then w else []
       | None => []
       end.

(** Longest matching prefix among a binding list; ties keep the earlier one
    (under unique ownership all tied matches are the same binding, see
    proofs/ServiceMapFacts.v). *)
Fixpoint best_match (path : str) (bs : list (str * str)) (best : option (str * str)) : option (str * str) :=
  match bs with
  | [] => best
  | (p, n) :: r =>
    if prefix_matches path p then
      match best with
      | Some (bp, _) => if Nat.ltb (length bp) (length p) then best_match path r (Some (p, n))
                        else best_match path r best
      | None => best_match path r (Some (p, n))
      end
    else best_match path r best
  end.

(** serviceFor(host, path): owner name and matched prefix. *)
Definition service_for (t : table) (host path : str) : option (str * str) :=
  match best_match path (bindings_for t (host_level t host)) None with
  | Some (p, n) => Some (n, p)
  | None => None
  end.

(** ServiceForRequest(req): Host header and decoded URL path. *)
Definition route (t : table) (host_header path : str) : option (str * str) :=
  service_for t (request_host_key host_header) path.

(** The implementation's literal algorithm: take the bindings in ANY order
    that is sorted by descending prefix length and return the first match. *)
Fixpoint first_match (path : str) (bs : list (str * str)) : option (str * str) :=
  match bs with
  | [] => None
  | (p, n) :: r => if prefix_matches path p then Some (n, p) else first_match path r
  end.

(** ** CheckAvailability *)

(** First conflicting owner, if any: a (host, prefix) pair of the new options
    bound to a service with another name. *)
Definition conflicts (t : table) (name : str) (hosts prefixes : list str) : bool :=
  existsb (fun h =>
    existsb (fun p =>
      existsb (fun b => str_eqb p (fst b) && negb (str_eqb (snd b) name)) (bindings_for t h))
      prefixes) hosts.

(** Set / Remove on the name-keyed map. *)
Fixpoint tbl_remove (t : table) (name : str) : table :=
  match t with
  | [] => []
  | s :: r => if str_eqb (bi_name s) name then tbl_remove r name else s :: tbl_remove r name
  end.

Definition tbl_set (t : table) (s : binding_info) : table := tbl_remove t (bi_name s) ++ [s].

Fixpoint tbl_get (t : table) (name : str) : option binding_info :=
  match t with
  | [] => None
  | s :: r => if str_eqb (bi_name s) name then Some s else tbl_get r name
  end.

(** ** Ownership *)

(** All (host, prefix, owner) triples of a table. *)
Definition triples (t : table) : list (str * str * str) :=
  flat_map (fun s => flat_map (fun h => map (fun p => (h, p, bi_name s)) (bi_prefixes s)) (bi_hosts s)) t.

Definition pair_owned_once (t : table) : bool :=
  forallb (fun x => forallb (fun y =>
      let '(h1, p1, n1) := x in let '(h2, p2, n2) := y in
      negb (str_eqb h1 h2 && str_eqb p1 p2) || str_eqb n1 n2) (triples t)) (triples t).
