(** Base.v — byte strings and small list utilities shared by every model file.
    Executable definitions only (proofs about them live in proofs/BaseFacts.v). *)
From Coq Require Export List Bool Arith NArith ZArith Lia.
From Coq Require Export Strings.Byte.
From Coq Require Strings.String.
Export ListNotations.
Export String.StringSyntax.

(** Go strings are byte sequences. *)
Definition str := list byte.

(** [bs "lit"] : a literal, for hand-written files.  Generated files use
    constructor lists ([x2f; x61]) directly. *)
Definition bs (s : String.string) : str := String.list_byte_of_string s.
Arguments bs _%string_scope.

Definition byte_eqb (a b : byte) : bool := Byte.eqb a b.

Fixpoint str_eqb (a b : str) : bool :=
  match a, b with
  | [], [] => true
  | x :: a', y :: b' => byte_eqb x y && str_eqb a' b'
  | _, _ => false
  end.

(** strings.HasPrefix s p *)
Fixpoint has_prefix (s p : str) : bool :=
  match p, s with
  | [], _ => true
  | y :: p', x :: s' => byte_eqb x y && has_prefix s' p'
  | _ :: _, [] => false
  end.

Definition has_suffix (s p : str) : bool := has_prefix (rev s) (rev p).

(** strings.Index s (one byte): position of the first occurrence *)
Fixpoint index_byte (s : str) (c : byte) : option nat :=
  match s with
  | [] => None
  | x :: s' => if byte_eqb x c then Some 0
               else match index_byte s' c with Some n => Some (S n) | None => None end
  end.

Fixpoint last_index_byte_aux (s : str) (c : byte) (i : nat) (acc : option nat) : option nat :=
  match s with
  | [] => acc
  | x :: s' => last_index_byte_aux s' c (S i) (if byte_eqb x c then Some i else acc)
  end.
Definition last_index_byte (s : str) (c : byte) : option nat := last_index_byte_aux s c 0 None.

Definition contains_byte (s : str) (c : byte) : bool :=
  match index_byte s c with Some _ => true | None => false end.

Fixpoint drop_while_eq (c : byte) (s : str) : str :=
  match s with
  | x :: s' => if byte_eqb x c then drop_while_eq c s' else s
  | [] => []
  end.

(** strings.Trim s "c" for a one-byte cutset *)
Definition trim_byte (c : byte) (s : str) : str :=
  rev (drop_while_eq c (rev (drop_while_eq c s))).

(** strings.TrimPrefix *)
Definition trim_prefix (s p : str) : str :=
  if has_prefix s p then skipn (length p) s else s.

Fixpoint mem_str (x : str) (l : list str) : bool :=
  match l with
  | [] => false
  | y :: l' => str_eqb x y || mem_str x l'
  end.

(** strings.Join *)
Fixpoint join (sep : str) (l : list str) : str :=
  match l with
  | [] => []
  | [x] => x
  | x :: l' => x ++ sep ++ join sep l'
  end.

Definition slash : byte := x2f.
Definition colon : byte := x3a.
Definition dot : byte := x2e.
Definition star : byte := x2a.

Definition byte_n (b : byte) : N := Byte.to_N b.
Definition in_range (lo hi : N) (b : byte) : bool := (lo <=? byte_n b)%N && (byte_n b <=? hi)%N.
Definition is_digit (b : byte) : bool := in_range 48 57 b.
Definition is_upper (b : byte) : bool := in_range 65 90 b.
Definition is_lower (b : byte) : bool := in_range 97 122 b.
Definition is_alpha (b : byte) : bool := is_upper b || is_lower b.
Definition is_alnum (b : byte) : bool := is_alpha b || is_digit b.

Definition all_bytes : list byte :=
  map (fun n => match Byte.of_N (N.of_nat n) with Some b => b | None => x00 end) (seq 0 256).

Definition list_eqb {A} (eqb : A -> A -> bool) : list A -> list A -> bool :=
  fix go (a b : list A) : bool :=
    match a, b with
    | [], [] => true
    | x :: a', y :: b' => eqb x y && go a' b'
    | _, _ => false
    end.

Definition option_eqb {A} (eqb : A -> A -> bool) (a b : option A) : bool :=
  match a, b with
  | None, None => true
  | Some x, Some y => eqb x y
  | _, _ => false
  end.

Definition strs_eqb := list_eqb str_eqb.

Fixpoint sumN (l : list N) : N := match l with [] => 0%N | x :: l' => (x + sumN l')%N end.
Definition lenN {A} (l : list A) : N := N.of_nat (length l).
