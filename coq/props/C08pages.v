(** C08 over histories in which the custom error pages are REPLACED IN PLACE between deploys (model/Pages.v; the
    correspondence run evaluates corr/C08pages.c08_pages_bad on the real proxy's answers):
    a stopped service answers with the page its own latest deploy read and the message of its latest stop - whatever
    was written into the directory, deployed for other services, stopped or resumed elsewhere in between. *)
From KP Require Import model.Base model.Trace model.Pages proofs.PagesFacts.
Local Open Scope nat_scope.

(** After a deploy of [s], however the history goes on without another deploy of [s] (pages replaced any number of
    times, other services deployed, anything stopped or resumed), [s]'s page is the one the directory held at that
    deploy - or the built-in page when the deploy named no directory or one without a 503 page. *)
Theorem c08_page_is_that_of_the_latest_deploy : forall st s d ops,
  forallb (fun o => negb (deploys s o)) ops = true ->
  page_of (prun (pstep st (PDeploy s d)) ops) s = Some (match d with DGood => Some (p_dir st) | _ => None end).
Proof. intros st s d ops H. rewrite run_page_other by exact H. apply deploy_reads_current. Qed.
Print Assumptions c08_page_is_that_of_the_latest_deploy.

(** After a stop of a deployed service with message [m], however the history goes on without another stop / resume of
    it - redeploys of the same service included - every request for it is answered by the proxy with [m] on the page of
    its latest deploy. *)
Theorem c08_stopped_until_resumed_across_redeploys : forall st s m ops,
  (exists x, nget (p_svcs st) s = Some x) ->
  forallb (fun o => negb (gates s o)) ops = true ->
  exists pg, p_answer (prun (pstep st (PStop s m)) ops) s = Some (pg, m).
Proof.
  intros st s m ops Hx H. apply stopped_answer, run_keeps_stopped; [exact H|]. apply stop_stops, Hx.
Qed.
Print Assumptions c08_stopped_until_resumed_across_redeploys.

(** Replacing the pages changes no service: only a later deploy can see it. *)
Theorem c08_replacing_pages_changes_no_service : forall st v s, p_answer (pstep st (PWrite v)) s = p_answer st s.
Proof. reflexivity. Qed.
Print Assumptions c08_replacing_pages_changes_no_service.

(** Non-vacuity: the four shapes of the correspondence run (tools/c08.gen_pages), answers as the model gives them. *)
Definition m1 : str := [x61].   Definition m2 : str := [x62].   Definition m3 : str := [x63].
Example pages_history_answers :
  p_answers p_init [PDeploy 0 DGood; PStop 0 m1; PAsk 0; PResume 0; PWrite 2; PDeploy 0 DGood; PStop 0 m2; PAsk 0; PResume 0; PAsk 0]
    = [Some (Some 1, m1); Some (Some 2, m2); None] /\
  p_answers p_init [PDeploy 0 DGood; PWrite 2; PStop 0 m1; PAsk 0; PDeploy 1 DGood; PStop 1 m2; PAsk 1; PAsk 0]
    = [Some (Some 1, m1); Some (Some 2, m2); Some (Some 1, m1)] /\
  p_answers p_init [PDeploy 0 DPartial; PDeploy 1 DNone; PStop 0 m3; PStop 1 m3; PAsk 0; PAsk 1; PAsk 2]
    = [Some (None, m3); Some (None, m3); None].
Proof. vm_compute. repeat split. Qed.
