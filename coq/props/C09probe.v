(** C09probe — stub, being written. *)
From KP Require Import model.Base model.Ticker proofs.TickerFacts.
Local Open Scope N_scope.
Theorem c09_probe_duration : forall timeout a, dur timeout a <= timeout.
Proof. exact dur_le_timeout. Qed.
Print Assumptions c09_probe_duration.
