(** C09probe — first clause of C09: "After deployment every target keeps being
    probed at the configured interval".

    The probe loop of health_check.go (time.NewTicker(interval); one check() at once,
    then one per tick, never two at a time; check() bounded by the probe timeout;
    Close() cancels) is model/Ticker.v; [probe_times t0 interval timeout script stop]
    lists, for the loop started at [t0], each probe as (send instant, Some (result
    instant, success) | None when abandoned by Close); [script] gives the answer of the
    target to the k-th probe (delay or never, good or bad) and bounds the run, so
    "for all scripts of any length" is "for ever".  Times are ns.

    Only statements here, each closed by [exact]; proofs are in proofs/TickerFacts.v.
    The model is tied to the code by tools/c09probe.py (exact comparison of every send
    and result instant on the virtual clock, corr/C09probecorr.v). *)
From KP Require Import model.Base model.Ticker proofs.TickerFacts.
Local Open Scope N_scope.

(** * 1. Exact cadence: no drift, for ever

    If every check ends (answer or timeout) in strictly less than the interval, the
    k-th probe is sent at exactly t0 + k * interval — whatever happened before. *)
Theorem c09_probe_exact_cadence : forall t0 I TO script stop k s r,
  0 < I -> (forall a, In a script -> dur TO a < I) ->
  nth_error (probe_times t0 I TO script stop) k = Some (s, r) ->
  s = t0 + N.of_nat k * I.
Proof. exact P_exact_cadence. Qed.
Print Assumptions c09_probe_exact_cadence.

(** A probe timeout below the interval suffices, whatever the target answers. *)
Theorem c09_probe_exact_cadence_timeout : forall t0 I TO script stop k s r,
  0 < I -> TO < I ->
  nth_error (probe_times t0 I TO script stop) k = Some (s, r) ->
  s = t0 + N.of_nat k * I.
Proof. exact P_exact_cadence_timeout. Qed.
Print Assumptions c09_probe_exact_cadence_timeout.

(** ... and the k-th probe IS sent then, for every k the script reaches, unless the
    loop was closed before that instant. *)
Theorem c09_probe_exact_cadence_alive : forall t0 I TO script stop k,
  0 < I -> (forall a, In a script -> dur TO a < I) ->
  (k < length script)%nat ->
  after_stop stop (t0 + N.of_nat k * I) = false ->
  exists r, nth_error (probe_times t0 I TO script stop) k = Some (t0 + N.of_nat k * I, r).
Proof. exact P_exact_cadence_alive. Qed.
Print Assumptions c09_probe_exact_cadence_alive.

(** * 2. The general bound, in all cases

    Consecutive probes k and k+1, sent at [s] and [s']: probe k has its result at
    s + d (d = min(answer delay, timeout)); s' is determined by the phase of [s] on the
    tick grid: the next tick if the check stayed short of it, otherwise at once.
    Hence: checks never overlap (s + d <= s'); the next probe comes at most one
    interval after the result, at most max(interval, d) <= max(interval, timeout)
    after the previous probe: a target is never left unprobed for longer than that;
    s' is on the grid unless the probe started from a waiting tick. *)
Theorem c09_probe_consecutive : forall t0 I TO script stop k s r s' r',
  0 < I ->
  nth_error (probe_times t0 I TO script stop) k = Some (s, r) ->
  nth_error (probe_times t0 I TO script stop) (S k) = Some (s', r') ->
  exists a, nth_error script k = Some a /\
    let d := dur TO a in
    r = Some (s + d, verdict TO a) /\
    s' = next_start t0 I s (s + d) /\
    s' = (if phase t0 I s + d <? I then s - phase t0 I s + I else s + d) /\
    s + d <= s' /\ s' <= s + d + I /\ s' <= s + N.max I d /\ s' <= s + N.max I TO /\ s < s' /\
    (s' = s + d \/ on_grid t0 I s' = true) /\
    (s' < s + d + I \/ (on_grid t0 I (s + d) = true /\ s' = s + d + I)).
Proof. exact P_consecutive. Qed.
Print Assumptions c09_probe_consecutive.

(** The same in terms of ticks: if a tick fired in the window (s, e] of check k (it
    waits in the one-slot channel; further ones are dropped) probe k+1 is sent at once,
    at [e]; otherwise on the FIRST tick strictly later than [e]. *)
Theorem c09_probe_next_tick : forall t0 I TO script stop k s r s' r',
  0 < I ->
  nth_error (probe_times t0 I TO script stop) k = Some (s, r) ->
  nth_error (probe_times t0 I TO script stop) (S k) = Some (s', r') ->
  exists e ok, r = Some (e, ok) /\ s <= e /\
    ((exists j, s < tick_at t0 I j /\ tick_at t0 I j <= e) -> s' = e) /\
    (~ (exists j, s < tick_at t0 I j /\ tick_at t0 I j <= e) ->
       exists j, s' = tick_at t0 I j /\ e < s' /\ (forall i, e < tick_at t0 I i -> s' <= tick_at t0 I i)).
Proof. exact P_next_tick. Qed.
Print Assumptions c09_probe_next_tick.

(** REFUTED: "the next probe is sent strictly less than one interval after the
    result".  A check that ends on a tick instant without having missed a tick (an
    immediate answer to a probe sent on the grid: the usual case) is followed by a
    wait of exactly one interval.  The true bound is [<=] (c09_probe_consecutive),
    strict unless the check ended exactly on the grid (its last clause:
    c09_probe_gap_lt_partial). *)
Theorem c09_probe_gap_lt_refuted :
  exists t0 I TO script stop k s e ok s' r',
    0 < I /\
    nth_error (probe_times t0 I TO script stop) k = Some (s, Some (e, ok)) /\
    nth_error (probe_times t0 I TO script stop) (S k) = Some (s', r') /\
    ~ s' < e + I.
Proof. exact P_gap_lt_refuted. Qed.
Print Assumptions c09_probe_gap_lt_refuted.

Theorem c09_probe_gap_lt_partial : forall t0 I TO script stop k s e ok s' r',
  0 < I ->
  nth_error (probe_times t0 I TO script stop) k = Some (s, Some (e, ok)) ->
  nth_error (probe_times t0 I TO script stop) (S k) = Some (s', r') ->
  s' < e + I \/ (on_grid t0 I e = true /\ s' = e + I).
Proof. exact P_gap_lt_partial. Qed.
Print Assumptions c09_probe_gap_lt_partial.

(** * 3. No drift: the loop stays on, and returns to, the tick grid *)

(** The first probe is sent when the loop starts. *)
Theorem c09_probe_first : forall t0 I TO script stop s r,
  nth_error (probe_times t0 I TO script stop) 0 = Some (s, r) -> s = t0.
Proof. exact P_first. Qed.
Print Assumptions c09_probe_first.

(** One step of a check shorter than the interval: either the next probe is on the
    grid again (the very next tick), or it started from a waiting tick and the phase
    has shrunk by interval - duration. *)
Theorem c09_probe_resync_step : forall t0 I TO script stop k s r s' r',
  0 < I ->
  nth_error (probe_times t0 I TO script stop) k = Some (s, r) ->
  nth_error (probe_times t0 I TO script stop) (S k) = Some (s', r') ->
  exists a, nth_error script k = Some a /\
    let d := dur TO a in
    d < I ->
    (phase t0 I s + d < I -> s' = s - phase t0 I s + I /\ on_grid t0 I s' = true) /\
    (I <= phase t0 I s + d -> s' = s + d /\ phase t0 I s' = phase t0 I s + d - I /\ phase t0 I s' < phase t0 I s).
Proof. exact P_resync_step. Qed.
Print Assumptions c09_probe_resync_step.

(** On the grid and a check shorter than the interval: exactly one interval. *)
Theorem c09_probe_stays_on_grid : forall t0 I TO script stop k s r s' r',
  0 < I ->
  nth_error (probe_times t0 I TO script stop) k = Some (s, r) ->
  nth_error (probe_times t0 I TO script stop) (S k) = Some (s', r') ->
  on_grid t0 I s = true ->
  (exists a, nth_error script k = Some a /\ dur TO a < I) ->
  s' = s + I.
Proof. exact P_stays_on_grid. Qed.
Print Assumptions c09_probe_stays_on_grid.

(** Re-synchronisation: with all checks at most D < interval long, after a probe at
    [s] the loop is back on the grid within n probes, for any n with
    n * (interval - D) >= phase of [s]  (the phase is < interval, so
    n = ceil(interval / (interval - D)) always suffices). *)
Theorem c09_probe_resync_within : forall t0 I TO script stop D n k s r,
  0 < I -> D < I -> (forall a, In a script -> dur TO a <= D) ->
  nth_error (probe_times t0 I TO script stop) k = Some (s, r) ->
  nth_error (probe_times t0 I TO script stop) (k + n) <> None ->
  phase t0 I s <= N.of_nat n * (I - D) ->
  exists j sj rj, (j <= n)%nat /\
    nth_error (probe_times t0 I TO script stop) (k + j) = Some (sj, rj) /\ on_grid t0 I sj = true.
Proof. exact P_resync_within. Qed.
Print Assumptions c09_probe_resync_within.

(** * 4. Result times and results

    The result of probe k is reported at send + min(delay, timeout) (send + timeout
    when the target never answers), and it is a success only if the k-th answer came
    within the timeout and was a good one. *)
Theorem c09_probe_result : forall t0 I TO script stop k s e ok,
  nth_error (probe_times t0 I TO script stop) k = Some (s, Some (e, ok)) ->
  exists a, nth_error script k = Some a /\
    e = s + match fst a with Some d => N.min d TO | None => TO end /\
    (ok = true <-> exists d, fst a = Some d /\ d <= TO /\ snd a = true).
Proof. exact P_result. Qed.
Print Assumptions c09_probe_result.

(** * 5. Close

    No probe is sent after the stop and nothing is reported after it; a probe without
    a result is the last one, and it was in flight at the stop. *)
Theorem c09_probe_stop : forall t0 I TO script x k s r,
  nth_error (probe_times t0 I TO script (Some x)) k = Some (s, r) ->
  s <= x /\
  match r with
  | Some (e, _) => e <= x
  | None => (exists a, nth_error script k = Some a /\ x < s + dur TO a) /\
            nth_error (probe_times t0 I TO script (Some x)) (S k) = None
  end.
Proof. exact P_stop. Qed.
Print Assumptions c09_probe_stop.

(** Until then the loop keeps probing: the first probe is sent unless the loop was
    closed before it began, and after a reported probe another one follows unless the
    instant it is due lies after the stop (or the script is exhausted). *)
Theorem c09_probe_until_stop : forall t0 I TO script stop,
  (script <> [] -> after_stop stop t0 = false ->
   exists r, nth_error (probe_times t0 I TO script stop) 0 = Some (t0, r)) /\
  (forall k s e ok,
   nth_error (probe_times t0 I TO script stop) k = Some (s, Some (e, ok)) ->
   nth_error (probe_times t0 I TO script stop) (S k) = None ->
   (S k < length script)%nat ->
   after_stop stop (next_start t0 I s e) = true).
Proof. exact P_until_stop. Qed.
Print Assumptions c09_probe_until_stop.

(** Never closed: one probe per scripted answer, each with a result. *)
Theorem c09_probe_no_stop : forall t0 I TO script,
  length (probe_times t0 I TO script None) = length script /\
  (forall k s r, nth_error (probe_times t0 I TO script None) k = Some (s, r) -> r <> None).
Proof. exact P_no_stop. Qed.
Print Assumptions c09_probe_no_stop.

(** * Non-vacuity: runs of the model (the same runs are observed on the real code
    by the directed scenarios of tools/c09probe.py) *)

(** interval 1 s, timeout 5 s; the second probe takes 2.5 s (ticks at 2 s and 3 s
    fire meanwhile: one waits, one is dropped), the third 0.7 s, then prompt answers:
    sends at 0, 1, 3.5 (at once), 4.2 (at once: the tick of 4 s waited), 5, 6 — back on
    the grid. *)
Example c09_probe_run_slow :
  probe_times 0 1000000000 5000000000
    [(Some 0, true); (Some 2500000000, true); (Some 700000000, true); (Some 0, true); (Some 0, true); (Some 0, false)] None
  = [(0, Some (0, true)); (1000000000, Some (3500000000, true)); (3500000000, Some (4200000000, true));
     (4200000000, Some (4200000000, true)); (5000000000, Some (5000000000, true)); (6000000000, Some (6000000000, false))].
Proof. vm_compute. reflexivity. Qed.

(** a check that ends exactly on a tick: the next probe is sent at that instant; one
    that ends 1 ns earlier: also at the tick instant (waited 1 ns); 1 ns later: at once *)
Example c09_probe_run_tie :
  map fst (probe_times 7 1000 5000 [(Some 0, true); (Some 1000, true); (Some 999, true); (Some 1001, true); (Some 0, true); (Some 0, true)] None)
  = [7; 1007; 2007; 3007; 4008; 5007].
Proof. vm_compute. reflexivity. Qed.

(** timeouts: never answered = fails at send + timeout; answered exactly at the
    timeout = still a success; 1 ns later = failure; Close at 2300: the probe in
    flight is abandoned *)
Example c09_probe_run_timeout_stop :
  probe_times 0 1000 500 [(None, false); (Some 500, true); (Some 501, true); (Some 0, true)] (Some 2300)
  = [(0, Some (500, false)); (1000, Some (1500, true)); (2000, None)].
Proof. vm_compute. reflexivity. Qed.

(** Close exactly on a tick (after what happens at that instant): that probe is still sent *)
Example c09_probe_run_stop_on_tick :
  probe_times 0 1000 500 [(Some 0, true); (Some 0, true); (Some 0, true); (Some 0, true); (Some 0, true)] (Some 2000)
  = [(0, Some (0, true)); (1000, Some (1000, true)); (2000, Some (2000, true))].
Proof. vm_compute. reflexivity. Qed.

(** the hypotheses of the exact-cadence theorems are satisfiable with slow and failing
    answers: timeout below the interval, hanging target *)
Example c09_probe_run_exact :
  map fst (probe_times 5 1000 999 [(None, false); (Some 998, true); (Some 2000, false); (None, false); (Some 0, true)] None)
  = [5; 1005; 2005; 3005; 4005].
Proof. vm_compute. reflexivity. Qed.
