(** C08held — requests that a stop finds waiting at a paused gate (monitor [c08_held_bad] of corr/C08held.v).
    Only statements, each closed by [exact]; proofs are in proofs/C08heldLink.v (on top of
    proofs/M5gateFacts.v, i.e. props/C07.v [c07_outcome]).

    Two parts.
    (1) The gate view.  For EVERY event trace accepted by the pause-gate view model/M5gate.v
        ([gate_accepts tr = true]; that the traces of the real router are accepted is what the correspondence
        runs check): a request that parked at a paused gate and is woken by the channel while the state of its
        controller is stopped is answered 503 by the proxy itself — the answer names no target — exactly once,
        and no event of the trace hands it to a balancer or a target.  That is what the monitor demands of a
        non-health request, except for the BODY.
    (2) The monitor itself, characterised.

    The 503 body ([render503]: the custom page of the service or the built-in page with the operator's
    message, HTML-escaped) is produced by the error-page middleware, OUTSIDE the trace views — the events
    carry the status and the name of the serving target only.  No theorem here ties the body of a held
    request to the code; that is done by the byte-for-byte comparison of the correspondence run alone
    (and, for requests arriving after the stop, by props/C08.v).

    Vocabulary: props/C07.v ([ev_read], [ev_wake], [quiet], [state_at], [chan_at], [closer], [is_pread]) and
    proofs/C08heldLink.v:
      forwards r e          e is a pick / lb-claim / claim / claim-refused event about request r
      responds r e st sb    e_k e = KRespond r st sb        (status st, served by sb; [] = by the proxy itself)
      stopped_wake h w hb   w_chan w = true /\ state_at hb (h_pc h) = GStopped     (hb: history before the wake)
      obs_of_respond st sb body := (false, st, sb <> [], body)   the monitor's observation of that answer *)
From KP Require Import model.Base model.Html model.Trace model.M5gate corr.C08corr corr.C08held
  proofs.M5gateFacts proofs.C08heldLink.
Local Open Scope N_scope.

(** * (1) The gate view *)

(** Every request that parked at a paused gate has, in every accepted trace, the story
      pre ++ READ :: held ++ WAKE :: after
    (nothing about it before the read or while held; it read [GPaused] and the open generation); and if the
    wake is by channel with the controller stopped at that moment, then its generation had been closed and
      after = aw ++ RESULT stopped :: mid ++ RESPOND 503 (no target) :: rest
    with no other event about it in aw, mid, rest. *)
Theorem c08_held_request_answered_503 : forall tr r e,
  gate_accepts tr = true -> In e tr -> is_pread r e ->
  exists pre held h w after,
    tr = pre ++ ev_read r h :: held ++ ev_wake r h w :: after /\
    quiet r pre /\ quiet r held /\
    state_at (rev pre) (h_pc h) = GPaused /\ chan_at (rev pre) (h_pc h) = Some (h_gen h) /\
    (stopped_wake h w (rev (pre ++ ev_read r h :: held)) ->
     closer (rev (pre ++ ev_read r h :: held)) (h_gen h) <> None /\
     exists aw t3 svc mid t5 who rest,
       after = aw ++ mkEv t3 (AReq r) (KGateResult r svc AStopped) :: mid ++
               mkEv t5 who (KRespond r 503 []) :: rest /\
       quiet r aw /\ quiet r mid /\ quiet r rest).
Proof. exact held_stopped_story. Qed.

(** The same without the vocabulary of [quiet]: there is an answer after the wake, every answer to the
    request anywhere in the trace is after the wake, 503 and names no target; NO event of the trace forwards
    the request (no pick, no lb-claim, no claim, no refused claim — before or after the wake); and the gate
    reported "stopped" for it, after the wake, and nothing else. *)
Theorem c08_held_request_not_forwarded : forall tr r e,
  gate_accepts tr = true -> In e tr -> is_pread r e ->
  exists pre held h w after,
    tr = pre ++ ev_read r h :: held ++ ev_wake r h w :: after /\
    (stopped_wake h w (rev (pre ++ ev_read r h :: held)) ->
     (exists x, In x after /\ responds r x 503 []) /\
     (forall x st sb, In x tr -> responds r x st sb -> In x after /\ st = 503 /\ sb = []) /\
     (forall x, In x tr -> ~ forwards r x) /\
     (forall x svc a, In x tr -> e_k x = KGateResult r svc a -> In x after /\ a = AStopped)).
Proof. exact held_stopped_answer. Qed.

(** From the trace to the monitor: for the answer guaranteed above (status 503, no target) the monitor's
    verdict on a non-health request is the comparison of the body and nothing else ... *)
Theorem c08_held_monitor_of_trace_answer : forall env custom msg body,
  held_req_ok env custom msg (obs_of_respond 503 [] body) =
  str_eqb body (render503 (e_page env) (custom_of_pages env custom) msg).
Proof. exact held_req_ok_of_trace. Qed.

(** ... and any other answer — another status, or served by a target — fails it whatever the body. *)
Theorem c08_held_monitor_rejects_other_answers : forall env custom msg status sb body,
  status <> 503 \/ sb <> [] -> held_req_ok env custom msg (obs_of_respond status sb body) = false.
Proof. exact held_req_bad_of_trace. Qed.

(** * (2) The monitor *)

Theorem c08_held_bad_nil_iff : forall env c m l,
  c08_held_bad env c m l = [] <-> Forall (fun o => held_req_ok env c m o = true) l.
Proof. exact c08_held_bad_nil. Qed.

(** the list returned holds exactly the indices of the wrong answers *)
Theorem c08_held_bad_indices : forall env c m l k,
  In k (c08_held_bad env c m l) <-> exists o, nth_error l k = Some o /\ held_req_ok env c m o = false.
Proof. exact c08_held_bad_in. Qed.

(** one answer is right iff: not forwarded; a GET of the health-check path got 200; any other request got
    503 with exactly the rendered page. *)
Theorem c08_held_req_ok_iff : forall env c m health status forwarded body,
  held_req_ok env c m (health, status, forwarded, body) = true <->
  forwarded = false /\
  (health = true -> status = 200) /\
  (health = false -> status = 503 /\ body = render503 (e_page env) (custom_of_pages env c) m).
Proof. exact held_req_ok_iff. Qed.

Theorem c08_held_req_ok_not_forwarded : forall env c m health status forwarded body,
  held_req_ok env c m (health, status, forwarded, body) = true -> forwarded = false.
Proof. exact held_req_ok_not_forwarded. Qed.

Theorem c08_held_req_ok_503_body : forall env c m status forwarded body,
  held_req_ok env c m (false, status, forwarded, body) = true ->
  status = 503 /\ body = render503 (e_page env) (custom_of_pages env c) m.
Proof. exact held_req_ok_503. Qed.

(** * Non-vacuity *)

(** pause (max-pause 30 s); requests 1 and 2 park; stop at 5 ns closes the generation; both are woken by the
    channel, the gate reports "stopped", both get the proxy's 503.  Request 3 arrives after the stop. *)
Definition web : str := [x77;x65;x62].
Definition wit_stop : trace :=
 [mkEv 0 (ACmd 2) (KIssue 2 CkPause web);
  mkEv 0 (ACmd 2) (KParams 2 0 3000000000 30000000000);
  mkEv 0 (ACmd 2) (KGateSet 0 GPaused (Some 0%nat));
  mkEv 1 (AReq 1) (KGateRead 0 GPaused (Some 0%nat));
  mkEv 2 (AReq 2) (KGateRead 0 GPaused (Some 0%nat));
  mkEv 5 (ACmd 3) (KIssue 3 CkStop web);
  mkEv 5 (ACmd 3) (KParams 3 0 3000000000 0);
  mkEv 5 (ACmd 3) (KGateSet 0 GStopped (Some 0%nat));
  mkEv 5 (AReq 2) (KGateWake 0 true);
  mkEv 5 (AReq 1) (KGateWake 0 true);
  mkEv 5 (AReq 1) (KGateResult 1 0 AStopped);
  mkEv 5 (AReq 2) (KGateResult 2 0 AStopped);
  mkEv 5 (AReq 2) (KRespond 2 503 []);
  mkEv 5 (AReq 1) (KRespond 1 503 []);
  mkEv 6 (AReq 3) (KGateRead 0 GStopped (Some 0%nat));
  mkEv 6 (AReq 3) (KGateResult 3 0 AStopped);
  mkEv 6 (AReq 3) (KRespond 3 503 [])].

Example c08_held_trace_accepted : gate_accepts wit_stop = true.
Proof. vm_compute. reflexivity. Qed.

(** the hypotheses of the theorems hold for request 1, and the premise [stopped_wake] holds for its
    decomposition *)
Example c08_held_nonvacuous :
  let rd := mkEv 1 (AReq 1) (KGateRead 0 GPaused (Some 0%nat)) in
  let h := mkHold 0 0 1 30000000000 in
  let w := mkWake true 5 GStopped in
  In rd wit_stop /\ is_pread 1 rd /\
  wit_stop = firstn 3 wit_stop ++ ev_read 1 h :: firstn 5 (skipn 4 wit_stop) ++ ev_wake 1 h w :: skipn 10 wit_stop /\
  stopped_wake h w (rev (firstn 3 wit_stop ++ ev_read 1 h :: firstn 5 (skipn 4 wit_stop))).
Proof.
  cbv zeta. split; [vm_compute; tauto|]. split; [exists 0%nat, (Some 0%nat); split; reflexivity|].
  split; [reflexivity|]. split; vm_compute; reflexivity.
Qed.

(** doctored traces are rejected: a held request handed to a balancer after the stop, answered 200, answered
    503 by a target, reported "proceed" by the gate, woken by channel before the stop, never answered *)
Definition doctor (i : nat) (e : event) (tr : trace) : trace := firstn i tr ++ e :: skipn (S i) tr.
Definition insert (i : nat) (e : event) (tr : trace) : trace := firstn i tr ++ e :: skipn i tr.

Example c08_held_doctored_rejected :
  gate_accepts (insert 13 (mkEv 5 (AReq 1) (KPick 1 0 (Some 0%nat))) wit_stop) = false /\
  gate_accepts (insert 13 (mkEv 5 (AReq 1) (KClaim 0 1)) wit_stop) = false /\
  gate_accepts (doctor 13 (mkEv 5 (AReq 1) (KRespond 1 200 [])) wit_stop) = false /\
  gate_accepts (doctor 13 (mkEv 5 (AReq 1) (KRespond 1 503 [x74;x61])) wit_stop) = false /\
  gate_accepts (doctor 10 (mkEv 5 (AReq 1) (KGateResult 1 0 AProceed)) wit_stop) = false /\
  gate_accepts (insert 5 (mkEv 4 (AReq 1) (KGateWake 0 true)) (firstn 9 wit_stop ++ skipn 10 wit_stop)) = false /\
  gate_accepts (firstn 13 wit_stop) = false.
Proof. repeat split; vm_compute; reflexivity. Qed.

(** the monitor on concrete answers: built-in page (cut at its {{ if .Message }} block) and a custom page *)
Definition ex_env : c08_env :=
  mkEnv (mkPage (bs "<h1>Service unavailable</h1>") (bs "<p>") (bs "</p>") (bs "<p>try later</p>") (bs "<hr>"))
        (bs "<b>", bs "</b>").

Example c08_held_monitor_examples :
  let good := bs "<h1>Service unavailable</h1><p>back at 5 &amp; not before</p><hr>" in
  render503 (e_page ex_env) None (bs "back at 5 & not before") = good /\
  (* two held requests and a health check: all right *)
  c08_held_bad ex_env false (bs "back at 5 & not before")
    [(false, 503, false, good); (true, 200, false, []); (false, 503, false, good)] = [] /\
  (* forwarded; 504 (ran into the pause timeout); raw message in the body; health check refused; custom page expected *)
  c08_held_bad ex_env false (bs "back at 5 & not before")
    [(false, 503, false, good); (false, 200, true, bs "hello"); (false, 504, false, []);
     (false, 503, false, bs "<h1>Service unavailable</h1><p>back at 5 & not before</p><hr>");
     (true, 503, false, good); (false, 503, true, good)] = [1; 2; 3; 4; 5]%nat /\
  c08_held_bad ex_env true (bs "x<y") [(false, 503, false, bs "<b>x&lt;y</b>"); (false, 503, false, good)] = [1%nat] /\
  (* empty message: the default text of the built-in page *)
  c08_held_bad ex_env false [] [(false, 503, false, bs "<h1>Service unavailable</h1><p>try later</p><hr>")] = [].
Proof. vm_compute. repeat split. Qed.

Print Assumptions c08_held_request_answered_503.
Print Assumptions c08_held_request_not_forwarded.
Print Assumptions c08_held_monitor_of_trace_answer.
Print Assumptions c08_held_monitor_rejects_other_answers.
Print Assumptions c08_held_bad_nil_iff.
Print Assumptions c08_held_bad_indices.
Print Assumptions c08_held_req_ok_iff.
Print Assumptions c08_held_req_ok_not_forwarded.
Print Assumptions c08_held_req_ok_503_body.
