(** C01probe — "a deploy forwards traffic to new targets only after every one of them has
    answered a health probe successfully": the result that decides about a target comes
    from a probe sent to THAT target's own address.

    props/C01.v is about the results the proxy applies (KProbeApply) and what follows
    from them; neither the acceptor model/M5lb.v nor the monitor corr/C01corr.c01_ok
    looks at where the probe went.  The harness's scripted health-check responder
    records every probe it receives with the host it was addressed to
    ([KProbeSent host ok]); [KTargetName t host] gives the host of target [t].  The
    observable rule (corr/C01probe.v, Part 1), at every point of the trace and for
    every host name [n]:

      count_applied n pre     <=  count_sent n pre       results for targets named n  vs  probes received at n
      count_applied_ok n pre  <=  count_sent_ok n pre    the same, successful ones only

    with [name_of pre t] the name carried by the first [KTargetName t _] of [pre].
    The monitor [c01_probe_backed_ok] (corr/C01probe.v, Part 2) keeps five small tables;
    here: it decides exactly that rule, on EVERY trace (no acceptor involved). *)
From KP Require Import model.Base model.Trace corr.C01probe proofs.C01probeLink.
From KP Require Import corr.C01corr proofs.M5cmdTraces.
Local Open Scope nat_scope.

(** (1) Soundness: on a trace the monitor accepts, after every prefix and for every host
    name, the results applied to targets of that name are covered by the probes that host
    received — in number, and in number of successes. *)
Theorem c01_probe_backed_sound : forall tr, c01_probe_backed_ok tr = true ->
  forall pre post, tr = pre ++ post ->
  forall n, count_applied n pre <= count_sent n pre /\ count_applied_ok n pre <= count_sent_ok n pre.
Proof. exact probe_backed_sound. Qed.
Print Assumptions c01_probe_backed_sound.

(** ... and every result is for a target whose name was known before it (so the names
    used by [count_applied] are those the monitor compared with). *)
Theorem c01_probe_backed_named : forall tr, c01_probe_backed_ok tr = true ->
  forall pre e post t ok p q, tr = pre ++ e :: post -> e_k e = KProbeApply t ok p q ->
  name_of pre t <> None.
Proof. exact probe_backed_named. Qed.
Print Assumptions c01_probe_backed_named.

(** (2) Completeness: the monitor refuses nothing else. *)
Theorem c01_probe_backed_complete : forall tr,
  (forall pre post, tr = pre ++ post ->
     forall n, count_applied n pre <= count_sent n pre /\ count_applied_ok n pre <= count_sent_ok n pre) ->
  (forall pre e post t ok p q, tr = pre ++ e :: post -> e_k e = KProbeApply t ok p q -> name_of pre t <> None) ->
  c01_probe_backed_ok tr = true.
Proof. exact probe_backed_complete. Qed.
Print Assumptions c01_probe_backed_complete.

(** (3) The diagnostic index: none iff accepted; otherwise it points at a probe result,
    everything before it is accepted, and that result is for a target without a name or
    is the one that exceeds the probes its host has received (in number, or — for a
    successful result — in number of successes). *)
Theorem c01_probe_backed_fail_at_none : forall tr,
  c01_probe_backed_fail_at tr = None <-> c01_probe_backed_ok tr = true.
Proof. exact probe_backed_fail_at_none. Qed.
Print Assumptions c01_probe_backed_fail_at_none.

Theorem c01_probe_backed_fail_at_some : forall tr i, c01_probe_backed_fail_at tr = Some i ->
  exists pre e post t ok p q,
    tr = pre ++ e :: post /\ i = length pre /\ e_k e = KProbeApply t ok p q /\
    c01_probe_backed_ok pre = true /\
    (name_of pre t = None \/
     exists n, name_of pre t = Some n /\
       (count_sent n pre <= count_applied n pre \/ (ok = true /\ count_sent_ok n pre <= count_applied_ok n pre))).
Proof. exact probe_backed_fail_at_some. Qed.
Print Assumptions c01_probe_backed_fail_at_some.

(** ** Recorded traces (real code, proofs/M5cmdTraces.v: every KProbeApply there is preceded
    by the KProbeSent of its own host) *)

Example recorded_accepted :
  c01_probe_backed_ok rec_deploy = true /\ c01_probe_backed_ok rec_pause = true /\
  c01_probe_backed_ok rec_rollout_pause = true.
Proof. vm_compute. repeat split. Qed.

(** not vacuous: (probes received, successful, results applied, successful) *)
Example recorded_counts :
  c01_probe_counts rec_deploy = (11, 11, 11, 11) /\ c01_probe_counts rec_pause = (16, 9, 16, 9) /\
  c01_probe_counts rec_rollout_pause = (14, 14, 14, 14).
Proof. vm_compute. repeat split. Qed.

(** the health-check URL resolved against the wrong host: every probe meant for [to_] arrives at [from] *)
Definition misdirect (to_ from : str) (tr : trace) : trace :=
  map (fun e => match e_k e with
                | KProbeSent n ok => if str_eqb n to_ then mkEv (e_t e) (e_by e) (KProbeSent from ok) else e
                | _ => e
                end) tr.

Definition h_ta : str := [x74;x61;x3a;x38;x30].   (* ta:80 *)
Definition h_tb : str := [x74;x62;x3a;x38;x30].   (* tb:80 *)
Definition h_tz : str := [x74;x7a;x3a;x38;x30].   (* tz:80 *)

(** rec_pause (targets 0 = ta:80, 1 = tz:80) with tz's probes arriving at ta: the first
    result applied to target 1 (event 11) is refused — while the monitor of corr/C01corr.v,
    which does not look at KProbeSent, still accepts the trace. *)
Example recorded_misdirected :
  c01_probe_backed_fail_at (misdirect h_tz h_ta rec_pause) = Some 11 /\
  option_map e_k (nth_error rec_pause 11) = Some (KProbeApply 1 true TAdding THealthy) /\
  c01_ok (misdirect h_tz h_ta rec_pause) = true.
Proof. vm_compute. repeat split. Qed.

(** ** Hand-written traces *)

Definition ev (k : kind) : event := mkEv 0 AEnv k.

(** three targets, two host names (target 2 is ta:80 deployed again), four results:
    each preceded by a probe at its own host with the same outcome *)
Definition backed : trace :=
  [ev (KTargetName 0 h_ta); ev (KTargetName 1 h_tb); ev (KLbNew 0 [0; 1]);
   ev (KProbeSent h_ta true);  ev (KProbeApply 0 true TAdding THealthy);
   ev (KProbeSent h_tb false); ev (KProbeApply 1 false TAdding TAdding);
   ev (KProbeSent h_tb true);  ev (KProbeApply 1 true TAdding THealthy);
   ev (KDeployWaited 0 true);
   ev (KTargetName 2 h_ta); ev (KLbNew 1 [2]);
   ev (KProbeSent h_ta true);  ev (KProbeApply 2 true TAdding THealthy)].

Example backed_accepted :
  c01_probe_backed_ok backed = true /\ c01_probe_backed_fail_at backed = None /\
  c01_probe_counts backed = (4, 3, 4, 3) /\
  count_applied h_ta backed = 2 /\ count_sent h_ta backed = 2 /\
  count_applied_ok h_tb backed = 1 /\ count_sent_ok h_tb backed = 1.
Proof. vm_compute. repeat split. Qed.

(** target B's results come from probes that all went to target A's address: A answers,
    B is declared healthy.  Refused at the first result applied to B (event 6). *)
Definition wrong_host : trace :=
  [ev (KTargetName 0 h_ta); ev (KTargetName 1 h_tb); ev (KLbNew 0 [0; 1]);
   ev (KProbeSent h_ta true);  ev (KProbeApply 0 true TAdding THealthy);
   ev (KProbeSent h_ta true);  ev (KProbeApply 1 true TAdding THealthy);
   ev (KDeployWaited 0 true)].

Example wrong_host_rejected :
  c01_probe_backed_ok wrong_host = false /\ c01_probe_backed_fail_at wrong_host = Some 6 /\
  count_applied h_tb (firstn 7 wrong_host) = 1 /\ count_sent h_tb (firstn 7 wrong_host) = 0 /\
  c01_ok wrong_host = true.
Proof. vm_compute. repeat split. Qed.

(** the stronger clause: B's host answered, but with a failure — a SUCCESSFUL result for B is not backed *)
Definition wrong_outcome : trace :=
  [ev (KTargetName 0 h_ta); ev (KTargetName 1 h_tb); ev (KLbNew 0 [0; 1]);
   ev (KProbeSent h_ta true);  ev (KProbeApply 0 true TAdding THealthy);
   ev (KProbeSent h_tb false); ev (KProbeApply 1 true TAdding THealthy)].

Example wrong_outcome_rejected :
  c01_probe_backed_fail_at wrong_outcome = Some 6 /\
  count_applied h_tb wrong_outcome <= count_sent h_tb wrong_outcome /\
  count_applied_ok h_tb wrong_outcome = 1 /\ count_sent_ok h_tb wrong_outcome = 0.
Proof. vm_compute. repeat split; lia. Qed.

(** a result for a target that has no name yet is refused; a second result on one probe is refused *)
Example unnamed_rejected :
  c01_probe_backed_fail_at [ev (KProbeSent h_ta true); ev (KProbeApply 0 true TAdding THealthy)] = Some 1.
Proof. vm_compute. reflexivity. Qed.

Example one_probe_two_results_rejected :
  c01_probe_backed_fail_at
    [ev (KTargetName 0 h_ta); ev (KProbeSent h_ta true);
     ev (KProbeApply 0 true TAdding THealthy); ev (KProbeApply 0 true THealthy THealthy)] = Some 3.
Proof. vm_compute. reflexivity. Qed.
