(** C17.v — placeholder while the proofs are being written. *)
From KP Require Import model.Base model.Trace model.M5time.
