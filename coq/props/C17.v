(** C17 — Commands return within their timeouts and leave no probes behind.

    All theorems are about EVERY trace accepted by the timing view
    model/M5time.v ([run step init tr = Some _]): any number of targets,
    requests and commands, any three timeouts.  The view's rules are checked
    against the real code by tools/c17.py (every recorded trace must be accepted).

    Idealisation, explicit in the statements: the time bounds are stated for the
    part of a trace in which no goroutine has been parked at a harness yield
    ([no_parks prefix = true]; KParked/KReleased are artefacts of the harness and
    parked time is not the proxy's).  "CPU time is zero" is not an extra
    hypothesis: it is a rule of the acceptor (an own step of a command carries
    the timestamp of the latest event of its chain; a Drain call begins at the
    time of the last own step of its command), true of every real trace on the
    virtual clock. *)
From Coq Require Import ZifyN ZifyNat ZifyBool.
From KP Require Import model.Base model.Trace model.M5time.
From KP Require Import proofs.M5timeFacts proofs.M5timeFacts2 proofs.M5timeFacts3 proofs.M5timeFacts4
                       proofs.M5timeFacts5 proofs.M5timeFacts6 proofs.M5timeFacts7 proofs.M5timeFacts8 proofs.M5timeFacts9.
Local Open Scope N_scope.

(** [tr = pre ++ eI :: eP :: mid ++ eR :: post]: the command [c] is issued by
    [eI] with the durations of [eP], and returns with [eR]. *)

Theorem c17_deploy_bound :
  forall pre eI eP mid eR post c k name dt drt fa r s,
    run step init (pre ++ eI :: eP :: mid ++ eR :: post) = Some s ->
    e_k eI = KIssue c k name -> e_k eP = KParams c dt drt fa -> e_k eR = KReturn c r ->
    no_parks (pre ++ eI :: eP :: mid) = true ->
    is_deploy k = true ->
    e_t eR <= e_t eI + dt + drt.
Proof. exact deploy_bound_trace. Qed.
Print Assumptions c17_deploy_bound.

Theorem c17_pause_stop_bound :
  forall pre eI eP mid eR post c k name dt drt fa r s,
    run step init (pre ++ eI :: eP :: mid ++ eR :: post) = Some s ->
    e_k eI = KIssue c k name -> e_k eP = KParams c dt drt fa -> e_k eR = KReturn c r ->
    no_parks (pre ++ eI :: eP :: mid) = true ->
    is_pause_stop k = true ->
    e_t eR <= e_t eI + drt.
Proof. exact pause_stop_bound_trace. Qed.
Print Assumptions c17_pause_stop_bound.

(** resume, remove, rollout set, rollout stop *)
Theorem c17_nonblocking :
  forall pre eI eP mid eR post c k name dt drt fa r s,
    run step init (pre ++ eI :: eP :: mid ++ eR :: post) = Some s ->
    e_k eI = KIssue c k name -> e_k eP = KParams c dt drt fa -> e_k eR = KReturn c r ->
    no_parks (pre ++ eI :: eP :: mid) = true ->
    is_deploy k = false -> is_pause_stop k = false ->
    e_t eR = e_t eI.
Proof. exact nonblocking_trace. Qed.
Print Assumptions c17_nonblocking.

(** ** Promptness: a command returns as soon as its condition is met.
    The return of [c] happens at the very time of an EARLIER event of its chain
    ([chain_ev c]): a step of [c] itself, the event of a waiter of its balancer
    (signalled healthy, or timed out), or the end ([KStateSet]) of a Drain call —
    never later.  So a deploy whose targets are all signalled at h and that
    drains nothing returns at h, not at the deadline (Example
    [ex_prompt_healthy] below); one that drains returns when the last Drain
    call ends, and [c17_prompt_drain] / [c17_drain_deadline_exact] say when that
    is: when the last request of the snapshot ends (or is cancelled by another
    Drain call), at once if there is none, and otherwise exactly at
    mark + drain_timeout. *)
Theorem c17_prompt :
  forall pre eR post s c r,
    run step init (pre ++ eR :: post) = Some s -> e_k eR = KReturn c r -> no_parks pre = true ->
    exists e', In e' pre /\ e_t e' = e_t eR /\ chain_ev c e'.
Proof. exact prompt_trace. Qed.
Print Assumptions c17_prompt.

Theorem c17_prompt_drain :
  forall pre eC post s t,
    run step init (pre ++ eC :: post) = Some s -> e_k eC = KDrainCancelRest t -> no_parks pre = true ->
    exists e', In e' pre /\ e_t e' = e_t eC /\ drain_ev (goid (e_by eC)) t e'.
Proof. exact prompt_drain_trace. Qed.
Print Assumptions c17_prompt_drain.

Theorem c17_drain_deadline_exact :
  forall pre eD post s t,
    run step init (pre ++ eD :: post) = Some s -> e_k eD = KDrainDeadline t -> no_parks pre = true ->
    exists e0 o timeout, In e0 pre /\ goid (e_by e0) = goid (e_by eD) /\ e_k e0 = KDrainBegin t o timeout /\
                         e_t eD = e_t e0 + timeout.
Proof. exact deadline_exact_trace. Qed.
Print Assumptions c17_drain_deadline_exact.

(** ** No probes left behind.  [quiet_ts s ts]: no target of [ts] has a live
    probe loop in state [s]; [s4] is the state after ANY accepted continuation
    [post] of the trace, so the loops are stopped for ever. *)

(** A failed deploy (unhealthy, host conflict — D4 repaired; with an invalid
    target name no balancer is created at all): [eN] is the creation of its
    balancer with the targets [ts]. *)
Theorem c17_no_probes_after_failed_deploy :
  forall pre eN mid eR post s4 c lb ts code,
    run step init (pre ++ eN :: mid ++ eR :: post) = Some s4 ->
    e_by eN = ACmd c -> e_k eN = KLbNew lb ts -> e_k eR = KReturn c (CRErr code) ->
    quiet_ts s4 ts.
Proof. exact no_probes_failed_deploy. Qed.
Print Assumptions c17_no_probes_after_failed_deploy.

(** A successful redeploy: [eS] is its slot update, replacing balancer [old]. *)
Theorem c17_no_probes_after_redeploy :
  forall pre eS mid eR post s4 c svc ro lb old,
    run step init (pre ++ eS :: mid ++ eR :: post) = Some s4 ->
    e_by eS = ACmd c -> e_k eS = KSlot svc ro lb (Some old) -> e_k eR = KReturn c CROk ->
    exists s2, run step init (pre ++ eS :: mid) = Some s2 /\ quiet_ts s4 (lb_targets s2 old).
Proof. exact no_probes_redeploy. Qed.
Print Assumptions c17_no_probes_after_redeploy.

(** A remove: from its KRemoved step on (which precedes its return), for the
    active and rollout balancers of the removed service object. *)
Theorem c17_no_probes_after_remove :
  forall pre eX post s4 c svc,
    run step init (pre ++ eX :: post) = Some s4 ->
    e_by eX = ACmd c -> e_k eX = KRemoved svc ->
    exists s0, run step init pre = Some s0 /\
               forall lb, In lb (svc_lbs s0 svc) -> quiet_ts s4 (lb_targets s0 lb).
Proof. exact no_probes_remove. Qed.
Print Assumptions c17_no_probes_after_remove.

(** Hence a probe accepted in a state where [ts] is quiet is owed to the live
    loop of ANOTHER target of that name (a later deploy reusing the name). *)
Theorem c17_no_probes_after :
  forall pre e s ts n ok s',
    run step init pre = Some s -> quiet_ts s ts -> step s e = Some s' -> e_k e = KProbeSent n ok ->
    exists t n', ~ In t ts /\ tgt_probing s t = true /\ nget (tnames s) t = Some n' /\ str_eqb n n' = true.
Proof. exact later_probe_elsewhere. Qed.
Print Assumptions c17_no_probes_after.

(** The pinned code (before fix 3d904ad) violates it: the rule variant
    [step_pinned] accepts a probe to the target of a deploy that has returned
    "host in use"; the repaired rules reject that trace. *)
Theorem c17_refuted_pinned_D4 :
  run step_pinned init d4_trace <> None /\ run step init d4_trace = None /\
  (exists s, run step_pinned init (firstn 11 d4_trace) = Some s /\ tgt_probing s 0 = true /\
             nth_error d4_trace 10 = Some (mkEv 0 (ACmd 1) (KReturn 1 (CRErr 3))) /\
             nth_error d4_trace 3 = Some (mkEv 0 (ACmd 1) (KLbNew 0 [0%nat])) /\
             nth_error d4_trace 11 = Some (mkEv 1000 AEnv (KProbeSent d4_name true))).
Proof. exact d4_refuted. Qed.
Print Assumptions c17_refuted_pinned_D4.

(** ** Non-vacuity: real traces (recorded from /repo by harness/sim_test.go,
    projected onto the kinds the view reads; times in ns).
    [ex_redeploy]: deploy web [ta]; a request that hangs; redeploy web [tb]
    (deploy_timeout 2 s, drain_timeout 1 s; tb healthy at the second probe, 1 s);
    the drain of ta runs into its deadline at 2 s; remove web at 3 s.
    [ex_failed]: deploy api [tc] that never answers (deploy_timeout 1 s) fails at
    1 s; deploy web [td]; deploy zz on the same host fails with a host conflict. *)
Local Close Scope N_scope.
Definition ra_0 : str := [x77;x65;x62].
Definition ra_1 : str := [x74;x61;x3a;x38;x30].
Definition ra_2 : str := [x74;x62;x3a;x38;x30].
Definition ex_redeploy : trace := [mkEv 0 (ACmd 1) (KIssue 1 CkDeploy ra_0);
 mkEv 0 (ACmd 1) (KParams 1 2000000000 1000000000 0);
 mkEv 0 AEnv (KTargetName 0 ra_1);
 mkEv 0 (ACmd 1) (KLbNew 0 [0]);
 mkEv 0 AEnv (KSvcName 0 ra_0);
 mkEv 0 (ACmd 1) (KDeployLb 0 false 0);
 mkEv 0 AEnv (KProbeSent ra_1 true);
 mkEv 0 (AGo 10) (KWaiter 0 true);
 mkEv 0 (ACmd 1) (KDeployWaited 0 true);
 mkEv 0 (ACmd 1) (KSlot 0 false 0 None);
 mkEv 0 (ACmd 1) (KInstall 0 true);
 mkEv 0 (ACmd 1) (KSnapCollect [0]);
 mkEv 0 (ACmd 1) (KSnapCreate);
 mkEv 0 (ACmd 1) (KSnapWrite);
 mkEv 0 (ACmd 1) (KSnapRename);
 mkEv 0 (ACmd 1) (KReturn 1 CROk);
 mkEv 0 (AReq 1) (KClaim 0 1);
 mkEv 0 (ACmd 2) (KIssue 2 CkDeploy ra_0);
 mkEv 0 (ACmd 2) (KParams 2 2000000000 1000000000 0);
 mkEv 0 AEnv (KSvcName 1 ra_0);
 mkEv 0 (ACmd 2) (KSvcCopy 0 1);
 mkEv 0 AEnv (KTargetName 1 ra_2);
 mkEv 0 (ACmd 2) (KLbNew 1 [1]);
 mkEv 0 (ACmd 2) (KDeployLb 1 false 1);
 mkEv 0 AEnv (KProbeSent ra_2 false);
 mkEv 1000000000 AEnv (KProbeSent ra_2 true);
 mkEv 1000000000 (AGo 14) (KWaiter 1 true);
 mkEv 1000000000 (ACmd 2) (KDeployWaited 1 true);
 mkEv 1000000000 (ACmd 2) (KSlot 1 false 1 (Some 0));
 mkEv 1000000000 (ACmd 2) (KInstall 1 true);
 mkEv 1000000000 (ACmd 2) (KSnapCollect [1]);
 mkEv 1000000000 (ACmd 2) (KSnapCreate);
 mkEv 1000000000 (ACmd 2) (KSnapWrite);
 mkEv 1000000000 (ACmd 2) (KSnapRename);
 mkEv 1000000000 (AGo 15) (KStateSet 0 THealthy TDraining);
 mkEv 1000000000 (AGo 15) (KDrainBegin 0 THealthy 1000000000);
 mkEv 1000000000 (AGo 15) (KDrainSnapshot 0 [(1, false)]);
 mkEv 1000000000 AEnv (KProbeSent ra_1 true);
 mkEv 2000000000 AEnv (KProbeSent ra_1 true);
 mkEv 2000000000 AEnv (KProbeSent ra_2 true);
 mkEv 2000000000 (AGo 15) (KDrainDeadline 0);
 mkEv 2000000000 (AGo 15) (KDrainCancelRest 0);
 mkEv 2000000000 (AGo 15) (KStateSet 0 THealthy THealthy);
 mkEv 2000000000 (ACmd 2) (KLbDispose 0);
 mkEv 2000000000 (ACmd 2) (KProbeStop 0);
 mkEv 2000000000 (ACmd 2) (KReturn 2 CROk);
 mkEv 2000000000 (AReq 1) (KEnd 0 1);
 mkEv 3000000000 AEnv (KProbeSent ra_2 true);
 mkEv 3000000000 (ACmd 3) (KIssue 3 CkRemove ra_0);
 mkEv 3000000000 (ACmd 3) (KParams 3 0 0 0);
 mkEv 3000000000 (ACmd 3) (KLbDispose 1);
 mkEv 3000000000 (ACmd 3) (KProbeStop 1);
 mkEv 3000000000 (ACmd 3) (KRemoved 1);
 mkEv 3000000000 (ACmd 3) (KSnapCollect []);
 mkEv 3000000000 (ACmd 3) (KSnapCreate);
 mkEv 3000000000 (ACmd 3) (KSnapWrite);
 mkEv 3000000000 (ACmd 3) (KSnapRename);
 mkEv 3000000000 (ACmd 3) (KReturn 3 CROk)].

Definition fa_0 : str := [x61;x70;x69].
Definition fa_1 : str := [x74;x63;x3a;x38;x30].
Definition fa_2 : str := [x77;x65;x62].
Definition fa_3 : str := [x74;x64;x3a;x38;x30].
Definition fa_4 : str := [x7a;x7a].
Definition fa_5 : str := [x74;x65;x3a;x38;x30].
Definition ex_failed : trace := [mkEv 0 (ACmd 1) (KIssue 1 CkDeploy fa_0);
 mkEv 0 (ACmd 1) (KParams 1 1000000000 0 0);
 mkEv 0 AEnv (KTargetName 0 fa_1);
 mkEv 0 (ACmd 1) (KLbNew 0 [0]);
 mkEv 0 AEnv (KSvcName 0 fa_0);
 mkEv 0 (ACmd 1) (KDeployLb 0 false 0);
 mkEv 0 AEnv (KProbeSent fa_1 false);
 mkEv 1000000000 AEnv (KProbeSent fa_1 false);
 mkEv 1000000000 (AGo 21) (KWaiter 0 false);
 mkEv 1000000000 (AGo 21) (KProbeStop 0);
 mkEv 1000000000 (ACmd 1) (KDeployWaited 0 false);
 mkEv 1000000000 (ACmd 1) (KLbDispose 0);
 mkEv 1000000000 (ACmd 1) (KReturn 1 (CRErr 2));
 mkEv 2000000000 (ACmd 2) (KIssue 2 CkDeploy fa_2);
 mkEv 2000000000 (ACmd 2) (KParams 2 1000000000 0 0);
 mkEv 2000000000 AEnv (KTargetName 1 fa_3);
 mkEv 2000000000 (ACmd 2) (KLbNew 1 [1]);
 mkEv 2000000000 AEnv (KSvcName 1 fa_2);
 mkEv 2000000000 (ACmd 2) (KDeployLb 1 false 1);
 mkEv 2000000000 AEnv (KProbeSent fa_3 true);
 mkEv 2000000000 (AGo 23) (KWaiter 1 true);
 mkEv 2000000000 (ACmd 2) (KDeployWaited 1 true);
 mkEv 2000000000 (ACmd 2) (KSlot 1 false 1 None);
 mkEv 2000000000 (ACmd 2) (KInstall 1 true);
 mkEv 2000000000 (ACmd 2) (KSnapCollect [1]);
 mkEv 2000000000 (ACmd 2) (KSnapCreate);
 mkEv 2000000000 (ACmd 2) (KSnapWrite);
 mkEv 2000000000 (ACmd 2) (KSnapRename);
 mkEv 2000000000 (ACmd 2) (KReturn 2 CROk);
 mkEv 2000000000 (ACmd 3) (KIssue 3 CkDeploy fa_4);
 mkEv 2000000000 (ACmd 3) (KParams 3 1000000000 0 0);
 mkEv 2000000000 AEnv (KTargetName 2 fa_5);
 mkEv 2000000000 (ACmd 3) (KLbNew 2 [2]);
 mkEv 2000000000 AEnv (KSvcName 2 fa_4);
 mkEv 2000000000 (ACmd 3) (KDeployLb 2 false 2);
 mkEv 2000000000 AEnv (KProbeSent fa_5 true);
 mkEv 2000000000 (AGo 26) (KWaiter 2 true);
 mkEv 2000000000 (ACmd 3) (KDeployWaited 2 true);
 mkEv 2000000000 (ACmd 3) (KSlot 2 false 2 None);
 mkEv 2000000000 (ACmd 3) (KInstall 2 false);
 mkEv 2000000000 (ACmd 3) (KSnapCollect [1]);
 mkEv 2000000000 (ACmd 3) (KSnapCreate);
 mkEv 2000000000 (ACmd 3) (KSnapWrite);
 mkEv 2000000000 (ACmd 3) (KSnapRename);
 mkEv 2000000000 (ACmd 3) (KLbDispose 2);
 mkEv 2000000000 (ACmd 3) (KProbeStop 2);
 mkEv 2000000000 (ACmd 3) (KReturn 3 (CRErr 3));
 mkEv 3000000000 AEnv (KProbeSent fa_3 true);
 mkEv 4000000000 AEnv (KProbeSent fa_3 true);
 mkEv 4000000000 (AGo 18) (KProbeStop 1)].
Local Open Scope N_scope.

Example ex_redeploy_accepted : accepted ex_redeploy = true.
Proof. vm_compute. reflexivity. Qed.

(** the redeploy returns at mark + drain_timeout = 2 s (its bound is 3 s): *)
Example ex_redeploy_return : In (mkEv 2000000000 (ACmd 2) (KReturn 2 CROk)) ex_redeploy.
Proof. vm_compute. tauto. Qed.

(** [tb] answers its second probe at 1 s (deploy deadline 2 s): the deploy goes on at 1 s *)
Example ex_prompt_healthy :
  In (mkEv 1000000000 (AGo 14) (KWaiter 1 true)) ex_redeploy /\
  In (mkEv 1000000000 (ACmd 2) (KDeployWaited 1 true)) ex_redeploy.
Proof. vm_compute. tauto. Qed.

Example ex_failed_accepted : accepted ex_failed = true.
Proof. vm_compute. reflexivity. Qed.

Example ex_failed_returns :
  In (mkEv 1000000000 (ACmd 1) (KReturn 1 (CRErr 2))) ex_failed /\
  In (mkEv 2000000000 (ACmd 3) (KReturn 3 (CRErr 3))) ex_failed.
Proof. vm_compute. tauto. Qed.

(** the rules bite: the same traces with one return a second late, or with a
    probe to the removed / failed target appended, are rejected *)
Definition late (c : nat) (d : N) (tr : trace) : trace :=
  map (fun e => match e_k e with
                | KReturn c' _ => if Nat.eqb c c' then mkEv (e_t e + d) (e_by e) (e_k e) else e
                | _ => e end) tr.
Definition upto_return (c : nat) (tr : trace) : trace :=
  (fix go (l : trace) : trace :=
     match l with
     | [] => []
     | e :: r => match e_k e with
                 | KReturn c' _ => if Nat.eqb c c' then [e] else e :: go r
                 | _ => e :: go r end
     end) tr.

Example ex_late_return_rejected : accepted (late 2 1000000000 (upto_return 2 ex_redeploy)) = false.
Proof. vm_compute. reflexivity. Qed.
Example ex_upto_return_accepted : accepted (upto_return 2 ex_redeploy) = true.
Proof. vm_compute. reflexivity. Qed.

Example ex_probe_after_remove_rejected :
  accepted (upto_return 3 ex_redeploy ++ [mkEv 4000000000 AEnv (KProbeSent ra_1 true)]) = false /\
  accepted (upto_return 3 ex_redeploy) = true.
Proof. vm_compute. split; reflexivity. Qed.

Example ex_probe_after_failed_rejected :
  accepted (upto_return 1 ex_failed ++ [mkEv 1500000000 AEnv (KProbeSent fa_1 true)]) = false /\
  accepted (upto_return 1 ex_failed) = true.
Proof. vm_compute. split; reflexivity. Qed.
