(** C08 — A stopped service answers 503 with the operator's message until resumed.
    Only statements, each closed by [exact]; proofs are in proofs/HtmlFacts.v
    and proofs/PauseFacts.v.

    Model: model/Html.v ([html_escape_go] = the rune loop of html/template's
    text escaper, [html_escape] = the same byte by byte, [html_unescape],
    [render503]) and model/Seq.v (the sequential machine: [exec], [serve];
    a service's pause controller is [s_pause], shared by every redeployed copy).

    Residue (not modelled, kept out of the correspondence inputs): requests
    under /.well-known/acme-challenge/ to a root-path service with automatic
    TLS are answered by autocert's HTTP-01 handler before any policy and
    before the stopped gate; custom error page directories without a 503.html
    (the built-in page is used then). *)
From KP Require Import model.Base model.ServiceMap model.Seq model.Html.
From KP Require Import proofs.ServiceMapFacts proofs.HtmlFacts proofs.PauseFacts.

(** * The message is inert text *)

(** html/template's escaper, as written in Go (decode a rune, look it up in the
    replacement table, copy it otherwise; undecodable bytes read as U+FFFD of
    width 1 and are copied), computes the byte-wise map [html_escape] on EVERY
    byte string. *)
Theorem c08_escape_is_bytewise : forall m, html_escape_go m = html_escape m.
Proof. exact html_escape_go_bytewise. Qed.

(** For every message [m]: the escaped text contains none of the bytes
    less-than, greater-than, double quote, single quote, NUL,
    and every '&' in it starts one of the six entities the escaper emits
    (&#34; &amp; &#39; &#43; &lt; &gt;) — so no part of the message can become markup.
    Unescaping gives the message back with each NUL replaced by U+FFFD; all
    other bytes, valid UTF-8 or not, are unchanged. *)
Theorem c08_escape_inert : forall m,
  (forall c, In c (html_escape m) ->
     c <> x3c /\ c <> x3e /\ c <> x22 /\ c <> x27 /\ c <> x00) /\
  (forall pre post, html_escape m = pre ++ amp :: post ->
     exists t c, In (t, c) entity_tails /\ has_prefix post t = true) /\
  html_unescape (html_escape m) = nul_replaced m /\
  (~ In x00 m -> html_unescape (html_escape m) = m).
Proof.
  intros m. split; [|split; [|split]].
  - intros c Hc. apply escape_no_markup in Hc. unfold markup_byte in Hc.
    repeat (apply orb_false_iff in Hc as [Hc ?]).
    repeat split; intros ->; discriminate.
  - exact (amps_ok_spec _ (escape_amps_ok m)).
  - exact (unescape_escape m).
  - intros H. rewrite unescape_escape. now apply nul_replaced_id.
Qed.

(** Template syntax in the message is data: the body is assembled from the
    fixed page texts and the escaped message; it is a function of
    [html_escape m] alone, and the message is escaped as a whole
    ([html_escape] distributes over concatenation: no context is carried). *)
Theorem c08_body_from_escaped : forall pg custom m,
  render503 pg custom m = render503_escaped pg custom (html_escape m).
Proof. exact render503_of_escaped. Qed.

Theorem c08_template_inert : forall pg custom m1 m2,
  html_escape m1 = html_escape m2 -> render503 pg custom m1 = render503 pg custom m2.
Proof. intros pg custom m1 m2 H. now rewrite !render503_of_escaped, H. Qed.

Theorem c08_escape_app : forall a b, html_escape (a ++ b) = html_escape a ++ html_escape b.
Proof. exact html_escape_app. Qed.

(** * Stopped: 503 with the message, nothing forwarded *)

(** In EVERY state (in particular every reachable one, next theorem): a request
    routed to a service that is stopped with message [p_msg] is answered
    [R503_stopped p_msg] — except that the TLS policy answers first (301 for a
    plain request to a TLS+redirect service, 503 for a TLS request to a
    non-TLS service), and that GET on exactly the health-check path gets 200. *)
Theorem c08_stopped_503 : forall ig st q n prefix s,
  route (table_of (st_services st)) (q_host q) (q_path q) = Some (n, prefix) ->
  svc_get (st_services st) n = Some s ->
  p_state (s_pause s) = Stopped ->
  serve ig st q =
    if o_tls (s_opts s) && o_tls_redirect (s_opts s) && negb (q_tls q)
    then R301 (https_prefix ++ redirect_host (q_host q) ++ q_uri q)
    else if negb (o_tls (s_opts s)) && q_tls q then R503_tls
    else if q_get q && str_eqb (q_path q) (t_health_path (s_topts s)) then R200_health
    else R503_stopped (p_msg (s_pause s)).
Proof. exact serve_stopped. Qed.

Theorem c08_stopped_503_reachable : forall ig cs q n prefix s,
  let st := exec_all fixed init_state cs in
  route (table_of (st_services st)) (q_host q) (q_path q) = Some (n, prefix) ->
  svc_get (st_services st) n = Some s ->
  p_state (s_pause s) = Stopped ->
  (forall svc ts strip, serve ig st q <> RForward svc ts strip) /\
  (o_tls (s_opts s) = q_tls q ->
   (q_get q && str_eqb (q_path q) (t_health_path (s_topts s)) = false ->
      serve ig st q = R503_stopped (p_msg (s_pause s))) /\
   (q_get q && str_eqb (q_path q) (t_health_path (s_topts s)) = true ->
      serve ig st q = R200_health)).
Proof.
  intros ig cs q n prefix s st Hr Hg Hp. split.
  - exact (serve_stopped_not_forwarded ig st q n prefix s Hr Hg Hp).
  - intros Ht. rewrite (serve_stopped ig st q n prefix s Hr Hg Hp), Ht.
    destruct (q_tls q); cbn [negb andb]; rewrite ?andb_false_r; cbn [negb andb];
      split; intros ->; reflexivity.
Qed.

(** * Redeploys do not touch the pause state *)

(** Deploy / rollout deploy / rollout set / rollout stop — of this service or
    of any other, succeeding or failing, on either variant, in any state —
    leave every existing service's pause controller (state, message,
    fail-after) as it was. *)
Theorem c08_state_survives_redeploy : forall v st c n s,
  is_redeploy c = true ->
  svc_get (st_services st) n = Some s ->
  exists s', svc_get (st_services (snd (exec v st c))) n = Some s' /\
             p_state (s_pause s') = p_state (s_pause s) /\
             p_msg (s_pause s') = p_msg (s_pause s) /\
             p_fail_after (s_pause s') = p_fail_after (s_pause s).
Proof.
  intros v st c n s Hc Hg. destruct (redeploy_keeps_pause v st c n s Hc Hg) as (s' & H1 & H2).
  exists s'. rewrite H2. auto.
Qed.

(** * Stop and resume *)

Theorem c08_stop_sets : forall v st n m st',
  exec v st (Stop n m) = (Ok, st') ->
  exists s', svc_get (st_services st') n = Some s' /\
             p_state (s_pause s') = Stopped /\ p_msg (s_pause s') = m.
Proof. exact stop_sets. Qed.

(** After a successful resume the service is running; a request routed to it
    is answered by the running branch of [serve] (TLS policy, then the target
    choice); with the TLS policy satisfied, no rollout cookie and a non-empty
    target list it is forwarded to the active targets. *)
Theorem c08_resume : forall v ig st n st',
  exec v st (Resume n) = (Ok, st') ->
  exists s', svc_get (st_services st') n = Some s' /\
    p_state (s_pause s') = Running /\ p_msg (s_pause s') = [] /\
    forall q prefix,
      route (table_of (st_services st')) (q_host q) (q_path q) = Some (n, prefix) ->
      (forall m, serve ig st' q <> R503_stopped m) /\
      serve ig st' q <> R200_health /\
      (q_cookie q = None -> s_active s' <> [] -> q_tls q = o_tls (s_opts s') ->
       serve ig st' q = RForward n (s_active s')
           (if o_strip (s_opts s') && negb (str_eqb prefix root_path) then Some prefix else None)).
Proof.
  intros v ig st n st' H. destruct (resume_sets v st n st' H) as (s & s' & _ & Hg & Hp & Hm & _).
  exists s'. repeat split; auto.
  - intros m. rewrite (serve_running ig st' q n prefix s' H0 Hg Hp). cbv zeta.
    repeat match goal with |- context[if ?c then _ else _] => destruct c end;
      try discriminate; destruct (s_active s'); try discriminate;
      destruct (s_rollout s') as [[|]|]; discriminate.
  - rewrite (serve_running ig st' q n prefix s' H0 Hg Hp). cbv zeta.
    repeat match goal with |- context[if ?c then _ else _] => destruct c end;
      try discriminate; destruct (s_active s'); try discriminate;
      destruct (s_rollout s') as [[|]|]; discriminate.
  - intros Hc Ha Ht. exact (serve_running_forward ig st' q n prefix s' H0 Hg Hp Hc Ha Ht).
Qed.

(** * Non-vacuity *)

Definition ex_topts : topts := mkTopts (bs "/up") 0.
Definition ex_tg (n : String.string) : list tgt_in := [mkTgt (bs n) true].
Arguments ex_tg _%string_scope.
Definition ex_opts (pages : pages_in) : sopts :=
  mkSopts [bs "a.example.com"] [] false true CertNone pages true.
Definition ex_msg : str := bs "<script>alert('x' + ""y"")</script> {{ .Message }} & caf" ++ [xc3; xa9; x00; xff].
Definition ex_ig : rollctl -> str -> bool := fun _ _ => false.

Definition ex_history : list cmd :=
  [ Deploy (bs "web") (ex_opts PagesNone) ex_topts (ex_tg "ta:80");
    Stop (bs "web") ex_msg;
    Deploy (bs "web") (ex_opts PagesGood) ex_topts (ex_tg "tb:80");
    RolloutDeploy (bs "web") (ex_tg "tc:80");
    RolloutSet (bs "web") 100 [];
    Restart ].

Definition ex_req (get : bool) (path : String.string) : request :=
  mkReq (bs "a.example.com:8080") (bs path) (bs path) get false None.
Arguments ex_req _ _%string_scope.

(** Stopped with a hostile message, redeployed twice, restarted: still stopped
    with that message; every request is 503 with it, GET /up is 200; after
    resume requests are forwarded to the redeployed target. *)
Example c08_example_history :
  let st := exec_all fixed init_state ex_history in
  map (serve ex_ig st) [ex_req true "/x"; ex_req false "/up"; ex_req true "/up"; ex_req true "/up/"] =
    [R503_stopped ex_msg; R503_stopped ex_msg; R200_health; R503_stopped ex_msg] /\
  (exists st', exec fixed st (Resume (bs "web")) = (Ok, st') /\
     serve ex_ig st' (ex_req true "/x") = RForward (bs "web") [bs "tb:80"] None).
Proof. cbv zeta. split; [vm_compute; reflexivity|]. eexists. split; vm_compute; reflexivity. Qed.

(** The escaped form of that message, and its round trip (NUL became U+FFFD,
    the invalid byte 0xFF is kept). *)
Example c08_example_escape :
  html_escape ex_msg =
    bs "&lt;script&gt;alert(&#39;x&#39; &#43; &#34;y&#34;)&lt;/script&gt; {{ .Message }} &amp; caf"
      ++ [xc3; xa9; xef; xbf; xbd; xff] /\
  html_escape_go ex_msg = html_escape ex_msg /\
  html_unescape (html_escape ex_msg) =
    bs "<script>alert('x' + ""y"")</script> {{ .Message }} & caf" ++ [xc3; xa9; xef; xbf; xbd; xff].
Proof. vm_compute. repeat split; reflexivity. Qed.

Definition ex_page : page503 :=
  mkPage (bs "<html><article>") (bs "<p>") (bs "</p>") (bs "<p>unavailable</p>") (bs "</article></html>").

Example c08_example_render :
  render503 ex_page None (bs "<b>") = bs "<html><article><p>&lt;b&gt;</p></article></html>" /\
  render503 ex_page None [] = bs "<html><article><p>unavailable</p></article></html>" /\
  render503 ex_page (Some (bs "custom503[", bs "]")) (bs "{{ . }}") = bs "custom503[{{ . }}]".
Proof. vm_compute. repeat split; reflexivity. Qed.

(** Hypotheses of [c08_stopped_503], [c08_state_survives_redeploy],
    [c08_stop_sets] and [c08_resume] are met by concrete states. *)
Example c08_example_hyps :
  let st1 := exec_all fixed init_state (firstn 1 ex_history) in
  let st2 := exec_all fixed init_state (firstn 2 ex_history) in
  (exists st', exec fixed st1 (Stop (bs "web") ex_msg) = (Ok, st')) /\
  (exists s, svc_get (st_services st2) (bs "web") = Some s /\ p_state (s_pause s) = Stopped /\
     route (table_of (st_services st2)) (bs "a.example.com:8080") (bs "/x") = Some (bs "web", bs "/")) /\
  is_redeploy (nth 2 ex_history Restart) = true /\
  (exists st', exec fixed st2 (Resume (bs "web")) = (Ok, st')).
Proof.
  cbv zeta. repeat split.
  - eexists. vm_compute. reflexivity.
  - eexists. vm_compute. repeat split; reflexivity.
  - eexists. vm_compute. reflexivity.
Qed.

Print Assumptions c08_escape_is_bytewise.
Print Assumptions c08_escape_inert.
Print Assumptions c08_body_from_escaped.
Print Assumptions c08_template_inert.
Print Assumptions c08_escape_app.
Print Assumptions c08_stopped_503.
Print Assumptions c08_stopped_503_reachable.
Print Assumptions c08_state_survives_redeploy.
Print Assumptions c08_stop_sets.
Print Assumptions c08_resume.
