(** C18 (sequential part) — no command panics in any reachable state.
    Only statements; proofs are in proofs/SeqInv.v (over model/Seq.v, "M4").
    The concurrent part of C18 (races, deadlocks) is not a property of M4. *)
From KP Require Import model.Base model.ServiceMap model.Seq proofs.SeqFacts proofs.SeqInv.

(** Whatever commands were run before (restarts included), the next command
    does not panic.  [cs] ranges over all command lists, so this covers every
    step of every history. *)
Theorem c18_no_panic_seq : forall cs c,
  fst (exec fixed (exec_all fixed init_state cs) c) <> Panic.
Proof. exact no_panic_seq. Qed.

(** Why: every pause gate of a reachable state has a channel. *)
Theorem c18_gates_have_channels : forall st s,
  reachable fixed st -> In s (st_services st) -> p_chan_nil (s_pause s) = false.
Proof.
  intros st s Hr Hs. destruct (reachable_inv _ Hr) as [(_ & Hok & _) _].
  rewrite Forall_forall in Hok. apply (Hok s Hs).
Qed.

(** On the pinned tree a panic is reachable (D5): pause, restart, stop. *)
Theorem c18_refuted_pinned_D5 : exists cs c,
  fst (exec pinned (exec_all pinned init_state cs) c) = Panic.
Proof.
  exists [Deploy (bs "web") (mkSopts [] [] false false CertNone PagesNone false) (mkTopts (bs "/up") 0)
                 [mkTgt (bs "web-1") true];
          Pause (bs "web") 30; Restart],
         (Stop (bs "web") (bs "bye")).
  vm_compute. reflexivity.
Qed.

(** The same history on the repaired code. *)
Example c18_example :
  fst (exec fixed (exec_all fixed init_state
        [Deploy (bs "web") (mkSopts [] [] false false CertNone PagesNone false) (mkTopts (bs "/up") 0)
                [mkTgt (bs "web-1") true];
         Pause (bs "web") 30; Restart]) (Stop (bs "web") (bs "bye"))) = Ok.
Proof. vm_compute. reflexivity. Qed.

Print Assumptions c18_no_panic_seq.
Print Assumptions c18_gates_have_channels.
Print Assumptions c18_refuted_pinned_D5.
