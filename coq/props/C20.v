(** C20 — CLI options, validation and exit codes behave as documented.
    Only statements, each closed by [exact]; proofs are in proofs/CliFacts.v,
    the model and the vocabulary of the statements in model/Cli.v. *)
From KP Require Import model.Base model.Cli proofs.CliFacts.
From Coq Require Import Permutation Sorted.

(** ** Sources of a `run` option *)

(** For every environment, option name, flag and default — and every byte
    string as a value: the flag if given; else the prefixed variable if it is
    set (parsed, or the default when malformed — never the bare variable);
    else the bare variable if set (parsed or default); else the default. *)
Theorem c20_precedence : forall (e : env) (key : str),
  (forall (flag : option Z) (def : Z),
     precedence atoi e key flag def (run_opt_int e key flag def)) /\
  (forall (flag : option bool) (def : bool),
     precedence parse_bool e key flag def (run_opt_bool e key flag def)).
Proof. intros e key. split; intros flag def; [exact (precedence_int e key flag def) | exact (precedence_bool e key flag def)]. Qed.

(** The clauses leave no freedom: they determine the value. *)
Theorem c20_precedence_determines : forall A (parse : str -> option A) e key flag def (v w : A),
  precedence parse e key flag def v -> precedence parse e key flag def w -> v = w.
Proof. intros A parse e key flag def v w. exact (precedence_functional parse e key flag def v w). Qed.

(** The three options of `run`, with their names and defaults. *)
Theorem c20_run_options : forall (e : env) (f : run_flags),
  precedence atoi e (bs "HTTP_PORT") (rf_http_port f) 80%Z (rc_http_port (resolve_run e f)) /\
  precedence atoi e (bs "HTTPS_PORT") (rf_https_port f) 443%Z (rc_https_port (resolve_run e f)) /\
  precedence parse_bool e (bs "DEBUG") (rf_debug f) false (rc_debug (resolve_run e f)).
Proof.
  intros e f. split; [exact (precedence_int e _ _ _)|split; [exact (precedence_int e _ _ _)|exact (precedence_bool e _ _ _)]].
Qed.

(** ** strconv.Atoi and strconv.ParseBool on byte strings *)

(** On a non-empty digit string [atoi] is the positional value, or an error
    when that does not fit in 64 bits. *)
Theorem c20_atoi_digits : forall ds : str,
  ds <> [] -> forallb is_digit ds = true ->
  atoi ds = if in_int (pos_value ds) then Some (pos_value ds) else None.
Proof. exact atoi_digits. Qed.

(** Exactly the optionally signed, non-empty digit strings whose value is in
    [-2^63, 2^63) are accepted — so no spaces, no '_', no "0x", no empty
    string, no lone sign. *)
Theorem c20_atoi_accepts : forall (s : str) (z : Z),
  atoi s = Some z <->
  exists neg ds, int_syntax s neg ds /\ ds <> [] /\ forallb is_digit ds = true /\
                 z = signed neg (pos_value ds) /\ (int_min <= z <= int_max)%Z.
Proof. exact atoi_some_iff. Qed.

Theorem c20_parse_bool : forall s : str,
  (parse_bool s = Some true <-> In s [bs "1"; bs "t"; bs "T"; bs "TRUE"; bs "true"; bs "True"]) /\
  (parse_bool s = Some false <-> In s [bs "0"; bs "f"; bs "F"; bs "FALSE"; bs "false"; bs "False"]).
Proof. intros s. split; [exact (parse_bool_true_iff s)|exact (parse_bool_false_iff s)]. Qed.

(** ** `deploy` pre-run validation *)

(** Refused before dialling exactly in the cases of the statement's table:
    TLS without a (non-empty) host or without the root path among the
    normalised prefixes; a body limit given without the matching buffering
    flag given. *)
Theorem c20_validation : forall i : deploy_in,
  is_some (refused_of (deploy_prerun i)) =
    (di_tls i && (negb (has_host (di_hosts i)) || negb (root_listed (di_prefixes i))))
    || (di_maxreq_changed i && negb (di_bufreq_changed i))
    || (di_maxresp_changed i && negb (di_bufresp_changed i)).
Proof. exact deploy_prerun_table. Qed.

(** Otherwise the arguments go to the proxy with ForwardHeaders = the flag
    if given, else "not TLS", and normalised hosts and prefixes. *)
Theorem c20_validation_passes : forall i : deploy_in,
  should_refuse i = false ->
  deploy_prerun i =
    PreOk (match di_fwd i with Some b => b | None => negb (di_tls i) end)
          (normalize_hosts (di_hosts i)) (normalize_prefixes (di_prefixes i)).
Proof. exact deploy_prerun_ok. Qed.

(** Which of the four messages is printed. *)
Theorem c20_validation_message : forall i : deploy_in,
  refused_of (deploy_prerun i) =
    if di_maxreq_changed i && negb (di_bufreq_changed i) then Some ErrMaxReq
    else if di_maxresp_changed i && negb (di_bufresp_changed i) then Some ErrMaxResp
    else if di_tls i && negb (has_host (di_hosts i)) then Some ErrTlsHost
    else if di_tls i && negb (root_listed (di_prefixes i)) then Some ErrTlsRoot
    else None.
Proof. exact deploy_prerun_class. Qed.

(** "the root path is listed", on the flag values themselves *)
Theorem c20_root_listed : forall ps : list str,
  root_listed ps = true <->
  ps = [] \/ exists p, In p ps /\ forallb (fun c => byte_eqb c slash) p = true.
Proof. exact root_listed_iff. Qed.

(** The pinned tree (Normalize before [len(Hosts) == 0]) violates the table:
    `deploy svc --target x:80 --tls` is passed on to the proxy. *)
Theorem c20_refuted_pinned_tls_host :
  exists i : deploy_in,
    should_refuse i = true /\ refused_of (deploy_prerun i) = Some ErrTlsHost /\
    refused_of (deploy_prerun_pinned i) = None.
Proof.
  exists tls_without_host. destruct pinned_tls_host_witness as (H1 & H2 & H3).
  rewrite H2, H3. auto.
Qed.

(** It never reports the missing host, and is right everywhere else. *)
Theorem c20_pinned_holds_outside_tls_host : forall i : deploy_in,
  refused_of (deploy_prerun_pinned i) <> Some ErrTlsHost /\
  (di_tls i && negb (has_host (di_hosts i)) = false -> deploy_prerun_pinned i = deploy_prerun i).
Proof. intros i. split; [exact (pinned_never_tls_host i)|exact (pinned_agrees_outside i)]. Qed.

(** ** Exit status *)

(** Non-zero exactly on a validation, dial or RPC error; then it is 1 and
    "Error: ..." is printed, otherwise nothing. *)
Theorem c20_exit : forall validation dial rpc : option str,
  let o := client_outcome validation dial rpc in
  (exit_code o <> 0%N <-> validation <> None \/ dial <> None \/ rpc <> None) /\
  (exit_code o = 0%N \/ exit_code o = 1%N) /\
  (stderr_of o = [] <-> exit_code o = 0%N).
Proof.
  intros validation dial rpc o. split; [exact (exit_nonzero_iff validation dial rpc)|].
  split; [exact (exit_code_01 o)|]. rewrite stderr_empty_iff, exit_zero_iff. tauto.
Qed.

(** ** `list` *)

(** Reading back the printed table gives exactly the deployed services, in
    name order, each with its host, path and target fields, state and TLS
    flag — provided no name, host, path, target or state contains ESC or a
    newline. *)
Theorem c20_list_roundtrip : forall svcs : list service,
  forallb wf_service svcs = true ->
  parse_table (render_list svcs) = Some (sort_by_name (map describe svcs)).
Proof. exact list_roundtrip. Qed.

(** "in name order": a permutation of the services, ascending in Go's
    string order, which is a total order. *)
Theorem c20_list_sorted : forall ds : list desc,
  Permutation (sort_by_name ds) ds /\ Sorted name_le (sort_by_name ds).
Proof. intros ds. split; [exact (sort_perm ds)|exact (sort_sorted ds)]. Qed.

Theorem c20_name_order : forall a b c : str,
  (str_leb a b = true \/ str_leb b a = true) /\
  (str_leb a b = true -> str_leb b a = true -> a = b) /\
  (str_leb a b = true -> str_leb b c = true -> str_leb a c = true).
Proof.
  intros a b c. split; [exact (str_leb_total a b)|]. split; [exact (str_leb_antisym a b)|exact (str_leb_trans a b c)].
Qed.

(** The Host / Path / Target fields are the comma-joined lists, from which the
    elements are recovered when none contains a comma. *)
Theorem c20_list_fields : forall l : list str,
  l <> [] -> forallb comma_free l = true -> split_on comma (join [comma] l) = l.
Proof. exact split_join_commas. Qed.

(** Columns are aligned: rows with the same number of cells take the same
    visible width. *)
Theorem c20_list_aligned : forall (rows : list row) (r1 r2 : row),
  In r1 rows -> In r2 rows -> length r1 = length r2 ->
  visible_len (widths rows) r1 = visible_len (widths rows) r2.
Proof. exact table_aligned. Qed.

(** ** Non-vacuity *)

Example c20_example_precedence :
  let e := [(bs "KAMAL_PROXY_HTTP_PORT", bs "80x"); (bs "HTTP_PORT", bs "8080");
            (bs "HTTPS_PORT", bs "+08443"); (bs "KAMAL_PROXY_DEBUG", bs ""); (bs "DEBUG", bs "true")] in
  resolve_run e (mkRunFlags None None None) = mkRunConfig 80 8443 false /\
  resolve_run e (mkRunFlags (Some 9000%Z) None (Some true)) = mkRunConfig 9000 8443 true /\
  resolve_run [(bs "DEBUG", bs "T")] (mkRunFlags None None None) = mkRunConfig 80 443 true.
Proof. vm_compute. repeat split. Qed.

Example c20_example_atoi :
  atoi (bs "-9223372036854775808") = Some (- 9223372036854775808)%Z /\
  atoi (bs "9223372036854775808") = None /\ atoi (bs "007") = Some 7%Z /\
  atoi (bs "1_0") = None /\ atoi (bs "0x10") = None /\ atoi (bs " 1") = None /\
  atoi (bs "+") = None /\ atoi (bs "") = None /\ atoi (bs "--1") = None.
Proof. vm_compute. repeat split. Qed.

Example c20_example_validation :
  let d tls hosts prefixes mr br := mkDeployIn tls hosts prefixes mr br false false None in
  deploy_prerun (d true [bs "a.example"] [] false false) = PreOk false [bs "a.example"] [bs "/"] /\
  deploy_prerun (d true [] [] false false) = PreRefused ErrTlsHost /\
  deploy_prerun (d true [bs "a.example"] [bs "/api"] false false) = PreRefused ErrTlsRoot /\
  deploy_prerun (d true [bs "a.example"] [bs "api"; bs "//"] false false) =
    PreOk false [bs "a.example"] [bs "/api"; bs "/"] /\
  deploy_prerun (d false [] [] true false) = PreRefused ErrMaxReq /\
  deploy_prerun (d false [] [] true true) = PreOk true [bs ""] [bs "/"].
Proof. vm_compute. repeat split. Qed.

Definition example_services : list service :=
  [mkService (bs "web") [bs ""] [bs "/"] [bs "10.0.0.1:3000"; bs "10.0.0.2:3000"] (bs "running") false;
   mkService (bs "api") [bs "a.example"; bs "b.example"] [bs "/"; bs "/v2"] [bs "api-1:80"] (bs "paused") true;
   mkService (bs "Web 2") [bs "*.example"] [bs "/"] [bs "t"] (bs "stopped") false].

Example c20_example_list :
  forallb wf_service example_services = true /\
  map d_name (sort_by_name (map describe example_services)) = [bs "Web 2"; bs "api"; bs "web"] /\
  parse_table (render_list example_services) =
    Some [mkDesc (bs "Web 2") (bs "*.example") (bs "/") (bs "t") (bs "stopped") false;
          mkDesc (bs "api") (bs "a.example,b.example") (bs "/,/v2") (bs "api-1:80") (bs "paused") true;
          mkDesc (bs "web") (bs "*") (bs "/") (bs "10.0.0.1:3000,10.0.0.2:3000") (bs "running") false].
Proof. vm_compute. repeat split. Qed.

Print Assumptions c20_precedence.
Print Assumptions c20_precedence_determines.
Print Assumptions c20_run_options.
Print Assumptions c20_atoi_digits.
Print Assumptions c20_atoi_accepts.
Print Assumptions c20_parse_bool.
Print Assumptions c20_validation.
Print Assumptions c20_validation_passes.
Print Assumptions c20_validation_message.
Print Assumptions c20_root_listed.
Print Assumptions c20_refuted_pinned_tls_host.
Print Assumptions c20_pinned_holds_outside_tls_host.
Print Assumptions c20_exit.
Print Assumptions c20_list_roundtrip.
Print Assumptions c20_list_sorted.
Print Assumptions c20_name_order.
Print Assumptions c20_list_fields.
Print Assumptions c20_list_aligned.
