(** C10health — rollout histories in which a side's targets fail their probes and recover
    (corr/C10health.v).  Only statements, each closed by [exact]; proofs are in proofs/C10healthLink.v.

    Vocabulary.  corr/C10health.v: [hcmd2] = [HPlain c] (a command of model/Rollout.v) or
    [HHealth rollout_side healthy] (every target of that side has just failed / passed a probe);
    [flags] = (act_ok, roll_ok); [hrun2] = the implementation model ([hstep] decides, the health of the side it
    decided for gives 503); [spec_run2] = the property's own reading ([spec_step] + [spec_side]);
    [hist_monitor2] / [hist_agree2] compare an observed answer list with [spec_run2] / [hrun2].
    proofs/C10healthLink.v:

      plain_of cmds      the history with the [HHealth] events erased
      flags_step f c     [HHealth rs h]: set the flag of that side to h; [HPlain c]: [flags_after f c]
                         (a deploy brings healthy targets for its side, a restart presumes all healthy)
      flags_end f cmds   fold_left flags_step cmds f       — a function of the commands alone
      hend2 / spec_end2  state and flags after a history (fold of the first component of hstep2 / spec_step2)
      model_side s l     pick (has_rollout_slot s) (sv_ctrl s) l   — Service.loadBalancerForRequest
      side_targets s sd  the deployment whose targets form side [sd] in the property's reading
      all_ok f           act_ok f = true /\ roll_ok f = true *)
From KP Require Import model.Base model.Rollout corr.C10corr corr.C10health proofs.RolloutFacts
  proofs.C10healthLink.
Local Open Scope N_scope.

(** * (a) The model is the property's reading *)

(** As asked for (all healthy at the start) ... *)
Theorem c10h_model_is_spec : forall id cmds,
  hrun2 (init_svc id, mkFl true true) cmds = spec_run2 (init_spec id, mkFl true true) cmds.
Proof. intros id cmds. exact (model_is_spec2 id (mkFl true true) cmds). Qed.

(** ... and from any initial health, and from any pair of states related by the invariant [related] of
    proofs/RolloutFacts.v (same active deployment, same controller = split, rollout slot = rollout targets). *)
Theorem c10h_model_is_spec_any_flags : forall id f cmds,
  hrun2 (init_svc id, f) cmds = spec_run2 (init_spec id, f) cmds.
Proof. exact model_is_spec2. Qed.

Theorem c10h_related_runs_equal : forall cmds s ss f,
  related s ss -> hrun2 (s, f) cmds = spec_run2 (ss, f) cmds.
Proof. exact run2_related. Qed.

(** One step: the invariant is kept, the flags and the answer are the same. *)
Theorem c10h_step : forall s ss f c, related s ss ->
  related (fst (fst (hstep2 (s, f) c))) (fst (fst (spec_step2 (ss, f) c))) /\
  snd (fst (hstep2 (s, f) c)) = snd (fst (spec_step2 (ss, f) c)) /\
  snd (hstep2 (s, f) c) = snd (spec_step2 (ss, f) c).
Proof. exact step2_related. Qed.

(** * (b) An observation that agrees with the model satisfies the monitor *)

Theorem c10h_agree_implies_monitor : forall id cmds o,
  hist_agree2 id cmds o = true -> hist_monitor2 id cmds o = true.
Proof. exact agree2_monitor2. Qed.

(** (they are the same test) *)
Theorem c10h_agree_is_monitor : forall id cmds o, hist_agree2 id cmds o = hist_monitor2 id cmds o.
Proof. exact agree2_eq_monitor2. Qed.

(** the model satisfies its own monitor *)
Theorem c10h_monitor_of_model : forall id cmds,
  hist_monitor2 id cmds (hrun2 (init_svc id, mkFl true true) cmds) = true.
Proof. exact monitor2_of_model. Qed.

(** * (c) What the monitor demands of one request

    The request after the history [pre] (whatever follows): with
      s = the rollout state after the commands of [pre] (health events are irrelevant to it),
      f = the flags after [pre],
    the answer is 503 from the proxy itself when the side the split sends it to is unhealthy, and otherwise it
    comes from the targets of THAT side. *)
Theorem c10h_request_answer : forall id f0 pre lines post,
  let s := fst (spec_run (init_spec id) (plain_of pre)) in
  let f := flags_end f0 pre in
  nth (length pre) (spec_run2 (init_spec id, f0) (pre ++ HPlain (HRequest lines) :: post)) XOk =
  if side_ok f (spec_side s lines) then XServed (side_targets s (spec_side s lines)) else XStatus 503.
Proof. exact request_answer2. Qed.

(** 503 exactly when the chosen side is unhealthy at that moment. *)
Theorem c10h_503_iff_side_unhealthy : forall id f0 pre lines post,
  let s := fst (spec_run (init_spec id) (plain_of pre)) in
  let f := flags_end f0 pre in
  nth (length pre) (spec_run2 (init_spec id, f0) (pre ++ HPlain (HRequest lines) :: post)) XOk = XStatus 503
  <-> side_ok f (spec_side s lines) = false.
Proof. exact request_503_iff. Qed.

(** Otherwise it is the answer the same request gets in the health-free history (props/C10.v [c10_history]). *)
Theorem c10h_healthy_answer_is_health_free_answer : forall id f0 pre lines post,
  let s := fst (spec_run (init_spec id) (plain_of pre)) in
  let f := flags_end f0 pre in
  side_ok f (spec_side s lines) = true ->
  nth (length pre) (spec_run2 (init_spec id, f0) (pre ++ HPlain (HRequest lines) :: post)) XOk =
  x_of (nth (length (plain_of pre))
            (snd (spec_run (init_spec id) (plain_of (pre ++ HPlain (HRequest lines) :: post)))) OOk).
Proof. exact request_healthy_is_plain. Qed.

(** A request is never handed to the other side: a backend answer comes from the chosen side. *)
Theorem c10h_never_other_side : forall id f0 pre lines post k,
  let s := fst (spec_run (init_spec id) (plain_of pre)) in
  nth (length pre) (spec_run2 (init_spec id, f0) (pre ++ HPlain (HRequest lines) :: post)) XOk = XServed k ->
  k = side_targets s (spec_side s lines).
Proof. exact request_never_other_side. Qed.

(** The side, readably: rollout iff rollout targets exist, a split is in force and the split includes the request
    ([uses_rollout]: props/C10.v [c10_exact]). *)
Theorem c10h_spec_side_rollout_iff : forall s lines,
  spec_side s lines = Rollout <->
  exists r c, ss_targets s = Some r /\ ss_split s = Some c /\ uses_rollout c lines = true.
Proof. exact spec_side_rollout_iff. Qed.

(** State and flags after a history are independent of each other: the state is the one of the health-free
    history, the flags are a function of the commands. *)
Theorem c10h_state_and_flags : forall cmds s f,
  spec_end2 (s, f) cmds = (fst (spec_run s (plain_of cmds)), flags_end f cmds).
Proof. exact spec_end2_split. Qed.

Theorem c10h_model_state_and_flags : forall cmds s f,
  hend2 (s, f) cmds = (fst (hrun s (plain_of cmds)), flags_end f cmds).
Proof. exact hend2_split. Qed.

(** Histories without health events: the reading is the one of model/Rollout.v, the monitor is [hist_monitor]. *)
Theorem c10h_no_health_events : forall cs s f, all_ok f ->
  spec_run2 (s, f) (map HPlain cs) = map x_of (snd (spec_run s cs)).
Proof. exact spec_run2_plain. Qed.

Theorem c10h_no_health_events_monitor : forall id cs o,
  hist_monitor2 id (map HPlain cs) o = hist_monitor id cs o.
Proof. exact hist_monitor2_plain. Qed.

(** * (d) The decision is independent of health *)

(** Two histories with the same commands and ANY health events in between, started with ANY flags: the model
    sends a request to the same side ... *)
Theorem c10h_side_independent_of_health : forall id f1 f2 pre1 pre2 lines,
  plain_of pre1 = plain_of pre2 ->
  model_side (fst (hend2 (init_svc id, f1) pre1)) lines = model_side (fst (hend2 (init_svc id, f2) pre2)) lines.
Proof. exact side_health_free. Qed.

(** ... which is the side of the property's reading of the health-free history. *)
Theorem c10h_side_is_spec_side : forall id f pre lines,
  model_side (fst (hend2 (init_svc id, f) pre)) lines =
  spec_side (fst (spec_run (init_spec id) (plain_of pre))) lines.
Proof. exact side_is_spec_side. Qed.

Theorem c10h_spec_side_independent_of_health : forall id f1 f2 pre1 pre2 lines,
  plain_of pre1 = plain_of pre2 ->
  spec_side (fst (spec_end2 (init_spec id, f1) pre1)) lines = spec_side (fst (spec_end2 (init_spec id, f2) pre2)) lines.
Proof. exact spec_side_flags_free. Qed.

(** In one state, for any two flag values: same next state, and the same side decides the answer. *)
Theorem c10h_step_side_independent_of_flags : forall s f1 f2 lines,
  fst (fst (hstep2 (s, f1) (HPlain (HRequest lines)))) = fst (fst (hstep2 (s, f2) (HPlain (HRequest lines)))) /\
  forall f, snd (hstep2 (s, f) (HPlain (HRequest lines))) =
            if side_ok f (model_side s lines) then x_of (snd (hstep s (HRequest lines))) else XStatus 503.
Proof.
  intros s f1 f2 lines. split; [now rewrite !hstep2_plain|]. intros f. now rewrite hstep2_plain.
Qed.

(** * Non-vacuity *)

Definition ck : list str := [bs "kamal-rollout=x"].

(** rollout deploy 2, split 100 %: the included request is served by deployment 2; the rollout side goes down:
    the included request gets 503 — it is NOT handed to the active side — while a request without the cookie is
    served by the active targets (1); the rollout side recovers: served by 2 again; then the active side goes
    down: requests without cookie get 503, the included one is still served by 2; a deploy (3) brings healthy
    active targets. *)
Definition ex_cmds : list hcmd2 :=
  [ HPlain (HRolloutDeploy 2); HPlain (HSet 100 []); HPlain (HRequest ck);
    HHealth true false; HPlain (HRequest ck); HPlain (HRequest []);
    HHealth true true; HPlain (HRequest ck);
    HHealth false false; HPlain (HRequest []); HPlain (HRequest ck);
    HPlain (HDeploy 3); HPlain (HRequest []) ].

Definition ex_obs : list xobs :=
  [ XOk; XOk; XServed 2;
    XOk; XStatus 503; XServed 1;
    XOk; XServed 2;
    XOk; XStatus 503; XServed 2;
    XOk; XServed 3 ].

Example c10h_example_history :
  hrun2 (init_svc 1, mkFl true true) ex_cmds = ex_obs /\
  spec_run2 (init_spec 1, mkFl true true) ex_cmds = ex_obs /\
  hist_monitor2 1 ex_cmds ex_obs = true /\ hist_agree2 1 ex_cmds ex_obs = true.
Proof. vm_compute. repeat split. Qed.

(** The monitor refuses the failover: the included request answered by the active targets while the rollout
    side is down; and a 503 while the chosen side is healthy. *)
Example c10h_example_refused :
  hist_monitor2 1 ex_cmds
    [ XOk; XOk; XServed 2; XOk; XServed 1; XServed 1; XOk; XServed 2; XOk; XStatus 503; XServed 2; XOk; XServed 3 ]
    = false /\
  hist_monitor2 1 ex_cmds
    [ XOk; XOk; XServed 2; XOk; XStatus 503; XServed 1; XOk; XStatus 503; XOk; XStatus 503; XServed 2; XOk; XServed 3 ]
    = false.
Proof. vm_compute. split; reflexivity. Qed.

(** The instance of [c10h_request_answer] for the fifth command (index 4). *)
Example c10h_example_request :
  let pre := firstn 4 ex_cmds in
  let s := fst (spec_run (init_spec 1) (plain_of pre)) in
  plain_of pre = [HRolloutDeploy 2; HSet 100 []; HRequest ck] /\
  spec_side s ck = Rollout /\ side_targets s Rollout = 2%nat /\
  flags_end (mkFl true true) pre = mkFl true false /\
  spec_side s [] = Active /\ side_targets s Active = 1%nat.
Proof. vm_compute. repeat split. Qed.

(** A restart presumes every restored target healthy; a rollout deploy brings healthy rollout targets. *)
Example c10h_example_restart :
  spec_run2 (init_spec 1, mkFl true true)
    [ HPlain (HRolloutDeploy 2); HPlain (HSet 100 []); HHealth true false; HHealth false false;
      HPlain (HRequest ck); HPlain (HRequest []); HPlain HRestart; HPlain (HRequest ck); HPlain (HRequest []);
      HHealth true false; HPlain (HRolloutDeploy 4); HPlain (HRequest ck) ] =
  [ XOk; XOk; XOk; XOk; XStatus 503; XStatus 503; XOk; XServed 2; XServed 1; XOk; XOk; XServed 4 ].
Proof. vm_compute. reflexivity. Qed.

Print Assumptions c10h_model_is_spec.
Print Assumptions c10h_model_is_spec_any_flags.
Print Assumptions c10h_related_runs_equal.
Print Assumptions c10h_step.
Print Assumptions c10h_agree_implies_monitor.
Print Assumptions c10h_agree_is_monitor.
Print Assumptions c10h_monitor_of_model.
Print Assumptions c10h_request_answer.
Print Assumptions c10h_503_iff_side_unhealthy.
Print Assumptions c10h_healthy_answer_is_health_free_answer.
Print Assumptions c10h_never_other_side.
Print Assumptions c10h_spec_side_rollout_iff.
Print Assumptions c10h_state_and_flags.
Print Assumptions c10h_model_state_and_flags.
Print Assumptions c10h_no_health_events.
Print Assumptions c10h_no_health_events_monitor.
Print Assumptions c10h_side_independent_of_health.
Print Assumptions c10h_side_is_spec_side.
Print Assumptions c10h_spec_side_independent_of_health.
Print Assumptions c10h_step_side_independent_of_flags.
