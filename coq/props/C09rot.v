(** C09rot — "requests are spread over the currently healthy targets": the rebuilt rotation is EXACTLY
    the healthy targets of the balancer.

    props/C09.v shows that a rebuilt rotation is [healthy_of (tgts s) (b_ts b)] of the ACCEPTOR's state
    ([c09_rotation_is_healthy_set]) and that picks go round it strictly ([c09_fair], [c09_fair_trace]).
    Here the same is said of the OBSERVED trace alone: [replayed_targets tr lb] / [replayed_state tr t]
    (proofs/C09rotLink.v) are the balancer's target list (its KLbNew event) and the target's state
    (adding at creation, then the new state carried by the last KProbeApply / KStateSet event on it)
    — exactly what the monitor corr/C09rot.c09_rot_ok replays.  Every theorem is about EVERY trace
    accepted by model/M5lb.v; that the real code only produces accepted traces on which the monitor
    holds is the correspondence obligation of tools/c09.py. *)
From KP Require Import model.Base model.Trace model.M5lb proofs.M5lbFacts proofs.M5lbHist proofs.M5lbC01 proofs.M5lbC09
  corr.C09corr corr.C09rot proofs.M5lbMon proofs.C09rotLink.
From KP Require props.C01restore.
Local Open Scope nat_scope.

(** (1) The acceptor implies the exact-rotation monitor. *)
Theorem c09_accepted_rot : forall tr, accepted tr = true -> c09_rot_ok tr = true.
Proof. exact accepted_c09_rot_ok. Qed.
Print Assumptions c09_accepted_rot.

(** What the replay means: it is the acceptor's own view of balancers and target states ... *)
Theorem c09_replay_is_state : forall tr s, run step init tr = Some s ->
  (forall lb b, nget (bals s) lb = Some b -> replayed_targets tr lb = Some (b_ts b)) /\
  (forall t x, nget (tgts s) t = Some x -> replayed_state tr t = Some (t_st x)).
Proof. exact replay_is_state. Qed.
Print Assumptions c09_replay_is_state.

(** ... and, event by event, the state carried by the last event that wrote the target
    ([state_written]: KLbNew with the target: adding; KProbeApply / KStateSet on it: their new state). *)
Theorem c09_replayed_state_last_write : forall pre e t,
  replayed_state (pre ++ [e]) t = match state_written e t with Some st => Some st | None => replayed_state pre t end.
Proof. exact replayed_state_snoc. Qed.
Print Assumptions c09_replayed_state_last_write.

Theorem c09_replayed_targets_lbnew : forall pre e lb,
  replayed_targets (pre ++ [e]) lb =
  match e_k e with KLbNew l ts => if Nat.eqb lb l then Some ts else replayed_targets pre lb | _ => replayed_targets pre lb end.
Proof. exact replayed_targets_snoc. Qed.
Print Assumptions c09_replayed_targets_lbnew.

(** (2a) At a rebuild [KRotation lb hs] the rotation holds every target of [lb] whose state is healthy
    at that moment — a target that recovered is used again from the next rebuild on — and nothing else. *)
Theorem c09_rotation_has_every_healthy_target : forall tr s i lb hs,
  run step init tr = Some s -> at_ tr i (KRotation lb hs) ->
  exists ts, replayed_targets (firstn i tr) lb = Some ts /\
    forall t, In t hs <-> In t ts /\ replayed_state (firstn i tr) t = Some THealthy.
Proof. exact rotation_has_every_healthy_target. Qed.
Print Assumptions c09_rotation_has_every_healthy_target.

(** (2b) ... each once, in the balancer's own target order (the balancer's target list has no duplicates). *)
Theorem c09_rotation_nodup : forall tr s i lb hs,
  run step init tr = Some s -> at_ tr i (KRotation lb hs) ->
  NoDup hs /\ exists ts, replayed_targets (firstn i tr) lb = Some ts /\ NoDup ts /\ subseq hs ts.
Proof. exact rotation_nodup. Qed.
Print Assumptions c09_rotation_nodup.

(** both at once: the rotation is the filter of the target list by "healthy now" *)
Theorem c09_rotation_exact : forall tr s i lb hs,
  run step init tr = Some s -> at_ tr i (KRotation lb hs) ->
  exists ts, replayed_targets (firstn i tr) lb = Some ts /\ NoDup ts /\
             hs = filter (replayed_healthy (firstn i tr)) ts.
Proof. exact rotation_exact. Qed.
Print Assumptions c09_rotation_exact.

(** (2c) Strict rotation over the HEALTHY TARGETS.  After a rebuild [eJ] of the rotation of [lb], along a
    piece of trace [seg] without another rebuild of it: with [k] the number of targets of [lb] that were
    healthy at the rebuild and [n] the number of successful picks on [lb] in [seg], every target of [lb]
    that was healthy at the rebuild got floor(n/k) or ceil(n/k) of them, and every other target none. *)
Theorem c09_fair_over_healthy_targets : forall A eJ seg s lb hs,
  run step init (A ++ eJ :: seg) = Some s -> e_k eJ = KRotation lb hs -> existsb (is_rot lb) seg = false ->
  exists ts, replayed_targets A lb = Some ts /\
    hs = filter (replayed_healthy A) ts /\
    let k := length (filter (replayed_healthy A) ts) in
    let n := length (claims_of lb seg) in
    (forall t, In t ts -> replayed_state A t = Some THealthy ->
       n / k <= count_occ Nat.eq_dec (claims_of lb seg) t <= (n + k - 1) / k) /\
    (forall t, ~ (In t ts /\ replayed_state A t = Some THealthy) -> count_occ Nat.eq_dec (claims_of lb seg) t = 0).
Proof. exact fair_over_healthy_targets. Qed.
Print Assumptions c09_fair_over_healthy_targets.

(** The same while the rotation is rebuilt only to the same list (a rebuild keeps the cursor) ... *)
Theorem c09_fair_over_healthy_targets_same_rotation : forall A eJ seg s lb hs,
  run step init (A ++ eJ :: seg) = Some s -> e_k eJ = KRotation lb hs ->
  (forall e hs', In e seg -> e_k e = KRotation lb hs' -> hs' = hs) ->
  exists ts, replayed_targets A lb = Some ts /\
    hs = filter (replayed_healthy A) ts /\
    let k := length (filter (replayed_healthy A) ts) in
    let n := length (claims_of lb seg) in
    (forall t, In t ts -> replayed_state A t = Some THealthy ->
       n / k <= count_occ Nat.eq_dec (claims_of lb seg) t <= (n + k - 1) / k) /\
    (forall t, ~ (In t ts /\ replayed_state A t = Some THealthy) -> count_occ Nat.eq_dec (claims_of lb seg) t = 0).
Proof. exact fair_over_healthy_targets_gen. Qed.
Print Assumptions c09_fair_over_healthy_targets_same_rotation.

(** ... hence "while the healthy set is unchanged": if at every point of [seg] the healthy targets of [lb]
    are those of the rebuild [eJ] (probes may keep writing the same states; the rotation may be rebuilt),
    any [n] picks on [lb] in [seg] give each of the [k] healthy targets floor(n/k) or ceil(n/k). *)
Theorem c09_fair_while_healthy_set_unchanged : forall A eJ seg s lb hs ts,
  run step init (A ++ eJ :: seg) = Some s -> e_k eJ = KRotation lb hs ->
  replayed_targets A lb = Some ts ->
  (forall pre post, seg = pre ++ post ->
     filter (replayed_healthy (A ++ eJ :: pre)) ts = filter (replayed_healthy A) ts) ->
  let k := length (filter (replayed_healthy A) ts) in
  let n := length (claims_of lb seg) in
  (forall t, In t ts -> replayed_state A t = Some THealthy ->
     n / k <= count_occ Nat.eq_dec (claims_of lb seg) t <= (n + k - 1) / k) /\
  (forall t, ~ (In t ts /\ replayed_state A t = Some THealthy) -> count_occ Nat.eq_dec (claims_of lb seg) t = 0).
Proof. exact fair_while_healthy_set_unchanged. Qed.
Print Assumptions c09_fair_while_healthy_set_unchanged.

(** ** (3) Non-vacuity: the recorded restart trace of props/C01restore.v

    A restored balancer 1 with targets [2;3]; target 3 fails a probe (event 50, rotation [2] at 51) and
    recovers (event 70, rotation [2;3] at 71). *)
Import C01restore.

Example restart_trace_rot_ok : c09_rot_ok restart_trace = true /\ accepted restart_trace = true.
Proof. split; vm_compute; reflexivity. Qed.

Example restart_trace_rot_content :
  at_ restart_trace 50 (KProbeApply 3 false THealthy TUnhealthy) /\
  at_ restart_trace 51 (KRotation 1 [2]) /\
  at_ restart_trace 70 (KProbeApply 3 true TUnhealthy THealthy) /\
  at_ restart_trace 71 (KRotation 1 [2; 3]) /\
  replayed_targets (firstn 71 restart_trace) 1 = Some [2; 3] /\
  replayed_state (firstn 51 restart_trace) 3 = Some TUnhealthy /\
  replayed_state (firstn 71 restart_trace) 3 = Some THealthy /\
  (* picks between the two rebuilds, and after the second *)
  claims_of 1 (firstn 19 (skipn 52 restart_trace)) = [2; 2; 2] /\
  existsb (is_rot 1) (firstn 19 (skipn 52 restart_trace)) = false /\
  claims_of 1 (skipn 72 restart_trace) = [3; 2; 3] /\
  existsb (is_rot 1) (skipn 72 restart_trace) = false.
Proof.
  repeat split; try (eexists; split; reflexivity); vm_compute; reflexivity.
Qed.

(** [c09_fair_over_healthy_targets] applied to it: after the rebuild at event 71 (k = 2 healthy targets),
    the n = 3 picks that follow give target 2 one and target 3 two (floor(3/2) = 1, ceil(3/2) = 2). *)
Example restart_trace_fair_instance :
  let A := firstn 71 restart_trace in let seg := skipn 72 restart_trace in
  exists ts, replayed_targets A 1 = Some ts /\ ts = [2; 3] /\ filter (replayed_healthy A) ts = [2; 3] /\
    forall t, In t ts ->
      3 / 2 <= count_occ Nat.eq_dec (claims_of 1 seg) t <= (3 + 2 - 1) / 2.
Proof.
  cbv zeta.
  assert (Hacc : exists s, run step init (firstn 71 restart_trace ++ mkEv 3000000000 (AGo 13) (KRotation 1 [2; 3]) :: skipn 72 restart_trace) = Some s).
  { destruct (run step init (firstn 71 restart_trace ++ mkEv 3000000000 (AGo 13) (KRotation 1 [2; 3]) :: skipn 72 restart_trace)) as [s|] eqn:E.
    - eauto.
    - vm_compute in E. discriminate E. }
  destruct Hacc as [s Hs].
  destruct (c09_fair_over_healthy_targets _ _ _ _ 1 [2; 3] Hs eq_refl ltac:(vm_compute; reflexivity)) as [ts [Hts [Hf [Hfair _]]]].
  assert (Ets : ts = [2; 3]) by (vm_compute in Hts; inversion Hts; reflexivity).
  exists ts. split; [exact Hts|]. split; [exact Ets|]. split; [now rewrite <- Hf|].
  intros t Hin. rewrite <- Hf in Hfair. cbv zeta in Hfair.
  replace (length (claims_of 1 (skipn 72 restart_trace))) with 3 in Hfair by (vm_compute; reflexivity).
  change (length [2; 3]) with 2 in Hfair. apply Hfair; [exact Hin|].
  subst ts. destruct Hin as [<-|[<-|[]]]; vm_compute; reflexivity.
Qed.

(** Doctored copies: the recovered target left out of the rebuilt rotation; a target listed twice;
    the targets in the wrong order.  The monitor and the acceptor both reject them, at the doctored event. *)
Definition rot_left_out : trace := set_nth 71 (mkEv 3000000000 (AGo 13) (KRotation 1 [2])) restart_trace.
Definition rot_twice : trace := set_nth 71 (mkEv 3000000000 (AGo 13) (KRotation 1 [2; 3; 3])) restart_trace.
Definition rot_order : trace := set_nth 71 (mkEv 3000000000 (AGo 13) (KRotation 1 [3; 2])) restart_trace.

Example doctored_left_out :
  c09_rot_ok rot_left_out = false /\ accepted rot_left_out = false /\
  c09_rot_fail_at rot_left_out = Some 71 /\ reject_at rot_left_out = Some 71.
Proof. repeat split; vm_compute; reflexivity. Qed.

Example doctored_twice :
  c09_rot_ok rot_twice = false /\ accepted rot_twice = false /\
  c09_rot_fail_at rot_twice = Some 71 /\ reject_at rot_twice = Some 71.
Proof. repeat split; vm_compute; reflexivity. Qed.

Example doctored_order :
  c09_rot_ok rot_order = false /\ accepted rot_order = false /\
  c09_rot_fail_at rot_order = Some 71 /\ reject_at rot_order = Some 71.
Proof. repeat split; vm_compute; reflexivity. Qed.

(** The sister monitor [c09_ok] (no target with a failed latest probe in a rebuilt rotation) does not see
    the omission at the rebuild itself: it accepts the doctored trace up to and including event 71. *)
Example doctored_left_out_c09_ok_prefix :
  c09_ok (firstn 72 rot_left_out) = true /\ c09_rot_ok (firstn 72 rot_left_out) = false.
Proof. split; vm_compute; reflexivity. Qed.
