(** C01 — Traffic moves to new targets only after all of them pass a health probe.

    The theorems are about EVERY event trace accepted by the load-balancer
    acceptor model/M5lb.v ([run step init tr = Some s]): any length, any number
    of targets, requests and commands, any interleaving.  That the real code
    only produces accepted traces is the correspondence obligation of
    tools/c01.py (corr/C01corr.v).  [at_ tr i k]: event number [i] of [tr] has
    kind [k].

    A probe result is reported as successful ([KProbeApply t true _ _]) only
    when the target answered the probe with a 2xx status within the probe
    timeout (health_check.go:76-109; tools/c01.py compares every applied verdict
    with the scripted answer).

    Restarts are inside the acceptor: a service restored from the state file
    ([KRestored sv act roll], Router.RestoreLastSavedState) brings balancers
    whose targets were made healthy without a probe ("presumed healthy until
    their first probe").  That is the one licence besides a succeeded deploy
    wait, and the first theorem says so with an explicit second disjunct; the
    restore rule and what it can never touch (balancers created by commands,
    deploy waits, slot updates) are the theorems of props/C01restore.v.
    [names act roll lb]: [act = Some lb \/ roll = Some lb]. *)
From KP Require Import model.Base model.Trace model.M5lb proofs.M5lbFacts proofs.M5lbHist proofs.M5lbC01 proofs.M5lbC09
  corr.C01corr corr.C09corr proofs.M5lbMon proofs.M5lbRestore.
Local Open Scope nat_scope.

(** If a client request is forwarded to target [t] (KClaim), and [t] was created
    with the targets [ts] of balancer [lb] (KLbNew), then that creation came
    first, and
    EITHER every target of [ts] has had a successful probe result applied
    before, and the deploy's wait on [lb] had ended successfully before,
    OR [lb] was put into service by an earlier [KRestored] event (a restart) —
    and then [lb] was created by an actor that is not a command, every target
    of [ts] was made healthy by the restore (adding->healthy without a probe)
    before that event, its rotation at that event was [ts], and no deploy ever
    waits on [lb] or gives it a slot (so the second case never concerns a
    balancer of a deploy: [c01r_cmd_balancer_never_restored]). *)
Theorem c01_forward_after_all_probes : forall tr s i t r jn lb ts,
  run step init tr = Some s -> at_ tr i (KClaim t r) -> at_ tr jn (KLbNew lb ts) -> In t ts ->
  jn < i /\
  (((forall t', In t' ts -> exists j prev new, j < i /\ at_ tr j (KProbeApply t' true prev new)) /\
    (exists j, j < i /\ at_ tr j (KDeployWaited lb true)))
   \/
   (exists j sv act roll, jn < j /\ j < i /\ at_ tr j (KRestored sv act roll) /\ names act roll lb /\
      (forall e, nth_error tr jn = Some e -> cmd_of (e_by e) = None) /\
      (forall t', In t' ts -> exists j', j' < j /\ at_ tr j' (KStateSet t' TAdding THealthy)) /\
      last_rot (firstn j tr) lb = ts /\
      (forall k v, ~ at_ tr k (KDeployWaited lb v)) /\
      (forall k sv' sl rep, ~ at_ tr k (KSlot sv' sl lb rep)))).
Proof. exact forward_after_all_probes_or_restored. Qed.
Print Assumptions c01_forward_after_all_probes.

(** For a balancer created by a command (a deploy) the restore disjunct is impossible: the
    original statement holds unchanged. *)
Theorem c01_forward_after_all_probes_deploy : forall tr s i t r jn tm c lb ts,
  run step init tr = Some s -> at_ tr i (KClaim t r) ->
  nth_error tr jn = Some (mkEv tm (ACmd c) (KLbNew lb ts)) -> In t ts ->
  jn < i /\
  (forall t', In t' ts -> exists j prev new, j < i /\ at_ tr j (KProbeApply t' true prev new)) /\
  (exists j, j < i /\ at_ tr j (KDeployWaited lb true)).
Proof. exact forward_after_all_probes_deploy. Qed.
Print Assumptions c01_forward_after_all_probes_deploy.

(** If the wait of a deploy fails ([KDeployWaited lb false] anywhere in the
    trace), then nowhere in the trace — before or after — is [lb] put into a
    service slot, picked for a request, or one of its targets handed a request. *)
Theorem c01_failed_deploy_inert : forall tr s i lb,
  run step init tr = Some s -> at_ tr i (KDeployWaited lb false) ->
  (forall j sv sl rep, ~ at_ tr j (KSlot sv sl lb rep)) /\
  (forall j r sv, ~ at_ tr j (KPick r sv (Some lb))) /\
  (forall j jn ts t r, at_ tr jn (KLbNew lb ts) -> In t ts -> ~ at_ tr j (KClaim t r)).
Proof. exact failed_deploy_inert. Qed.
Print Assumptions c01_failed_deploy_inert.

(** ... the command returns "unhealthy" ([CRErr 2]), and from the creation of
    its balancer to its return none of the command's own steps changes the
    routing view of the model state ([routing]: the installed service objects
    with their names and their active / rollout slots): the service keeps the
    targets it had, or stays absent if it was new.  (Other commands running
    concurrently may of course change it.) *)
Theorem c01_failed_deploy_routing : forall tr s ia i k c lb ts r tm1 tm2,
  run step init tr = Some s ->
  nth_error tr ia = Some (mkEv tm1 (ACmd c) (KLbNew lb ts)) ->
  nth_error tr i = Some (mkEv tm2 (ACmd c) (KDeployWaited lb false)) ->
  at_ tr k (KReturn c r) -> i < k ->
  ia < i /\ r = CRErr err_unhealthy /\
  forall m e sm sm', ia <= m < k -> nth_error tr m = Some e -> e_by e = ACmd c ->
    run step init (firstn m tr) = Some sm -> step sm e = Some sm' -> routing sm' = routing sm.
Proof. exact failed_deploy_routing. Qed.
Print Assumptions c01_failed_deploy_routing.

(** The wait succeeds only if every target was released, which (D1's repair)
    happens only after the goroutine whose probe took the target from "adding"
    to "healthy" has rebuilt the rotation of [lb] with the target in it. *)
Theorem c01_waited_iff : forall tr s i jn lb ts,
  run step init tr = Some s -> at_ tr i (KDeployWaited lb true) -> at_ tr jn (KLbNew lb ts) ->
  forall t, In t ts ->
  exists p j e1 e2 hs, p < j /\ j < i /\ nth_error tr p = Some e1 /\ nth_error tr j = Some e2 /\
    e_k e1 = KProbeApply t true TAdding THealthy /\ e_k e2 = KRotation lb hs /\ In t hs /\ e_by e1 = e_by e2.
Proof. exact waited_only_if_signalled. Qed.
Print Assumptions c01_waited_iff.

(** A waiter gives up ([KWaiter t false]) only at the deadline of its balancer
    (creation time + deploy timeout of the command).  The timing model proper
    (that the deadline is reached, urgency) belongs to C17. *)
Theorem c01_waiter_gives_up_at_deadline : forall s tm a t s',
  step s (mkEv tm a (KWaiter t false)) = Some s' ->
  exists x, nget (tgts s) t = Some x /\
    forall b d, nget (bals s) (t_lb x) = Some b -> b_deadline b = Some d -> tm = d.
Proof. exact step_waiter_false. Qed.
Print Assumptions c01_waiter_gives_up_at_deadline.

(** Every accepted trace satisfies the monitor of corr/C01corr.v. *)
Theorem c01_accepted_monitor : forall tr, accepted tr = true -> c01_ok tr = true.
Proof. exact accepted_c01_ok. Qed.
Print Assumptions c01_accepted_monitor.

(** ** The pinned signal order (defect D1, repaired by 7918930) is refuted

    With the waiter released at the probe result itself ([step_pinned]) this
    trace is accepted: no probe ever fails, yet the service slot is updated and
    the service installed while the rotation of the new balancer is still empty,
    and the request that arrives then finds no target (503).  The repaired order
    ([step]) rejects it. *)
Definition pinned_witness : trace :=
  [mkEv 0 (ACmd 1) (KIssue 1 CkDeploy [x77;x65;x62]);
   mkEv 0 (ACmd 1) (KParams 1 3000000000 1000000000 0);
   mkEv 0 (ACmd 1) (KLbNew 0 [0]);
   mkEv 0 AEnv (KSvcName 0 [x77;x65;x62]);
   mkEv 0 (ACmd 1) (KDeployLb 0 false 0);
   mkEv 0 (AGo 6) (KProbeApply 0 true TAdding THealthy);
   mkEv 0 (AGo 7) (KWaiter 0 true);
   mkEv 0 (ACmd 1) (KDeployWaited 0 true);
   mkEv 0 (ACmd 1) (KSlot 0 false 0 None);
   mkEv 0 (ACmd 1) (KInstall 0 true);
   mkEv 0 (AReq 1) (KRouted 1 (Some 0));
   mkEv 0 (AReq 1) (KPick 1 0 (Some 0));
   mkEv 0 (AReq 1) (KLbClaim 0 None 1);
   mkEv 0 (AGo 6) (KRotation 0 [0])].

Definition no_failing_probe (tr : trace) : bool :=
  forallb (fun e => match e_k e with KProbeApply _ false _ _ => false | _ => true end) tr.

Theorem c01_refuted_pinned_signal_order :
  exists tr i sv sl lb rep r j,
    (exists s, run step_pinned init tr = Some s) /\ run step init tr = None /\ no_failing_probe tr = true /\
    at_ tr i (KSlot sv sl lb rep) /\ last_rot (firstn i tr) lb = [] /\
    i < j /\ at_ tr j (KLbClaim lb None r).
Proof.
  exists pinned_witness, 8, 0, false, 0, None, 1, 12.
  split; [vm_compute; eexists; reflexivity|].
  split; [vm_compute; reflexivity|].
  split; [vm_compute; reflexivity|].
  split; [eexists; split; reflexivity|].
  split; [vm_compute; reflexivity|].
  split; [lia|].
  eexists; split; reflexivity.
Qed.
Print Assumptions c01_refuted_pinned_signal_order.

(** ** Non-vacuity: a real trace

    Recorded from the real code by the harness (tools/m5.py; scenario: deploy
    "web" with two targets, one of them refusing its first probe; two requests;
    a redeploy with a target answering 503 that fails after 1.5 s while requests
    keep arriving; a third deploy with two targets; three requests).  Events the
    view ignores (snapshots, pause gate, arrivals, responses) are left out: 91 of
    159 events. *)
Definition real_trace : trace :=
[mkEv 0 (ACmd 1) (KIssue 1 CkDeploy [x77;x65;x62]);
 mkEv 0 (ACmd 1) (KParams 1 3000000000 1000000000 0);
 mkEv 0 AEnv (KTargetName 0 [x6e;x30;x3a;x38;x30]);
 mkEv 0 AEnv (KTargetName 1 [x6e;x31;x3a;x38;x30]);
 mkEv 0 (ACmd 1) (KLbNew 0 [0;1]);
 mkEv 0 AEnv (KSvcName 0 [x77;x65;x62]);
 mkEv 0 (ACmd 1) (KDeployLb 0 false 0);
 mkEv 0 (AGo 6) (KProbeApply 0 true TAdding THealthy);
 mkEv 0 (AGo 6) (KRotation 0 [0]);
 mkEv 0 (AGo 7) (KProbeApply 1 false TAdding TAdding);
 mkEv 0 (AGo 8) (KWaiter 0 true);
 mkEv 1000000000 (AGo 7) (KProbeApply 1 true TAdding THealthy);
 mkEv 1000000000 (AGo 7) (KRotation 0 [0;1]);
 mkEv 1000000000 (AGo 9) (KWaiter 1 true);
 mkEv 1000000000 (ACmd 1) (KDeployWaited 0 true);
 mkEv 1000000000 (ACmd 1) (KSlot 0 false 0 None);
 mkEv 1000000000 (ACmd 1) (KInstall 0 true);
 mkEv 1000000000 (ACmd 1) (KReturn 1 CROk);
 mkEv 1000000000 (AReq 1) (KRouted 1 (Some 0));
 mkEv 1000000000 (AReq 1) (KPick 1 0 (Some 0));
 mkEv 1000000000 (AReq 1) (KLbClaim 0 (Some 1) 1);
 mkEv 1000000000 (AReq 1) (KClaim 1 1);
 mkEv 1000000000 (AReq 1) (KEnd 1 1);
 mkEv 1000000000 (AGo 6) (KProbeApply 0 true THealthy THealthy);
 mkEv 1000000000 (AReq 2) (KRouted 2 (Some 0));
 mkEv 1000000000 (AReq 2) (KPick 2 0 (Some 0));
 mkEv 1000000000 (AReq 2) (KLbClaim 0 (Some 0) 2);
 mkEv 1000000000 (AReq 2) (KClaim 0 2);
 mkEv 1000000000 (AReq 2) (KEnd 0 2);
 mkEv 1000000000 (ACmd 2) (KIssue 2 CkDeploy [x77;x65;x62]);
 mkEv 1000000000 (ACmd 2) (KParams 2 1500000000 1000000000 0);
 mkEv 1000000000 AEnv (KSvcName 1 [x77;x65;x62]);
 mkEv 1000000000 (ACmd 2) (KSvcCopy 0 1);
 mkEv 1000000000 AEnv (KTargetName 2 [x6e;x32;x3a;x38;x30]);
 mkEv 1000000000 AEnv (KTargetName 3 [x6e;x33;x3a;x38;x30]);
 mkEv 1000000000 (ACmd 2) (KLbNew 1 [2;3]);
 mkEv 1000000000 (ACmd 2) (KDeployLb 1 false 1);
 mkEv 1000000000 (AGo 13) (KProbeApply 2 true TAdding THealthy);
 mkEv 1000000000 (AGo 13) (KRotation 1 [2]);
 mkEv 1000000000 (AGo 14) (KProbeApply 3 false TAdding TAdding);
 mkEv 1000000000 (AGo 15) (KWaiter 2 true);
 mkEv 1500000000 (AReq 3) (KRouted 3 (Some 0));
 mkEv 1500000000 (AReq 3) (KPick 3 0 (Some 0));
 mkEv 1500000000 (AReq 3) (KLbClaim 0 (Some 1) 3);
 mkEv 1500000000 (AReq 3) (KClaim 1 3);
 mkEv 1500000000 (AReq 3) (KEnd 1 3);
 mkEv 2000000000 (AGo 6) (KProbeApply 0 true THealthy THealthy);
 mkEv 2000000000 (AGo 13) (KProbeApply 2 true THealthy THealthy);
 mkEv 2000000000 (AGo 7) (KProbeApply 1 true THealthy THealthy);
 mkEv 2000000000 (AGo 14) (KProbeApply 3 false TAdding TAdding);
 mkEv 2500000000 (AGo 16) (KWaiter 3 false);
 mkEv 2500000000 (AGo 16) (KProbeStop 3);
 mkEv 2500000000 (ACmd 2) (KDeployWaited 1 false);
 mkEv 2500000000 (ACmd 2) (KLbDispose 1);
 mkEv 2500000000 (ACmd 2) (KProbeStop 2);
 mkEv 2500000000 (ACmd 2) (KReturn 2 (CRErr 2));
 mkEv 2700000000 (AReq 4) (KRouted 4 (Some 0));
 mkEv 2700000000 (AReq 4) (KPick 4 0 (Some 0));
 mkEv 2700000000 (AReq 4) (KLbClaim 0 (Some 0) 4);
 mkEv 2700000000 (AReq 4) (KClaim 0 4);
 mkEv 2700000000 (AReq 4) (KEnd 0 4);
 mkEv 2700000000 (ACmd 3) (KIssue 3 CkDeploy [x77;x65;x62]);
 mkEv 2700000000 (ACmd 3) (KParams 3 2000000000 1000000000 0);
 mkEv 2700000000 AEnv (KSvcName 2 [x77;x65;x62]);
 mkEv 2700000000 (ACmd 3) (KSvcCopy 0 2);
 mkEv 2700000000 AEnv (KTargetName 4 [x6e;x34;x3a;x38;x30]);
 mkEv 2700000000 AEnv (KTargetName 5 [x6e;x35;x3a;x38;x30]);
 mkEv 2700000000 (ACmd 3) (KLbNew 2 [4;5]);
 mkEv 2700000000 (ACmd 3) (KDeployLb 2 false 2);
 mkEv 2700000000 (AGo 36) (KProbeApply 4 true TAdding THealthy);
 mkEv 2700000000 (AGo 36) (KRotation 2 [4]);
 mkEv 2700000000 (AGo 37) (KProbeApply 5 true TAdding THealthy);
 mkEv 2700000000 (AGo 37) (KRotation 2 [4;5]);
 mkEv 2700000000 (AGo 39) (KWaiter 5 true);
 mkEv 2700000000 (AGo 38) (KWaiter 4 true);
 mkEv 2700000000 (ACmd 3) (KDeployWaited 2 true);
 mkEv 2700000000 (ACmd 3) (KSlot 2 false 2 (Some 0));
 mkEv 2700000000 (ACmd 3) (KInstall 2 true);
 mkEv 2700000000 (AGo 41) (KStateSet 1 THealthy TDraining);
 mkEv 2700000000 (AGo 41) (KStateSet 1 TDraining THealthy);
 mkEv 2700000000 (AGo 40) (KStateSet 0 THealthy TDraining);
 mkEv 2700000000 (AGo 40) (KStateSet 0 TDraining THealthy);
 mkEv 2700000000 (ACmd 3) (KLbDispose 0);
 mkEv 2700000000 (ACmd 3) (KProbeStop 0);
 mkEv 2700000000 (ACmd 3) (KProbeStop 1);
 mkEv 2700000000 (ACmd 3) (KReturn 3 CROk);
 mkEv 2700000000 (AReq 5) (KRouted 5 (Some 2));
 mkEv 2700000000 (AReq 5) (KPick 5 2 (Some 2));
 mkEv 2700000000 (AReq 5) (KLbClaim 2 (Some 5) 5);
 mkEv 2700000000 (AReq 5) (KClaim 5 5);
 mkEv 2700000000 (AReq 5) (KEnd 5 5);
 mkEv 2700000000 (AReq 6) (KRouted 6 (Some 2));
 mkEv 2700000000 (AReq 6) (KPick 6 2 (Some 2));
 mkEv 2700000000 (AReq 6) (KLbClaim 2 (Some 4) 6);
 mkEv 2700000000 (AReq 6) (KClaim 4 6);
 mkEv 2700000000 (AReq 6) (KEnd 4 6);
 mkEv 2700000000 (AReq 7) (KRouted 7 (Some 2));
 mkEv 2700000000 (AReq 7) (KPick 7 2 (Some 2));
 mkEv 2700000000 (AReq 7) (KLbClaim 2 (Some 5) 7);
 mkEv 2700000000 (AReq 7) (KClaim 5 7);
 mkEv 2700000000 (AReq 7) (KEnd 5 7);
 mkEv 2900000000 (AGo 5) (KProbeStop 4);
 mkEv 2900000000 (AGo 5) (KProbeStop 5)].

Example real_trace_accepted : accepted real_trace = true.
Proof. vm_compute. reflexivity. Qed.

Example real_trace_monitor : c01_ok real_trace = true /\ c01_deadline_ok true real_trace = true.
Proof. split; vm_compute; reflexivity. Qed.

(** the hypotheses of the theorems are met by it: requests are forwarded to targets of
    two-target balancers, one wait fails, the failing command returns *)
Example real_trace_has_claims :
  (exists i r, at_ real_trace i (KClaim 1 r) /\ exists jn, at_ real_trace jn (KLbNew 0 [0; 1])) /\
  (exists i, at_ real_trace i (KDeployWaited 1 false)) /\
  (exists i, at_ real_trace i (KDeployWaited 0 true)) /\
  (exists i prev, at_ real_trace i (KProbeApply 3 false prev prev)).
Proof.
  repeat split.
  - exists 21, 1. split; [eexists; split; reflexivity|]. exists 4. eexists; split; reflexivity.
  - exists 52. eexists; split; reflexivity.
  - exists 14. eexists; split; reflexivity.
  - exists 39, TAdding. eexists; split; reflexivity.
Qed.

(** Doctored copies of the real trace are rejected. *)
Fixpoint drop_nth {A} (n : nat) (l : list A) : list A :=
  match l, n with
  | [], _ => []
  | _ :: r, 0 => r
  | x :: r, S n' => x :: drop_nth n' r
  end.
Fixpoint set_nth {A} (n : nat) (v : A) (l : list A) : list A :=
  match l, n with
  | [], _ => []
  | _ :: r, 0 => v :: r
  | x :: r, S n' => x :: set_nth n' v r
  end.

(** (a) the successful probe result of target 1 is dropped *)
Example doctored_drop_probe_apply : accepted (drop_nth 11 real_trace) = false.
Proof. vm_compute. reflexivity. Qed.

(** (b) the targets of the first two picks are swapped *)
Example doctored_swap_claims :
  accepted (set_nth 20 (mkEv 1000000000 (AReq 1) (KLbClaim 0 (Some 0) 1))
           (set_nth 21 (mkEv 1000000000 (AReq 1) (KClaim 0 1))
           (set_nth 26 (mkEv 1000000000 (AReq 2) (KLbClaim 0 (Some 1) 2))
           (set_nth 27 (mkEv 1000000000 (AReq 2) (KClaim 1 2)) real_trace)))) = false.
Proof. vm_compute. reflexivity. Qed.

(** (c) a request is claimed by a target that is not in the rotation (target 3 of the failing deploy) *)
Example doctored_claim_outside_rotation :
  accepted (set_nth 44 (mkEv 1500000000 (AReq 3) (KClaim 3 3)) real_trace) = false.
Proof. vm_compute. reflexivity. Qed.
