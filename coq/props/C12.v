(** C12 — The state file is always one complete, current snapshot.
    Only statements; proofs are in proofs/SnapFacts.v, over the snapshot view
    model/M5snap.v of the event traces (model/Trace.v).

    Reading guide.  [snap_run v tr = Some s]: the trace [tr] is a behaviour of
    the model of tree [v] ([Pinned]: saveStateSnapshot as given; [Repaired]:
    fixes/C12-atomic-snapshot.patch) and leaves the view in state [s].  Every
    prefix of an accepted trace is an accepted trace, so a theorem about all
    accepted traces is a theorem about every crash point of every schedule of
    any number of overlapping commands.  [s_live s] is what a process killed
    there leaves on disk, [restored] what the next start serves, [s_cfg s] the
    configuration in force, [s_cmds s] the commands issued and not returned,
    [wstart s] the instant the oldest of them was issued.  A snapshot content
    is [mkCfg set objs]: the service objects found in the map at collect time
    and the state those objects were in at write time. *)
From KP Require Import model.Base model.Trace model.M5snap corr.C12corr proofs.SnapFacts proofs.SnapFsFacts.

(** ** The tree as given (D7) *)

(** real trace, shortened to the events the view reads: `deploy web`, then
    `pause web` killed between os.Create and Encode *)
Definition tr_pinned_truncate : trace :=
 [mkEv 0 (ACmd 0) (KIssue 0 CkDeploy [x77;x65;x62]);
  mkEv 0 AEnv (KSvcName 0 [x77;x65;x62]);
  mkEv 0 (ACmd 0) (KSlot 0 false 0 None);
  mkEv 0 (ACmd 0) (KInstall 0 true);
  mkEv 0 (ACmd 0) (KSnapCollect [0]);
  mkEv 0 (ACmd 0) (KSnapCreate);
  mkEv 0 (ACmd 0) (KSnapWrite);
  mkEv 0 (ACmd 0) (KReturn 0 CROk);
  mkEv 0 (ACmd 1) (KIssue 1 CkPause [x77;x65;x62]);
  mkEv 0 (ACmd 1) (KGateSet 0 GPaused (Some 0));
  mkEv 0 (ACmd 1) (KSnapCollect [0]);
  mkEv 0 (ACmd 1) (KSnapCreate)].

(** A crash between create and write: the next start serves nothing, although
    a non-empty configuration was in force when the only command in progress
    was issued, and one is in force at the crash. *)
Theorem c12_refuted_pinned_truncate : exists tr s x g0,
  snap_run Pinned tr = Some s /\ s_cmds s = [x] /\
  restored (s_live s) = Some [] /\
  cfg_at Pinned tr (c_t0 x) = Some g0 /\ g_set g0 <> [] /\ g_set (s_cfg s) <> [].
Proof.
  exists tr_pinned_truncate. eexists. eexists. eexists.
  split; [vm_compute; reflexivity|]. split; [reflexivity|]. split; [reflexivity|].
  split; [vm_compute; reflexivity|]. split; discriminate.
Qed.
Print Assumptions c12_refuted_pinned_truncate.

(** real trace: `pause web` collects, `deploy api` runs to completion, then the
    pause writes what it collected *)
Definition tr_pinned_stale : trace :=
 [mkEv 0 (ACmd 0) (KIssue 0 CkDeploy [x77;x65;x62]);
  mkEv 0 AEnv (KSvcName 0 [x77;x65;x62]);
  mkEv 0 (ACmd 0) (KSlot 0 false 0 None);
  mkEv 0 (ACmd 0) (KInstall 0 true);
  mkEv 0 (ACmd 0) (KSnapCollect [0]);
  mkEv 0 (ACmd 0) (KSnapCreate);
  mkEv 0 (ACmd 0) (KSnapWrite);
  mkEv 0 (ACmd 0) (KReturn 0 CROk);
  mkEv 0 (ACmd 1) (KIssue 1 CkPause [x77;x65;x62]);
  mkEv 0 (ACmd 1) (KGateSet 0 GPaused (Some 0));
  mkEv 0 (ACmd 1) (KSnapCollect [0]);
  mkEv 0 (ACmd 2) (KIssue 2 CkDeploy [x61;x70;x69]);
  mkEv 0 AEnv (KSvcName 1 [x61;x70;x69]);
  mkEv 0 (ACmd 2) (KSlot 1 false 1 None);
  mkEv 0 (ACmd 2) (KInstall 1 true);
  mkEv 0 (ACmd 2) (KSnapCollect [0;1]);
  mkEv 0 (ACmd 2) (KSnapCreate);
  mkEv 0 (ACmd 2) (KSnapWrite);
  mkEv 0 (ACmd 2) (KReturn 2 CROk);
  mkEv 0 (ACmd 1) (KSnapCreate);
  mkEv 0 (ACmd 1) (KSnapWrite);
  mkEv 0 (ACmd 1) (KReturn 1 CROk)].

(** Two overlapping commands, both returned: the file is one complete
    snapshot but not of the configuration in force (the service deployed by
    the second command is missing; a restart loses it). *)
Theorem c12_refuted_pinned_stale : exists tr s y,
  snap_run Pinned tr = Some s /\ s_cmds s = [] /\
  s_live s = DFile y /\ y <> s_cfg s /\ restored (s_live s) <> Some (g_set (s_cfg s)).
Proof.
  exists tr_pinned_stale. eexists. eexists.
  split; [vm_compute; reflexivity|]. split; [reflexivity|]. split; [reflexivity|].
  split; discriminate.
Qed.
Print Assumptions c12_refuted_pinned_stale.

(** ** The repaired tree *)

(** At every crash point the state file is absent only if no snapshot was ever
    completed; otherwise it is exactly the content of a completed snapshot:
    the service objects that were installed at an instant [i] and the state
    they were in at an instant [j], with [i <= j], both between the start of
    the oldest command still in progress and the crash.  It is never empty,
    truncated or mixed. *)
Theorem c12_crash_atomic : forall tr s, snap_run Repaired tr = Some s ->
  match s_live s with
  | DAbsent => s_done s = []
  | DFile x =>
    In x (s_done s) /\
    exists i j si sj, wstart s <= i /\ i <= j /\ j <= length tr /\
      snap_run Repaired (firstn i tr) = Some si /\ snap_run Repaired (firstn j tr) = Some sj /\
      x = mkCfg (g_set (s_cfg si)) (g_objs (s_cfg sj))
  | DTrunc | DTorn => False
  end.
Proof. exact crash_atomic. Qed.
Print Assumptions c12_crash_atomic.

(** the same, spelled out for every prefix of an accepted trace *)
Theorem c12_crash_atomic_every_prefix : forall tr s k, snap_run Repaired tr = Some s ->
  exists sk, snap_run Repaired (firstn k tr) = Some sk /\
  match s_live sk with
  | DAbsent => s_done sk = []
  | DFile x =>
    In x (s_done sk) /\
    exists i j si sj, wstart sk <= i /\ i <= j /\ j <= length (firstn k tr) /\
      snap_run Repaired (firstn i tr) = Some si /\ snap_run Repaired (firstn j tr) = Some sj /\
      x = mkCfg (g_set (s_cfg si)) (g_objs (s_cfg sj))
  | DTrunc | DTorn => False
  end.
Proof. exact crash_atomic_prefix. Qed.
Print Assumptions c12_crash_atomic_every_prefix.

(** The two instants are one — the file is the configuration that was in
    force at an instant of the window — whenever not both the set of installed
    services and the state of a service changed between them. *)
Theorem c12_crash_atomic_instant_partial : forall tr s y,
  snap_run Repaired tr = Some s -> s_live s = DFile y ->
  exists i j si sj, wstart s <= i /\ i <= j /\ j <= length tr /\
    snap_run Repaired (firstn i tr) = Some si /\ snap_run Repaired (firstn j tr) = Some sj /\
    ((forall t c, i <= t < j -> ~ changed_at tr t c ChSet) -> y = s_cfg sj) /\
    ((forall t c, i <= t < j -> ~ changed_at tr t c ChObj) -> y = s_cfg si).
Proof. exact crash_atomic_instant. Qed.
Print Assumptions c12_crash_atomic_instant_partial.

(** Without that hypothesis it is false, with three overlapping commands
    (real trace of the repaired tree, shortened): `resume api` has collected
    {web, api} and waits; `remove web` and `stop api` change the configuration
    and queue for the snapshot mutex; the resume then writes {web, api
    stopped}, which was never in force ({web, api} -> {api} -> {api stopped}).
    It is what `stop api` before `remove web` would have given — the two
    commands overlap, either order is a legal one — and both commands still
    write their own snapshot before they return. *)
Definition tr_repaired_hybrid : trace :=
 [mkEv 0 (ACmd 0) (KIssue 0 CkDeploy [x77;x65;x62]);
  mkEv 0 AEnv (KSvcName 0 [x77;x65;x62]);
  mkEv 0 (ACmd 0) (KSlot 0 false 0 None);
  mkEv 0 (ACmd 0) (KInstall 0 true);
  mkEv 0 (ACmd 0) (KSnapCollect [0]);
  mkEv 0 (ACmd 0) (KSnapCreate);
  mkEv 0 (ACmd 0) (KSnapWrite);
  mkEv 0 (ACmd 0) (KSnapRename);
  mkEv 0 (ACmd 0) (KReturn 0 CROk);
  mkEv 0 (ACmd 1) (KIssue 1 CkDeploy [x61;x70;x69]);
  mkEv 0 AEnv (KSvcName 1 [x61;x70;x69]);
  mkEv 0 (ACmd 1) (KSlot 1 false 1 None);
  mkEv 0 (ACmd 1) (KInstall 1 true);
  mkEv 0 (ACmd 1) (KSnapCollect [0;1]);
  mkEv 0 (ACmd 1) (KSnapCreate);
  mkEv 0 (ACmd 1) (KSnapWrite);
  mkEv 0 (ACmd 1) (KSnapRename);
  mkEv 0 (ACmd 1) (KReturn 1 CROk);
  mkEv 0 (ACmd 2) (KIssue 2 CkResume [x61;x70;x69]);
  mkEv 0 (ACmd 2) (KGateSet 0 GRunning None);
  mkEv 0 (ACmd 2) (KSnapCollect [0;1]);
  mkEv 0 (ACmd 3) (KIssue 3 CkRemove [x77;x65;x62]);
  mkEv 0 (ACmd 3) (KRemoved 0);
  mkEv 0 (ACmd 4) (KIssue 4 CkStop [x61;x70;x69]);
  mkEv 0 (ACmd 4) (KGateSet 0 GStopped None);
  mkEv 0 (ACmd 2) (KSnapCreate);
  mkEv 0 (ACmd 2) (KSnapWrite);
  mkEv 0 (ACmd 2) (KSnapRename)].

Theorem c12_crash_atomic_instant_refuted : exists tr s y,
  snap_run Repaired tr = Some s /\ s_live s = DFile y /\ length (s_cmds s) = 3 /\
  forall k, k <= length tr -> cfg_at Repaired tr k <> Some y.
Proof.
  exists tr_repaired_hybrid. eexists. eexists.
  split; [vm_compute; reflexivity|]. split; [reflexivity|]. split; [reflexivity|].
  intros k Hk. change (length tr_repaired_hybrid) with 28 in Hk.
  do 29 (destruct k as [|k]; [vm_compute; discriminate|]). lia.
Qed.
Print Assumptions c12_crash_atomic_instant_refuted.

(** A single command in progress, commands never overlapping: the file is the
    configuration from before the command or the one in force now — and a
    command makes no change after its snapshot (the view rejects it), so the
    latter is the configuration after the command. *)
Theorem c12_crash_atomic_single : forall tr s x y,
  snap_run Repaired tr = Some s -> one_at_a_time tr -> s_cmds s = [x] -> s_live s = DFile y ->
  (exists sb, snap_run Repaired (firstn (c_t0 x) tr) = Some sb /\ y = s_cfg sb) \/ y = s_cfg s.
Proof. exact single_command. Qed.
Print Assumptions c12_crash_atomic_single.

(** with overlapping commands: a file written before the oldest command in
    progress was issued is the configuration that was in force at that instant *)
Theorem c12_crash_atomic_before : forall tr s y, snap_run Repaired tr = Some s -> s_live s = DFile y ->
  snd (s_prov s) <= wstart s ->
  exists sw, snap_run Repaired (firstn (wstart s) tr) = Some sw /\ y = s_cfg sw.
Proof. exact before_window. Qed.
Print Assumptions c12_crash_atomic_before.

(** Whenever no command is in progress the file is the snapshot of the
    configuration in force (no file at all only while nothing was ever
    changed). *)
Theorem c12_current_after_return : forall tr s, snap_run Repaired tr = Some s -> s_cmds s = [] ->
  s_live s = DFile (s_cfg s) \/ (s_live s = DAbsent /\ s_cfg s = cfg0).
Proof. exact current_after_return. Qed.
Print Assumptions c12_current_after_return.

(** More: already when every command in progress has either changed nothing
    yet or has completed its own snapshot. *)
Theorem c12_current_when_saved : forall tr s, snap_run Repaired tr = Some s ->
  (forall x, In x (s_cmds s) -> c_st x = CFresh \/ (c_st x = CSaved /\ find_writer (s_writers s) (c_id x) = None)) ->
  s_live s = DFile (s_cfg s) \/ (s_live s = DAbsent /\ s_cfg s = cfg0).
Proof. exact current_when_saved. Qed.
Print Assumptions c12_current_when_saved.

(** Collect…rename sections do not interleave: at most one is open, and a
    snapshot step is accepted only from its owner; a collect only when none is
    open. *)
Theorem c12_serialised : forall tr s, snap_run Repaired tr = Some s -> length (s_writers s) <= 1.
Proof. exact serialised. Qed.
Print Assumptions c12_serialised.

Theorem c12_serialised_steps : forall tr e s s' c,
  snap_run Repaired tr = Some s -> snap_step Repaired s e = Some s' ->
  (exists svcs, read e = VCollect c svcs) \/ read e = VCreate c \/ read e = VWrite c \/ read e = VRename c ->
  forall w, In w (s_writers s) -> w_cmd w = c /\ s_writers s = [w] /\ (forall svcs, read e <> VCollect c svcs).
Proof. exact serialised_steps. Qed.
Print Assumptions c12_serialised_steps.

(** ** The state file at file-system granularity *)

(** In the repaired model the state file changes only by the rename step:
    never by a create/truncate, a write or a removal.  Its observable
    counterpart is the inotify monitor [c12_fs_ok] (corr/C12corr.v): after its
    first appearance the state file's name sees nothing but IN_MOVED_TO. *)
Theorem c12_live_changes_only_at_rename : forall s e s',
  snap_step Repaired s e = Some s' -> s_live s' <> s_live s -> exists c, read e = VRename c.
Proof. exact live_changes_only_at_rename. Qed.
Print Assumptions c12_live_changes_only_at_rename.

(** the directory events the model's steps stand for (temp file created,
    written, closed; renamed over the state file) satisfy that monitor, for
    every trace *)
Theorem c12_fs_monitor_of_model : forall tr, c12_fs_ok (fs_of_trace tr) = true.
Proof. exact fs_projection_ok. Qed.
Print Assumptions c12_fs_monitor_of_model.

(** non-vacuity of the monitor: remove-then-rename and truncate-in-place are refused *)
Example c12_fs_remove_then_rename_refused :
  c12_fs_failures [(FsCreate, FsTemp); (FsModify, FsTemp); (FsCloseWrite, FsTemp); (FsMovedFrom, FsTemp); (FsMovedTo, FsLive);
                   (FsCreate, FsTemp); (FsModify, FsTemp); (FsCloseWrite, FsTemp);
                   (FsDelete, FsLive); (FsMovedFrom, FsTemp); (FsMovedTo, FsLive)] = [8].
Proof. vm_compute. reflexivity. Qed.

Example c12_fs_truncate_in_place_refused :
  c12_fs_failures [(FsCreate, FsLive); (FsModify, FsLive); (FsModify, FsLive); (FsModify, FsLive)] = [1; 2; 3].
Proof. vm_compute. reflexivity. Qed.

(** ** Non-vacuity *)

(** real trace of the repaired tree (shortened): `pause web` parked after its
    collect, `deploy api` installs and waits for the snapshot mutex, the pause
    finishes, the deploy snapshots *)
Definition tr_repaired_pair : trace :=
 [mkEv 0 (ACmd 0) (KIssue 0 CkDeploy [x77;x65;x62]);
  mkEv 0 AEnv (KSvcName 0 [x77;x65;x62]);
  mkEv 0 (ACmd 0) (KSlot 0 false 0 None);
  mkEv 0 (ACmd 0) (KInstall 0 true);
  mkEv 0 (ACmd 0) (KSnapCollect [0]);
  mkEv 0 (ACmd 0) (KSnapCreate);
  mkEv 0 (ACmd 0) (KSnapWrite);
  mkEv 0 (ACmd 0) (KSnapRename);
  mkEv 0 (ACmd 0) (KReturn 0 CROk);
  mkEv 0 (ACmd 1) (KIssue 1 CkPause [x77;x65;x62]);
  mkEv 0 (ACmd 1) (KGateSet 0 GPaused (Some 0));
  mkEv 0 (ACmd 1) (KSnapCollect [0]);
  mkEv 0 (ACmd 2) (KIssue 2 CkDeploy [x61;x70;x69]);
  mkEv 0 AEnv (KSvcName 1 [x61;x70;x69]);
  mkEv 0 (ACmd 2) (KSlot 1 false 1 None);
  mkEv 0 (ACmd 2) (KInstall 1 true);
  mkEv 0 (ACmd 1) (KSnapCreate);
  mkEv 0 (ACmd 1) (KSnapWrite);
  mkEv 0 (ACmd 1) (KSnapRename);
  mkEv 0 (ACmd 1) (KReturn 1 CROk);
  mkEv 0 (ACmd 2) (KSnapCollect [0;1]);
  mkEv 0 (ACmd 2) (KSnapCreate);
  mkEv 0 (ACmd 2) (KSnapWrite);
  mkEv 0 (ACmd 2) (KSnapRename);
  mkEv 0 (ACmd 2) (KReturn 2 CROk)].

(** accepted; at the end the file is the configuration in force: both services *)
Example c12_pair_accepted :
  option_map (fun s => (s_live s, s_cmds s)) (snap_run Repaired tr_repaired_pair)
  = Some (DFile (mkCfg [0; 1] 3), []).
Proof. vm_compute. reflexivity. Qed.

(** two commands in progress, the pause inside its section, the deploy already
    installed: the file still is the configuration from before both *)
Example c12_pair_midway :
  option_map (fun s => (s_live s, s_cfg s, in_progress s, map w_cmd (s_writers s), s_temp s))
             (snap_run Repaired (firstn 18 tr_repaired_pair))
  = Some (DFile (mkCfg [0] 1), mkCfg [0; 1] 3, [1; 2], [1], Some (Some (mkCfg [0] 3))).
Proof. vm_compute. reflexivity. Qed.

(** the pinned schedule (the deploy's snapshot inside the pause's) is not a
    behaviour of the repaired model, nor is a command that returns without
    saving what it changed *)
Example c12_pinned_schedule_rejected : snap_run Repaired tr_pinned_stale = None.
Proof. vm_compute. reflexivity. Qed.

Example c12_unsaved_return_rejected :
  snap_run Repaired [mkEv 0 (ACmd 0) (KIssue 0 CkResume [x77]); mkEv 0 (ACmd 0) (KGateSet 0 GRunning None);
                     mkEv 0 (ACmd 0) (KReturn 0 CROk)] = None.
Proof. vm_compute. reflexivity. Qed.

(** the hybrid trace is accepted and every command's own snapshot follows *)
Example c12_hybrid_accepted :
  option_map (fun s => (s_live s, s_cfg s, in_progress s)) (snap_run Repaired tr_repaired_hybrid)
  = Some (DFile (mkCfg [0; 1] 4), mkCfg [1] 4, [2; 3; 4]).
Proof. vm_compute. reflexivity. Qed.
