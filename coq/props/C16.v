(** C16 — TLS policy: redirect, refuse, certificates only for bound hosts.
    Only statements, each closed by [exact]; proofs are in proofs/TlsFacts.v.

    Model: model/Seq.v ([serve]: the request policy; [sync_tls]: inheritance of
    the TLS flags; [init_check]: certificate manager creation) and model/Tls.v
    ([cert_for]: Router.GetCertificate with the static manager and autocert's
    name checks and host whitelist).

    Residue (not modelled, kept out of the correspondence inputs): requests
    under /.well-known/acme-challenge/ to a root-path service with automatic
    TLS are answered by autocert's HTTP-01 handler before any policy; the TLS
    handshake itself and the ACME exchange; IDNA beyond ASCII names. *)
From KP Require Import model.Base model.ServiceMap model.Seq model.Tls.
From KP Require Import proofs.ServiceMapFacts proofs.PauseFacts proofs.TlsFacts.

(** * Redirect *)

(** In EVERY state: a request without TLS routed to a service with TLS and
    redirect enabled is answered 301 to https:// + the host without its port +
    the request URI (escaped path and query as net/url renders them); that is
    the whole answer: nothing is forwarded. *)
Theorem c16_redirect : forall ig st q n prefix s,
  route (table_of (st_services st)) (q_host q) (q_path q) = Some (n, prefix) ->
  svc_get (st_services st) n = Some s ->
  o_tls (s_opts s) = true -> o_tls_redirect (s_opts s) = true -> q_tls q = false ->
  serve ig st q = R301 (https_prefix ++ redirect_host (q_host q) ++ q_uri q).
Proof. exact serve_redirect. Qed.

(** "The same host, port removed", for the four shapes of a Host header:
    host:port, host, [v6]:port, [v6]  ([plain]: no ':' '[' ']'). *)
Theorem c16_redirect_host : forall h a port,
  (h <> [] -> plain h -> plain port -> redirect_host (h ++ colon :: port) = h) /\
  (~ In colon h -> redirect_host h = h) /\
  (In colon a -> ~ In x5b a -> ~ In x5d a -> plain port ->
     redirect_host (x5b :: a ++ x5d :: colon :: port) = x5b :: a ++ [x5d]) /\
  (~ In x5d a -> redirect_host (x5b :: a ++ [x5d]) = x5b :: a ++ [x5d]).
Proof.
  intros h a port. split; [|split; [|split]].
  - exact (redirect_host_port h port).
  - exact (redirect_host_no_port h).
  - exact (redirect_host_ipv6_port a port).
  - exact (redirect_host_ipv6_no_port a).
Qed.

(** ... and as one statement: for EVERY well-formed Host header ([wf_host]:
    host, host:port, [v6], [v6]:port) the redirect names [host_without_port]. *)
Theorem c16_redirect_same_host : forall h, wf_host h = true -> redirect_host h = host_without_port h.
Proof. exact redirect_host_wf. Qed.

(** The tree as given (before /repo df49a20) lost the brackets of an IPv6
    literal: Host "[::1]:8080" was redirected to "https://::1/...". *)
Theorem c16_refuted_pinned_ipv6_redirect :
  redirect_host_pinned (bs "[::1]:8080") = bs "::1" /\
  redirect_host_pinned (bs "[::1]:8080") <> host_without_port (bs "[::1]:8080") /\
  redirect_host (bs "[::1]:8080") = bs "[::1]" /\
  host_without_port (bs "[::1]:8080") = bs "[::1]".
Proof. repeat split; try reflexivity. intros H; vm_compute in H; discriminate. Qed.

(** * Refusal *)

(** In EVERY state: a request that arrived over TLS, routed to a service
    without TLS, is answered 503. *)
Theorem c16_refuse : forall ig st q n prefix s,
  route (table_of (st_services st)) (q_host q) (q_path q) = Some (n, prefix) ->
  svc_get (st_services st) n = Some s ->
  o_tls (s_opts s) = false -> q_tls q = true ->
  serve ig st q = R503_tls.
Proof. exact serve_refuse. Qed.

(** * Certificates *)

(** In every reachable state (either variant): if GetCertificate does not fail
    for [sni], then the service routed for ([sni], "/") exists, lists the root
    path and has TLS enabled; a static certificate is served only when the
    service has one; with automatic TLS a certificate is served or requested
    only for a name that is one of the service's hosts up to ASCII letter case,
    and the domain asked for is that name in lower case (a trailing dot
    removed). *)
Theorem c16_cert_only_bound : forall v cs sni,
  let st := exec_all v init_state cs in
  cert_for st sni <> CRefuse ->
  exists n p s,
    service_for (table_of (st_services st)) sni root_path = Some (n, p) /\
    svc_get (st_services st) n = Some s /\
    serves_root s = true /\ o_tls (s_opts s) = true /\
    (cert_for st sni = CStatic -> o_cert (s_opts s) = CertGood) /\
    (forall d, cert_for st sni = CAuto d ->
       o_cert (s_opts s) = CertNone /\
       d = trim_suffix_dot (map to_lower sni) /\
       exists h, In h (o_hosts (s_opts s)) /\ map to_lower h = map to_lower sni).
Proof. exact cert_for_bound. Qed.

(** Automatic TLS is refused for wildcard hosts: a deploy with TLS, no static
    certificate, the root path listed and a host containing '*' fails with
    "automatic TLS does not support wildcards" and changes nothing (any state,
    either variant). *)
Theorem c16_acme_wildcard_refused : forall v st name o t targets,
  o_tls o = true -> o_cert o = CertNone ->
  mem_str root_path (o_prefixes (normalize o)) = true ->
  existsb (fun h => contains_byte h star) (o_hosts o) = true ->
  exec v st (Deploy name o t targets) = (Err EWildcardACME, st).
Proof. exact wildcard_acme_refused. Qed.

(** * Inheritance *)

(** After any history (deploys, redeploys, removes, restarts, ... in any
    order; either variant): every service that does not list "/" has the TLS
    and redirect flags of the root-path service found for its FIRST host
    ([inherited_flags]: that service's flags; when there is none: TLS off and
    redirect on, i.e. defaultServiceOptions — with TLS off the redirect flag
    has no effect). *)
Theorem c16_inherit : forall v cs s,
  let svcs := st_services (exec_all v init_state cs) in
  In s svcs -> serves_root s = false ->
  (o_tls (s_opts s), o_tls_redirect (s_opts s)) =
    match service_for (table_of svcs) (match o_hosts (s_opts s) with h :: _ => h | [] => [] end) root_path with
    | Some (n, _) => match svc_get svcs n with
                     | Some r => (o_tls (s_opts r), o_tls_redirect (s_opts r))
                     | None => (false, true)
                     end
    | None => (false, true)
    end.
Proof. intros v cs s svcs Hi Hr. exact (reachable_inherit v cs s Hi Hr). Qed.

(** ... and the service it inherits from lists the root path (so its own
    flags are exactly what was deployed, never overwritten). *)
Theorem c16_inherit_source : forall v cs host n p r,
  let svcs := st_services (exec_all v init_state cs) in
  service_for (table_of svcs) host root_path = Some (n, p) ->
  svc_get svcs n = Some r ->
  p = root_path /\ serves_root r = true.
Proof.
  intros v cs host n p r svcs Hs Hg.
  exact (root_service_serves_root svcs host n p r (proj1 (reachable_inv v cs)) Hs Hg).
Qed.

(** * Non-vacuity *)

Definition ex_topts : topts := mkTopts (bs "/up") 0.
Definition ex_tg : list tgt_in := [mkTgt (bs "t1:80") true].
Definition ex_dep (name : String.string) (hosts prefixes : list str) (tls redir : bool) (cert : cert_in) : cmd :=
  Deploy (bs name) (mkSopts hosts prefixes tls redir cert PagesNone false) ex_topts ex_tg.
Arguments ex_dep _%string_scope.
Definition ex_ig : rollctl -> str -> bool := fun _ _ => false.

(** api (sub-path, deployed first, asks for TLS) inherits from web once web
    exists; removing web turns TLS off for api; st is a static-certificate
    wildcard service; restart in between. *)
Definition ex_history : list cmd :=
  [ ex_dep "api" [bs "a.example.com"; bs "b.example.com"] [bs "/api"] true false CertNone;
    ex_dep "web" [bs "a.example.com"] [] true true CertNone;
    ex_dep "st" [bs "*.w.example.com"; bs "s.example.com"] [bs "/"] true false CertGood;
    ex_dep "plain" [bs "b.example.com"] [bs "/"] false true CertNone;
    Restart ].

Definition ex_req (host path : String.string) (tls : bool) : request :=
  mkReq (bs host) (bs path) (bs path) true tls None.
Arguments ex_req _%string_scope _%string_scope.

Example c16_example_history :
  let st := exec_all fixed init_state ex_history in
  map (fun s => (s_name s, o_tls (s_opts s), o_tls_redirect (s_opts s), s_has_cert s)) (st_services st) =
    [ (bs "api", true, true, false); (bs "web", true, true, true);
      (bs "st", true, false, true); (bs "plain", false, true, false) ] /\
  map (serve ex_ig st)
      [ ex_req "a.example.com:8080" "/api/x?y=1" false; ex_req "a.example.com" "/" true;
        ex_req "b.example.com" "/" true; ex_req "x.w.example.com" "/" false;
        ex_req "[::1]:80" "/" false ] =
    [ R301 (bs "https://a.example.com/api/x?y=1"); RForward (bs "web") [bs "t1:80"] None;
      R503_tls; RForward (bs "st") [bs "t1:80"] None; R404 ] /\
  map (cert_for st) [ bs ""; bs "a.example.com"; bs "A.Example.COM"; bs "b.example.com"; bs "s.example.com";
                      bs "x.w.example.com"; bs "w.example.com"; bs "unknown.org" ] =
    [ CRefuse; CAuto (bs "a.example.com"); CRefuse; CRefuse; CStatic; CStatic; CRefuse; CRefuse ] /\
  (* before the root-path service exists, and after it is removed: TLS off *)
  map (fun s => (s_name s, o_tls (s_opts s), o_tls_redirect (s_opts s)))
      (st_services (exec_all fixed init_state (firstn 1 ex_history))) = [ (bs "api", false, true) ] /\
  map (fun s => (s_name s, o_tls (s_opts s), o_tls_redirect (s_opts s)))
      (st_services (snd (exec fixed st (Remove (bs "web"))))) =
    [ (bs "api", false, true); (bs "st", true, false); (bs "plain", false, true) ].
Proof. vm_compute. repeat split; reflexivity. Qed.

(** A service on the default host answers for an upper-case spelling of one of
    its hosts: the certificate asked for is the lower-case name. *)
Example c16_example_case :
  let st := exec_all fixed init_state
              [ex_dep "web" [bs ""; bs "a.example.com"] [] true true CertNone] in
  cert_for st (bs "A.EXAMPLE.com") = CAuto (bs "a.example.com") /\
  cert_for st (bs "localhost") = CRefuse /\ cert_for st (bs "a.example.com.") = CRefuse.
Proof. vm_compute. repeat split; reflexivity. Qed.

Example c16_example_hosts :
  map wf_host [bs "a.example.com"; bs "a.example.com:8080"; bs "[::1]"; bs "[2001:db8::1]:443";
               bs "::1"; bs "a.example.com:"; bs "[abc]:80"; bs ":80"; bs "a:b:c"] =
    [true; true; true; true; false; true; false; false; false] /\
  map host_without_port [bs "a.example.com:8080"; bs "[2001:db8::1]:443"; bs "[::1]"] =
    [bs "a.example.com"; bs "[2001:db8::1]"; bs "[::1]"].
Proof. vm_compute. split; reflexivity. Qed.

Example c16_example_wildcard :
  exec fixed init_state (ex_dep "w" [bs "a.example.com"; bs "*.example.com"] [] true true CertNone)
    = (Err EWildcardACME, init_state) /\
  fst (exec fixed init_state (ex_dep "w" [bs "*.example.com"] [bs "/sub"] true true CertNone)) = Ok /\
  fst (exec fixed init_state (ex_dep "w" [bs "*.example.com"] [] true true CertGood)) = Ok.
Proof. vm_compute. repeat split; reflexivity. Qed.

(** Hypotheses of [c16_redirect], [c16_refuse], [c16_inherit] and
    [c16_cert_only_bound] are met in the example state. *)
Example c16_example_hyps :
  let st := exec_all fixed init_state ex_history in
  (exists s, route (table_of (st_services st)) (bs "a.example.com:8080") (bs "/api/x") = Some (bs "api", bs "/api") /\
             svc_get (st_services st) (bs "api") = Some s /\ serves_root s = false /\ In s (st_services st) /\
             o_tls (s_opts s) = true /\ o_tls_redirect (s_opts s) = true) /\
  (exists s, route (table_of (st_services st)) (bs "b.example.com") (bs "/") = Some (bs "plain", bs "/") /\
             svc_get (st_services st) (bs "plain") = Some s /\ o_tls (s_opts s) = false) /\
  cert_for st (bs "a.example.com") <> CRefuse.
Proof.
  cbv zeta. split; [|split].
  - eexists. vm_compute. repeat split; try reflexivity. left. reflexivity.
  - eexists. vm_compute. repeat split; reflexivity.
  - vm_compute. discriminate.
Qed.

Print Assumptions c16_redirect.
Print Assumptions c16_redirect_host.
Print Assumptions c16_redirect_same_host.
Print Assumptions c16_refuted_pinned_ipv6_redirect.
Print Assumptions c16_refuse.
Print Assumptions c16_cert_only_bound.
Print Assumptions c16_acme_wildcard_refused.
Print Assumptions c16_inherit.
Print Assumptions c16_inherit_source.
