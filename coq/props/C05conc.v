(** C05 (concurrent form) — "When several deploys race for the same pair, exactly one
    of them succeeds", and "at every moment each host-and-path-prefix pair is
    owned by at most one service" for overlapping commands.

    Theorems about ALL sequences of table-changing write-lock regions accepted by
    model/M5own.v ([OInstall] = the region of Router.installService: availability
    check + Set; [ORemove] = the region of RemoveService).  The router's lock
    serialises these regions, so every execution — whatever the overlap of the
    commands around them — is one such sequence; that the recorded sequences of
    the real router ARE accepted is what the correspondence run of tools/c05.py
    checks (interleaved deploys on the virtual clock + the race stress under the
    real scheduler).  Only statements here; proofs in proofs/M5ownFacts.v. *)
From KP Require Import model.Base model.ServiceMap model.M5own proofs.ServiceMapFacts proofs.M5ownFacts.

(** At every moment: after every prefix of every accepted sequence each pair is owned once. *)
Theorem c05c_owned_once_always : forall pre post t,
  orun [] (pre ++ post) = Some t ->
  exists t1, orun [] pre = Some t1 /\ pair_owned_once t1 = true.
Proof. exact owned_always. Qed.
Print Assumptions c05c_owned_once_always.

(** A deploy that claims a pair owned by a different service is rejected and the table is unchanged. *)
Theorem c05c_conflict_rejected : forall t n hs ps ok t' h p n',
  ostep t (OInstall n hs ps ok) = Some t' ->
  In h hs -> In p ps -> binds t h p n' -> n' <> n -> ok = false /\ t' = t.
Proof. exact conflict_rejected. Qed.
Print Assumptions c05c_conflict_rejected.

(** A deploy none of whose pairs is owned by a different service succeeds and then owns all its pairs. *)
Theorem c05c_free_accepted : forall t n hs ps ok t',
  ostep t (OInstall n hs ps ok) = Some t' ->
  (forall h p n', In h hs -> In p ps -> binds t h p n' -> n' = n) ->
  ok = true /\ t' = tbl_set t (mkBI n hs ps) /\ (forall h p, In h hs -> In p ps -> binds t' h p n).
Proof. exact free_accepted. Qed.
Print Assumptions c05c_free_accepted.

(** At most one winner: two successful installs of different services that both claim (h, p) are
    separated by a release of the pair by the first owner (its removal, or a successful redeploy of
    it that no longer lists the pair) — from any table, for any sequence in between. *)
Theorem c05c_two_winners_need_a_release : forall t0 n1 hs1 ps1 mid n2 hs2 ps2 t h p,
  orun t0 (OInstall n1 hs1 ps1 true :: mid ++ [OInstall n2 hs2 ps2 true]) = Some t ->
  n1 <> n2 -> In h hs1 -> In p ps1 -> In h hs2 -> In p ps2 ->
  exists e, In e mid /\ releases e n1 h p = true.
Proof. exact two_winners_release. Qed.
Print Assumptions c05c_two_winners_need_a_release.

(** Exactly one: deploys of pairwise different services race for the same non-empty set of hosts and
    prefixes, none of which is bound when the first racer takes the lock (any number of racers, any
    table): the first succeeds, every other one fails, exactly one success is recorded and the table
    is the first racer's. *)
Theorem c05c_race_exactly_one : forall t n hs ps ok rest t',
  orun t (OInstall n hs ps ok :: rest) = Some t' ->
  hs <> [] -> ps <> [] ->
  (forall h p n', In h hs -> In p ps -> ~ binds t h p n') ->
  Forall (fun e => exists n' ok', e = OInstall n' hs ps ok' /\ n' <> n) rest ->
  ok = true /\ Forall (fun e => is_win e = false) rest /\
  t' = tbl_set t (mkBI n hs ps) /\
  length (filter is_win (OInstall n hs ps ok :: rest)) = 1.
Proof. exact race_one_winner. Qed.
Print Assumptions c05c_race_exactly_one.

(** the monitor evaluated on the recorded sequences follows from acceptance *)
Theorem c05c_accepted_ok : forall l, oaccepted l = true -> c05c_ok l = true.
Proof. exact accepted_ok. Qed.
Print Assumptions c05c_accepted_ok.

(** ** Non-vacuity *)
Definition ex_h : str := bs "a.example.com".
Definition ex_race : list oev :=
  [OInstall (bs "A") [ex_h] [bs "/"] true; OInstall (bs "B") [ex_h] [bs "/"] false; OInstall (bs "C") [ex_h] [bs "/"; bs "/api"] false;
   ORemove (bs "A"); OInstall (bs "C") [ex_h] [bs "/"; bs "/api"] true; OInstall (bs "B") [ex_h] [bs "/api"] false;
   OInstall (bs "C") [ex_h] [bs "/"] true; OInstall (bs "B") [ex_h] [bs "/api"] true].

Example ex_race_accepted : oaccepted ex_race = true.
Proof. vm_compute. reflexivity. Qed.

(** the rules bite: a second winner without a release, and a loser on a free pair, are rejected *)
Example ex_two_winners_rejected :
  oaccepted [OInstall (bs "A") [ex_h] [bs "/"] true; OInstall (bs "B") [ex_h] [bs "/"] true] = false /\
  c05c_ok [OInstall (bs "A") [ex_h] [bs "/"] true; OInstall (bs "B") [ex_h] [bs "/"] true] = false /\
  oaccepted [OInstall (bs "A") [ex_h] [bs "/"] false] = false.
Proof. vm_compute. repeat split; reflexivity. Qed.

(** hypotheses of c05c_race_exactly_one are met by a three-way race on an empty table *)
Example ex_three_way :
  orun [] [OInstall (bs "A") [ex_h] [bs "/"] true; OInstall (bs "B") [ex_h] [bs "/"] false; OInstall (bs "C") [ex_h] [bs "/"] false]
  = Some [mkBI (bs "A") [ex_h] [bs "/"]].
Proof. vm_compute. reflexivity. Qed.
