(** C14 — Buffering delivers exact bodies, enforces limits and cleans up.
    Only statements, each closed by [exact]; proofs are in proofs/BufferFacts.v. *)
From KP Require Import model.Base model.Buffer proofs.BufferFacts.
Local Open Scope N_scope.

(** The buffer after any sequence of writes, for every pair of limits and
    every chunking: [acc] is the concatenation of the accepted chunks. *)
Definition after_writes (maxb maxm : N) (chunks : list str) : buf :=
  fst (writes (new_buf maxb maxm) chunks).
Definition acc_of (maxb : N) (chunks : list str) : str := fst (accepted maxb [] chunks).

(** Without overflow the buffer replays exactly the bytes written. *)
Theorem c14_contents : forall maxb maxm chunks,
  overflowed (after_writes maxb maxm chunks) = false ->
  contents (after_writes maxb maxm chunks) = concat chunks.
Proof.
  intros maxb maxm chunks H. unfold after_writes in *.
  pose proof (writes_spec chunks (new_buf maxb maxm) [] (wf_new maxb maxm)) as Hs.
  destruct (writes (new_buf maxb maxm) chunks) as [b rs]. cbn in *.
  destruct Hs as (Hwf & _ & _ & Ho). rewrite H in Ho. symmetry in Ho.
  rewrite (wf_contents _ _ Hwf). now apply accepted_no_overflow.
Qed.

(** At most [maxm] bytes are held in memory, after every write. *)
Theorem c14_mem_bound : forall maxb maxm chunks,
  mem_written (after_writes maxb maxm chunks) <= maxm.
Proof.
  intros maxb maxm chunks. unfold after_writes.
  pose proof (writes_spec chunks (new_buf maxb maxm) [] (wf_new maxb maxm)) as Hs.
  destruct (writes (new_buf maxb maxm) chunks) as [b rs]. cbn in *.
  destruct Hs as (Hwf & _ & Hm & _). rewrite <- Hm. eapply wf_mem_bound; eauto.
Qed.

(** A spill file exists iff the accepted bytes exceed the memory limit, and
    then memory holds the first [maxm] bytes and the file exactly the rest. *)
Theorem c14_spill_iff : forall maxb maxm chunks,
  let b := after_writes maxb maxm chunks in
  let acc := acc_of maxb chunks in
  (spill_live b = true <-> maxm < lenN acc) /\
  mem b = firstn (N.to_nat maxm) acc /\
  (forall d, disk b = Some d -> d = skipn (N.to_nat maxm) acc) /\
  (disk b <> None <-> maxm < lenN acc).
Proof.
  intros maxb maxm chunks. unfold after_writes, acc_of.
  pose proof (writes_spec chunks (new_buf maxb maxm) [] (wf_new maxb maxm)) as Hs.
  destruct (writes (new_buf maxb maxm) chunks) as [b rs]. cbn in *.
  destruct Hs as (Hwf & _ & Hm & _).
  pose proof (wf_spill_iff _ _ Hwf) as (H1 & H2 & H3).
  pose proof (wf_mem_exact _ _ Hwf) as H4. rewrite Hm in *. tauto.
Qed.

(** Overflow iff a positive total limit is exceeded by the body (whatever the
    chunking); with limit 0 never. *)
Theorem c14_overflow_iff : forall maxb maxm chunks,
  overflowed (after_writes maxb maxm chunks) = body_too_large maxb (concat chunks).
Proof.
  intros maxb maxm chunks. unfold after_writes.
  pose proof (writes_spec chunks (new_buf maxb maxm) [] (wf_new maxb maxm)) as Hs.
  destruct (writes (new_buf maxb maxm) chunks) as [b rs]. cbn in *.
  destruct Hs as (_ & _ & _ & Ho). rewrite Ho. apply overflow_chunking_irrelevant.
Qed.

(** Each individual write returns what the declarative rule says. *)
Theorem c14_write_results : forall maxb maxm chunks,
  snd (writes (new_buf maxb maxm) chunks) = write_results maxb [] chunks.
Proof. intros. exact (writes_results chunks (new_buf maxb maxm) [] (wf_new maxb maxm)). Qed.

(** Close removes the spill file and is idempotent. *)
Theorem c14_close : forall maxb maxm chunks,
  spill_live (close (after_writes maxb maxm chunks)) = false /\
  close (close (after_writes maxb maxm chunks)) = close (after_writes maxb maxm chunks).
Proof.
  intros maxb maxm chunks. split; [|apply close_idem]. unfold after_writes.
  pose proof (writes_spec chunks (new_buf maxb maxm) [] (wf_new maxb maxm)) as Hs.
  destruct (writes (new_buf maxb maxm) chunks) as [b rs]. cbn in *.
  destruct Hs as (Hwf & _). eapply wf_close_no_spill; eauto.
Qed.

(** Request buffering: the target is contacted iff the body fits, and then
    with exactly the body; otherwise 413.  No spill file survives. *)
Theorem c14_request : forall maxm maxb chunks,
  fst (req_mw maxm maxb chunks false) =
    (if body_too_large maxb (concat chunks) then Req413 else ReqForward (concat chunks)) /\
  spill_live (snd (req_mw maxm maxb chunks false)) = false.
Proof.
  intros. destruct (req_mw_spec maxm maxb chunks) as [H1 H2]. split; [|exact H2].
  rewrite H1. reflexivity.
Qed.

(** Client abort while the body is being read: never forwarded, file removed. *)
Theorem c14_request_abort : forall maxm maxb chunks,
  (forall body, fst (req_mw maxm maxb chunks true) <> ReqForward body) /\
  spill_live (snd (req_mw maxm maxb chunks true)) = false.
Proof. intros. destruct (req_mw_abort_spec maxm maxb chunks) as (_ & H2 & H3). auto. Qed.

(** Response buffering (non-streaming): exact status and body, or 500 and
    none of the body.  No spill file survives. *)
Theorem c14_response : forall maxm maxb s ops,
  is_informational s = false ->          (* s is the final status, not an interim 1xx *)
  Forall body_op ops ->
  client_view_of (fst (resp_mw maxm maxb (HWriteHeader s false :: ops))) =
    (if body_too_large maxb (concat (hop_chunks ops))
     then plain_view 500 err500_body else plain_view s (concat (hop_chunks ops))) /\
  spill_live (snd (resp_mw maxm maxb (HWriteHeader s false :: ops))) = false.
Proof. intros maxm maxb s ops Hs H. exact (resp_mw_buffered_spec maxm maxb s ops Hs H). Qed.

(** Event streams pass through unbuffered, in order, flushes included. *)
Theorem c14_stream : forall maxm maxb s ops,
  is_informational s = false ->
  Forall body_op ops ->
  fst (resp_mw maxm maxb (HWriteHeader s true :: ops)) =
    CWriteHeader s :: flat_map passthrough ops ++ [CWriteHeader s] /\
  spill_live (snd (resp_mw maxm maxb (HWriteHeader s true :: ops))) = false.
Proof. intros maxm maxb s ops Hs H. exact (resp_mw_stream_spec maxm maxb s ops Hs H). Qed.

(** Non-vacuity: a concrete body that spills and one that overflows. *)
Example c14_example_spill :
  let b := after_writes 10 4 [bs "abc"; bs "defg"] in
  mem b = bs "abcd" /\ disk b = Some (bs "efg") /\ spill_live b = true /\ overflowed b = false.
Proof. vm_compute. repeat split. Qed.

Example c14_example_overflow :
  fst (req_mw 4 6 [bs "abc"; bs "defg"] false) = Req413 /\
  fst (req_mw 4 7 [bs "abc"; bs "defg"] false) = ReqForward (bs "abcdefg").
Proof. vm_compute. split; reflexivity. Qed.

Print Assumptions c14_contents.
Print Assumptions c14_mem_bound.
Print Assumptions c14_spill_iff.
Print Assumptions c14_overflow_iff.
Print Assumptions c14_write_results.
Print Assumptions c14_close.
Print Assumptions c14_request.
Print Assumptions c14_request_abort.
Print Assumptions c14_response.
Print Assumptions c14_stream.
