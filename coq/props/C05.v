(** C05 — No two services ever own the same host and path.
    Only statements, each closed by [exact]; proofs are in proofs/ServiceMapFacts.v.

    Model: model/Seq.v (the sequential command machine [exec] / [exec_all]) and
    model/ServiceMap.v ([triples], [pair_owned_once], [conflicts]).
    [triples t] lists every (host, prefix, owner) of table [t];
    [pair_owned_once t] says that equal (host, prefix) implies equal owner. *)
From KP Require Import model.Base model.ServiceMap model.Seq proofs.ServiceMapFacts.

(** The (host, prefix, owner) triples of a state. *)
Definition owns (st : state) (h p n : str) : Prop :=
  In (h, p, n) (triples (table_of (st_services st))).

(** The pairs claimed by a deploy: normalised hosts x normalised prefixes. *)
Definition claims (o : sopts) (h p : str) : Prop :=
  In h (o_hosts (normalize o)) /\ In p (o_prefixes (normalize o)).

(** * The invariant *)

(** After any command list — deploys with arbitrary host and prefix lists,
    rollout deploys, removes, restarts, pause/stop/resume, rollout set/stop —
    on either variant of the code: every pair has one owner and names are
    unique, in the live table and in the state file. *)
Theorem c05_unique_owner : forall v cs,
  let st := exec_all v init_state cs in
  pair_owned_once (table_of (st_services st)) = true /\
  NoDup (map s_name (st_services st)) /\
  (forall saved, st_disk st = Some saved ->
     pair_owned_once (table_of saved) = true /\ NoDup (map s_name saved)).
Proof. exact reachable_ok. Qed.

(** [pair_owned_once] read as a proposition. *)
Theorem c05_unique_owner_prop : forall v cs h p n1 n2,
  owns (exec_all v init_state cs) h p n1 -> owns (exec_all v init_state cs) h p n2 -> n1 = n2.
Proof.
  intros v cs h p n1 n2 H1 H2. destruct (reachable_ok v cs) as [Ho _].
  apply pair_owned_once_iff in Ho. apply in_triples in H1, H2. exact (Ho h p n1 n2 H1 H2).
Qed.

(** * Conflicting deploys are rejected *)

(** In ANY state (reachable or not): a deploy that passes its earlier phases
    and claims a pair owned under a different name fails with "host in use"
    and leaves the services unchanged. *)
Theorem c05_conflict_rejected : forall v st name o t targets h p n,
  init_check v (normalize o) = None ->
  forallb valid_target_name (map tg_name targets) = true ->
  forallb tg_healthy targets = true ->
  In h (o_hosts (normalize o)) -> In p (o_prefixes (normalize o)) ->
  In (h, p, n) (triples (table_of (st_services st))) -> n <> name ->
  fst (exec v st (Deploy name o t targets)) = Err EHostInUse /\
  st_services (snd (exec v st (Deploy name o t targets))) = st_services st.
Proof. exact deploy_conflict_rejected. Qed.

(** ... and that is the only thing that decides such a deploy. *)
Theorem c05_deploy_decided : forall v st name o t targets,
  init_check v (normalize o) = None ->
  forallb valid_target_name (map tg_name targets) = true ->
  forallb tg_healthy targets = true ->
  let r := fst (exec v st (Deploy name o t targets)) in
  let foreign := exists h p n, In h (o_hosts (normalize o)) /\ In p (o_prefixes (normalize o)) /\
                   In (h, p, n) (triples (table_of (st_services st))) /\ n <> name in
  (foreign -> r = Err EHostInUse) /\ (~ foreign -> r = Ok).
Proof. exact deploy_decided. Qed.

(** * Exact binding sets after success *)

(** A successful deploy gives [name] exactly the claimed pairs (its former
    ones are released) and changes no other service's pairs. *)
Theorem c05_redeploy_moves : forall v st name o t targets st',
  exec v st (Deploy name o t targets) = (Ok, st') ->
  forall h p n, In (h, p, n) (triples (table_of (st_services st'))) <->
    (n = name /\ In h (o_hosts (normalize o)) /\ In p (o_prefixes (normalize o))) \/
    (n <> name /\ In (h, p, n) (triples (table_of (st_services st)))).
Proof. exact deploy_moves. Qed.

(** A successful remove releases all pairs of [name] and no others ... *)
Theorem c05_remove_releases : forall v st name st',
  exec v st (Remove name) = (Ok, st') ->
  forall h p n, In (h, p, n) (triples (table_of (st_services st'))) <->
    n <> name /\ In (h, p, n) (triples (table_of (st_services st))).
Proof. exact remove_releases. Qed.

(** ... so that a deploy which was blocked only by pairs of [name] now succeeds. *)
Theorem c05_remove_then_deploy : forall v st name st1 name2 o t targets,
  exec v st (Remove name) = (Ok, st1) ->
  init_check v (normalize o) = None ->
  forallb valid_target_name (map tg_name targets) = true ->
  forallb tg_healthy targets = true ->
  (forall h p n, In h (o_hosts (normalize o)) -> In p (o_prefixes (normalize o)) ->
     In (h, p, n) (triples (table_of (st_services st))) -> n = name \/ n = name2) ->
  fst (exec v st1 (Deploy name2 o t targets)) = Ok.
Proof. exact remove_then_deploy. Qed.

(** * One winner (linearised race) *)

(** Two deploys under different names that claim a common pair and would each
    succeed alone: in either order the first succeeds, the second fails with
    "host in use" and changes no service. *)
Theorem c05_one_winner : forall v st n1 o1 t1 tg1 n2 o2 t2 tg2 h p,
  n1 <> n2 -> claims o1 h p -> claims o2 h p ->
  fst (exec v st (Deploy n1 o1 t1 tg1)) = Ok ->
  fst (exec v st (Deploy n2 o2 t2 tg2)) = Ok ->
  let st1 := snd (exec v st (Deploy n1 o1 t1 tg1)) in
  let st2 := snd (exec v st (Deploy n2 o2 t2 tg2)) in
  (fst (exec v st1 (Deploy n2 o2 t2 tg2)) = Err EHostInUse /\
   st_services (snd (exec v st1 (Deploy n2 o2 t2 tg2))) = st_services st1) /\
  (fst (exec v st2 (Deploy n1 o1 t1 tg1)) = Err EHostInUse /\
   st_services (snd (exec v st2 (Deploy n1 o1 t1 tg1))) = st_services st2).
Proof.
  intros v st n1 o1 t1 tg1 n2 o2 t2 tg2 h p Hne [H1 H2] [H3 H4] Ok1 Ok2. split.
  - exact (one_winner_half v st n1 o1 t1 tg1 n2 o2 t2 tg2 h p Hne H1 H2 H3 H4 Ok1 Ok2).
  - exact (one_winner_half v st n2 o2 t2 tg2 n1 o1 t1 tg1 h p (not_eq_sym Hne) H3 H4 H1 H2 Ok2 Ok1).
Qed.

(** * Non-vacuity *)

Definition ex_opts (hosts prefixes : list str) : sopts :=
  mkSopts hosts prefixes false false CertNone PagesNone false.
Definition ex_topts : topts := mkTopts (bs "/up") 0.
Definition ex_tg : list tgt_in := [mkTgt (bs "t1:80") true].
Definition ex_deploy (name : str) (hosts prefixes : list str) : cmd :=
  Deploy name (ex_opts hosts prefixes) ex_topts ex_tg.

(** Results of a command list, in order. *)
Fixpoint results (v : variant) (st : state) (cs : list cmd) : list result :=
  match cs with
  | [] => []
  | c :: r => fst (exec v st c) :: results v (snd (exec v st c)) r
  end.

(** "c" claims "/api" spelled "api/" on x.com (owned by "b"), the default host
    and a wildcard; it is rejected until "b" is removed.  Restart in between. *)
Definition ex_history : list cmd :=
  [ ex_deploy (bs "a") [bs "x.com"] [];
    ex_deploy (bs "b") [bs "x.com"; bs "x.com"] [bs "/api"; bs "/b/"];
    ex_deploy (bs "c") [bs "x.com"; bs ""; bs "*.x.com"] [bs "api/"];
    Restart;
    Remove (bs "b");
    ex_deploy (bs "c") [bs "x.com"; bs ""; bs "*.x.com"] [bs "api/"];
    ex_deploy (bs "a") [] [bs "/api"];
    ex_deploy (bs "a") [] [];
    Pause (bs "a") 5; Restart; Resume (bs "a") ].

Example c05_example_history :
  results fixed init_state ex_history =
    [Ok; Ok; Err EHostInUse; Ok; Ok; Ok; Err EHostInUse; Ok; Ok; Ok; Ok] /\
  results pinned init_state ex_history =
    [Ok; Ok; Err EHostInUse; Ok; Ok; Ok; Err EHostInUse; Ok; Ok; Ok; Panic] /\
  triples (table_of (st_services (exec_all fixed init_state ex_history))) =
    [ (bs "x.com", bs "/api", bs "c"); (bs "", bs "/api", bs "c"); (bs "*.x.com", bs "/api", bs "c");
      (bs "", bs "/", bs "a") ].
Proof. vm_compute. repeat split; reflexivity. Qed.

(** Hypotheses of [c05_conflict_rejected], [c05_remove_then_deploy] and
    [c05_one_winner] are met by concrete states. *)
Example c05_example_conflict :
  let st := exec_all fixed init_state (firstn 2 ex_history) in
  let o := ex_opts [bs "x.com"; bs ""; bs "*.x.com"] [bs "api/"] in
  let st1 := snd (exec fixed st (Remove (bs "b"))) in
  init_check fixed (normalize o) = None /\
  forallb valid_target_name (map tg_name ex_tg) = true /\ forallb tg_healthy ex_tg = true /\
  In (bs "x.com") (o_hosts (normalize o)) /\ In (bs "/api") (o_prefixes (normalize o)) /\
  In (bs "x.com", bs "/api", bs "b") (triples (table_of (st_services st))) /\ bs "b" <> bs "c" /\
  fst (exec fixed st (Remove (bs "b"))) = Ok /\
  fst (exec fixed st1 (Deploy (bs "c") o ex_topts ex_tg)) = Ok.
Proof.
  cbv zeta. repeat split; try (vm_compute; reflexivity); try (vm_compute; auto; fail).
  intros H; vm_compute in H; discriminate.
Qed.

Example c05_example_one_winner :
  let o1 := ex_opts [bs "x.com"; bs "y.com"] [bs "/"; bs "/p"] in
  let o2 := ex_opts [bs "y.com"] [bs "p"] in
  bs "a" <> bs "b" /\ claims o1 (bs "y.com") (bs "/p") /\ claims o2 (bs "y.com") (bs "/p") /\
  fst (exec pinned init_state (Deploy (bs "a") o1 ex_topts ex_tg)) = Ok /\
  fst (exec pinned init_state (Deploy (bs "b") o2 ex_topts ex_tg)) = Ok.
Proof.
  cbv zeta. repeat split; try (vm_compute; reflexivity); try (vm_compute; auto; fail).
  intros H; vm_compute in H; discriminate.
Qed.

Print Assumptions c05_unique_owner.
Print Assumptions c05_unique_owner_prop.
Print Assumptions c05_conflict_rejected.
Print Assumptions c05_deploy_decided.
Print Assumptions c05_redeploy_moves.
Print Assumptions c05_remove_releases.
Print Assumptions c05_remove_then_deploy.
Print Assumptions c05_one_winner.
