(** C10 — Rollout split is sticky, monotone and confined to opted-in requests.
    Only statements; proofs are in proofs/RolloutFacts.v.

    Vocabulary (model/Rollout.v):
    [request_cookie rollout_cookie_name lines] — what [r.Cookie("kamal-rollout")]
      returns for the [Cookie] header values [lines] ([None] = ErrNoCookie);
    [pick has_rollout ctrl lines] — Service.loadBalancerForRequest;
    [T pct] — the integer threshold on the 32-bit FNV-1a hash;
    [hrun] — command histories on one service; [spec_run] — the property's own
    reading of the same history. *)
From KP Require Import model.Base model.Rollout proofs.RolloutFacts.
From Coq Require Import Floats.
Local Open Scope Z_scope.

(** Exactly when: a request goes to the rollout targets iff rollout targets
    and a split exist and it carries the cookie with a non-empty value that is
    allowlisted or whose hash is at most the threshold of the percentage. *)
Theorem c10_exact : forall has_rollout ctrl lines,
  pick has_rollout ctrl lines = Rollout <->
  has_rollout = true /\
  exists c v, ctrl = Some c /\ request_cookie rollout_cookie_name lines = Some v /\
              v <> [] /\ (In v (sp_allow c) \/ Z.of_N (fnv1a v) <= T (sp_pct c)).
Proof.
  intros hr ctrl lines. rewrite pick_rollout_iff. split.
  - intros (H & c & v & H1 & H2 & H3). apply value_uses_rollout_iff in H3. split; [exact H|]. exists c, v. tauto.
  - intros (H & c & v & H1 & H2 & H3). split; [exact H|]. exists c, v. rewrite value_uses_rollout_iff. tauto.
Qed.

(** Sticky: with the configuration fixed, the side is a function of the cookie
    value alone — whatever else the headers contain. *)
Theorem c10_sticky : forall has_rollout ctrl lines1 lines2,
  request_cookie rollout_cookie_name lines1 = request_cookie rollout_cookie_name lines2 ->
  pick has_rollout ctrl lines1 = pick has_rollout ctrl lines2.
Proof. intros hr ctrl l1 l2 H. unfold pick, uses_rollout. now rewrite H. Qed.

(** Monotone in the percentage (any two integers, same allowlist). *)
Theorem c10_monotone : forall p q allow lines, p <= q ->
  pick true (Some (mkSplit p allow)) lines = Rollout ->
  pick true (Some (mkSplit q allow)) lines = Rollout.
Proof.
  intros p q allow lines Hpq. unfold pick.
  destruct (uses_rollout (mkSplit p allow) lines) eqn:H; [|discriminate].
  now rewrite (uses_monotone p q allow lines Hpq H).
Qed.

(** 100% (or more) includes every non-empty value. *)
Theorem c10_full : forall p allow lines v, 100 <= p ->
  request_cookie rollout_cookie_name lines = Some v -> v <> [] ->
  pick true (Some (mkSplit p allow)) lines = Rollout.
Proof.
  intros p allow lines v Hp Hc Hv. unfold pick, uses_rollout. rewrite Hc.
  now rewrite (value_full p allow v Hp Hv).
Qed.

(** A negative percentage includes only the allowlist. *)
Theorem c10_negative : forall p allow v, p < 0 ->
  value_uses_rollout (mkSplit p allow) v = true -> In v allow.
Proof. exact value_negative. Qed.

(** Share: hashes 0..T p are inside; (T p + 1)/2^32 is within 2^-32 of p/100. *)
Theorem c10_share : forall p, 0 <= p <= 100 ->
  Z.abs (100 * (T p + 1) - p * 4294967296) <= 100.
Proof. exact T_share. Qed.

Theorem c10_table : map T (map Z.of_nat (seq 0 101)) = T_table.
Proof. exact T_table_eq. Qed.

(** The hash is a 32-bit value, so the percentages cover its whole range. *)
Theorem c10_hash_range : forall v, 0 <= Z.of_N (fnv1a v) <= 4294967295.
Proof. exact fnv1a_bound_Z. Qed.

(** The float computation of the code: floor(PercentageSplitPoint) = T pct, and
    [float64(hash) <= PercentageSplitPoint] is [hash <= T pct], for every
    32-bit hash and every percentage 0..100. *)
Theorem c10_split_point_floor : forall p, 0 <= p <= 100 ->
  float_threshold (split_point p) = Some (T p).
Proof. exact split_point_floor. Qed.

Theorem c10_threshold : forall p h, 0 <= p <= 100 -> (h < two32)%N ->
  float_in_percentage p h = in_percentage p h.
Proof.
  intros p h Hp Hh. apply float_in_percentage_eq; [unfold pct_radius; lia | exact Hh].
Qed.

(** Outside 0..100 the code accepts any int; the same equality for
    -10000..10000 (negative: nothing, above 100: everything).  Partial: other
    machine integers are compared with the code by the correspondence run only. *)
Theorem c10_threshold_any_percentage_partial : forall p h, -10000 <= p <= 10000 -> (h < two32)%N ->
  float_in_percentage p h = in_percentage p h.
Proof. exact float_in_percentage_eq. Qed.

(** Whatever bytes the headers carry, the value that is hashed consists of
    valid cookie-value bytes. *)
Theorem c10_value_bytes : forall lines v,
  request_cookie rollout_cookie_name lines = Some v -> forallb valid_cookie_value_byte v = true.
Proof. intros lines v. exact (request_cookie_valid rollout_cookie_name lines v). Qed.

(** No cookie (or an empty value), no controller, or no rollout targets: active. *)
Theorem c10_no_cookie_active : forall has_rollout ctrl lines,
  request_cookie rollout_cookie_name lines = None \/ request_cookie rollout_cookie_name lines = Some [] ->
  pick has_rollout ctrl lines = Active.
Proof.
  intros hr ctrl lines H. unfold pick, uses_rollout.
  destruct hr; [|reflexivity]. destruct ctrl as [c|]; [|reflexivity].
  destruct H as [-> | ->]; reflexivity.
Qed.

Theorem c10_no_controller_active : forall has_rollout lines, pick has_rollout None lines = Active.
Proof. intros [|] lines; reflexivity. Qed.

Theorem c10_no_targets_active : forall ctrl lines, pick false ctrl lines = Active.
Proof. reflexivity. Qed.

(** Histories.  Before any [rollout set], and after [rollout stop], every
    request is served by the active targets — whatever else happened. *)
Theorem c10_never_set_active : forall id cmds lines,
  existsb is_set cmds = false ->
  let s := fst (hrun (init_svc id) cmds) in
  hstep s (HRequest lines) = (s, OServed (sv_active s)).
Proof.
  intros id cmds lines H s. apply request_without_ctrl.
  apply ctrl_none_preserved; [exact H | reflexivity].
Qed.

Theorem c10_after_stop_active : forall s0 cmds rest lines,
  existsb is_set rest = false ->
  let s := fst (hrun s0 (cmds ++ HStop :: rest)) in
  hstep s (HRequest lines) = (s, OServed (sv_active s)).
Proof.
  intros s0 cmds rest lines H s. apply request_without_ctrl. subst s.
  rewrite hrun_app. cbn [fst]. cbn [hrun hstep].
  destruct (hrun (mkSvc _ _ None) rest) as [s2 os] eqn:Hr. cbn [fst].
  change s2 with (fst (s2, os)). rewrite <- Hr.
  apply ctrl_none_preserved; [exact H | reflexivity].
Qed.

(** Setting a split before rollout targets exist is rejected and changes
    nothing — whatever else happened before, restarts included. *)
Theorem c10_set_requires_targets : forall id cmds p allow,
  existsb is_rollout_deploy cmds = false ->
  let s := fst (hrun (init_svc id) cmds) in
  hstep s (HSet p allow) = (s, OErrNoRollout).
Proof.
  intros id cmds p allow Hd s. apply set_without_slot.
  apply slot_none_preserved; [exact Hd | reflexivity].
Qed.

(** On every history of deploy / rollout deploy / set / stop / restart /
    requests the model behaves as the property reads it ([spec_run]: rollout
    targets exist once a rollout deploy succeeded, a split is in force from an
    accepted set until stop, a restart changes nothing). *)
Theorem c10_history : forall id cmds,
  snd (hrun (init_svc id) cmds) = snd (spec_run (init_spec id) cmds).
Proof. intros id cmds. apply run_related. apply init_related. Qed.

(** Non-vacuity and concrete points. *)

(** Cookie lookup: first cookie of that name over several lines, quotes stripped. *)
Example c10_example_cookie :
  request_cookie rollout_cookie_name
    [bs " a=b; kamal-rolloutx=no ;kamal-rollout=""v1"" "; bs "kamal-rollout=other"] = Some (bs "v1") /\
  request_cookie rollout_cookie_name [bs "kamal-rollout=a b"; bs "kamal-rollout=ok"] = Some (bs "a b") /\
  request_cookie rollout_cookie_name [bs "kamal-rollout=a,b\c"; bs "kamal-rollout=ok"] = Some (bs "ok") /\
  request_cookie rollout_cookie_name [bs "Kamal-Rollout=a"] = None /\
  request_cookie rollout_cookie_name [bs "kamal-rollout"] = Some [].
Proof. vm_compute. repeat split. Qed.

(** FNV-1a test vectors (hash/fnv's own: "" and "a"). *)
Example c10_example_fnv :
  fnv1a [] = 2166136261%N /\ fnv1a (bs "a") = 3826002220%N /\ fnv1a (bs "foobar") = 3214735720%N.
Proof. vm_compute. repeat split. Qed.

(** A value outside at 10% and inside at 50%; the boundary hashes of 1%. *)
Example c10_example_monotone :
  let v := bs "12345" in
  value_uses_rollout (mkSplit 10 []) v = false /\ value_uses_rollout (mkSplit 50 []) v = true /\
  value_uses_rollout (mkSplit 0 [v]) v = true.
Proof. vm_compute. repeat split. Qed.

Example c10_example_boundary :
  fnv1a (bs "q9~IVP") = 42949672%N /\ fnv1a (bs "m@T]Am") = 42949673%N /\
  value_uses_rollout (mkSplit 1 []) (bs "q9~IVP") = true /\
  value_uses_rollout (mkSplit 1 []) (bs "m@T]Am") = false /\
  float_in_percentage 1 42949672 = true /\ float_in_percentage 1 42949673 = false.
Proof. vm_compute. repeat split. Qed.

(** At 0% the hash value 0 is still inside (share 2^-32, within [c10_share]). *)
Example c10_example_zero_percent :
  fnv1a (bs "Q#h#$P") = 0%N /\ value_uses_rollout (mkSplit 0 []) (bs "Q#h#$P") = true.
Proof. vm_compute. split; reflexivity. Qed.

(** A history exercising every command. *)
Example c10_example_history :
  snd (hrun (init_svc 1)
    [HSet 100 []; HRequest [bs "kamal-rollout=x"]; HRolloutDeploy 2; HRequest [bs "kamal-rollout=x"];
     HSet 100 []; HRequest [bs "kamal-rollout=x"]; HRequest []; HDeploy 3; HRequest [];
     HRequest [bs "kamal-rollout=x"]; HRestart; HRequest [bs "kamal-rollout=x"]; HStop;
     HRequest [bs "kamal-rollout=x"]; HRestart; HRequest [bs "kamal-rollout=x"]]) =
  [OErrNoRollout; OServed 1; OOk; OServed 1; OOk; OServed 2; OServed 1; OOk; OServed 3; OServed 2; OOk; OServed 2;
   OOk; OServed 3; OOk; OServed 3].
Proof. vm_compute. reflexivity. Qed.

(** A restart without rollout targets leaves [rollout set] rejected (the
    pinned tree accepted it: finding D6, repaired in /repo by d6a34a4). *)
Example c10_example_restart_then_set :
  snd (hrun (init_svc 0) [HRestart; HSet 100 []; HRequest [bs "kamal-rollout=x"]]) =
  [OOk; OErrNoRollout; OServed 0].
Proof. vm_compute. reflexivity. Qed.

Print Assumptions c10_exact.
Print Assumptions c10_sticky.
Print Assumptions c10_monotone.
Print Assumptions c10_full.
Print Assumptions c10_negative.
Print Assumptions c10_share.
Print Assumptions c10_table.
Print Assumptions c10_hash_range.
Print Assumptions c10_split_point_floor.
Print Assumptions c10_threshold.
Print Assumptions c10_threshold_any_percentage_partial.
Print Assumptions c10_value_bytes.
Print Assumptions c10_no_cookie_active.
Print Assumptions c10_no_controller_active.
Print Assumptions c10_no_targets_active.
Print Assumptions c10_never_set_active.
Print Assumptions c10_after_stop_active.
Print Assumptions c10_set_requires_targets.
Print Assumptions c10_history.
