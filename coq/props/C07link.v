(** C07link — the link between acceptance by the pause-gate view (model/M5gate.v) and the verdict of the
    C07 monitor (corr/C07corr.v: c07_check, c07_judge).  Only statements; proofs in proofs/C07Link.v.

    The monitor judges each request on the observed trace alone and per service NAME (the state of a name
    is what the operator commanded); the view follows the pause CONTROLLERS.  Side condition [c07_side tr r]
    (a boolean on the trace, proofs/C07Link.v):
      - [params_agree]: every parameter event of a command carries the max-pause the monitor uses for it;
      - request r was routed once, before anything else happened to it, and something did happen afterwards;
      - [time_mono]: the time stamps do not decrease along the trace (events are recorded in the order in
        which they happen; the monitor's "timed out although a resume / stop had come earlier" compares times);
      - [one_ctl]: over the WHOLE trace the gate-set events of the pause / stop / resume commands issued for
        the name of r's service are exactly the gate-set events on the controller r read, each reporting
        the commanded state (one pause controller per service name: no second controller object for the name).

    A monitor failure with one of the codes excluded below on a trace that satisfies the side condition is
    therefore, by theorem, evidence that the trace is not accepted by the gate view: the real code left the model. *)
From KP Require Import model.Base model.Trace model.M5gate model.M5path corr.C07corr.
From KP Require Import proofs.M5gateFacts proofs.M5pathFacts proofs.C07Link.

(** * Real recorded traces (tools/c07.py forced schedules "timers" and "stop", events of kinds neither view nor
    the monitor looks at dropped) *)

Definition real_timers : trace :=
 [mkEv 0 (ACmd 1) (KIssue 1 CkDeploy [x77;x65;x62]);
 mkEv 0 (ACmd 1) (KParams 1 5000000000 3000000000 0);
 mkEv 0 AEnv (KTargetName 0 [x74;x61;x3a;x38;x30]);
 mkEv 0 (ACmd 1) (KLbNew 0 [0]);
 mkEv 0 (AGo 103) (KProbeApply 0 true TAdding THealthy);
 mkEv 0 AEnv (KSvcName 0 [x77;x65;x62]);
 mkEv 0 (ACmd 1) (KSlot 0 false 0 None);
 mkEv 0 (ACmd 1) (KInstall 0 true);
 mkEv 0 (ACmd 1) (KReturn 1 CROk);
 mkEv 0 (ACmd 2) (KIssue 2 CkPause [x77;x65;x62]);
 mkEv 0 (ACmd 2) (KParams 2 0 3000000000 2000000000);
 mkEv 0 (ACmd 2) (KGateSet 0 GPaused (Some 0));
 mkEv 0 (AGo 107) (KStateSet 0 THealthy TDraining);
 mkEv 0 (AGo 107) (KStateSet 0 TDraining THealthy);
 mkEv 0 (ACmd 2) (KReturn 2 CROk);
 mkEv 0 (AReq 1) (KRouted 1 (Some 0));
 mkEv 0 (AReq 1) (KGateRead 0 GPaused (Some 0));
 mkEv 1 (AReq 2) (KRouted 2 (Some 0));
 mkEv 1 (AReq 2) (KGateRead 0 GPaused (Some 0));
 mkEv 1000000000 (AGo 103) (KProbeApply 0 true THealthy THealthy);
 mkEv 1000000001 (ACmd 3) (KIssue 3 CkPause [x77;x65;x62]);
 mkEv 1000000001 (ACmd 3) (KParams 3 0 3000000000 5000000000);
 mkEv 1000000001 (ACmd 3) (KGateSet 0 GPaused (Some 0));
 mkEv 1000000001 (AGo 112) (KStateSet 0 THealthy TDraining);
 mkEv 1000000001 (AGo 112) (KStateSet 0 TDraining THealthy);
 mkEv 1000000001 (ACmd 3) (KReturn 3 CROk);
 mkEv 1000000001 (AReq 3) (KRouted 3 (Some 0));
 mkEv 1000000001 (AReq 3) (KGateRead 0 GPaused (Some 0));
 mkEv 2000000000 (AReq 1) (KGateWake 0 false);
 mkEv 2000000000 (AReq 1) (KGateResult 1 0 ATimedOut);
 mkEv 2000000000 (AReq 1) (KRespond 1 504 []);
 mkEv 2000000000 (AGo 103) (KProbeApply 0 true THealthy THealthy);
 mkEv 2000000000 (ACmd 4) (KIssue 4 CkResume [x77;x65;x62]);
 mkEv 2000000000 (ACmd 4) (KParams 4 0 0 0);
 mkEv 2000000000 (ACmd 4) (KGateSet 0 GRunning (Some 0));
 mkEv 2000000000 (ACmd 4) (KReturn 4 CROk);
 mkEv 2000000000 (AReq 2) (KGateWake 0 true);
 mkEv 2000000000 (AReq 2) (KGateResult 2 0 AProceed);
 mkEv 2000000000 (AReq 2) (KPick 2 0 (Some 0));
 mkEv 2000000000 (AReq 2) (KLbClaim 0 (Some 0) 2);
 mkEv 2000000000 (AReq 2) (KClaim 0 2);
 mkEv 2000000000 (AReq 2) (KRespond 2 200 [x74;x61;x3a;x38;x30]);
 mkEv 2000000000 (AReq 3) (KGateWake 0 true);
 mkEv 2000000000 (AReq 3) (KGateResult 3 0 AProceed);
 mkEv 2000000000 (AReq 3) (KPick 3 0 (Some 0));
 mkEv 2000000000 (AReq 3) (KLbClaim 0 (Some 0) 3);
 mkEv 2000000000 (AReq 3) (KClaim 0 3);
 mkEv 2000000000 (AReq 3) (KRespond 3 200 [x74;x61;x3a;x38;x30]);
 mkEv 2000000000 (AReq 5) (KRouted 5 (Some 0));
 mkEv 2000000000 (AReq 5) (KGateRead 0 GRunning (Some 0));
 mkEv 2000000000 (AReq 5) (KGateResult 5 0 AProceed);
 mkEv 2000000000 (AReq 5) (KPick 5 0 (Some 0));
 mkEv 2000000000 (AReq 5) (KLbClaim 0 (Some 0) 5);
 mkEv 2000000000 (AReq 5) (KClaim 0 5);
 mkEv 2000000000 (AReq 5) (KRespond 5 200 [x74;x61;x3a;x38;x30]);
 mkEv 2000000001 (AReq 4) (KRouted 4 (Some 0));
 mkEv 2000000001 (AReq 4) (KGateRead 0 GRunning (Some 0));
 mkEv 2000000001 (AReq 4) (KGateResult 4 0 AProceed);
 mkEv 2000000001 (AReq 4) (KPick 4 0 (Some 0));
 mkEv 2000000001 (AReq 4) (KLbClaim 0 (Some 0) 4);
 mkEv 2000000001 (AReq 4) (KClaim 0 4);
 mkEv 2000000001 (AReq 4) (KRespond 4 200 [x74;x61;x3a;x38;x30]);
 mkEv 3000000000 (AGo 103) (KProbeApply 0 true THealthy THealthy);
 mkEv 4000000000 (AGo 103) (KProbeApply 0 true THealthy THealthy);
 mkEv 5000000000 (AGo 103) (KProbeApply 0 true THealthy THealthy);
 mkEv 6000000000 (AGo 103) (KProbeApply 0 true THealthy THealthy);
 mkEv 7000000000 (AGo 103) (KProbeApply 0 true THealthy THealthy);
 mkEv 8000000000 (AGo 103) (KProbeApply 0 true THealthy THealthy);
 mkEv 9000000000 (AGo 103) (KProbeApply 0 true THealthy THealthy);
 mkEv 10000000000 (AGo 103) (KProbeApply 0 true THealthy THealthy);
 mkEv 11000000000 (AGo 103) (KProbeApply 0 true THealthy THealthy);
 mkEv 12000000000 (AGo 103) (KProbeApply 0 true THealthy THealthy);
 mkEv 13000000000 (AGo 103) (KProbeApply 0 true THealthy THealthy);
 mkEv 14000000000 (AGo 103) (KProbeApply 0 true THealthy THealthy);
 mkEv 15000000000 (AGo 103) (KProbeApply 0 true THealthy THealthy);
 mkEv 16000000000 (AGo 103) (KProbeApply 0 true THealthy THealthy);
 mkEv 17000000000 (AGo 103) (KProbeApply 0 true THealthy THealthy);
 mkEv 18000000000 (AGo 103) (KProbeApply 0 true THealthy THealthy);
 mkEv 19000000000 (AGo 103) (KProbeApply 0 true THealthy THealthy);
 mkEv 20000000000 (AGo 103) (KProbeApply 0 true THealthy THealthy);
 mkEv 21000000000 (AGo 103) (KProbeApply 0 true THealthy THealthy);
 mkEv 22000000000 (AGo 103) (KProbeApply 0 true THealthy THealthy);
 mkEv 23000000000 (AGo 103) (KProbeApply 0 true THealthy THealthy);
 mkEv 24000000000 (AGo 103) (KProbeApply 0 true THealthy THealthy);
 mkEv 25000000000 (AGo 103) (KProbeApply 0 true THealthy THealthy);
 mkEv 26000000000 (AGo 103) (KProbeApply 0 true THealthy THealthy);
 mkEv 27000000000 (AGo 103) (KProbeApply 0 true THealthy THealthy);
 mkEv 28000000000 (AGo 103) (KProbeApply 0 true THealthy THealthy);
 mkEv 29000000000 (AGo 103) (KProbeApply 0 true THealthy THealthy);
 mkEv 30000000000 (AGo 103) (KProbeApply 0 true THealthy THealthy);
 mkEv 31000000000 (AGo 103) (KProbeApply 0 true THealthy THealthy);
 mkEv 32000000000 (AGo 103) (KProbeApply 0 true THealthy THealthy);
 mkEv 33000000000 (AGo 103) (KProbeApply 0 true THealthy THealthy);
 mkEv 34000000000 (AGo 103) (KProbeApply 0 true THealthy THealthy);
 mkEv 35000000000 (AGo 103) (KProbeApply 0 true THealthy THealthy);
 mkEv 36000000000 (AGo 103) (KProbeApply 0 true THealthy THealthy);
 mkEv 37000000000 (AGo 103) (KProbeApply 0 true THealthy THealthy);
 mkEv 38000000000 (AGo 103) (KProbeApply 0 true THealthy THealthy);
 mkEv 39000000000 (AGo 103) (KProbeApply 0 true THealthy THealthy);
 mkEv 40000000000 (AGo 103) (KProbeApply 0 true THealthy THealthy);
 mkEv 41000000000 (AGo 103) (KProbeApply 0 true THealthy THealthy);
 mkEv 42000000000 (AGo 103) (KProbeApply 0 true THealthy THealthy);
 mkEv 43000000000 (AGo 103) (KProbeApply 0 true THealthy THealthy);
 mkEv 44000000000 (AGo 103) (KProbeApply 0 true THealthy THealthy);
 mkEv 45000000000 (AGo 103) (KProbeApply 0 true THealthy THealthy);
 mkEv 46000000000 (AGo 103) (KProbeApply 0 true THealthy THealthy);
 mkEv 47000000000 (AGo 103) (KProbeApply 0 true THealthy THealthy)].

Definition real_timers_reqs : list (nat * bool) := [(1, false); (2, false); (3, false); (5, true); (4, false)].

Definition real_stop : trace :=
 [mkEv 0 (ACmd 1) (KIssue 1 CkDeploy [x77;x65;x62]);
 mkEv 0 (ACmd 1) (KParams 1 5000000000 3000000000 0);
 mkEv 0 AEnv (KTargetName 0 [x74;x61;x3a;x38;x30]);
 mkEv 0 (ACmd 1) (KLbNew 0 [0]);
 mkEv 0 (AGo 144) (KProbeApply 0 true TAdding THealthy);
 mkEv 0 AEnv (KSvcName 0 [x77;x65;x62]);
 mkEv 0 (ACmd 1) (KSlot 0 false 0 None);
 mkEv 0 (ACmd 1) (KInstall 0 true);
 mkEv 0 (ACmd 1) (KReturn 1 CROk);
 mkEv 0 (ACmd 2) (KIssue 2 CkPause [x77;x65;x62]);
 mkEv 0 (ACmd 2) (KParams 2 0 3000000000 2000000000);
 mkEv 0 (ACmd 2) (KGateSet 0 GPaused (Some 0));
 mkEv 0 (AGo 148) (KStateSet 0 THealthy TDraining);
 mkEv 0 (AGo 148) (KStateSet 0 TDraining THealthy);
 mkEv 0 (ACmd 2) (KReturn 2 CROk);
 mkEv 0 (AReq 1) (KRouted 1 (Some 0));
 mkEv 0 (AReq 1) (KGateRead 0 GPaused (Some 0));
 mkEv 0 (AReq 2) (KRouted 2 (Some 0));
 mkEv 0 (AReq 2) (KRespond 2 200 []);
 mkEv 0 (AReq 3) (KRouted 3 (Some 0));
 mkEv 0 (AReq 3) (KGateRead 0 GPaused (Some 0));
 mkEv 0 (AReq 9) (KRouted 9 (Some 0));
 mkEv 0 (AReq 9) (KGateRead 0 GPaused (Some 0));
 mkEv 1000000000 (AGo 144) (KProbeApply 0 true THealthy THealthy);
 mkEv 1000000000 (ACmd 3) (KIssue 3 CkStop [x77;x65;x62]);
 mkEv 1000000000 (ACmd 3) (KParams 3 0 3000000000 0);
 mkEv 1000000000 (ACmd 3) (KGateSet 0 GStopped (Some 0));
 mkEv 1000000000 (AReq 9) (KGateWake 0 true);
 mkEv 1000000000 (AReq 9) (KGateResult 9 0 AStopped);
 mkEv 1000000000 (AReq 9) (KRespond 9 503 []);
 mkEv 1000000000 (AReq 3) (KGateWake 0 true);
 mkEv 1000000000 (AReq 3) (KGateResult 3 0 AStopped);
 mkEv 1000000000 (AReq 3) (KRespond 3 503 []);
 mkEv 1000000000 (AReq 1) (KGateWake 0 true);
 mkEv 1000000000 (AReq 1) (KGateResult 1 0 AStopped);
 mkEv 1000000000 (AReq 1) (KRespond 1 503 []);
 mkEv 1000000000 (AGo 155) (KStateSet 0 THealthy TDraining);
 mkEv 1000000000 (AGo 155) (KStateSet 0 TDraining THealthy);
 mkEv 1000000000 (ACmd 3) (KReturn 3 CROk);
 mkEv 1000000000 (AReq 4) (KRouted 4 (Some 0));
 mkEv 1000000000 (AReq 4) (KGateRead 0 GStopped (Some 0));
 mkEv 1000000000 (AReq 4) (KGateResult 4 0 AStopped);
 mkEv 1000000000 (AReq 4) (KRespond 4 503 []);
 mkEv 1000000000 (AReq 5) (KRouted 5 (Some 0));
 mkEv 1000000000 (AReq 5) (KRespond 5 200 []);
 mkEv 1000000000 (ACmd 4) (KIssue 4 CkPause [x77;x65;x62]);
 mkEv 1000000000 (ACmd 4) (KParams 4 0 3000000000 1000000000);
 mkEv 1000000000 (ACmd 4) (KGateSet 0 GPaused (Some 1));
 mkEv 1000000000 (AGo 160) (KStateSet 0 THealthy TDraining);
 mkEv 1000000000 (AGo 160) (KStateSet 0 TDraining THealthy);
 mkEv 1000000000 (ACmd 4) (KReturn 4 CROk);
 mkEv 1000000000 (AReq 6) (KRouted 6 (Some 0));
 mkEv 1000000000 (AReq 6) (KGateRead 0 GPaused (Some 1));
 mkEv 2000000000 (AGo 144) (KProbeApply 0 true THealthy THealthy);
 mkEv 2000000000 (AReq 6) (KGateWake 0 false);
 mkEv 2000000000 (AReq 6) (KGateResult 6 0 ATimedOut);
 mkEv 2000000000 (AReq 6) (KRespond 6 504 []);
 mkEv 2000000000 (ACmd 5) (KIssue 5 CkResume [x77;x65;x62]);
 mkEv 2000000000 (ACmd 5) (KParams 5 0 0 0);
 mkEv 2000000000 (ACmd 5) (KGateSet 0 GRunning (Some 1));
 mkEv 2000000000 (ACmd 5) (KReturn 5 CROk);
 mkEv 2000000000 (AReq 7) (KRouted 7 (Some 0));
 mkEv 2000000000 (AReq 7) (KGateRead 0 GRunning (Some 1));
 mkEv 2000000000 (AReq 7) (KGateResult 7 0 AProceed);
 mkEv 2000000000 (AReq 7) (KPick 7 0 (Some 0));
 mkEv 2000000000 (AReq 7) (KLbClaim 0 (Some 0) 7);
 mkEv 2000000000 (AReq 7) (KClaim 0 7);
 mkEv 2000000000 (AReq 7) (KRespond 7 200 [x74;x61;x3a;x38;x30]);
 mkEv 3000000000 (AGo 144) (KProbeApply 0 true THealthy THealthy);
 mkEv 4000000000 (AGo 144) (KProbeApply 0 true THealthy THealthy);
 mkEv 5000000000 (AGo 144) (KProbeApply 0 true THealthy THealthy);
 mkEv 6000000000 (AGo 144) (KProbeApply 0 true THealthy THealthy);
 mkEv 7000000000 (AGo 144) (KProbeApply 0 true THealthy THealthy);
 mkEv 8000000000 (AGo 144) (KProbeApply 0 true THealthy THealthy);
 mkEv 9000000000 (AGo 144) (KProbeApply 0 true THealthy THealthy);
 mkEv 10000000000 (AGo 144) (KProbeApply 0 true THealthy THealthy);
 mkEv 11000000000 (AGo 144) (KProbeApply 0 true THealthy THealthy);
 mkEv 12000000000 (AGo 144) (KProbeApply 0 true THealthy THealthy);
 mkEv 13000000000 (AGo 144) (KProbeApply 0 true THealthy THealthy);
 mkEv 14000000000 (AGo 144) (KProbeApply 0 true THealthy THealthy);
 mkEv 15000000000 (AGo 144) (KProbeApply 0 true THealthy THealthy);
 mkEv 16000000000 (AGo 144) (KProbeApply 0 true THealthy THealthy);
 mkEv 17000000000 (AGo 144) (KProbeApply 0 true THealthy THealthy);
 mkEv 18000000000 (AGo 144) (KProbeApply 0 true THealthy THealthy);
 mkEv 19000000000 (AGo 144) (KProbeApply 0 true THealthy THealthy);
 mkEv 20000000000 (AGo 144) (KProbeApply 0 true THealthy THealthy);
 mkEv 21000000000 (AGo 144) (KProbeApply 0 true THealthy THealthy);
 mkEv 22000000000 (AGo 144) (KProbeApply 0 true THealthy THealthy);
 mkEv 23000000000 (AGo 144) (KProbeApply 0 true THealthy THealthy);
 mkEv 24000000000 (AGo 144) (KProbeApply 0 true THealthy THealthy);
 mkEv 25000000000 (AGo 144) (KProbeApply 0 true THealthy THealthy);
 mkEv 26000000000 (AGo 144) (KProbeApply 0 true THealthy THealthy);
 mkEv 27000000000 (AGo 144) (KProbeApply 0 true THealthy THealthy);
 mkEv 28000000000 (AGo 144) (KProbeApply 0 true THealthy THealthy);
 mkEv 29000000000 (AGo 144) (KProbeApply 0 true THealthy THealthy);
 mkEv 30000000000 (AGo 144) (KProbeApply 0 true THealthy THealthy);
 mkEv 31000000000 (AGo 144) (KProbeApply 0 true THealthy THealthy);
 mkEv 32000000000 (AGo 144) (KProbeApply 0 true THealthy THealthy);
 mkEv 33000000000 (AGo 144) (KProbeApply 0 true THealthy THealthy);
 mkEv 34000000000 (AGo 144) (KProbeApply 0 true THealthy THealthy);
 mkEv 35000000000 (AGo 144) (KProbeApply 0 true THealthy THealthy);
 mkEv 36000000000 (AGo 144) (KProbeApply 0 true THealthy THealthy);
 mkEv 37000000000 (AGo 144) (KProbeApply 0 true THealthy THealthy);
 mkEv 38000000000 (AGo 144) (KProbeApply 0 true THealthy THealthy);
 mkEv 39000000000 (AGo 144) (KProbeApply 0 true THealthy THealthy);
 mkEv 40000000000 (AGo 144) (KProbeApply 0 true THealthy THealthy);
 mkEv 41000000000 (AGo 144) (KProbeApply 0 true THealthy THealthy);
 mkEv 42000000000 (AGo 144) (KProbeApply 0 true THealthy THealthy);
 mkEv 43000000000 (AGo 144) (KProbeApply 0 true THealthy THealthy);
 mkEv 44000000000 (AGo 144) (KProbeApply 0 true THealthy THealthy);
 mkEv 45000000000 (AGo 144) (KProbeApply 0 true THealthy THealthy);
 mkEv 46000000000 (AGo 144) (KProbeApply 0 true THealthy THealthy);
 mkEv 47000000000 (AGo 144) (KProbeApply 0 true THealthy THealthy)].

Definition real_stop_reqs : list (nat * bool) := [(1, false); (2, true); (3, false); (9, false); (4, false); (5, true); (6, false); (7, false)].

Local Open Scope N_scope.

(** * (1) The gate-level codes *)

(** Every failure the monitor reports for request r, on a trace the gate view accepts and under the side
    condition for r, is one of: a command failure, the routing / drain codes (forward, refused, stale: the
    recorded findings D3 / D2 / overlap live there), the shortcut code, or the health code of a request flagged
    GET-on-the-health-path. *)
Theorem c07_link_verdict : forall tr reqs r c,
  gate_accepts tr = true -> c07_side tr r = true -> In (r, c) (c07_check tr reqs) ->
  c = F_cmd \/ c = F_forward \/ c = F_refused \/ c = F_stale \/ c = F_shortcut \/
  (c = F_health /\ In (r, true) reqs).
Proof. exact link_verdict. Qed.
Print Assumptions c07_link_verdict.

(** Hence: not answered exactly once, gate state other than the commanded one, not held until one wake,
    released without a resume / stop, timer at a wrong time, timed out although a resume / stop had come
    earlier, gate result inconsistent with the path taken, status inconsistent with the gate result —
    none of these is ever reported (whatever the health flag of the request). *)
Theorem c07_link_gate_codes : forall tr reqs r c,
  gate_accepts tr = true -> c07_side tr r = true ->
  In c [F_once; F_read; F_held; F_chanwake; F_timer; F_late; F_result; F_status] -> ~ In (r, c) (c07_check tr reqs).
Proof. exact link_gate_codes. Qed.
Print Assumptions c07_link_gate_codes.

(** "timed out although a resume / stop had come earlier": the gate view accepts a timer wake only at a time
    not later than the close of the request's generation ([M5gate.step_wake]; a close wakes the select at
    that very instant, so only the tie "same instant" is possible, and it is accepted in either order). *)
Theorem c07_link_late : forall tr reqs r,
  gate_accepts tr = true -> c07_side tr r = true -> ~ In (r, F_late) (c07_check tr reqs).
Proof. exact link_late. Qed.
Print Assumptions c07_link_late.

(** "status inconsistent with the gate result": the gate view accepts, after "stopped" / "timed out", only
    the proxy's own 503 / 504 — the answer names no target ([M5gate.step_respond]). *)
Theorem c07_link_status : forall tr reqs r,
  gate_accepts tr = true -> c07_side tr r = true -> ~ In (r, F_status) (c07_check tr reqs).
Proof. exact link_status. Qed.
Print Assumptions c07_link_status.

Theorem c07_link_health : forall tr reqs r,
  gate_accepts tr = true -> c07_side tr r = true -> ~ In (r, true) reqs -> ~ In (r, F_health) (c07_check tr reqs).
Proof. exact link_health. Qed.
Print Assumptions c07_link_health.

(** the same per request, on the monitor's own function *)
Theorem c07_link_request : forall tr r hl,
  gate_accepts tr = true -> c07_side tr r = true ->
  forall c, In c (check_req (slim tr) r hl) ->
  c = F_forward \/ c = F_refused \/ c = F_stale \/ c = F_shortcut \/ (c = F_health /\ hl = true).
Proof. exact link_req. Qed.
Print Assumptions c07_link_request.

(** * What the views do NOT guarantee *)

(** The two links that the first version of the gate view did not give (it accepted a timer wake after an
    earlier close, and ignored the served-by field of the answer) were refuted by the traces [wit_late] and
    [wit_by].  On both the monitor still reports F_late / F_status, the side condition holds and the path view
    accepts — the tightened gate view rejects them, at the timer wake (event 19) and at the answer (event 17). *)
Example c07_link_late_witness_rejected :
  gate_accepts wit_late = false /\ first_reject gstep ginit wit_late 0 = Some 19%nat /\ path_accepts wit_late = true /\
  c07_side wit_late 1 = true /\ c07_plain wit_late 1 = true /\ c07_check wit_late [(1%nat, false)] = [(1%nat, F_late)].
Proof. exact wit_late_rejected. Qed.

Example c07_link_status_witness_rejected :
  gate_accepts wit_by = false /\ first_reject gstep ginit wit_by 0 = Some 17%nat /\ path_accepts wit_by = true /\
  c07_side wit_by 1 = true /\ c07_plain wit_by 1 = false /\ c07_check wit_by [(1%nat, false)] = [(1%nat, F_status)].
Proof. exact wit_by_rejected. Qed.

(** the tie stays accepted: the resume closes the generation at 2 s and the request is woken by its timer at
    the same instant, AFTER the close in trace order (Go's select had both cases ready); no monitor failure *)
Example c07_link_tie_accepted :
  accepted wit_tie /\ c07_side wit_tie 1 = true /\ c07_check wit_tie [(1%nat, false)] = [].
Proof. exact wit_tie_accepted. Qed.

(** the side condition is needed: accepted traces with a request that is routed and then lost (F_once), routed
    twice (F_held), a pause command with two parameter events (F_timer), a controller resumed by a command
    issued for another name (F_chanwake), time stamps running backwards (F_late: the generation of the request
    is closed at 3 s, a later resume of a later generation is stamped 1 s, the timer fires at 2 s) *)
Theorem c07_link_needs_side :
  (exists tr reqs r, accepted tr /\ c07_check tr reqs = [(r, F_once)]) /\
  (exists tr reqs r, accepted tr /\ c07_check tr reqs = [(r, F_held)]) /\
  (exists tr reqs r, accepted tr /\ c07_check tr reqs = [(r, F_timer)]) /\
  (exists tr reqs r, accepted tr /\ In (r, F_chanwake) (c07_check tr reqs)) /\
  (exists tr reqs r, accepted tr /\ time_mono (slim tr) = false /\ c07_check tr reqs = [(r, F_late)]).
Proof. exact link_needs_side. Qed.
Print Assumptions c07_link_needs_side.

(** * (2) The excuses *)

(** An excuse is attached only when the pattern of the recorded finding holds of the trace (by definition of
    [excuse]), only to the codes it may excuse, and never when no pattern holds. *)
Theorem c07_excuses_sound : forall tr reqs r c x,
  In (r, c, x) (c07_judge tr reqs) ->
  In (r, c) (c07_check tr reqs) /\
  (x = 3 -> known_d3 (slim tr) r = true /\ (c = F_forward \/ c = F_refused)) /\
  (x = 2 -> known_d2 (slim tr) r = true /\ (c = F_read \/ c = F_forward \/ c = F_refused \/ c = F_stale)) /\
  (x = 1 -> known_ov (slim tr) r = true /\ c = F_refused) /\
  (no_pattern tr r = true -> x = 0).
Proof. exact excuses_sound. Qed.
Print Assumptions c07_excuses_sound.

(** "no pattern => no F_forward / F_refused": REFUTED on doctored traces accepted by both views, in which the
    pause takes effect between the balancer's choice (lb-claim) and the claim of the target — the window of
    [known_d3] ends at the first lb-claim / claim.  (The views do not know that the real code does not yield
    between the two.) *)
Theorem c07_link_forward_refused_refuted :
  (exists tr reqs r, accepted tr /\ c07_side tr r = true /\ no_pattern tr r = true /\ c07_judge tr reqs = [(r, F_forward, 0)]) /\
  (exists tr reqs r, accepted tr /\ c07_side tr r = true /\ no_pattern tr r = true /\ c07_judge tr reqs = [(r, F_refused, 0)]).
Proof. exact link_forward_refused_refuted. Qed.
Print Assumptions c07_link_forward_refused_refuted.

(** * Non-vacuity: real traces with held requests satisfy the hypotheses *)

(** "timers": 3 requests park, 2 are released by a resume, 1 times out; one request is a GET on the health path. *)
Example c07_link_nonvacuous_timers :
  gate_accepts real_timers = true /\ path_accepts real_timers = true /\
  forallb (fun rh => c07_side real_timers (fst rh) && c07_plain real_timers (fst rh)) real_timers_reqs = true /\
  c07_stats real_timers = (3, 2, 1, 0) /\ c07_check real_timers real_timers_reqs = [].
Proof. repeat split; vm_compute; reflexivity. Qed.

(** "stop": 4 requests park, 3 are released (by the stop), 1 times out; 4 gate results "stopped". *)
Example c07_link_nonvacuous_stop :
  gate_accepts real_stop = true /\ path_accepts real_stop = true /\
  forallb (fun rh => c07_side real_stop (fst rh) && c07_plain real_stop (fst rh)) real_stop_reqs = true /\
  c07_stats real_stop = (4, 3, 1, 4) /\ c07_check real_stop real_stop_reqs = [].
Proof. repeat split; vm_compute; reflexivity. Qed.

(** * Where "per name" and "per controller" differ *)

(** A service is paused, removed and deployed again under the same name: the new object has a new, running
    pause controller, the monitor still holds the NAME for paused.  Both views accept the trace; the monitor
    reports F_read and F_forward (no excuse) for a request served by the new object.  The side condition is
    false for that request ([one_ctl]: the name has a gate-set on controller 0, the request read controller 1). *)
Theorem c07_link_second_controller :
  exists tr reqs r, accepted tr /\ c07_side tr r = false /\ no_pattern tr r = true /\
                    c07_judge tr reqs = [(r, F_forward, 0); (r, F_read, 0)].
Proof. exact link_second_controller. Qed.
Print Assumptions c07_link_second_controller.
