(** C14, "event streams pass through unbuffered": which responses count as event streams.  The correspondence run hands
    the target's own Content-Type spelling to corr/C14corr.event_stream_of; this is what that function means, for every
    byte string: the value is exactly "text/event-stream", or "text/event-stream" followed by ';' and anything at all -
    parameters, however sloppy, do not matter, and nothing else (capitals, a blank before the ';', a longer type) counts. *)
From KP Require Import model.Base corr.C14corr proofs.C14ctype.

Theorem c14_event_stream_iff_type_then_semicolon : forall ct,
  event_stream_of ct = true <-> ct = event_stream_type \/ exists rest, ct = event_stream_type ++ semi :: rest.
Proof. exact event_stream_of_iff. Qed.
Print Assumptions c14_event_stream_iff_type_then_semicolon.

(** the spellings of the correspondence run, decided by computation *)
Example c14_spellings :
  event_stream_of (event_stream_type ++ [x3b; x63; x68; x61; x72; x73; x65; x74]) = true /\      (* ";charset" *)
  event_stream_of (event_stream_type ++ [x20; x3b]) = false /\                                   (* a blank before the ';' *)
  event_stream_of (x54 :: tl event_stream_type) = false /\                                      (* "Text/event-stream" *)
  event_stream_of (event_stream_type ++ [x73]) = false.                                         (* "text/event-streams" *)
Proof. vm_compute. repeat split. Qed.
