(** C03 — When deploy, pause or stop returns, the drained targets are quiescent.

    Theorems about ALL traces accepted by the acceptor model/M5full.v (which
    accepts the event traces recorded from the real code).  Each event is one
    lock region of /repo/internal/server; [pre ++ e :: post] is an accepted
    trace split at the event [e] under discussion, [s1] the state before it.
    Proofs: proofs/M5fullInv.v, M5fullDrain.v, M5fullPath.v. *)
From KP Require Import model.Base model.Trace model.M5full
  proofs.M5fullFacts proofs.M5fullGuards proofs.M5fullInv proofs.M5fullDrain proofs.M5fullPath
  proofs.M5fullExamples.
Local Open Scope nat_scope.

(** the basic tool: an accepted trace splits at any event *)
Theorem run_app : forall pre e post s,
  run step init (pre ++ e :: post) = Some s ->
  exists s1 s2, run step init pre = Some s1 /\ step s1 e = Some s2 /\ run step s2 post = Some s.
Proof. intros pre e post s. exact (M5fullFacts.run_app step pre e post init s). Qed.
Print Assumptions run_app.

(** While a target is marked draining no request is sent to it: a claim is
    accepted only on a target that is not draining, a refusal only on a draining one. *)
Theorem c03_claim_never_on_draining : forall pre e post s t r,
  run step init (pre ++ e :: post) = Some s ->
  (e_k e = KClaim t r ->
     exists s1 x, run step init pre = Some s1 /\ nget (targets s1) t = Some x /\ t_state x <> TDraining) /\
  (e_k e = KClaimRefused t r ->
     exists s1 x, run step init pre = Some s1 /\ nget (targets s1) t = Some x /\ t_state x = TDraining).
Proof. exact c03_claim_lem. Qed.
Print Assumptions c03_claim_never_on_draining.

(** In every reachable state the in-flight set of a target is exactly
    {r | a KClaim t r occurred and no KEnd t r since}. *)
Theorem inflight_spec : forall tr s t x r,
  run step init tr = Some s -> nget (targets s) t = Some x ->
  (In r (t_inflight x) <->
   exists pre e post, tr = pre ++ e :: post /\ e_k e = KClaim t r /\
                      forall e', In e' post -> e_k e' <> KEnd t r).
Proof. exact M5fullInv.inflight_spec. Qed.
Print Assumptions inflight_spec.

(** A request id is claimed at most once. *)
Theorem claimed_once : forall a e1 b e2 c s t1 t2 r,
  run step init (a ++ e1 :: b ++ e2 :: c) = Some s ->
  e_k e1 = KClaim t1 r -> e_k e2 = KClaim t2 r -> False.
Proof. exact M5fullDrain.claimed_once. Qed.
Print Assumptions claimed_once.

(** The snapshot of a Drain lists no request twice and is exactly the set of the requests
    claimed on t and not ended ([open_in]) at that moment. *)
Theorem c03_snapshot_is_inflight : forall pre e post s t rs,
  run step init (pre ++ e :: post) = Some s -> e_k e = KDrainSnapshot t rs ->
  NoDup (map fst rs) /\ forall r, In r (map fst rs) <-> open_in pre t r.
Proof. exact c03_snapshot_lem. Qed.
Print Assumptions c03_snapshot_is_inflight.

(** a snapshot that lists a request twice (and so misses another one in flight) is not a
    behaviour of the model: the two hand-written traces are rejected at that event *)
Theorem c03_snapshot_dup_rejected :
  accepted ex_dup_pre = true /\ accepted (ex_dup_pre ++ [ex_dup_ev]) = false /\
  accepted ex_dup_up_pre = true /\ accepted (ex_dup_up_pre ++ [ex_dup_ev]) = false.
Proof. repeat split; vm_compute; reflexivity. Qed.
Print Assumptions c03_snapshot_dup_rejected.

(** When a Drain call ends — the state-set by the goroutine that has the open
    drain on t — "cancel the rest" has been done, and every request of that
    drain's snapshot (the list of its KDrainSnapshot event) has left the
    in-flight set of t or has been cancelled. *)
Theorem c03_settled_when_drain_ends : forall pre e post s t orig new s1 x d,
  run step init (pre ++ e :: post) = Some s -> e_k e = KStateSet t orig new -> new <> TDraining ->
  run step init pre = Some s1 -> nget (targets s1) t = Some x ->
  nget (t_drains x) (goid (e_by e)) = Some d ->
  d_cancelled d = true /\
  exists sn, d_snap d = Some sn /\
    (forall r, In r sn -> ~ In r (t_inflight x) \/ cancelled s1 r = true) /\
    (exists es rs, In es pre /\ e_k es = KDrainSnapshot t rs /\ goid (e_by es) = goid (e_by e) /\ map fst rs = sn).
Proof. exact c03_settled_lem. Qed.
Print Assumptions c03_settled_when_drain_ends.

(** Grace: if the event e turns request r from not cancelled to cancelled, then EITHER
    ([cut_at_deadline]) e is the "cancel the rest" of a Drain of some target t by goroutine g,
    r is in the snapshot of that Drain and still in flight on t, and g noticed its deadline
    before, at a time >= (time of its KDrainBegin) + drain timeout:
      exists t p1 eb mid orig timeout es rs ed,
        e_k e = KDrainCancelRest t /\ pre = p1 ++ eb :: mid /\
        e_k eb = KDrainBegin t orig timeout /\ goid (e_by eb) = goid (e_by e) /\
        In es mid /\ e_k es = KDrainSnapshot t rs /\ goid (e_by es) = goid (e_by e) /\ In r (map fst rs) /\
        In ed mid /\ e_k ed = KDrainDeadline t /\ goid (e_by ed) = goid (e_by e) /\
        e_t eb + timeout <= e_t ed /\ e_t ed <= e_t e /\ open_in pre t r
    OR ([cut_as_upgraded]) e is the snapshot of a Drain of t that lists r as upgraded, r is in
    flight on t and its target has answered 101 (an upgraded connection: cut as soon as draining begins):
      exists t rs, e_k e = KDrainSnapshot t rs /\ In (r, true) rs /\ open_in pre t r /\
                   phase_of s1 r = Some (PReplied t 101). *)
Theorem c03_grace : forall pre e post s s1 s2 r,
  run step init (pre ++ e :: post) = Some s ->
  run step init pre = Some s1 -> step s1 e = Some s2 ->
  cancelled s1 r = false -> cancelled s2 r = true ->
  cut_at_deadline pre e r \/ cut_as_upgraded pre e s1 r.
Proof. exact c03_grace_lem. Qed.
Print Assumptions c03_grace.

(** Upgraded connections are closed as soon as draining begins: at every accepted snapshot
    the flag of an entry says exactly "the target answered 101"; every flagged entry has phase
    [PReplied t 101] and is cancelled in the resulting state; and every request in flight on t
    with phase [PReplied t 101] is a flagged entry and is cancelled in the resulting state. *)
Theorem c03_upgraded_cut_when_draining_begins : forall pre e post s t rs,
  run step init (pre ++ e :: post) = Some s -> e_k e = KDrainSnapshot t rs ->
  exists s1 s2 x, run step init pre = Some s1 /\ step s1 e = Some s2 /\ nget (targets s1) t = Some x /\
    (forall r h, In (r, h) rs -> (h = true <-> exists t', phase_of s1 r = Some (PReplied t' 101%N))) /\
    (forall r, In (r, true) rs -> cancelled s2 r = true /\ phase_of s1 r = Some (PReplied t 101%N)) /\
    (forall r, In r (t_inflight x) -> phase_of s1 r = Some (PReplied t 101%N) ->
       In (r, true) rs /\ cancelled s2 r = true).
Proof. exact c03_upgraded_lem. Qed.
Print Assumptions c03_upgraded_cut_when_draining_begins.

(** Only upgraded connections are cut early: a request that a snapshot event cancels has phase
    [PReplied t 101] — so, with [c03_grace], a request that is not an upgraded connection is
    never cancelled before the mark time + drain timeout of a Drain that has it in its snapshot. *)
Theorem c03_only_upgraded_cut_early : forall pre e post s s1 s2 r t rs,
  run step init (pre ++ e :: post) = Some s ->
  run step init pre = Some s1 -> step s1 e = Some s2 -> e_k e = KDrainSnapshot t rs ->
  cancelled s1 r = false -> cancelled s2 r = true ->
  In (r, true) rs /\ phase_of s1 r = Some (PReplied t 101%N) /\ open_in pre t r.
Proof. exact c03_only_upgraded_lem. Qed.
Print Assumptions c03_only_upgraded_cut_early.

(** An accepted hijack event: the target of the request has answered 101. *)
Theorem c03_hijack_after_101 : forall pre e post s r,
  run step init (pre ++ e :: post) = Some s -> e_k e = KHijacked r ->
  exists s1 t, run step init pre = Some s1 /\ phase_of s1 r = Some (PReplied t 101%N).
Proof.
  intros pre e post s r Hrun Hk. destruct (M5fullFacts.run_app step _ _ _ _ _ Hrun) as (s1 & s2 & Ha & He & _).
  destruct (step_KHijacked _ _ _ _ He Hk) as [Hu _]. apply upgraded_phase in Hu. destruct Hu as (t & Hp). eauto.
Qed.
Print Assumptions c03_hijack_after_101.

(** Cancelled requests get 504: "cancelled by a drain" (why = 1) is accepted only
    for a request a drain did cancel; such a request is answered 504; a request
    whose target replied is answered with the target's own status. *)
Theorem c03_cancelled_gets_504 : forall pre e post s,
  run step init (pre ++ e :: post) = Some s ->
  (forall t r, e_k e = KTargetFailed t r 1%N ->
     exists s1, run step init pre = Some s1 /\ cancelled s1 r = true) /\
  (forall r status sb t, e_k e = KRespond r status sb ->
     (In (KTargetFailed t r 1%N) (req_path r pre) -> status = 504%N) /\
     (forall st, In (KTargetReplied t r st) (req_path r pre) -> status = st)).
Proof.
  intros pre e post s Hrun. split.
  - intros t r Hk. eapply failed_by_drain_cancelled; eauto.
  - intros r status sb t Hk. eapply response_after_target; eauto.
Qed.
Print Assumptions c03_cancelled_gets_504.

(** An upgraded connection that is cancelled (at the snapshot or later) is not answered 504:
    its target had replied 101, and that is the status reported. *)
Theorem c03_upgraded_responds_101 : forall pre e post s r status sb t,
  run step init (pre ++ e :: post) = Some s -> e_k e = KRespond r status sb ->
  In (KTargetReplied t r 101%N) (req_path r pre) -> status = 101%N.
Proof.
  intros pre e post s r status sb t Hrun Hk Hin.
  destruct (response_after_target _ _ _ _ _ _ _ t Hrun Hk) as [_ H]. auto.
Qed.
Print Assumptions c03_upgraded_responds_101.

(** D11 (observation): a Drain call that finds the target already draining opens
    no drain and changes nothing — it returns at once, while the first Drain may still be waiting. *)
Theorem c03_early_return : forall pre e post s t timeout,
  run step init (pre ++ e :: post) = Some s -> e_k e = KDrainBegin t TDraining timeout ->
  exists s1 s2, run step init pre = Some s1 /\ step s1 e = Some s2 /\
    targets s2 = targets s1 /\ lbs s2 = lbs s1 /\ reqs s2 = reqs s1.
Proof. exact c03_early_return_lem. Qed.
Print Assumptions c03_early_return.

(** D12 (observation): there is an accepted trace in which, after the Drain of t
    has begun and before it ends (no state-set on t in between), a successful
    probe sets t back to healthy and t then accepts a new claim. *)
Theorem c03_probe_flips_draining :
  exists pre eb mid ec t r g tmo,
    accepted (pre ++ eb :: mid ++ [ec]) = true /\
    e_k eb = KDrainBegin t THealthy tmo /\ e_by eb = AGo g /\
    In (KProbeApply t true TDraining THealthy) (map e_k mid) /\
    (forall e' o n, In e' mid -> e_k e' <> KStateSet t o n) /\
    e_k ec = KClaim t r.
Proof.
  exists (ex_flip_pre ++ [ev 40 (AGo 1) (KStateSet 0 THealthy TDraining)]),
         (ev 40 (AGo 1) (KDrainBegin 0 THealthy 100)), ex_flip_mid,
         (ev 42 (AReq 1) (KClaim 0 1)), 0, 1, 1, 100%N.
  split; [vm_compute; reflexivity|]. repeat split.
  - cbn. auto.
  - intros e' o n [<-|[<-|[<-|[]]]]; discriminate.
Qed.
Print Assumptions c03_probe_flips_draining.

(** ** Non-vacuity: hand-written traces (proofs/M5fullExamples.v) are accepted
       and exercise the hypotheses of the theorems above *)

Example ex_deadline_accepted : accepted ex_deadline = true.
Proof. vm_compute. reflexivity. Qed.
Example ex_early_accepted : accepted ex_early = true.
Proof. vm_compute. reflexivity. Qed.
Example ex_second_drain_accepted : accepted ex_second_drain = true.
Proof. vm_compute. reflexivity. Qed.

(** the cancel-rest of ex_deadline does flip request 1 to cancelled (hypotheses of c03_grace) *)
Example ex_grace_instance :
  exists s1 s2,
    run step init (ex_prefix ++ firstn 4 (drain_t0_deadline 40)) = Some s1 /\
    step s1 (ev 140 (AGo 1) (KDrainCancelRest 0)) = Some s2 /\
    cancelled s1 1 = false /\ cancelled s2 1 = true.
Proof. eexists. eexists. split; [vm_compute; reflexivity|]. split; [vm_compute; reflexivity|]. split; reflexivity. Qed.

(** at the end of the Drain of ex_deadline goroutine 1 has the open drain with snapshot [1] (hypotheses of c03_settled_when_drain_ends) *)
Example ex_settled_instance :
  exists s1 x d,
    run step init (ex_prefix ++ firstn 8 (drain_t0_deadline 40)) = Some s1 /\
    nget (targets s1) 0 = Some x /\ nget (t_drains x) 1 = Some d /\ d_snap d = Some [1] /\
    t_inflight x = [] /\ cancelled s1 1 = true.
Proof. eexists. eexists. eexists. split; [vm_compute; reflexivity|]. repeat split; reflexivity. Qed.

(** in ex_early the request ends before the deadline and is not cancelled *)
Example ex_early_not_cancelled :
  exists s, run step init ex_early = Some s /\ cancelled s 1 = false.
Proof. eexists. split; [vm_compute; reflexivity|reflexivity]. Qed.

(** an upgraded connection and a plain hanging request on t1, Drain with timeout 3 s:
    the upgraded one is cancelled at the snapshot, the plain one at the deadline *)
Example ex_upgrade_accepted : accepted ex_upgrade = true.
Proof. vm_compute. reflexivity. Qed.

Example ex_upgrade_cut_at_snapshot :
  exists s1 s2,
    run step init ex_upgrade_pre = Some s1 /\ step s1 ex_upgrade_snap = Some s2 /\
    phase_of s1 1 = Some (PReplied 1 101%N) /\ cancelled s1 1 = false /\ cancelled s2 1 = true /\
    phase_of s1 3 = Some (PAtTarget 1) /\ cancelled s2 3 = false.
Proof. eexists. eexists. split; [vm_compute; reflexivity|]. split; [vm_compute; reflexivity|]. repeat split; reflexivity. Qed.

Example ex_upgrade_plain_cut_at_deadline :
  exists s1 s2,
    run step init (ex_upgrade_pre ++ ex_upgrade_snap :: ex_upgrade_mid) = Some s1 /\
    step s1 ex_upgrade_rest = Some s2 /\
    cancelled s1 3 = false /\ cancelled s2 3 = true /\ clock s2 = (40 + 3000000000)%N.
Proof. eexists. eexists. split; [vm_compute; reflexivity|]. split; [vm_compute; reflexivity|]. repeat split; reflexivity. Qed.

(** the upgraded request is answered 101, the plain one 504 *)
Example ex_upgrade_statuses :
  In (KRespond 1 101%N (bs "b")) (map e_k ex_upgrade) /\ In (KRespond 3 504%N (bs "b")) (map e_k ex_upgrade).
Proof. split; vm_compute; auto 100. Qed.
