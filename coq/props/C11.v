(** C11 — A restart changes nothing observable.
    Only statements; proofs are in proofs/SeqInv.v and proofs/SeqEquiv.v
    (over model/Seq.v, "M4"). *)
From KP Require Import model.Base model.ServiceMap model.Seq corr.M4corr
  proofs.SeqFacts proofs.SeqInv proofs.SeqEquiv.

(** [equiv st1 st2] (proofs/SeqEquiv.v): the same observable services in the
    same order — [obs_of] = everything the state file holds of a service
    ([snap_of]), whether a paused gate has a nil channel, and on root path
    services whether a certificate manager exists —, the same multiset of
    probed targets, the same parsed state file.  Health is an input of the
    commands in M4, so "restored targets are presumed healthy" needs no
    licence here: a restart probes exactly the targets of the restored
    services, which is the multiset probed before. *)

(** [Inv] (proofs/SeqInv.v) holds of every reachable state. *)
Theorem c11_inv_reachable : forall st, reachable fixed st -> Inv st.
Proof. exact reachable_inv. Qed.

(** A restart in any reachable state yields an equivalent state... *)
Theorem c11_restart_equiv : forall st,
  reachable fixed st -> equiv st (snd (exec fixed st Restart)).
Proof. intros st H. apply restart_equiv, reachable_inv, H. Qed.

(** ...in fact the very same services, probing exactly their targets. *)
Theorem c11_restart_exact : forall st,
  reachable fixed st ->
  snd (exec fixed st Restart) = mkState (st_services st) (targets_of (st_services st)) (st_disk st).
Proof. intros st H. apply restart_fixed, reachable_inv, H. Qed.

(** Equivalence is a bisimulation: same result ([Panic] is a result), and
    equivalent states again, for every command with every environment input. *)
Theorem c11_bisim : forall st1 st2,
  equiv st1 st2 -> Inv st1 -> Inv st2 ->
  forall c, fst (exec fixed st1 c) = fst (exec fixed st2 c) /\
            equiv (snd (exec fixed st1 c)) (snd (exec fixed st2 c)).
Proof. intros st1 st2 He H1 H2 c. now apply exec_bisim. Qed.

(** Equivalent states answer every request alike and list alike. *)
Theorem c11_serve_equal : forall st1 st2,
  equiv st1 st2 -> forall ig q, serve ig st1 q = serve ig st2 q.
Proof. intros st1 st2 H ig q. now apply serve_equiv. Qed.

Theorem c11_list_equal : forall st1 st2,
  equiv st1 st2 -> list_services st1 = list_services st2.
Proof. exact list_equiv. Qed.

(** Every history, a restart at its end, every continuation: the same results
    command by command ([results]), and equivalent states — hence the same
    answers to all requests and the same `list` — after the continuation (and,
    the continuation being arbitrary, after each of its prefixes). *)
Theorem c11_continuation : forall cs1 cs2,
  let sA := exec_all fixed init_state (cs1 ++ [Restart]) in
  let sB := exec_all fixed init_state cs1 in
  results fixed sA cs2 = results fixed sB cs2 /\
  equiv (exec_all fixed sA cs2) (exec_all fixed sB cs2) /\
  (forall ig q, serve ig (exec_all fixed sA cs2) q = serve ig (exec_all fixed sB cs2) q) /\
  list_services (exec_all fixed sA cs2) = list_services (exec_all fixed sB cs2).
Proof. exact continuation_full. Qed.

(** A restart inserted at any point of any history. *)
Theorem c11_restart_anywhere : forall cs1 cs2,
  equiv (exec_all fixed init_state (cs1 ++ Restart :: cs2)) (exec_all fixed init_state (cs1 ++ cs2)).
Proof. exact restart_anywhere. Qed.

(** ** A concrete history *)

Definition tg (n : String.string) : tgt_in := mkTgt (bs n) true.
Arguments tg _%string_scope.
Definition t0 : topts := mkTopts (bs "/up") 7.
Definition o_web : sopts := mkSopts [bs "a.example.com"] [] true true CertGood PagesNone false.
Definition o_api : sopts := mkSopts [bs "a.example.com"] [bs "api/"] false false CertNone PagesGood true.
Definition o_wild : sopts := mkSopts [bs "*.example.org"] [] true false CertGood PagesNone false.
Definition o_wsub : sopts := mkSopts [bs "*.example.org"] [bs "/sub"] false false CertNone PagesNone true.

Definition hist1 : list cmd :=
  [ Deploy (bs "web") o_web t0 [tg "web-1:3000"; tg "web-2:3000"];
    Deploy (bs "api") o_api t0 [tg "api-1"];
    Deploy (bs "wild") o_wild t0 [tg "wild-1"];
    Deploy (bs "wsub") o_wsub t0 [tg "wsub-1"];
    RolloutDeploy (bs "web") [tg "web-3:3000"];
    RolloutSet (bs "web") 20 [bs "alice"];
    Stop (bs "wild") (bs "back soon");
    Pause (bs "api") 30 ].

Definition cont1 : list cmd :=
  [ Resume (bs "api"); RolloutSet (bs "wsub") 10 []; RolloutSet (bs "web") 50 [];
    Deploy (bs "other") o_web t0 [tg "other-1"]; Resume (bs "wild");
    Deploy (bs "api") o_api t0 [tg "api-2"]; Remove (bs "web"); Restart; Stop (bs "api") [] ].

(** The restart has something to restore (a paused, a stopped, a rolled-out
    service, and sub-path services whose TLS flag was inherited — on a wildcard
    host without certificate paths), and restores exactly it. *)
Example c11_example_restart :
  let st := exec_all fixed init_state hist1 in
  st_services (snd (exec fixed st Restart)) = st_services st /\
  st_disk (snd (exec fixed st Restart)) = st_disk st /\
  st_probing (snd (exec fixed st Restart)) <> st_probing st (* same multiset, other order *) /\
  map lr_name (list_services st) = [bs "api"; bs "wild"; bs "wsub"; bs "web"] /\
  map lr_state (list_services st) = [bs "paused"; bs "stopped"; bs "running"; bs "running"] /\
  map lr_tls (list_services st) = [true; true; true; true].
Proof. vm_compute. repeat split. discriminate. Qed.

Example c11_example_continuation :
  results fixed (exec_all fixed init_state (hist1 ++ [Restart])) cont1 =
    [Ok; Err ERolloutNotSet; Ok; Err EHostInUse; Ok; Ok; Ok; Ok; Ok] /\
  results fixed (exec_all fixed init_state hist1) cont1 =
    [Ok; Err ERolloutNotSet; Ok; Err EHostInUse; Ok; Ok; Ok; Ok; Ok].
Proof. vm_compute. split; reflexivity. Qed.

(** ** Empty rollout target sets

    `rollout deploy` with no targets succeeds and leaves [s_rollout = Some []].
    The model restores it as it was saved, so on the model the theorems above
    hold for such histories too: *)
Definition hist_empty_rollout : list cmd :=
  [Deploy (bs "web") o_web t0 [tg "web-1:3000"]; RolloutDeploy (bs "web") []].

Example c11_model_empty_rollout :
  results fixed (exec_all fixed init_state hist_empty_rollout) [RolloutSet (bs "web") 50 []] = [Ok] /\
  results fixed (exec_all fixed init_state (hist_empty_rollout ++ [Restart])) [RolloutSet (bs "web") 50 []] = [Ok].
Proof. vm_compute. split; reflexivity. Qed.

(** The code, however, restores a rollout balancer only when the saved list is
    non-empty (service.go: `if len(ms.RolloutTargets) > 0`), so there the
    second result is "rollout target not set": a model-vs-code gap on exactly
    these histories, and a remaining instance of C11 failing in the code.
    Histories in which every `rollout deploy` names at least one target never
    reach such a state, and for them model and code restore alike: *)
Theorem c11_rollout_nonempty : forall cs,
  Forall rollout_deploy_nonempty cs ->
  Forall (fun s => s_rollout s <> Some []) (st_services (exec_all fixed init_state cs)).
Proof. exact rollout_nonempty. Qed.

(** ** The pinned tree *)

(** D5: pause, restart, resume: panic (nil channel closed) instead of Ok. *)
Theorem c11_refuted_pinned_D5 : exists cs c,
  fst (exec pinned (exec_all pinned init_state (cs ++ [Restart])) c) = Panic /\
  fst (exec pinned (exec_all pinned init_state cs) c) = Ok.
Proof.
  exists [Deploy (bs "web") o_web t0 [tg "web-1:3000"]; Pause (bs "web") 30], (Resume (bs "web")).
  vm_compute. split; reflexivity.
Qed.

(** D6: deploy, restart, rollout set: Ok (an empty rollout target set was
    restored) instead of "rollout target not set". *)
Theorem c11_refuted_pinned_D6 : exists cs c,
  fst (exec pinned (exec_all pinned init_state (cs ++ [Restart])) c) = Ok /\
  fst (exec pinned (exec_all pinned init_state cs) c) = Err ERolloutNotSet.
Proof.
  exists [Deploy (bs "web") o_web t0 [tg "web-1:3000"]], (RolloutSet (bs "web") 50 []).
  vm_compute. split; reflexivity.
Qed.

(** D17: a wildcard host with a static certificate on the root path service
    and a sub-path service inheriting its TLS flag: the restore fails
    (automatic TLS does not support wildcards) and the proxy comes up empty. *)
Theorem c11_refuted_pinned_D17 : exists cs q,
  st_services (exec_all pinned init_state (cs ++ [Restart])) = [] /\
  serve (fun _ _ => false) (exec_all pinned init_state (cs ++ [Restart])) q = R404 /\
  serve (fun _ _ => false) (exec_all pinned init_state cs) q = RForward (bs "wsub") [bs "wsub-1"] (Some (bs "/sub")).
Proof.
  exists [Deploy (bs "wild") o_wild t0 [tg "wild-1"]; Deploy (bs "wsub") o_wsub t0 [tg "wsub-1"]],
         (mkReq (bs "x.example.org") (bs "/sub/page") (bs "/sub/page") true true None).
  vm_compute. repeat split.
Qed.

Print Assumptions c11_inv_reachable.
Print Assumptions c11_restart_equiv.
Print Assumptions c11_restart_exact.
Print Assumptions c11_bisim.
Print Assumptions c11_serve_equal.
Print Assumptions c11_list_equal.
Print Assumptions c11_continuation.
Print Assumptions c11_restart_anywhere.
Print Assumptions c11_rollout_nonempty.
Print Assumptions c11_refuted_pinned_D5.
Print Assumptions c11_refuted_pinned_D6.
Print Assumptions c11_refuted_pinned_D17.
