(** C07 — A paused service holds requests and releases them intact.
    Only statements, each closed by [exact] (the two refutations: by evaluating the
    views on the witness trace); the proofs are in
    proofs/M5gateFacts.v, proofs/M5pathFacts.v and proofs/C07SeqFacts.v.

    The theorems are about ALL event traces (model/Trace.v) accepted by the
    pause-gate view model/M5gate.v ([gate_accepts]: the trace is a behaviour of
    the model of pause_controller.go + handlePausedAndStoppedRequests, and at
    its end every request that consulted a gate has been answered) and, for
    the last part, also by the routing / balancer / drain view model/M5path.v
    ([path_accepts]).  That the traces of the real router ARE accepted is what
    the correspondence run of tools/c07.py checks.

    Vocabulary (proofs/M5gateFacts.v; a history is a trace prefix reversed,
    newest event first):
      [state_at h pc], [chan_at h pc]  state / channel reported by the most recent Pause, Resume or Stop on
                                       controller pc;
      [in_force h pc]                  the max-pause argument of the command that issued the most recent Pause;
      [closer h g]                     the state set by the call that closed generation g (None: still open);
      [close_time h g]                 the time of that call;
      [quiet r l]                      no event of l is about request r (gate read / wake / result, pick,
                                       lb-claim, claim, claim-refused, respond);
      [pathonly r l]                   the events of l about r are pick / lb-claim / claim / claim-refused;
      [ev_read r h], [ev_wake r h w]   the gate-read (paused) and gate-wake events of request r. *)
From KP Require Import model.Base model.ServiceMap model.Seq model.Trace model.M5gate model.M5path.
From KP Require Import proofs.M5gateFacts proofs.M5pathFacts proofs.C07SeqFacts.
Local Open Scope N_scope.

(** * Held requests: exactly one outcome, decided by arrival, commands and the request's own timer *)

(** Every request that parked at a paused gate (read [GPaused] on generation g
    at time t) has, in every accepted trace, exactly this story:

      pre ++ READ :: held ++ WAKE :: aw ++ RESULT a :: mid ++ RESPOND status :: rest

    with no other event about it in pre, held, aw, rest (so: one gate result, one
    answer), only pick / lb-claim / claim events in mid and none unless a = proceed;
    - it read the controller's current state and generation, and its max-pause
      is the one in force at the read;
    - woken by channel only if its generation had been closed (by a resume or a
      stop) before the wake; woken by its timer exactly at read time + max-pause,
      and then its generation had not been closed at a strictly earlier time (a
      close wakes the select at that very instant; only a tie is possible);
    - the gate result: timer => timed out; channel => stopped iff the state at
      the wake (= at the re-read) is stopped, else proceed; nothing else;
    - stopped => 503, timed out => 504, and these answers name no target. *)
Theorem c07_outcome : forall tr r e,
  gate_accepts tr = true -> In e tr -> is_pread r e ->
  exists pre held aw mid rest h w a status t3 svc t5 who sb,
    tr = pre ++ ev_read r h :: held ++ ev_wake r h w :: aw ++
         mkEv t3 (AReq r) (KGateResult r svc a) :: mid ++ mkEv t5 who (KRespond r status sb) :: rest /\
    quiet r pre /\ quiet r held /\ quiet r aw /\ pathonly r mid /\ (a = AProceed \/ quiet r mid) /\ quiet r rest /\
    state_at (rev pre) (h_pc h) = GPaused /\ chan_at (rev pre) (h_pc h) = Some (h_gen h) /\
    h_fail h = in_force (rev pre) (h_pc h) /\
    (w_chan w = true -> closer (rev (pre ++ ev_read r h :: held)) (h_gen h) <> None) /\
    (w_chan w = false -> w_t w = h_tread h + h_fail h) /\
    a = (if w_chan w
         then match state_at (rev (pre ++ ev_read r h :: held)) (h_pc h) with GStopped => AStopped | _ => AProceed end
         else ATimedOut) /\
    (a = AStopped -> status = 503) /\ (a = ATimedOut -> status = 504) /\
    (w_chan w = false -> forall tc, close_time (rev (pre ++ ev_read r h :: held)) (h_gen h) = Some tc -> w_t w <= tc) /\
    (a <> AProceed -> sb = []).
Proof. exact parked_story_flat. Qed.
Print Assumptions c07_outcome.

(** The three outcomes, read off [c07_outcome]: with [hb] the history before the
    wake, [g] the request's generation, [pc] its controller —
    timed out iff woken by the timer; stopped iff woken by channel and the state
    at the wake is stopped; proceed iff woken by channel and it is not. And when
    no Pause / Resume / Stop came between the closing call and the wake, the
    closing call decides: closed by resume => proceed, closed by stop => stopped. *)
Theorem c07_outcome_cases : forall (w : wake) (hb : trace) (pc g : nat) (a : gaction),
  a = (if w_chan w then match state_at hb pc with GStopped => AStopped | _ => AProceed end else ATimedOut) ->
  (a = ATimedOut <-> w_chan w = false) /\
  (a = AStopped <-> w_chan w = true /\ state_at hb pc = GStopped) /\
  (a = AProceed <-> w_chan w = true /\ state_at hb pc <> GStopped) /\
  (forall st, w_chan w = true -> closer hb g = Some st -> state_at hb pc = st ->
              (a = AProceed <-> st = GRunning) /\ (a = AStopped <-> st = GStopped)).
Proof. exact outcome_cases. Qed.
Print Assumptions c07_outcome_cases.

(** * Held: neither forwarded nor failed between the read and the wake *)

Theorem c07_held_while_paused : forall tr r e,
  gate_accepts tr = true -> In e tr -> is_pread r e ->
  exists pre held rest h w,
    tr = pre ++ ev_read r h :: held ++ ev_wake r h w :: rest /\
    forall x, In x held ->
      (forall svc lb, e_k x <> KPick r svc lb) /\ (forall lb t, e_k x <> KLbClaim lb t r) /\
      (forall t, e_k x <> KClaim t r) /\ (forall t, e_k x <> KClaimRefused t r) /\
      (forall st sb, e_k x <> KRespond r st sb) /\ (forall svc a, e_k x <> KGateResult r svc a).
Proof. exact held_between. Qed.
Print Assumptions c07_held_while_paused.

(** * A repeated pause keeps the generation and changes the max-pause for later arrivals only *)

(** A Pause on a controller that is already paused reports the SAME channel
    (the held requests keep waiting on it), closes no generation, and from now
    on the max-pause in force is its own argument — while by [c07_outcome] every
    request already parked keeps the deadline "its read + max-pause in force at
    its read". *)
Theorem c07_repeated_pause_keeps_generation : forall pre e post s pc ch,
  run gstep ginit (pre ++ e :: post) = Some s ->
  e_k e = KGateSet pc GPaused ch ->
  state_at (rev pre) pc = GPaused ->
  ch = chan_at (rev pre) pc /\ ch <> None /\
  (forall g, closer (e :: rev pre) g = closer (rev pre) g) /\
  (forall c, e_by e = ACmd c ->
             in_force (e :: rev pre) pc = match fail_of (rev pre) c with Some fa => fa | None => 0 end).
Proof. exact repeated_pause. Qed.
Print Assumptions c07_repeated_pause_keeps_generation.

(** * A redeploy while paused neither releases nor loses held requests *)

(** The copy made by a redeploy uses the controller of the object it was copied
    from: requests consulting the gate through the old and through the new
    object read the same controller ... *)
Theorem c07_redeploy_shares_gate : forall tr s old new e0 e1 e2 e3 e4 r1 r2 pc1 pc2 a1 a2,
  run gstep ginit tr = Some s ->
  In e0 tr -> e_k e0 = KSvcCopy old new ->
  In e1 tr -> is_read_on r1 pc1 e1 -> In e2 tr -> e_k e2 = KGateResult r1 old a1 ->
  In e3 tr -> is_read_on r2 pc2 e3 -> In e4 tr -> e_k e4 = KGateResult r2 new a2 ->
  pc1 = pc2.
Proof. exact redeploy_shares. Qed.
Print Assumptions c07_redeploy_shares_gate.

(** ... and the events of a redeploy (copy, slot update, install, drains, ...:
    anything but Pause / Resume / Stop and the requests' own events) leave every
    controller, every generation and every parked request as they were. *)
Theorem c07_redeploy_keeps_held : forall s e s',
  gstep s e = Some s' ->
  (forall pc st ch, e_k e <> KGateSet pc st ch) -> (forall c a b fa, e_k e <> KParams c a b fa) ->
  req_of e = None ->
  g_ctl s' = g_ctl s /\ g_closed s' = g_closed s /\ g_ctime s' = g_ctime s /\
  forall r, nget (g_req s') r = nget (g_req s) r.
Proof. exact non_gate_event_inert. Qed.
Print Assumptions c07_redeploy_keeps_held.

(** * The health-check shortcut (sequential machine model/Seq.v) *)

Theorem c07_healthcheck_200 : forall ig st q n prefix s,
  route (table_of (st_services st)) (q_host q) (q_path q) = Some (n, prefix) ->
  svc_get (st_services st) n = Some s ->
  p_state (s_pause s) <> Running ->
  q_get q = true -> q_path q = t_health_path (s_topts s) ->
  serve ig st q =
    if o_tls (s_opts s) && o_tls_redirect (s_opts s) && negb (q_tls q)
    then R301 (https_prefix ++ redirect_host (q_host q) ++ q_uri q)
    else if negb (o_tls (s_opts s)) && q_tls q then R503_tls
    else R200_health.
Proof. exact serve_health_not_running. Qed.
Print Assumptions c07_healthcheck_200.

(** * "Issuing the pause never causes a request to be refused": REFUTED (D3) *)

(** A real trace (forced schedule "d3" of tools/c07.py, events of kinds neither
    view looks at dropped; corpus/C07-known-D3.json): r1 reads a running gate,
    the pause sets the gate and its drain marks the target, r1 claims: refused, 503. *)
Definition wit_d3 : trace :=
 [mkEv 0 (ACmd 1) (KIssue 1 CkDeploy [x77;x65;x62]);
  mkEv 0 (ACmd 1) (KParams 1 5000000000 3000000000 0);
  mkEv 0 AEnv (KTargetName 0 [x74;x61;x3a;x38;x30]);
  mkEv 0 (ACmd 1) (KLbNew 0 [0%nat]);
  mkEv 0 (AGo 9) (KProbeApply 0 true TAdding THealthy);
  mkEv 0 AEnv (KSvcName 0 [x77;x65;x62]);
  mkEv 0 (ACmd 1) (KSlot 0 false 0 None);
  mkEv 0 (ACmd 1) (KInstall 0 true);
  mkEv 0 (ACmd 1) (KReturn 1 CROk);
  mkEv 0 (AReq 1) (KRouted 1 (Some 0%nat));
  mkEv 0 (AReq 1) (KGateRead 0 GRunning None);
  mkEv 0 (AReq 1) (KGateResult 1 0 AProceed);
  mkEv 0 (ACmd 2) (KIssue 2 CkPause [x77;x65;x62]);
  mkEv 0 (ACmd 2) (KParams 2 0 3000000000 4000000000);
  mkEv 0 (ACmd 2) (KGateSet 0 GPaused (Some 0%nat));
  mkEv 0 (AGo 15) (KStateSet 0 THealthy TDraining);
  mkEv 0 (AReq 1) (KPick 1 0 (Some 0%nat));
  mkEv 0 (AReq 1) (KLbClaim 0 (Some 0%nat) 1);
  mkEv 0 (AReq 1) (KClaimRefused 0 1);
  mkEv 0 (AReq 1) (KRespond 1 503 []);
  mkEv 0 (AGo 15) (KStateSet 0 TDraining THealthy);
  mkEv 0 (ACmd 2) (KReturn 2 CROk);
  mkEv 500000000 (ACmd 3) (KIssue 3 CkResume [x77;x65;x62]);
  mkEv 500000000 (ACmd 3) (KParams 3 0 0 0);
  mkEv 500000000 (ACmd 3) (KGateSet 0 GRunning (Some 0%nat));
  mkEv 500000000 (ACmd 3) (KReturn 3 CROk)].

Theorem c07_refuted_pause_refuses :
  exists tr r t pc i j k,
    accepted tr /\ (i < j < k)%nat /\
    (exists tm, nth_error tr i = Some (mkEv tm (AReq r) (KGateRead pc GRunning None))) /\
    (exists tm c g, nth_error tr j = Some (mkEv tm (ACmd c) (KGateSet pc GPaused (Some g)))) /\
    (exists tm, nth_error tr k = Some (mkEv tm (AReq r) (KClaimRefused t r))) /\
    (exists tm, In (mkEv tm (AReq r) (KRespond r 503 [])) tr).
Proof.
  exists wit_d3, 1%nat, 0%nat, 0%nat, 10%nat, 14%nat, 18%nat.
  split; [split; vm_compute; reflexivity|]. split; [lia|].
  split; [exists 0; reflexivity|]. split; [exists 0, 2%nat, 0%nat; reflexivity|]. split; [exists 0; reflexivity|].
  exists 0. vm_compute. tauto.
Qed.
Print Assumptions c07_refuted_pause_refuses.

(** What IS true (proofs/M5pathFacts.v): a claim is refused only by a target
    that was marked draining earlier and has stayed so; a target is marked only
    in the drain phase of a command — for a pause / stop: after its gate-set and
    before its return, the target being in a balancer of the object installed
    under the command's name at that gate-set; for a deploy: after its install,
    the target being in the balancer it replaced — and the gate had let the
    request pass before the refusal. *)
Theorem c07_refusal_anatomy : forall tr pre e post t r,
  accepted tr -> tr = pre ++ e :: post -> e_k e = KClaimRefused t r ->
  (exists a ev b o, pre = a ++ ev :: b /\ e_k ev = KStateSet t o TDraining /\ Forall (fun x => ~ undrains t x) b /\
                    exists s1 c cause, run pstep pinit a = Some s1 /\ covers s1 cause t = true /\ in_drain_phase a c cause) /\
  (exists ev svc, In ev pre /\ e_k ev = KGateResult r svc AProceed).
Proof. exact refusal_anatomy. Qed.
Print Assumptions c07_refusal_anatomy.

(** Hence, outside the D3 / D2 window (proceed, THEN the target is marked, THEN
    the claim) and outside an open gate during a drain (the target is marked,
    THEN proceed while it stays marked, THEN the claim: a resume overlapping the
    pause's drain, or a deploy's drain), no claim is refused at all. *)
Theorem c07_pause_never_refuses_outside_D3 : forall tr,
  accepted tr ->
  (forall p1 ev1 p2 ev2 p3 ev3 p4 r svc t o,
      tr = p1 ++ ev1 :: p2 ++ ev2 :: p3 ++ ev3 :: p4 ->
      e_k ev1 = KGateResult r svc AProceed -> e_k ev2 = KStateSet t o TDraining -> e_k ev3 = KClaimRefused t r -> False) ->
  (forall p1 ev2 p2 ev1 p3 ev3 p4 r svc t o,
      tr = p1 ++ ev2 :: p2 ++ ev1 :: p3 ++ ev3 :: p4 ->
      e_k ev2 = KStateSet t o TDraining -> Forall (fun x => ~ undrains t x) (p2 ++ ev1 :: p3) ->
      e_k ev1 = KGateResult r svc AProceed -> e_k ev3 = KClaimRefused t r -> False) ->
  forall e t r, In e tr -> e_k e <> KClaimRefused t r.
Proof. exact no_refusal_outside. Qed.
Print Assumptions c07_pause_never_refuses_outside_D3.

(** * "On resume each held request is forwarded to the targets the service has at that moment": REFUTED (D2) *)

(** A real trace (forced schedule "d2"; corpus/C07-known-D2.json): r1 parks on
    object 0 (balancer 0 = target ta), the service is redeployed (object 1,
    balancer 1 = target tb, installed; balancer 0 drained and disposed), resume:
    r1 picks balancer 0 of object 0 and is served by ta. *)
Definition wit_d2 : trace :=
 [mkEv 0 (ACmd 1) (KIssue 1 CkDeploy [x77;x65;x62]);
  mkEv 0 (ACmd 1) (KParams 1 5000000000 3000000000 0);
  mkEv 0 AEnv (KTargetName 0 [x74;x61;x3a;x38;x30]);
  mkEv 0 (ACmd 1) (KLbNew 0 [0%nat]);
  mkEv 0 (AGo 18) (KProbeApply 0 true TAdding THealthy);
  mkEv 0 AEnv (KSvcName 0 [x77;x65;x62]);
  mkEv 0 (ACmd 1) (KSlot 0 false 0 None);
  mkEv 0 (ACmd 1) (KInstall 0 true);
  mkEv 0 (ACmd 1) (KReturn 1 CROk);
  mkEv 0 (ACmd 2) (KIssue 2 CkPause [x77;x65;x62]);
  mkEv 0 (ACmd 2) (KParams 2 0 3000000000 30000000000);
  mkEv 0 (ACmd 2) (KGateSet 0 GPaused (Some 0%nat));
  mkEv 0 (AGo 22) (KStateSet 0 THealthy TDraining);
  mkEv 0 (AGo 22) (KStateSet 0 TDraining THealthy);
  mkEv 0 (ACmd 2) (KReturn 2 CROk);
  mkEv 0 (AReq 1) (KRouted 1 (Some 0%nat));
  mkEv 0 (AReq 1) (KGateRead 0 GPaused (Some 0%nat));
  mkEv 0 (ACmd 3) (KIssue 3 CkDeploy [x77;x65;x62]);
  mkEv 0 (ACmd 3) (KParams 3 5000000000 3000000000 0);
  mkEv 0 AEnv (KSvcName 1 [x77;x65;x62]);
  mkEv 0 (ACmd 3) (KSvcCopy 0 1);
  mkEv 0 AEnv (KTargetName 1 [x74;x62;x3a;x38;x30]);
  mkEv 0 (ACmd 3) (KLbNew 1 [1%nat]);
  mkEv 0 (AGo 24) (KProbeApply 1 true TAdding THealthy);
  mkEv 0 (ACmd 3) (KSlot 1 false 1 (Some 0%nat));
  mkEv 0 (ACmd 3) (KInstall 1 true);
  mkEv 0 (AGo 26) (KStateSet 0 THealthy TDraining);
  mkEv 0 (AGo 26) (KStateSet 0 TDraining THealthy);
  mkEv 0 (ACmd 3) (KReturn 3 CROk);
  mkEv 500000000 (ACmd 4) (KIssue 4 CkResume [x77;x65;x62]);
  mkEv 500000000 (ACmd 4) (KParams 4 0 0 0);
  mkEv 500000000 (ACmd 4) (KGateSet 0 GRunning (Some 0%nat));
  mkEv 500000000 (AReq 1) (KGateWake 0 true);
  mkEv 500000000 (AReq 1) (KGateResult 1 0 AProceed);
  mkEv 500000000 (AReq 1) (KPick 1 0 (Some 0%nat));
  mkEv 500000000 (AReq 1) (KLbClaim 0 (Some 0%nat) 1);
  mkEv 500000000 (AReq 1) (KClaim 0 1);
  mkEv 500000000 (AReq 1) (KRespond 1 200 [x74;x61;x3a;x38;x30]);
  mkEv 500000000 (ACmd 4) (KReturn 4 CROk)].

(** At the pick of the released request the object installed under the name is
    another one, the picked balancer is not one of ITS balancers, and the
    serving target is not one of ITS targets. *)
Theorem c07_refuted_resume_targets_current :
  exists tr pre post r svc lb t s2 n svc',
    accepted tr /\ tr = pre ++ mkEv 500000000 (AReq r) (KPick r svc (Some lb)) :: post /\
    In (mkEv 0 (AReq r) (KGateRead 0 GPaused (Some 0%nat))) pre /\
    In (mkEv 500000000 (AReq r) (KClaim t r)) post /\
    run pstep pinit pre = Some s2 /\ nget (p_name s2) svc = Some n /\
    installed s2 n = Some svc' /\ svc' <> svc /\ ~ In lb (balancers s2 svc') /\
    (forall lb', In lb' (balancers s2 svc') -> ~ In t (targets_of s2 lb')).
Proof.
  exists wit_d2, (firstn 34 wit_d2), (skipn 35 wit_d2), 1%nat, 0%nat, 0%nat, 0%nat.
  destruct (run pstep pinit (firstn 34 wit_d2)) as [s2|] eqn:E; [|vm_compute in E; discriminate].
  exists s2, [x77;x65;x62], 1%nat.
  vm_compute in E. injection E as <-.
  split; [split; vm_compute; reflexivity|]. split; [reflexivity|].
  split; [vm_compute; tauto|]. split; [vm_compute; tauto|]. split; [reflexivity|]. split; [reflexivity|].
  split; [reflexivity|]. split; [discriminate|]. split; [vm_compute; intuition discriminate|].
  intros lb'. vm_compute. intros [<-|[]]. intuition discriminate.
Qed.
Print Assumptions c07_refuted_resume_targets_current.

(** Outside D2 — no other object installed under the service's name, and no
    removal, between the routing of the request and its pick — the request's
    object is still the installed one at the pick, and the picked balancer is one
    of that object's balancers at that moment (the view then requires the claimed
    target to be a target of the picked balancer: model/M5path.v, KLbClaim / KClaim). *)
Theorem c07_resume_targets_current_outside_D2 : forall pre mid post e1 e2 r svc lb s,
  run pstep pinit (pre ++ e1 :: mid ++ e2 :: post) = Some s ->
  e_k e1 = KRouted r (Some svc) -> e_k e2 = KPick r svc (Some lb) ->
  (forall e svc', In e mid -> reinstalls e svc' -> name_of s svc' <> name_of s svc) ->
  exists s2 n, run pstep pinit (pre ++ e1 :: mid) = Some s2 /\
               nget (p_name s2) svc = Some n /\ installed s2 n = Some svc /\ In lb (balancers s2 svc).
Proof. exact pick_current. Qed.
Print Assumptions c07_resume_targets_current_outside_D2.

(** * The driver may drop the events neither view looks at *)

Theorem c07_dropped_events_ignored : forall tr,
  gate_accepts (filter kept tr) = gate_accepts tr /\ path_accepts (filter kept tr) = path_accepts tr.
Proof. exact accepted_filter_kept. Qed.
Print Assumptions c07_dropped_events_ignored.

(** * Non-vacuity: real traces with held requests are accepted *)

(** [wit_d2] has a request that parks, is released by a resume and proceeds;
    the hypotheses of [c07_outcome] hold for it. *)
Example c07_outcome_nonvacuous :
  gate_accepts wit_d2 = true /\ path_accepts wit_d2 = true /\
  In (mkEv 0 (AReq 1) (KGateRead 0 GPaused (Some 0%nat))) wit_d2 /\
  is_pread 1 (mkEv 0 (AReq 1) (KGateRead 0 GPaused (Some 0%nat))).
Proof.
  split; [vm_compute; reflexivity|]. split; [vm_compute; reflexivity|]. split; [vm_compute; tauto|].
  exists 0%nat, (Some 0%nat). split; reflexivity.
Qed.

(** a stop while held, a timeout at exactly read + max-pause, a repeated pause and the shortcut:
    the trace of the forced schedule "timers" would be long; this hand-cut prefix of it has
    a timed-out request (read at 0, max-pause 2 s, woken by its timer at 2 s => 504) and a
    request that arrived 1 ns later and is released by a resume at the same instant. *)
Definition wit_timer : trace :=
 [mkEv 0 (ACmd 2) (KIssue 2 CkPause [x77;x65;x62]);
  mkEv 0 (ACmd 2) (KParams 2 0 3000000000 2000000000);
  mkEv 0 (ACmd 2) (KGateSet 0 GPaused (Some 0%nat));
  mkEv 0 (AReq 1) (KGateRead 0 GPaused (Some 0%nat));
  mkEv 1 (AReq 2) (KGateRead 0 GPaused (Some 0%nat));
  mkEv 1000000001 (ACmd 3) (KIssue 3 CkPause [x77;x65;x62]);
  mkEv 1000000001 (ACmd 3) (KParams 3 0 3000000000 5000000000);
  mkEv 1000000001 (ACmd 3) (KGateSet 0 GPaused (Some 0%nat));
  mkEv 1000000001 (AReq 3) (KGateRead 0 GPaused (Some 0%nat));
  mkEv 2000000000 (AReq 1) (KGateWake 0 false);
  mkEv 2000000000 (AReq 1) (KGateResult 1 0 ATimedOut);
  mkEv 2000000000 (AReq 1) (KRespond 1 504 []);
  mkEv 2000000000 (ACmd 4) (KIssue 4 CkResume [x77;x65;x62]);
  mkEv 2000000000 (ACmd 4) (KParams 4 0 0 0);
  mkEv 2000000000 (ACmd 4) (KGateSet 0 GRunning (Some 0%nat));
  mkEv 2000000000 (AReq 2) (KGateWake 0 true);
  mkEv 2000000000 (AReq 2) (KGateResult 2 0 AProceed);
  mkEv 2000000000 (AReq 2) (KRespond 2 200 [x74;x61]);
  mkEv 2000000000 (AReq 3) (KGateWake 0 true);
  mkEv 2000000000 (AReq 3) (KGateResult 3 0 AProceed);
  mkEv 2000000000 (AReq 3) (KRespond 3 200 [x74;x61])].

Example c07_timer_accepted : gate_accepts wit_timer = true.
Proof. vm_compute. reflexivity. Qed.

(** doctored traces are rejected: the timer firing 1 ns late, a channel wake without a resume,
    a repeated pause that opens a new generation, "proceed" after a stop, a 200 after "stopped",
    a 504 after "timed out" that names a target, and the timer of request 3 (read at 1 s + 1 ns, max-pause 5 s)
    firing at its deadline although the resume had closed its generation 4 s earlier (rejected AT the wake) *)
Definition doctor (i : nat) (e : event) (tr : trace) : trace := firstn i tr ++ e :: skipn (S i) tr.

Example c07_doctored_rejected :
  gate_accepts (doctor 9 (mkEv 2000000001 (AReq 1) (KGateWake 0 false)) wit_timer) = false /\
  gate_accepts (doctor 9 (mkEv 2000000000 (AReq 1) (KGateWake 0 true)) wit_timer) = false /\
  gate_accepts (doctor 7 (mkEv 1000000001 (ACmd 3) (KGateSet 0 GPaused (Some 1%nat))) wit_timer) = false /\
  gate_accepts (doctor 10 (mkEv 2000000000 (AReq 1) (KGateResult 1 0 AProceed)) wit_timer) = false /\
  gate_accepts (doctor 11 (mkEv 2000000000 (AReq 1) (KRespond 1 200 [])) wit_timer) = false /\
  gate_accepts (doctor 11 (mkEv 2000000000 (AReq 1) (KRespond 1 504 [x74;x61])) wit_timer) = false /\
  first_reject gstep ginit (doctor 18 (mkEv 6000000001 (AReq 3) (KGateWake 0 false)) wit_timer) 0 = Some 18%nat /\
  gate_accepts (firstn 18 wit_timer) = false.
Proof. repeat split; vm_compute; reflexivity. Qed.
