(** C05refusal — the refusal monitor [c05_refusal_ok] of corr/C05cmd.v: the sequential machine M4
    (model/Seq.v) satisfies it, and what it says.  Only statements, each closed by [exact]; proofs are in
    proofs/C05refusalLink.v.

    [c05_refusal_ok h] walks the observed history [h] with the commanded list [l] of corr/C04cmd.v
    ([cmd_apply]: a deploy answered OOk files name, hosts as given ([] = default host) and prefixes normalised
    as documented, replacing the entry of that name; a remove answered OOk deletes it; everything else leaves
    it) and checks every step against the list as it stood BEFORE the step ([refusal_step_ok]):

      Deploy n op _ _  answered OErr EHostInUse   needs   cmd_conflicts l n op = true
      Deploy n op _ _  answered OOk               needs   cmd_conflicts l n op = false
      anything else                               is not this monitor's business

    where [cmd_conflicts l n op] = [conflicts (cmd_table l) n (normalize_hosts (o_hosts op))
    (normalize_prefixes (o_prefixes op))]: some (host, normalised prefix) pair of the commanded options is
    owned in [l] by a service whose name is not [n].

    Definitions of proofs/C05cmdLink.v and proofs/C05refusalLink.v used below:

      cmd_owns l h p n          := exists c, In c l /\ cs_name c = n /\ In h (cs_hosts c) /\ In p (cs_prefixes c)
      claims_owned_pair l n op  := exists h p n', In h (normalize_hosts (o_hosts op)) /\
                                     In p (normalize_prefixes (o_prefixes op)) /\ cmd_owns l h p n' /\ n' <> n
      cmd_list_of h             := fold_left cmd_apply h [] *)
From KP Require Import model.Base model.ServiceMap model.Seq corr.M4corr corr.C04cmd corr.C05cmd
  proofs.ServiceMapFacts proofs.M4Link proofs.C04cmdLink proofs.C05cmdLink proofs.C05refusalLink.
From Coq Require Import Permutation.
Local Open Scope N_scope.

(** * The link: the model satisfies the monitor — no hypothesis

    Every command list (deploys with or without TLS, rollout deploys, rollout set / stop, pause / stop /
    resume, removes, restarts), every request matrix, every cookie decision [ig].  The full form holds; there
    is no excluded command shape and hence no [_partial] / [_refuted] pair for the variant [fixed]. *)
Theorem c05_refusal_monitor_of_model : forall ig cs reqs,
  c05_refusal_ok (model_history ig fixed cs reqs) = true.
Proof. exact c05_refusal_of_model. Qed.

(** The same for histories with a request matrix of their own at every step. *)
Theorem c05_refusal_monitor_of_model_per_step : forall ig crs,
  c05_refusal_ok (model_history_steps ig fixed crs) = true.
Proof. exact c05_refusal_of_model_per_step. Qed.

(** One step of it, about the model alone: from any state whose table is the commanded table up to order
    (the invariant of props/C05cmd.v, [c05_cmd_step]) a deploy is answered EHostInUse only if the commanded
    options conflict with the commanded table, and Ok only if they do not. *)
Theorem c05_refusal_step : forall st l name op t ts,
  Permutation (cmd_table l) (table_of (st_services st)) ->
  (fst (exec fixed st (Deploy name op t ts)) = Err EHostInUse -> cmd_conflicts l name op = true) /\
  (fst (exec fixed st (Deploy name op t ts)) = Ok -> cmd_conflicts l name op = false).
Proof. exact step_refusal_deploy. Qed.

(** Why the order of the table does not matter. *)
Theorem c05_refusal_conflicts_order_free : forall t1 t2 name hs ps,
  Permutation t1 t2 -> conflicts t1 name hs ps = conflicts t2 name hs ps.
Proof. exact conflicts_perm. Qed.

(** The other reasons a deploy is refused for at initialisation never read "host in use". *)
Theorem c05_refusal_init_check_is_not_host_in_use : forall v o, init_check v o <> Some EHostInUse.
Proof. exact init_check_not_host_in_use. Qed.

(** * What the monitor says *)

Theorem c05_refusal_conflicts_is_claim : forall l name op,
  cmd_conflicts l name op = true <-> claims_owned_pair l name op.
Proof. exact cmd_conflicts_iff. Qed.

(** If the monitor is true then the k-th step, when it is a deploy answered "host in use", claims a pair
    owned by another service in the commanded list of the k steps before it; when it is a deploy answered
    OOk, it claims no such pair. *)
Theorem c05_refusal_ok_implies : forall h k o name op t ts,
  c05_refusal_ok h = true -> nth_error h k = Some o -> so_cmd o = Deploy name op t ts ->
  (so_result o = OErr EHostInUse -> claims_owned_pair (cmd_list_of (firstn k h)) name op) /\
  (so_result o = OOk -> ~ claims_owned_pair (cmd_list_of (firstn k h)) name op).
Proof. exact c05_refusal_ok_reads. Qed.

(** * Non-vacuity *)

Definition rtg (n : String.string) : tgt_in := mkTgt (bs n) true.
Arguments rtg _%string_scope.
Definition rt0 : topts := mkTopts (bs "/up") 7.
Definition rop (hs ps : list str) : sopts := mkSopts hs ps false false CertNone PagesNone false.
Definition rop_tls (hs ps : list str) (c : cert_in) : sopts := mkSopts hs ps true true c PagesNone false.

(** A model history with refusals and successes: three spellings of one prefix, a paused owner, a rollout
    deploy (the model re-files "web" last: the tables differ in order), a restart, a move, a remove. *)
Definition rex_cs : list cmd :=
  [ Deploy (bs "web") (rop_tls [bs "a.example.com"] [] CertBad) rt0 [rtg "web-1"];        (* ECert *)
    Deploy (bs "web") (rop_tls [bs "a.example.com"] [] CertGood) rt0 [rtg "web-1"];       (* OOk *)
    Deploy (bs "api") (rop [bs "a.example.com"] [bs "api/"]) rt0 [rtg "api-1"];           (* OOk *)
    Deploy (bs "thief") (rop [bs "a.example.com"] [bs "/api/"]) rt0 [rtg "thief-1"];      (* EHostInUse *)
    Deploy (bs "thief") (rop [bs "a.example.com"; bs "b.example.com"] [bs "x"; bs "api"]) rt0 [rtg "thief-1"];
                                                                                          (* EHostInUse: one pair of four *)
    RolloutDeploy (bs "web") [rtg "web-2"];
    Pause (bs "api") 30;
    Deploy (bs "thief") (rop [bs "a.example.com"] [bs "api"]) rt0 [rtg "thief-1"];        (* paused owner: EHostInUse *)
    Deploy (bs "api") (rop [bs "a.example.com"] [bs "/api"]) rt0 [rtg "bad name"];        (* EInvalidTarget *)
    Deploy (bs "api") (rop [bs "a.example.com"] [bs "/api"]) rt0 [mkTgt (bs "api-3") false];  (* EUnhealthy *)
    Restart;
    Deploy (bs "thief") (rop [] []) rt0 [rtg "thief-1"];                                  (* default host: free, OOk *)
    Deploy (bs "other") (rop [] [bs "/"]) rt0 [rtg "other-1"];                            (* EHostInUse on ("", "/") *)
    Deploy (bs "api") (rop [bs "b.example.com"] [bs "v2"]) rt0 [rtg "api-2"];             (* "api" moves away: OOk *)
    Deploy (bs "other") (rop [bs "a.example.com"] [bs "api"]) rt0 [rtg "other-1"];        (* now free: OOk *)
    Remove (bs "web");
    Deploy (bs "web") (rop [bs "a.example.com"] [bs "api"]) rt0 [rtg "web-1"];            (* EHostInUse *)
    Deploy (bs "web") (rop [bs "a.example.com"] []) rt0 [rtg "web-1"] ].                  (* OOk *)

Definition rex_h : list step_obs := model_history rf_ig fixed rex_cs [].

Example c05_refusal_example_model_history :
  map so_result rex_h =
    [ OErr ECert; OOk; OOk; OErr EHostInUse; OErr EHostInUse; OOk; OOk; OErr EHostInUse; OErr EInvalidTarget;
      OErr EUnhealthy; OOk; OOk; OErr EHostInUse; OOk; OOk; OOk; OErr EHostInUse; OOk ] /\
  c05_refusal_ok rex_h = true /\ c05_cmd_ok rex_h = true /\
  (* the commanded list before the first refusal, and the conflict the refusal is justified by *)
  cmd_list_of (firstn 3 rex_h) =
    [ mkCS (bs "web") [bs "a.example.com"] [bs "/"] [bs "web-1"];
      mkCS (bs "api") [bs "a.example.com"] [bs "/api"] [bs "api-1"] ] /\
  cmd_conflicts (cmd_list_of (firstn 3 rex_h)) (bs "thief") (rop [bs "a.example.com"] [bs "/api/"]) = true /\
  cmd_conflicts (cmd_list_of (firstn 2 rex_h)) (bs "api") (rop [bs "a.example.com"] [bs "api/"]) = false.
Proof. vm_compute. repeat split. Qed.

(** The monitor is not trivially true on histories shaped like the model's.  The same history with
    - a refused deploy answered OOk (steps 3, 7: the thief gets in),
    - a successful deploy answered "host in use" (steps 2, 13: a refusal without a conflict),
    - a deploy refused for its targets answered "host in use" (step 8: same name as the owner, no conflict)
    is rejected; changing an answer the monitor does not read (step 0: ECert -> EPages) is not. *)
Definition set_result (k : nat) (r : res_obs) (h : list step_obs) : list step_obs :=
  firstn k h ++ match skipn k h with
                | o :: rest => mkStep (so_cmd o) r (so_list o) (so_snapshot o) (so_probed o) (so_requests o) :: rest
                | [] => []
                end.

Example c05_refusal_example_tampered :
  c05_refusal_ok (set_result 3 OOk rex_h) = false /\ c05_refusal_ok (set_result 7 OOk rex_h) = false /\
  c05_refusal_ok (set_result 2 (OErr EHostInUse) rex_h) = false /\
  c05_refusal_ok (set_result 13 (OErr EHostInUse) rex_h) = false /\
  c05_refusal_ok (set_result 8 (OErr EHostInUse) rex_h) = false /\
  c05_refusal_ok (set_result 0 (OErr EPages) rex_h) = true.
Proof. vm_compute. repeat split. Qed.

(** An OBSERVED history (not one of the model) that the ownership monitors accept and this one rejects: a
    proxy that refuses a deploy on a free pair — nobody owns two pairs, the state file is consistent, and the
    refusal has no reason. *)
Definition spurious_refusal : list step_obs :=
  [ mkStep (Deploy (bs "first") (rop [bs "a.example.com"] [bs "/api"]) rt0 [rtg "first-1"]) OOk [] None [] [];
    mkStep (Deploy (bs "second") (rop [bs "a.example.com"] [bs "/web"]) rt0 [rtg "second-1"]) (OErr EHostInUse)
           [] None [] [] ].

Example c05_refusal_example_spurious :
  c05_refusal_ok spurious_refusal = false /\ c05_cmd_ok spurious_refusal = true /\
  c05_ok spurious_refusal = true /\
  map so_result (model_history rf_ig fixed (map so_cmd spurious_refusal) []) = [OOk; OOk].
Proof. vm_compute. repeat split. Qed.

(** * On the tree as given ([pinned]) the link is FALSE (finding D17, as for [c05_cmd_ok])

    TLS root service on a wildcard host, a sub-path service inheriting the flag, restart — the pinned restore
    fails and the proxy comes up empty — then another service deploys the sub-path and is answered OOk although
    the pair is still commanded for "api". *)
Theorem c05_refusal_monitor_of_model_pinned_refuted :
  exists ig cs reqs, c05_refusal_ok (model_history ig pinned cs reqs) = false.
Proof. exact c05_refusal_of_model_pinned_refuted. Qed.

Example c05_refusal_example_pinned :
  map so_result (model_history rf_ig pinned d17_cs []) = [OOk; OOk; OOk; OOk] /\
  map so_result (model_history rf_ig fixed d17_cs []) = [OOk; OOk; OOk; OErr EHostInUse] /\
  c05_refusal_ok (model_history rf_ig pinned d17_cs []) = false /\
  c05_refusal_ok (model_history rf_ig fixed d17_cs []) = true.
Proof. vm_compute. repeat split. Qed.

Print Assumptions c05_refusal_monitor_of_model.
Print Assumptions c05_refusal_monitor_of_model_per_step.
Print Assumptions c05_refusal_step.
Print Assumptions c05_refusal_conflicts_order_free.
Print Assumptions c05_refusal_init_check_is_not_host_in_use.
Print Assumptions c05_refusal_conflicts_is_claim.
Print Assumptions c05_refusal_ok_implies.
Print Assumptions c05_refusal_monitor_of_model_pinned_refuted.
