(** C06 — A command that fails changes nothing and leaves nothing running.
    Only statements; proofs are in proofs/SeqInv.v (over model/Seq.v, "M4"). *)
From KP Require Import model.Base model.ServiceMap model.Seq corr.M4corr
  proofs.SeqFacts proofs.SeqInv.

(** [reachable v st]: [st] is what any list of commands (deploy, rollout
    deploy/set/stop, pause, stop, resume, remove, restart, with any arguments
    and any environment inputs) leaves, starting from the empty proxy. *)

(** In every reachable state of the repaired code, a command that reports an
    error leaves (1) the service table — hence routing, every service's
    targets, options, pause and rollout state — and (2) the set of probed
    targets exactly as they were, and (3) the state file either untouched or
    rewritten with what it already held; the one exception to (3): when no
    file existed (nothing was ever saved) the failing command may create one,
    which then describes the unchanged, empty configuration. *)
Theorem c06_atomic : forall st c e st',
  reachable fixed st -> exec fixed st c = (Err e, st') ->
  st_services st' = st_services st /\
  st_probing st' = st_probing st /\
  (st_disk st' = st_disk st \/
   (st_disk st = None /\ st_services st' = [] /\ st_disk st' = Some (st_services st'))).
Proof. exact exec_err_atomic. Qed.

(** (1) and (2) do not even need reachability. *)
Theorem c06_atomic_any_state : forall st c e st',
  exec fixed st c = (Err e, st') ->
  st_services st' = st_services st /\ st_probing st' = st_probing st.
Proof. intros st c e st' H. split; [eapply exec_err_services|eapply exec_err_probing]; eauto. Qed.

Theorem c06_serve_unchanged : forall ig st c e st' q,
  exec fixed st c = (Err e, st') -> serve ig st' q = serve ig st q.
Proof. intros. eapply exec_err_serve; eauto. Qed.

Theorem c06_list_unchanged : forall st c e st',
  exec fixed st c = (Err e, st') -> list_services st' = list_services st.
Proof. intros. eapply exec_err_list; eauto. Qed.

(** The saved state as the file's parsed content ([snap_of]): unchanged
    whenever a file existed. *)
Theorem c06_saved_partial : forall st c e st',
  reachable fixed st -> exec fixed st c = (Err e, st') -> st_disk st <> None ->
  option_map (map snap_of) (st_disk st') = option_map (map snap_of) (st_disk st).
Proof. intros st c e st' Hr H Hn. eapply exec_err_saved; eauto using reachable_inv. Qed.

(** Without that hypothesis it is false: `remove` of an unknown service on a
    proxy that never saved anything writes a state file (holding []). *)
Theorem c06_saved_refuted : exists st c e st',
  reachable fixed st /\ exec fixed st c = (Err e, st') /\
  option_map (map snap_of) (st_disk st') <> option_map (map snap_of) (st_disk st).
Proof.
  exists init_state, (Remove (bs "nope")), ENotFound, (mkState [] [] (Some [])).
  split; [exists []; reflexivity|]. split; [reflexivity|]. cbn. discriminate.
Qed.

(** `rollout deploy` is never refused for a host conflict: the service it
    re-installs already owns its (host, prefix) pairs.  (The code updates the
    live service's rollout slot before installing; by this theorem that update
    is never left half done.) *)
Theorem c06_rollout_deploy_never_conflicts : forall st name targets,
  reachable fixed st -> fst (exec fixed st (RolloutDeploy name targets)) <> Err EHostInUse.
Proof. exact rollout_deploy_no_conflict. Qed.

(** A command that panics leaves the state as given (any variant). *)
Theorem c06_panic_unchanged : forall v st c st', exec v st c = (Panic, st') -> st' = st.
Proof. exact exec_panic_unchanged. Qed.

(** ** A concrete configuration *)

Definition tg (n : String.string) : tgt_in := mkTgt (bs n) true.
Arguments tg _%string_scope.
Definition t0 : topts := mkTopts (bs "/up") 7.
Definition o_web : sopts := mkSopts [bs "a.example.com"] [] true true CertGood PagesNone false.
Definition o_api : sopts := mkSopts [bs "a.example.com"] [bs "api/"] false false CertNone PagesGood true.

Definition hist0 : list cmd :=
  [ Deploy (bs "web") o_web t0 [tg "web-1:3000"; tg "web-2:3000"];
    Deploy (bs "api") o_api t0 [tg "api-1"];
    RolloutDeploy (bs "web") [tg "web-3:3000"];
    RolloutSet (bs "web") 20 [bs "alice"];
    Pause (bs "api") 30 ].

Definition st0 : state := exec_all fixed init_state hist0.

Lemma st0_reachable : reachable fixed st0.
Proof. exists hist0. reflexivity. Qed.

(** Every error class occurs: for each one a command failing with it in [st0]. *)
Definition failing (e : err) : cmd :=
  match e with
  | ENotFound => Stop (bs "nope") []
  | EUnhealthy => Deploy (bs "web") o_web t0 [tg "web-4:3000"; mkTgt (bs "web-5:3000") false]
  | EHostInUse => Deploy (bs "other") o_web t0 [tg "other-1"]
  | EInvalidTarget => RolloutDeploy (bs "web") [tg "web-4:3000"; tg "bad name"]
  | ECert => Deploy (bs "web") (mkSopts [bs "a.example.com"] [] true true CertBad PagesNone false) t0 [tg "web-4:3000"]
  | EWildcardACME => Deploy (bs "wild") (mkSopts [bs "*.example.org"] [] true true CertNone PagesNone false) t0 [tg "w-1"]
  | EPages => Deploy (bs "api") (mkSopts [bs "a.example.com"] [bs "/api"] false false CertNone PagesBad true) t0 [tg "api-2"]
  | ERolloutNotSet => RolloutSet (bs "api") 50 []
  end.

Theorem c06_error_classes : forall e,
  exists st c, reachable fixed st /\ fst (exec fixed st c) = Err e.
Proof.
  intros e. exists st0, (failing e). split; [exact st0_reachable|].
  destruct e; vm_compute; reflexivity.
Qed.

(** The hypotheses of [c06_atomic] hold of [st0] with each of these commands,
    and the whole state is returned unchanged — including the late failure
    (host conflict, detected after the new targets were created and became
    healthy). *)
Example c06_example : forall e, exec fixed st0 (failing e) = (Err e, st0).
Proof. intros e. destruct e; vm_compute; reflexivity. Qed.

Example c06_example_nontrivial :
  map lr_name (list_services st0) = [bs "api"; bs "web"] /\
  st_probing st0 = [bs "web-1:3000"; bs "web-2:3000"; bs "api-1"; bs "web-3:3000"] /\
  map (fun s => o_tls (s_opts s)) (st_services st0) = [true; true].
Proof. vm_compute. repeat split. Qed.

(** ** The pinned tree (D4): a deploy rejected for a host conflict keeps
    probing the rejected targets. *)
Theorem c06_refuted_pinned_D4 : exists st c e st',
  reachable pinned st /\ exec pinned st c = (Err e, st') /\ st_probing st' <> st_probing st.
Proof.
  exists (exec_all pinned init_state hist0), (failing EHostInUse), EHostInUse.
  eexists. split; [exists hist0; reflexivity|]. split; [vm_compute; reflexivity|].
  vm_compute. discriminate.
Qed.

Print Assumptions c06_atomic.
Print Assumptions c06_atomic_any_state.
Print Assumptions c06_serve_unchanged.
Print Assumptions c06_list_unchanged.
Print Assumptions c06_saved_partial.
Print Assumptions c06_saved_refuted.
Print Assumptions c06_rollout_deploy_never_conflicts.
Print Assumptions c06_panic_unchanged.
Print Assumptions c06_error_classes.
Print Assumptions c06_refuted_pinned_D4.
