(** C05cmd — the commanded-ownership monitor [c05_cmd_ok] of corr/C05cmd.v: the sequential machine M4
    (model/Seq.v) satisfies it, and what it says.  Only statements, each closed by [exact]; proofs are in
    proofs/C05cmdLink.v.

    [c05_cmd_ok h] rebuilds from the observed history [h] alone the list of commanded services
    ([cmd_apply] of corr/C04cmd.v: a deploy answered OOk files name, hosts as given ([] = default host) and
    prefixes normalised as documented, replacing the entry of that name; a remove answered OOk deletes it;
    everything else — refused commands, pause / stop / resume / rollout ... / restart — leaves it) and demands
    after every step [pair_owned_once] of that table.

    [model_history ig fixed cs reqs] (proofs/M4Link.v) is the history the model itself observes when it runs
    the commands [cs] from the empty proxy.  Definitions of proofs/C05cmdLink.v used below:

      cmd_owns l h p n     := exists c, In c l /\ cs_name c = n /\ In h (cs_hosts c) /\ In p (cs_prefixes c)
      no_double_owner l    := forall h p n1 n2, cmd_owns l h p n1 -> cmd_owns l h p n2 -> n1 = n2
      cmd_list_of h        := fold_left cmd_apply h []      (proofs/C04cmdLink.v)
      from_deploy h c      := some step of h answered OOk is [Deploy (cs_name c) op _ ts] with
                              cs_hosts c = normalize_hosts (o_hosts op), cs_prefixes c = normalize_prefixes
                              (o_prefixes op), cs_targets c = map tg_name ts *)
From KP Require Import model.Base model.ServiceMap model.Seq corr.M4corr corr.C04cmd corr.C05cmd
  proofs.ServiceMapFacts proofs.M4Link proofs.C04cmdLink proofs.C05cmdLink.
From Coq Require Import Permutation.
Local Open Scope N_scope.

(** * The link: the model satisfies the monitor — no hypothesis

    Every command list: deploys with or without TLS (a deploy refused with ECert / EWildcardACME / EPages /
    EInvalidTarget / EUnhealthy / EHostInUse is not OOk, the commanded list ignores it and the model keeps
    its services), rollout deploys, rollout set / stop, pause / stop / resume, removes, restarts; every
    request matrix; every cookie decision [ig]. *)
Theorem c05_cmd_monitor_of_model : forall ig cs reqs,
  c05_cmd_ok (model_history ig fixed cs reqs) = true.
Proof. exact c05_cmd_of_model. Qed.

(** The same for histories with a request matrix of their own at every step. *)
Theorem c05_cmd_monitor_of_model_per_step : forall ig crs,
  c05_cmd_ok (model_history_steps ig fixed crs) = true.
Proof. exact c05_cmd_of_model_per_step. Qed.

(** The invariant behind it: after ANY history the commanded table is the model's table up to order.
    (Not equal in general: a rollout deploy re-files the service last in the model's list.  For deploys
    without TLS, removes and restarts it is equal: props/C04cmd.v [c04_cmd_table_is_model_table].) *)
Theorem c05_cmd_table_is_model_table_up_to_order : forall ig cs reqs,
  Permutation (cmd_table (cmd_list_of (model_history ig fixed cs reqs)))
              (table_of (st_services (exec_all fixed init_state cs))).
Proof. exact cmd_table_perm_model. Qed.

(** One step of it: any command, from any state satisfying the invariant of proofs/SeqInv.v. *)
Theorem c05_cmd_step : forall st l c,
  SeqInv.Inv st -> Permutation (cmd_table l) (table_of (st_services st)) ->
  Permutation (cmd_table (cmd_apply l (mkStep c (res_obs_of (fst (exec fixed st c))) [] None [] [])))
              (table_of (st_services (snd (exec fixed st c)))).
Proof. exact step_trel. Qed.

(** So the routing rule chooses the same service on both tables. *)
Theorem c05_cmd_route_is_model_route : forall ig cs reqs host path,
  route (cmd_table (cmd_list_of (model_history ig fixed cs reqs))) host path =
  route (table_of (st_services (exec_all fixed init_state cs))) host path.
Proof. exact cmd_route_model. Qed.

(** On the tree as given ([pinned]) the link is FALSE (finding D17, repaired in /repo by fa00e64): a restored
    sub-path service with an inherited TLS flag and a wildcard host made the restore fail, the proxy came up
    empty, and another service could then take a pair that is still commanded. *)
Theorem c05_cmd_monitor_of_model_pinned_refuted :
  exists ig cs reqs, c05_cmd_ok (model_history ig pinned cs reqs) = false.
Proof. exact c05_cmd_of_model_pinned_refuted. Qed.

(** * What the monitor says *)

(** If the monitor is true then after every step no (host, normalised prefix) pair is claimed by two
    different service names in the commanded list — and conversely. *)
Theorem c05_cmd_ok_implies_no_double_owner : forall h, c05_cmd_ok h = true ->
  forall k host prefix n1 n2,
    cmd_owns (cmd_list_of (firstn k h)) host prefix n1 ->
    cmd_owns (cmd_list_of (firstn k h)) host prefix n2 -> n1 = n2.
Proof. intros h H k. exact (c05_cmd_ok_no_double h k H). Qed.

Theorem c05_cmd_ok_iff_no_double_owner : forall h,
  c05_cmd_ok h = true <-> forall k, no_double_owner (cmd_list_of (firstn k h)).
Proof. exact c05_cmd_ok_iff. Qed.

(** What is in the commanded list: every entry is a deploy of the history answered OOk, hosts as commanded,
    prefixes normalised ([normalize_prefix p] = "/" followed by [p] without leading and trailing slashes;
    normalised in the sense of props/C04cmd.v [c04_cmd_list_normalised]). *)
Theorem c05_cmd_entries_are_successful_deploys : forall h c,
  In c (cmd_list_of h) -> from_deploy h c.
Proof. exact cmd_list_of_origin. Qed.

Theorem c05_cmd_owns_is_binds : forall l h p n,
  cmd_owns l h p n <-> binds (cmd_table l) h p n.
Proof. exact cmd_owns_binds. Qed.

(** * Non-vacuity *)

Definition tg (n : String.string) : tgt_in := mkTgt (bs n) true.
Arguments tg _%string_scope.
Definition t0 : topts := mkTopts (bs "/up") 7.
Definition op (hs ps : list str) : sopts := mkSopts hs ps false false CertNone PagesNone false.
Definition op_tls (hs ps : list str) (c : cert_in) : sopts := mkSopts hs ps true true c PagesNone false.

(** ** The gap the monitor closes: an OBSERVED history (not one of the model)

    "/api" then "api/" on the same host by two services, both answered OOk; the state file holds the two
    spellings as different keys.  The state-file reading [c05_ok] is satisfied, the commanded reading is not. *)
Definition sn (name : String.string) (hs ps : list str) : snap_svc :=
  mkSnap (bs name) hs ps false false false false false (bs "/up") 7 [bs (String.append name "-1")] None 0 [] 0 None.
Arguments sn _%string_scope.

Definition two_spellings : list step_obs :=
  [ mkStep (Deploy (bs "first") (op [bs "a.example.com"] [bs "/api"]) t0 [tg "first-1"]) OOk []
           (Some [sn "first" [bs "a.example.com"] [bs "/api"]]) [] [];
    mkStep (Deploy (bs "second") (op [bs "a.example.com"] [bs "api/"]) t0 [tg "second-1"]) OOk []
           (Some [sn "first" [bs "a.example.com"] [bs "/api"]; sn "second" [bs "a.example.com"] [bs "api/"]]) [] [] ].

Example c05_cmd_example_two_spellings :
  c05_cmd_ok two_spellings = false /\ c05_ok two_spellings = true /\
  c05_cmd_ok (firstn 1 two_spellings) = true /\
  cmd_list_of two_spellings =
    [ mkCS (bs "first") [bs "a.example.com"] [bs "/api"] [bs "first-1"];
      mkCS (bs "second") [bs "a.example.com"] [bs "/api"] [bs "second-1"] ].
Proof. vm_compute. repeat split. Qed.

(** The double owner, exhibited. *)
Example c05_cmd_example_two_spellings_owners :
  cmd_owns (cmd_list_of two_spellings) (bs "a.example.com") (bs "/api") (bs "first") /\
  cmd_owns (cmd_list_of two_spellings) (bs "a.example.com") (bs "/api") (bs "second").
Proof.
  split; [exists (mkCS (bs "first") [bs "a.example.com"] [bs "/api"] [bs "first-1"])
         |exists (mkCS (bs "second") [bs "a.example.com"] [bs "/api"] [bs "second-1"])];
    vm_compute; intuition.
Qed.

(** The model refuses the second deploy (both spellings are "/api" to it) — so the history above is not a
    history of the model, and the monitor is what tells. *)
Example c05_cmd_example_two_spellings_model :
  map so_result (model_history rf_ig fixed (map so_cmd two_spellings) []) = [OOk; OErr EHostInUse].
Proof. vm_compute. reflexivity. Qed.

(** ** A model history with every kind of command *)
Definition ex_cs : list cmd :=
  [ Deploy (bs "web") (op_tls [bs "a.example.com"] [] CertBad) t0 [tg "web-1"];        (* ECert: ignored *)
    Deploy (bs "web") (op_tls [bs "a.example.com"] [] CertGood) t0 [tg "web-1"];       (* TLS deploy *)
    Deploy (bs "api") (op [bs "a.example.com"] [bs "api/"]) t0 [tg "api-1"];           (* inherits TLS *)
    Deploy (bs "thief") (op [bs "a.example.com"] [bs "/api/"]) t0 [tg "thief-1"];      (* EHostInUse *)
    RolloutDeploy (bs "web") [tg "web-2"];                                             (* re-files "web" last *)
    RolloutSet (bs "web") 50 [];
    Pause (bs "api") 30;
    Deploy (bs "thief") (op [bs "a.example.com"] [bs "api"]) t0 [tg "thief-1"];        (* paused owner: still EHostInUse *)
    Stop (bs "api") (bs "maintenance");
    Resume (bs "api");
    RolloutStop (bs "web");
    Restart;
    Deploy (bs "api") (op [bs "b.example.com"] [bs "v2"]) t0 [tg "api-2"];             (* "api" moves away *)
    Deploy (bs "thief") (op [bs "a.example.com"] [bs "api"]) t0 [tg "thief-1"];        (* now free *)
    Remove (bs "web");
    Remove (bs "nope");
    Restart ].

Definition ex_h : list step_obs := model_history rf_ig fixed ex_cs [].

Example c05_cmd_example_model_history :
  map so_result ex_h =
    [ OErr ECert; OOk; OOk; OErr EHostInUse; OOk; OOk; OOk; OErr EHostInUse; OOk; OOk; OOk; OOk; OOk; OOk; OOk;
      OErr ENotFound; OOk ] /\
  c05_cmd_ok ex_h = true /\
  (* after the rollout deploy: same entries, another order *)
  cmd_table (cmd_list_of (firstn 5 ex_h)) =
    [ mkBI (bs "web") [bs "a.example.com"] [bs "/"]; mkBI (bs "api") [bs "a.example.com"] [bs "/api"] ] /\
  table_of (st_services (exec_all fixed init_state (firstn 5 ex_cs))) =
    [ mkBI (bs "api") [bs "a.example.com"] [bs "/api"]; mkBI (bs "web") [bs "a.example.com"] [bs "/"] ] /\
  cmd_list_of ex_h =
    [ mkCS (bs "api") [bs "b.example.com"] [bs "/v2"] [bs "api-2"];
      mkCS (bs "thief") [bs "a.example.com"] [bs "/api"] [bs "thief-1"] ].
Proof. vm_compute. repeat split. Qed.

(** The monitor is not trivially true on histories shaped like the model's: the same history with the
    refused deploy of "thief" answered OOk is rejected. *)
Definition set_result (k : nat) (r : res_obs) (h : list step_obs) : list step_obs :=
  firstn k h ++ match skipn k h with
                | o :: rest => mkStep (so_cmd o) r (so_list o) (so_snapshot o) (so_probed o) (so_requests o) :: rest
                | [] => []
                end.

Example c05_cmd_example_refused :
  c05_cmd_ok (set_result 3 OOk ex_h) = false /\ c05_cmd_ok (set_result 7 OOk ex_h) = false /\
  c05_ok (set_result 3 OOk ex_h) = true.
Proof. vm_compute. repeat split. Qed.

(** The pinned counterexample, computed: TLS root service on a wildcard host, a sub-path service inheriting
    the flag, restart (the pinned restore fails: empty proxy), then another service takes the sub-path. *)
Example c05_cmd_example_pinned :
  map so_result (model_history rf_ig pinned d17_cs []) = [OOk; OOk; OOk; OOk] /\
  map so_result (model_history rf_ig fixed d17_cs []) = [OOk; OOk; OOk; OErr EHostInUse] /\
  st_services (exec_all pinned init_state (firstn 3 d17_cs)) = [] /\
  c05_cmd_ok (model_history rf_ig pinned d17_cs []) = false /\
  c05_cmd_ok (model_history rf_ig fixed d17_cs []) = true.
Proof. vm_compute. repeat split. Qed.

Print Assumptions c05_cmd_monitor_of_model.
Print Assumptions c05_cmd_monitor_of_model_per_step.
Print Assumptions c05_cmd_table_is_model_table_up_to_order.
Print Assumptions c05_cmd_step.
Print Assumptions c05_cmd_route_is_model_route.
Print Assumptions c05_cmd_monitor_of_model_pinned_refuted.
Print Assumptions c05_cmd_ok_implies_no_double_owner.
Print Assumptions c05_cmd_ok_iff_no_double_owner.
Print Assumptions c05_cmd_entries_are_successful_deploys.
Print Assumptions c05_cmd_owns_is_binds.
