(** C04cmd — the sequential machine M4 (model/Seq.v) satisfies the
    commanded-table routing monitor [c04_cmd_ok] of corr/C04cmd.v.
    Only statements, each closed by [exact]; proofs are in proofs/C04cmdLink.v.

    [model_history ig fixed cs reqs] (proofs/M4Link.v) is the history the model
    itself observes when it runs the commands [cs] from the empty proxy and
    answers the requests [reqs] after every command.  So a [c04_cmd_ok] that is
    false on a history observed on the real proxy (same kind of commands, same
    kind of requests) proves that the proxy left the behaviours of the model.

    Definitions of proofs/C04cmdLink.v used in the statements:

      plain_cmd c        := match c with
                            | Deploy _ o _ ts => negb (o_tls o) && nonempty ts
                            | Remove _ | Restart => true
                            | _ => false end
      plain_history cs   := forallb plain_cmd cs = true
      plain_requests rqs := forallb (fun q => negb (q_tls q)) rqs = true

    i.e. every command is a deploy WITHOUT TLS naming at least one target, a
    remove, or a restart (no pause / stop / resume / rollout commands).  All
    other inputs of a deploy are free — redirect flag, certificate paths, error
    pages (readable or not), strip, target options, target names (valid or
    not), target health — so the deploys of such a history may fail with
    EPages, EInvalidTarget, EUnhealthy or EHostInUse, and removes with
    ENotFound; the theorems cover those steps as well. *)
From KP Require Import model.Base model.ServiceMap model.Seq corr.M4corr corr.C04cmd
  proofs.ServiceMapFacts proofs.M4Link proofs.C04cmdLink.
Local Open Scope N_scope.

(** [plain_history], readably. *)
Theorem c04_cmd_plain_history : forall cs,
  plain_history cs <->
  Forall (fun c => match c with
                   | Deploy _ o _ ts => o_tls o = false /\ ts <> []
                   | Remove _ => True
                   | Restart => True
                   | _ => False
                   end) cs.
Proof. exact plain_history_iff. Qed.

(** * The link *)

(** As asked for — for all plain command lists and ALL request matrices — the
    statement is false: a request that arrives over TLS for a service deployed
    without TLS is answered 503 (Seq.serve, [R503_tls]; so does the proxy),
    and the monitor demands 200 of every routed request. *)
Theorem c04_cmd_monitor_of_model_refuted :
  exists ig cs reqs, plain_history cs /\ c04_cmd_ok (model_history ig fixed cs reqs) = false.
Proof. exact c04_cmd_of_model_refuted. Qed.

(** With the request matrix sent over plain HTTP (the extra hypothesis
    [plain_requests reqs]) it holds, for every rollout cookie decision [ig],
    every plain command list — failing commands included — and every such
    request list. *)
Theorem c04_cmd_monitor_of_model_partial : forall ig cs reqs,
  plain_history cs -> plain_requests reqs ->
  c04_cmd_ok (model_history ig fixed cs reqs) = true.
Proof. exact c04_cmd_of_model. Qed.

(** The same for histories with a request matrix of its own at every step
    ([model_history_steps]; the C04 generator sends the matrix after the last
    command only); [model_history] is the case of one matrix for all steps. *)
Theorem c04_cmd_monitor_of_model_per_step_partial : forall ig crs,
  plain_history (map fst crs) -> forallb plain_requestsb (map snd crs) = true ->
  c04_cmd_ok (model_history_steps ig fixed crs) = true.
Proof. exact c04_cmd_of_model_steps. Qed.

Theorem c04_cmd_model_history_is_steps : forall ig v cs reqs,
  model_history ig v cs reqs = model_history_steps ig v (map (fun c => (c, reqs)) cs).
Proof. intros ig v cs reqs. exact (model_history_as_steps ig v reqs cs init_state). Qed.

(** "At least one target" cannot be dropped from [plain_history]: the model
    accepts a deploy with an empty target list, the service then answers 503,
    and the monitor demands 200 from one of the commanded targets. *)
Theorem c04_cmd_monitor_needs_targets :
  exists ig cs reqs,
    forallb (fun c => match c with Deploy _ o _ _ => negb (o_tls o) | _ => true end) cs = true /\
    plain_requests reqs /\ c04_cmd_ok (model_history ig fixed cs reqs) = false.
Proof. exact c04_cmd_needs_targets. Qed.

(** * The invariant behind it *)

(** [cmd_list_of h] is the commanded list the monitor has built after the
    whole history [h] ([fold_left cmd_apply h []]). *)

(** After any plain history the commanded table IS the table of the model
    state — same entries in the same order ... *)
Theorem c04_cmd_table_is_model_table : forall ig cs reqs,
  plain_history cs ->
  cmd_table (cmd_list_of (model_history ig fixed cs reqs)) =
  table_of (st_services (exec_all fixed init_state cs)).
Proof. exact cmd_table_of_model. Qed.

(** ... and every commanded service is deployed with exactly the targets of
    its last successful deploy (at least one), without TLS, running, with no
    rollout slot. *)
Theorem c04_cmd_targets_are_model_targets : forall ig cs reqs n c,
  plain_history cs ->
  find (fun c => str_eqb (cs_name c) n) (cmd_list_of (model_history ig fixed cs reqs)) = Some c ->
  exists s, svc_get (st_services (exec_all fixed init_state cs)) n = Some s /\
            s_active s = cs_targets c /\ cs_targets c <> [] /\
            o_tls (s_opts s) = false /\ p_state (s_pause s) = Running /\ s_rollout s = None.
Proof. exact cmd_targets_of_model. Qed.

(** Hence the answer to one plain-HTTP request in a state related to the
    commanded list [l] is what the monitor demands. *)
Theorem c04_cmd_request : forall ig st l q,
  Rel l (st_services st) -> q_tls q = false ->
  c04_cmd_req_ok l q (resp_obs_of (serve ig st q)) = true.
Proof. exact serve_ok. Qed.

(** * The commanded table and the declarative routing rule (props/C04.v) *)

(** Whatever was observed — any history, of the model or of the proxy — the
    prefixes of the commanded list are normalised ... *)
Theorem c04_cmd_list_normalised : forall h,
  Forall (fun c => Forall normalised (cs_prefixes c)) (cmd_list_of h) /\
  norm_table (cmd_table (cmd_list_of h)).
Proof. intros h. split; [exact (cmd_list_of_norm h)|exact (cmd_norm_table _ (cmd_list_of_norm h))]. Qed.

(** ... so the service the monitor expects, [route (cmd_table l) host path],
    meets the declarative specification [route_spec] (exact host, else
    wildcard of the parent domain, else default; longest matching prefix; on
    the host key of the Host header); it is [None] iff no binding of the level
    matches; and with pair-wise distinct ownership it is the ONLY answer
    meeting the specification. *)
Theorem c04_cmd_route_is_spec : forall l host path,
  Forall (fun c => Forall normalised (cs_prefixes c)) l ->
  route_spec (cmd_table l) (request_host_key host) path (route (cmd_table l) host path) /\
  (route (cmd_table l) host path = None <->
   forall lv, level_of (cmd_table l) (request_host_key host) lv ->
     forall p n, ~ candidate (cmd_table l) lv path p n) /\
  (pair_owned_once (cmd_table l) = true ->
   forall r, route_spec (cmd_table l) (request_host_key host) path r ->
     r = route (cmd_table l) host path).
Proof. exact cmd_route_is_spec. Qed.

(** On the model's histories ownership is pair-wise distinct. *)
Theorem c04_cmd_table_owned_once : forall ig cs reqs,
  plain_history cs ->
  pair_owned_once (cmd_table (cmd_list_of (model_history ig fixed cs reqs))) = true.
Proof. exact cmd_table_owned_once. Qed.

(** * A concrete history *)

Definition tg (n : String.string) : tgt_in := mkTgt (bs n) true.
Arguments tg _%string_scope.
Definition t0 : topts := mkTopts (bs "/up") 7.
(** no TLS; redirect flag set, unreadable certificate paths, strip: all irrelevant *)
Definition op (hs ps : list str) : sopts := mkSopts hs ps false true CertBad PagesGood true.
Definition op_badpages : sopts := mkSopts [bs "p.example.com"] [] false false CertNone PagesBad false.

(** three deploys (exact host; exact + wildcard host on a sub-path; default
    host), four failing deploys (host in use, invalid target name, unhealthy
    target, unreadable error pages), a REDEPLOY that moves "api" to another host
    and other prefixes with another target, a restart, a remove, a failing
    remove, a restart. *)
Definition ex_cs : list cmd :=
  [ Deploy (bs "web") (op [bs "a.example.com"] []) t0 [tg "web-1:3000"; tg "web-2:3000"];
    Deploy (bs "api") (op [bs "a.example.com"; bs "*.example.com"] [bs "api/"]) t0 [tg "api-1"];
    Deploy (bs "dflt") (op [] []) t0 [tg "d-1"];
    Deploy (bs "other") (op [bs "a.example.com"] []) t0 [tg "other-1"];
    Deploy (bs "bad") (op [bs "b.example.com"] []) t0 [tg "x"];
    Deploy (bs "sick") (op [bs "b.example.com"] []) t0 [mkTgt (bs "sick-1") false];
    Deploy (bs "pages") op_badpages t0 [tg "pages-1"];
    Deploy (bs "api") (op [bs "c.example.com"] [bs "/v2"; bs "/v3/"]) t0 [tg "api-2"];
    Restart;
    Remove (bs "web");
    Remove (bs "nope");
    Restart ].

Definition rq (host path : String.string) : request :=
  mkReq (bs host) (bs path) (bs path) true false (Some (bs "alice")).
Arguments rq _%string_scope _%string_scope.
Definition ex_reqs : list request :=
  [ rq "a.example.com" "/";          (* exact host *)
    rq "a.example.com:80" "/api/x";  (* exact host (port ignored), longest prefix *)
    rq "z.example.com" "/api";       (* wildcard host *)
    rq "z.example.com" "/";          (* wildcard level, no matching prefix: 404 *)
    rq "c.example.com" "/v3/x";      (* 404 until "api" moves there *)
    rq "q.org" "/";                  (* 404 until the default host is deployed *)
    rq "c.example.com" "/" ].        (* 404 throughout *)

Definition ex_ig (rc : rollctl) (c : str) : bool := true.
Definition ex_h : list step_obs := model_history ex_ig fixed ex_cs ex_reqs.

Definition statuses (o : step_obs) : list (N * str) :=
  map (fun qo => (ro_status (snd qo), ro_served_by (snd qo))) (so_requests o).

Example c04_cmd_example_hypotheses : plain_history ex_cs /\ plain_requests ex_reqs.
Proof. split; vm_compute; reflexivity. Qed.

Example c04_cmd_example_history :
  map so_result ex_h =
    [OOk; OOk; OOk; OErr EHostInUse; OErr EInvalidTarget; OErr EUnhealthy; OErr EPages; OOk;
     OOk; OOk; OErr ENotFound; OOk] /\
  (* after the first deploy *)
  map statuses (firstn 1 ex_h) =
    [ [(200, bs "web-1:3000"); (200, bs "web-1:3000"); (404, []); (404, []); (404, []); (404, []); (404, [])] ] /\
  (* after the three deploys, and unchanged by the four failing ones *)
  map statuses (firstn 5 (skipn 2 ex_h)) =
    repeat [(200, bs "web-1:3000"); (200, bs "api-1"); (200, bs "api-1"); (404, []); (404, []);
            (200, bs "d-1"); (404, [])] 5 /\
  (* after "api" moved, and after the restart *)
  map statuses (firstn 2 (skipn 7 ex_h)) =
    repeat [(200, bs "web-1:3000"); (200, bs "web-1:3000"); (200, bs "d-1"); (200, bs "d-1");
            (200, bs "api-2"); (200, bs "d-1"); (404, [])] 2 /\
  (* after "web" was removed *)
  map statuses (skipn 9 ex_h) =
    repeat [(200, bs "d-1"); (200, bs "d-1"); (200, bs "d-1"); (200, bs "d-1");
            (200, bs "api-2"); (200, bs "d-1"); (404, [])] 3.
Proof. vm_compute. repeat split. Qed.

(** The instances of the theorems for this history, computed. *)
Example c04_cmd_example_monitor :
  c04_cmd_ok ex_h = true /\
  cmd_list_of ex_h =
    [ mkCS (bs "dflt") [[]] [bs "/"] [bs "d-1"];
      mkCS (bs "api") [bs "c.example.com"] [bs "/v2"; bs "/v3"] [bs "api-2"] ] /\
  cmd_list_of (firstn 3 ex_h) =
    [ mkCS (bs "web") [bs "a.example.com"] [bs "/"] [bs "web-1:3000"; bs "web-2:3000"];
      mkCS (bs "api") [bs "a.example.com"; bs "*.example.com"] [bs "/api"] [bs "api-1"];
      mkCS (bs "dflt") [[]] [bs "/"] [bs "d-1"] ] /\
  cmd_table (cmd_list_of ex_h) = table_of (st_services (exec_all fixed init_state ex_cs)) /\
  pair_owned_once (cmd_table (cmd_list_of ex_h)) = true.
Proof. vm_compute. repeat split. Qed.

(** The monitor is not trivially true.  The same history with one answer
    changed is refused: (a) after "api" moved away from "*.example.com", the
    wildcard request still answered by the service that used to own it;
    (b) a routed request answered 404; (c) an unrouted request answered by
    some target; (d) a request answered by a target that the service's
    PREVIOUS deploy named. *)
Definition set_nth {A} (n : nat) (f : A -> A) (l : list A) : list A :=
  firstn n l ++ match skipn n l with x :: r => f x :: r | [] => [] end.

Definition set_answer (step k : nat) (status : N) (by_ : str) (h : list step_obs) : list step_obs :=
  set_nth step (fun o => mkStep (so_cmd o) (so_result o) (so_list o) (so_snapshot o) (so_probed o)
    (set_nth k (fun qo => (fst qo, mkResp status [] by_ 0 [])) (so_requests o))) h.

Example c04_cmd_example_refused :
  c04_cmd_ok (set_answer 7 2 200 (bs "api-2") ex_h) = false /\
  c04_cmd_ok (set_answer 2 0 404 [] ex_h) = false /\
  c04_cmd_ok (set_answer 0 5 200 (bs "web-1:3000") ex_h) = false /\
  c04_cmd_ok (set_answer 8 4 200 (bs "api-1") ex_h) = false /\
  (* ... while another target of the same deploy is accepted *)
  c04_cmd_ok (set_answer 7 0 200 (bs "web-2:3000") ex_h) = true.
Proof. vm_compute. repeat split. Qed.

(** The matrix after the last command only, as the C04 generator sends it. *)
Definition ex_crs : list (cmd * list request) :=
  map (fun c => (c, [])) (removelast ex_cs) ++ [(last ex_cs Restart, ex_reqs)].

Example c04_cmd_example_per_step :
  map fst ex_crs = ex_cs /\
  map (fun o => length (so_requests o)) (model_history_steps ex_ig fixed ex_crs) =
    [0; 0; 0; 0; 0; 0; 0; 0; 0; 0; 0; 7]%nat /\
  c04_cmd_ok (model_history_steps ex_ig fixed ex_crs) = true /\
  c04_cmd_ok (set_answer 11 2 200 (bs "api-2") (model_history_steps ex_ig fixed ex_crs)) = false.
Proof. vm_compute. repeat split. Qed.

(** The two refutations, computed on this history's first deploy. *)
Example c04_cmd_example_tls_request :
  c04_cmd_ok (model_history ex_ig fixed (firstn 1 ex_cs)
                [mkReq (bs "a.example.com") (bs "/") (bs "/") true true None]) = false /\
  statuses (hd (mkStep Restart OOk [] None [] [])
     (model_history ex_ig fixed (firstn 1 ex_cs)
                [mkReq (bs "a.example.com") (bs "/") (bs "/") true true None])) = [(503, [])].
Proof. vm_compute. repeat split. Qed.

Print Assumptions c04_cmd_plain_history.
Print Assumptions c04_cmd_monitor_of_model_refuted.
Print Assumptions c04_cmd_monitor_of_model_partial.
Print Assumptions c04_cmd_monitor_of_model_per_step_partial.
Print Assumptions c04_cmd_model_history_is_steps.
Print Assumptions c04_cmd_monitor_needs_targets.
Print Assumptions c04_cmd_table_is_model_table.
Print Assumptions c04_cmd_targets_are_model_targets.
Print Assumptions c04_cmd_request.
Print Assumptions c04_cmd_list_normalised.
Print Assumptions c04_cmd_route_is_spec.
Print Assumptions c04_cmd_table_owned_once.
