(** C03link — C03 at the level of the COMMAND with the EXACT command <-> drain linkage:
    "when a deploy, pause or stop command returns, the targets it drained are quiescent".

    props/C03cmd.v proves this on the timing view M5time, where WHICH command started WHICH
    Drain call is only inferred (same virtual instant, same drain timeout), so that every
    theorem there carries "c is the only candidate" as a hypothesis.  /repo now emits the
    linkage itself (hooks of commit deea238): [KDrainAll lb w] / [KDrainAllDone lb w]
    (LoadBalancer.DrainAll call [w] — its sync.WaitGroup — entered / its wg.Wait() returned),
    [KDrainChild t w] (the goroutine call [w] spawned for target [t], about to run Drain),
    [KSvcDrain svc lbs] / [KSvcDrainDone svc] (Service.Drain of a pause / stop).  The acceptor
    model/M5cmd.v follows them and NOTHING else (no clock, no timeouts, no requests).

    All statements are about EVERY trace [tr] accepted by [M5cmd.step] from [M5cmd.init]
    (L4: also by [M5full.step]); no "only candidate", no timing, no [no_parks] hypothesis.
    Overlapping commands, parked goroutines, commands that fail or never return are all inside
    the quantifier.  Positions are indices into the trace:

      [ev_at tr i a k]        the event at position [i] is by actor [a] and of kind [k]
      [quiet tr g lo hi]      no state-set by an actor numbered [g] strictly between [lo] and [hi]
      [finished tr g t lo hi] the Drain call of child goroutine [g] on target [t] has finished strictly between
                              [lo] and [hi]: EITHER a [KDrainBegin t TDraining _] by [AGo g] (it found [t] already
                              draining and returned at once: finding D11) OR [KDrainBegin t orig _] (orig <> draining)
                              at [b], [KDrainCancelRest t] at [c], the restoring [KStateSet t _ new] (new <> draining)
                              at [r], all by [AGo g], lo < b < c < r < hi, and [quiet tr g b r]
      [drained tr t w lo hi]  exists g i, lo < i < hi, [KDrainChild t w] by [AGo g] at [i], and [finished tr g t i hi]
      [settled_at tr g t b r m]   (request-level view M5full) in the state just before [r] the Drain record of [g] on [t]
                              is there, "cancel the rest" is done, and every request of its snapshot [sn] (= the list of
                              its own KDrainSnapshot event, at a position between [b] and [r]) has left the in-flight set
                              of [t] or has been cancelled — and this is still so after the first [m] events
      [finished_settled], [drained_settled]  = [finished], [drained] with [settled_at ... m] added for a call that opened

    (definitions: proofs/M5cmdFacts.v, proofs/M5cmdC03.v; proofs: ibid., by the history invariant
    [M5cmdFacts.hist]).

    What the linkage does NOT give: the two DrainAll calls of a pause / stop run in goroutines
    that PerformConcurrently starts; no event ties those goroutines to the command, so (L3) says
    "SOME DrainAll call on [lb] entered after this command's KSvcDrain is done before its
    KSvcDrainDone" — with overlapping pauses of services sharing nothing this is the command's own
    call; the view cannot tell (slack of the view, stated in model/M5cmd.v). *)
From Coq Require Import ZifyN ZifyNat ZifyBool.
From KP Require Import model.Base model.Trace model.M5cmd.
From KP Require model.M5full model.M5time proofs.M5fullFacts.
From KP Require Import proofs.M5cmdFacts proofs.M5cmdC03 proofs.M5cmdTraces.
Local Open Scope nat_scope.

(** ** (L1) A DrainAll call whose wg.Wait() has returned ([KDrainAllDone lb w] at position [n], by
    actor [a]): it was entered before ([iA], same actor), and for EVERY target [t] of [lb] ([ts] =
    the list of the balancer's KLbNew event, wherever that is in the trace) it spawned — after [iA],
    before [n] — a child goroutine for [t] whose Drain call has finished before [n]. *)
Theorem c03l_drainall_done : forall tr s n a lb w,
  run step init tr = Some s -> ev_at tr n a (KDrainAllDone lb w) ->
  exists iA, iA < n /\ ev_at tr iA a (KDrainAll lb w) /\
    forall iN aN ts, ev_at tr iN aN (KLbNew lb ts) -> forall t, In t ts -> drained tr t w iA n.
Proof. exact drainall_done. Qed.
Print Assumptions c03l_drainall_done.

(** ** (L2) A command [c] that updated a slot replacing balancer [old] ([iS]), installed successfully
    ([iI]) and returns Ok ([n]): between the install and the return lie a [KDrainAll old w] and the
    [KDrainAllDone old w] of that call, both by the command itself — hence, by (L1) at [iD], every
    target of [old] was drained to the end or found draining.  (Nothing is assumed about WHERE in the
    trace [iS] and [iI] are: a command does not act after its return, [c03l_no_act_after_return].) *)
Theorem c03l_deploy_return : forall tr s n c iS iI sv ro lb old sv',
  run step init tr = Some s -> ev_at tr n (ACmd c) (KReturn c CROk) ->
  ev_at tr iS (ACmd c) (KSlot sv ro lb (Some old)) -> ev_at tr iI (ACmd c) (KInstall sv' true) ->
  exists w iA iD, iS < iI /\ iI < iA /\ iA < iD /\ iD < n /\
    ev_at tr iA (ACmd c) (KDrainAll old w) /\ ev_at tr iD (ACmd c) (KDrainAllDone old w).
Proof. exact deploy_return. Qed.
Print Assumptions c03l_deploy_return.

(** ** (L3) A pause / stop [c] (issued at [i0]) that returns Ok ([n]): before the return lie its
    [KSvcDrain sv ls] ([iV]) and [KSvcDrainDone sv] ([iW]); [ls] are the slots (active, then rollout)
    the service object had at the KSvcDrain (in the view's state [sV] just before [iV]); and for
    EVERY balancer [lb] of [ls] a DrainAll call on [lb] entered after [iV] is done before [iW] —
    hence (L1) for every target of [lb]. *)
Theorem c03l_pause_stop_return : forall tr s n c i0 a0 k nm,
  run step init tr = Some s -> ev_at tr n (ACmd c) (KReturn c CROk) ->
  ev_at tr i0 a0 (KIssue c k nm) -> is_pause_stop k = true ->
  exists sv ls iV iW, iV < iW /\ iW < n /\
    ev_at tr iV (ACmd c) (KSvcDrain sv ls) /\ ev_at tr iW (ACmd c) (KSvcDrainDone sv) /\
    (forall sV, run step init (firstn iV tr) = Some sV -> ls = svc_lbs sV sv) /\
    forall lb, In lb ls -> exists w a iA iD, iV < iA /\ iA < iD /\ iD < iW /\
      ev_at tr iA a (KDrainAll lb w) /\ ev_at tr iD a (KDrainAllDone lb w).
Proof. exact pause_stop_return. Qed.
Print Assumptions c03l_pause_stop_return.

(** ** A command does not act after its return (used by (L2); KIssue events are not bound to the
    issuing actor by the view, hence the side condition), and a DrainAll call is entered once. *)
Theorem c03l_no_act_after_return : forall tr s n a c r j k,
  run step init tr = Some s -> ev_at tr n a (KReturn c r) -> ev_at tr j (ACmd c) k ->
  (forall c' k' nm, k <> KIssue c' k' nm) -> j <= n.
Proof. exact no_act_after_return. Qed.
Print Assumptions c03l_no_act_after_return.

Theorem c03l_drainall_entered_once : forall tr s i j a a' lb lb' w,
  run step init tr = Some s -> ev_at tr i a (KDrainAll lb w) -> ev_at tr j a' (KDrainAll lb' w) -> i = j.
Proof. exact drainall_unique. Qed.
Print Assumptions c03l_drainall_entered_once.

(** ** (L4) JOINTLY with the request-level view M5full — the SAME trace accepted by both (M5full
    ignores the linkage events).  The request-level core needs M5full alone: a Drain call with its
    begin [b] (on a target not yet draining), its "cancel the rest" [c] and its end [r], all by
    [AGo g], and no other state-set numbered [g] in between: when it ended every request of its
    snapshot had left the target or been cut off, and this stays so at every later position [m]. *)
Theorem c03l_call_settled : forall tr sf g t b c r orig to o nw,
  run M5full.step M5full.init tr = Some sf ->
  b < c -> c < r ->
  ev_at tr b (AGo g) (KDrainBegin t orig to) -> orig <> TDraining ->
  ev_at tr c (AGo g) (KDrainCancelRest t) -> ev_at tr r (AGo g) (KStateSet t o nw) -> quiet tr g b r ->
  forall m, r <= m -> m <= length tr -> settled_at tr g t b r m.
Proof. exact full_call_settled. Qed.
Print Assumptions c03l_call_settled.

(** (L4) at a [KDrainAllDone lb w] ([n]) and at every later position [m]: for every target of [lb],
    the child's Drain call returned at once (target already draining) or, if it opened, its snapshot
    is settled when it ended and still at [m]. *)
Theorem c03l_drainall_done_settled : forall tr s sf n a lb w,
  run step init tr = Some s -> run M5full.step M5full.init tr = Some sf ->
  ev_at tr n a (KDrainAllDone lb w) ->
  exists iA, iA < n /\ ev_at tr iA a (KDrainAll lb w) /\
    forall iN aN ts, ev_at tr iN aN (KLbNew lb ts) -> forall t, In t ts ->
    forall m, n <= m -> m <= length tr -> drained_settled tr t w iA n m.
Proof. exact drainall_done_settled. Qed.
Print Assumptions c03l_drainall_done_settled.

(** (L4) at the successful return [n] of a deploy that replaced [old]: (L2), and for every target
    [t] of [old] the Drain call of the child that the command's own DrainAll call spawned for [t] has
    finished before the DrainAllDone and — if it opened — every request of its snapshot had left [t]
    or been cut off when it ended, and still has in the state in which the command returns ([m] = [n]). *)
Theorem c03l_deploy_return_settled : forall tr s sf n c iS iI sv ro lb old sv',
  run step init tr = Some s -> run M5full.step M5full.init tr = Some sf ->
  ev_at tr n (ACmd c) (KReturn c CROk) ->
  ev_at tr iS (ACmd c) (KSlot sv ro lb (Some old)) -> ev_at tr iI (ACmd c) (KInstall sv' true) ->
  exists w iA iD, iS < iI /\ iI < iA /\ iA < iD /\ iD < n /\
    ev_at tr iA (ACmd c) (KDrainAll old w) /\ ev_at tr iD (ACmd c) (KDrainAllDone old w) /\
    forall iN aN ts, ev_at tr iN aN (KLbNew old ts) -> forall t, In t ts -> drained_settled tr t w iA iD n.
Proof. exact deploy_return_settled. Qed.
Print Assumptions c03l_deploy_return_settled.

(** (L4) at the successful return [n] of a pause / stop: (L3), and the same for every target of
    every balancer of its [KSvcDrain]. *)
Theorem c03l_pause_stop_return_settled : forall tr s sf n c i0 a0 k nm,
  run step init tr = Some s -> run M5full.step M5full.init tr = Some sf ->
  ev_at tr n (ACmd c) (KReturn c CROk) ->
  ev_at tr i0 a0 (KIssue c k nm) -> is_pause_stop k = true ->
  exists sv ls iV iW, iV < iW /\ iW < n /\
    ev_at tr iV (ACmd c) (KSvcDrain sv ls) /\ ev_at tr iW (ACmd c) (KSvcDrainDone sv) /\
    (forall sV, run step init (firstn iV tr) = Some sV -> ls = svc_lbs sV sv) /\
    forall lb, In lb ls -> exists w a iA iD, iV < iA /\ iA < iD /\ iD < iW /\
      ev_at tr iA a (KDrainAll lb w) /\ ev_at tr iD a (KDrainAllDone lb w) /\
      forall iN aN ts, ev_at tr iN aN (KLbNew lb ts) -> forall t, In t ts -> drained_settled tr t w iA iD n.
Proof. exact pause_stop_return_settled. Qed.
Print Assumptions c03l_pause_stop_return_settled.

(** ** Non-vacuity: RECORDED traces (proofs/M5cmdTraces.v) are accepted — by the linkage view, by
    the request-level view as they are, and, without the linkage events, by the timing view of
    props/C03cmd.v.  ((L5): nothing more is claimed about the relation of the two command-level
    views; in particular NOT that every trace accepted by M5cmd is, unlinked, accepted by M5time —
    M5cmd knows nothing of time.) *)
Example ex_recorded_accepted :
  accepted rec_deploy = true /\ accepted rec_pause = true /\ accepted rec_rollout_pause = true.
Proof. vm_compute. repeat split; reflexivity. Qed.

Example ex_recorded_other_views :
  M5full.accepted rec_deploy = true /\ M5full.accepted rec_pause = true /\ M5full.accepted rec_rollout_pause = true /\
  M5time.accepted (unlinked rec_deploy) = true /\ M5time.accepted (unlinked rec_pause) = true /\
  M5time.accepted (unlinked rec_rollout_pause) = true.
Proof. vm_compute. repeat split; reflexivity. Qed.

(** why the implication is not claimed: the linkage view has no clock *)
Example ex_m5cmd_does_not_imply_m5time :
  accepted [mkEv 5 AEnv KOther; mkEv 0 AEnv KOther] = true /\
  M5time.accepted (unlinked [mkEv 5 AEnv KOther; mkEv 0 AEnv KOther]) = false.
Proof. vm_compute. split; reflexivity. Qed.

Ltac ev_at_tac := eexists; split; [vm_compute; reflexivity|split; reflexivity].

(** the hypotheses of (L2) / (L4 deploy) hold of [rec_deploy]: command 2 replaced balancer 0 (slot
    update at 38, install at 39) and returns Ok at 68; balancer 0 = [ta] (KLbNew at 3) *)
Example ex_deploy_hypotheses :
  ev_at rec_deploy 68 (ACmd 2) (KReturn 2 CROk) /\ ev_at rec_deploy 38 (ACmd 2) (KSlot 1 false 1 (Some 0)) /\
  ev_at rec_deploy 39 (ACmd 2) (KInstall 1 true) /\ ev_at rec_deploy 3 (ACmd 1) (KLbNew 0 [0]).
Proof. repeat split; ev_at_tac. Qed.

(** ... and what (L2) + (L1) promise is there: DrainAll call 0 by the command at 44, child goroutine
    12 at 45, begin 47 (target healthy), cancel-rest 63, restore 64, DrainAllDone at 65 *)
Example ex_deploy_conclusion :
  ev_at rec_deploy 44 (ACmd 2) (KDrainAll 0 0) /\ ev_at rec_deploy 65 (ACmd 2) (KDrainAllDone 0 0) /\
  ev_at rec_deploy 45 (AGo 12) (KDrainChild 0 0) /\ ev_at rec_deploy 47 (AGo 12) (KDrainBegin 0 THealthy 5000000000%N) /\
  ev_at rec_deploy 63 (AGo 12) (KDrainCancelRest 0) /\ ev_at rec_deploy 64 (AGo 12) (KStateSet 0 THealthy THealthy).
Proof. repeat split; ev_at_tac. Qed.

(** the hypotheses of (L3) / (L4 pause) hold of [rec_pause] (command 2, issued at 48, returns at 81;
    balancer 0 = [ta; tz]) and of [rec_rollout_pause] (command 5, issued at 59, returns at 92; the
    service has an active and a rollout balancer: KSvcDrain 0 [0; 1] at 62) *)
Example ex_pause_hypotheses :
  ev_at rec_pause 81 (ACmd 2) (KReturn 2 CROk) /\ ev_at rec_pause 48 (ACmd 2) (KIssue 2 CkPause [x77;x65;x62]) /\
  ev_at rec_pause 4 (ACmd 1) (KLbNew 0 [0; 1]) /\
  ev_at rec_rollout_pause 92 (ACmd 5) (KReturn 5 CROk) /\ ev_at rec_rollout_pause 59 (ACmd 5) (KIssue 5 CkPause [x77;x65;x62]) /\
  ev_at rec_rollout_pause 62 (ACmd 5) (KSvcDrain 0 [0; 1]) /\ ev_at rec_rollout_pause 87 (ACmd 5) (KSvcDrainDone 0).
Proof. repeat split; ev_at_tac. Qed.

(** ** The rules bite.  [upto p tr] = the events before the first one satisfying [p]. *)
Fixpoint upto (p : event -> bool) (tr : trace) : trace :=
  match tr with [] => [] | e :: r => if p e then [] else e :: upto p r end.

Definition is_done (e : event) : bool := match e_k e with KDrainAllDone _ _ => true | _ => false end.
Definition is_restore_by (g : nat) (e : event) : bool :=
  match e_by e, e_k e with AGo g', KStateSet _ TDraining _ | AGo g', KStateSet _ _ THealthy => Nat.eqb g g' | _, _ => false end.
Definition is_drainall (e : event) : bool := match e_k e with KDrainAll _ _ => true | _ => false end.
Definition is_svcdone (e : event) : bool := match e_k e with KSvcDrainDone _ => true | _ => false end.
Definition not_by (g : nat) (e : event) : bool := negb (actor_eqb (e_by e) (AGo g)).

Definition S3 : N := 3000000000%N.

(** (a) a deploy's return — or the dispose of the replaced balancer — moved BEFORE its DrainAllDone:
    the prefix up to there is accepted, the moved event is not; the request-level view accepts both *)
Example ex_return_before_drainall_done_rejected :
  accepted (upto is_done rec_deploy) = true /\
  accepted (upto is_done rec_deploy ++ [mkEv S3 (ACmd 2) (KReturn 2 CROk)]) = false /\
  accepted (upto is_done rec_deploy ++ [mkEv S3 (ACmd 2) (KLbDispose 0)]) = false /\
  M5full.accepted (upto is_done rec_deploy ++ [mkEv S3 (ACmd 2) (KReturn 2 CROk)]) = true /\
  (* ... and after the DrainAllDone the return is still too early: the dispose is missing *)
  accepted (upto is_done rec_deploy ++ [mkEv S3 (ACmd 2) (KDrainAllDone 0 0)]) = true /\
  accepted (upto is_done rec_deploy ++ [mkEv S3 (ACmd 2) (KDrainAllDone 0 0); mkEv S3 (ACmd 2) (KReturn 2 CROk)]) = false.
Proof. vm_compute. repeat split; reflexivity. Qed.

(** (b) a DrainAllDone moved before the child's restore (or before its "cancel the rest") *)
Example ex_drainall_done_before_restore_rejected :
  accepted (upto (is_restore_by 12) rec_deploy) = true /\
  accepted (upto (is_restore_by 12) rec_deploy ++ [mkEv S3 (ACmd 2) (KDrainAllDone 0 0)]) = false /\
  M5full.accepted (upto (is_restore_by 12) rec_deploy ++ [mkEv S3 (ACmd 2) (KDrainAllDone 0 0)]) = true.
Proof. vm_compute. repeat split; reflexivity. Qed.

(** (c) a child missing for one target: [rec_pause] without the events of goroutine 40 (the child for
    target 0 of balancer 0 = [ta; tz]) is rejected exactly at the DrainAllDone (position 68 there) *)
Example ex_child_missing_rejected :
  first_reject step init (filter (not_by 40) rec_pause) 0 = Some 68 /\
  nth_error (filter (not_by 40) rec_pause) 68 = Some (mkEv S3 (AGo 38) (KDrainAllDone 0 0)).
Proof. vm_compute. split; reflexivity. Qed.

(** (d) a deploy that skips its DrainAll: after the install (and the snapshot) neither the dispose of the
    replaced balancer nor the return is accepted; nor a DrainAll of ANOTHER balancer, nor one by a goroutine
    followed by the command's dispose (the mutation "go replaced.DrainAll(...)") *)
Example ex_deploy_without_drainall_rejected :
  accepted (upto is_drainall rec_deploy) = true /\
  accepted (upto is_drainall rec_deploy ++ [mkEv S3 (ACmd 2) (KLbDispose 0)]) = false /\
  accepted (upto is_drainall rec_deploy ++ [mkEv S3 (ACmd 2) (KReturn 2 CROk)]) = false /\
  accepted (upto is_drainall rec_deploy ++ [mkEv S3 (ACmd 2) (KDrainAll 1 0)]) = false /\
  accepted (upto is_drainall rec_deploy ++ [mkEv S3 (AGo 99) (KDrainAll 0 0)]) = true /\
  accepted (upto is_drainall rec_deploy ++ [mkEv S3 (AGo 99) (KDrainAll 0 0); mkEv S3 (ACmd 2) (KLbDispose 0)]) = false.
Proof. vm_compute. repeat split; reflexivity. Qed.

(** (e) a pause: the return before its KSvcDrainDone; a KSvcDrainDone while the rollout balancer's DrainAll call is
    still open; and Service.Drain draining only the active balancer ([rec_rollout_pause] without the events of
    goroutines 50 and 51 — the rollout balancer's DrainAll call and its child — is rejected at the KSvcDrainDone) *)
Definition S2 : N := 2000000000%N.
Example ex_pause_rules_bite :
  accepted (upto is_svcdone rec_rollout_pause) = true /\
  accepted (upto is_svcdone rec_rollout_pause ++ [mkEv S2 (ACmd 5) (KReturn 5 CROk)]) = false /\
  accepted (upto (is_restore_by 51) rec_rollout_pause) = true /\
  accepted (upto (is_restore_by 51) rec_rollout_pause ++ [mkEv S2 (ACmd 5) (KSvcDrainDone 0)]) = false /\
  (exists k, first_reject step init (filter (fun e => not_by 50 e && not_by 51 e) rec_rollout_pause) 0 = Some k /\
             nth_error (filter (fun e => not_by 50 e && not_by 51 e) rec_rollout_pause) k = Some (mkEv S2 (ACmd 5) (KSvcDrainDone 0))).
Proof. vm_compute. repeat split; try reflexivity. eexists. split; reflexivity. Qed.

(** (f) the Drain events of a child must be about the target it was registered for, in program order, by that
    goroutine; a second child for a target and a child registered after the DrainAllDone are refused *)
Definition upto_begin : trace := upto (fun e => match e_k e with KDrainBegin _ _ _ => true | _ => false end) rec_deploy.
Example ex_child_rules_bite :
  accepted upto_begin = true /\
  accepted (upto_begin ++ [mkEv 0 (AGo 12) (KDrainBegin 0 THealthy 5)]) = true /\
  accepted (upto_begin ++ [mkEv 0 (AGo 12) (KDrainBegin 1 THealthy 5)]) = false /\         (* another target *)
  accepted (upto_begin ++ [mkEv 0 (AGo 12) (KDrainBegin 0 TUnhealthy 5)]) = false /\       (* not the state the mark saw *)
  accepted (upto_begin ++ [mkEv 0 (AGo 12) (KDrainCancelRest 0)]) = false /\               (* before the begin *)
  accepted (upto_begin ++ [mkEv 0 (AGo 13) (KDrainBegin 0 THealthy 5)]) = false /\         (* not a registered child *)
  accepted (upto_begin ++ [mkEv 0 (AGo 13) (KDrainChild 0 0)]) = false /\                  (* a second child for ta *)
  accepted (rec_deploy ++ [mkEv 7000000000 (AGo 13) (KDrainChild 0 0)]) = false.           (* after the DrainAllDone *)
Proof. vm_compute. repeat split; reflexivity. Qed.

(** finding D11 in this view: a child that finds its target already draining finishes with its KDrainBegin *)
Example ex_early_return_finishes :
  accepted (upto (fun e => match e_k e with KStateSet 0 _ TDraining => true | _ => false end) rec_deploy ++ [
    mkEv 0 AEnv (KStateSet 0 THealthy TDraining);                    (* someone else marks ta *)
    mkEv 0 (AGo 12) (KStateSet 0 TDraining TDraining);
    mkEv 0 (AGo 12) (KDrainBegin 0 TDraining 5);
    mkEv 0 (ACmd 2) (KDrainAllDone 0 0);
    mkEv 0 (ACmd 2) (KLbDispose 0);
    mkEv 0 (ACmd 2) (KReturn 2 CROk)]) = true.
Proof. vm_compute. reflexivity. Qed.

(** ** The slack of the view, made concrete (NOT a behaviour of /repo — there Service.Drain waits for its own two
    calls): in [rec_pause], right after the snapshots of the pause's own DrainAll call 0 (children 41 and 40 still
    in their Drain calls), ANOTHER DrainAll call 7 on the same balancer is entered by goroutine 60, as an overlapping
    command on a copy of the service object would do; its children find both targets draining and return at once
    (D11); call 7 is done; and the view accepts the pause's KSvcDrainDone and its return although call 0 is open.
    (L3) holds of this trace with [w] = 7: it says "SOME DrainAll call on [lb] entered after the KSvcDrain". *)
Definition slack : trace := firstn 61 rec_pause ++ [
  mkEv S2 (AGo 60) (KDrainAll 0 7);
  mkEv S2 (AGo 61) (KDrainChild 1 7);
  mkEv S2 (AGo 61) (KStateSet 1 TDraining TDraining);
  mkEv S2 (AGo 61) (KDrainBegin 1 TDraining 5);
  mkEv S2 (AGo 62) (KDrainChild 0 7);
  mkEv S2 (AGo 62) (KStateSet 0 TDraining TDraining);
  mkEv S2 (AGo 62) (KDrainBegin 0 TDraining 5);
  mkEv S2 (AGo 60) (KDrainAllDone 0 7);
  mkEv S2 (ACmd 2) (KSvcDrainDone 0);
  mkEv S2 (ACmd 2) (KReturn 2 CROk)].
Example ex_slack_of_the_view :
  accepted slack = true /\ M5full.accepted slack = true /\
  exists s a k, run step init slack = Some s /\ nget (calls s) 0 = Some a /\ a_done a = None /\
    nget (kids s) 41 = Some k /\ k_ph k = KOpen 55.
Proof.
  split; [vm_compute; reflexivity|]. split; [vm_compute; reflexivity|].
  eexists. eexists. eexists. split; [vm_compute; reflexivity|]. repeat split; reflexivity.
Qed.
