(** C18 — concurrent commands, probes and traffic never corrupt the proxy:
    no data race (Go memory model), no deadlock, no panic.

    Only statements; the proofs are in proofs/LocksFacts.v (generic lock theory
    and soundness of the checkers of model/Locks.v) and proofs/SeqInv.v (no
    panic, through props/C18seq.v).

    How the pieces fit: /verif/harness/lockfacts re-extracts [names] and [facts]
    from the current source on every run; the check evaluates
      [check_guarded names facts kamal_discipline]  and  [lock_order_acyclic facts]
    by vm_compute (the two obligations on the regenerated facts).  The theorems
    below say what [= []] and [= true] mean.  What is assumed about the translator
    is spelled out as the hypotheses of [c18_no_race] and [c18_no_deadlock]. *)
From KP Require Import model.Base model.Locks proofs.LocksFacts.
From KP Require Import model.ServiceMap model.Seq proofs.SeqInv props.C18seq.
Local Open Scope N_scope.

(** (a) Guarded accesses are ordered by happens-before: in any trace of
    acquire / release / access events obeying mutex and RW-mutex semantics, if
    every access to x holds x's guard (readers at least in read mode, writers
    exclusively), two conflicting accesses of different goroutines are ordered
    by program order and release -> acquire edges: no data race on x. *)
Theorem locks_sound : forall (tr : trace) (x : loc) (g : lock),
  wf tr -> guarded_by tr x g ->
  forall i j t u k k',
    (i < j)%nat ->
    nth_error tr i = Some (t, Acc x k) ->
    nth_error tr j = Some (u, Acc x k') ->
    t <> u -> (k = Wr \/ k' = Wr) ->
    hb tr i j.
Proof. exact locks_sound_thm. Qed.

(** (b) A rank that increases along "requested while holding" excludes every
    cyclic wait, in any lock state whatsoever. *)
Theorem acyclic_sound : forall (s : lstate) (pend : thread -> option lock) (rk : lock -> nat),
  (forall t a b, holds_in s t a -> pend t = Some b -> (rk a < rk b)%nat) ->
  ~ cyclic_wait s pend.
Proof. exact no_cyclic_wait. Qed.

(** ... and [lock_order_acyclic] establishes such a rank for every acquisition
    on every call path of the facts. *)
Theorem lock_order_sound : forall fs, lock_order_acyclic fs = true ->
  exists rk : lockid -> nat,
    forall f l mo h p H a,
      In (FAcquire f l mo h p) fs -> path fs f H -> In a (map fst (h ++ H)) ->
      (rk a < rk l)%nat.
Proof. exact lock_order_sound_thm. Qed.

(** (c) Checker soundness: if [check_guarded] reports nothing, then for every
    access fact, on every call path from a concurrent root to its function, unless
    the object is private to the function (or under construction): a guarded
    field's lock is held in the needed mode, lexically or at a call site of the
    path; an immutable field is only read; every field is classified. *)
Theorem check_guarded_sound : forall nm fs d, check_guarded nm fs d = [] ->
  forall f st fld k held b p H,
    In (FAccess f st fld k held b p) fs ->
    path fs f H ->
    exempt (ctor_set nm fs d) f b = false ->
    access_ok nm d st fld k (held ++ H).
Proof. exact check_guarded_sound_thm. Qed.

Theorem check_guarded_balanced : forall nm fs d, check_guarded nm fs d = [] ->
  forall f l p, ~ In (FUnbalanced f l p) fs.
Proof. exact check_guarded_balanced_thm. Qed.

Theorem check_guarded_closes : forall nm fs d, check_guarded nm fs d = [] ->
  forall f st fld h p, In (FChan f ChClose st fld h p) fs -> close_listed nm fs d f st fld = true.
Proof. exact check_guarded_closes_thm. Qed.

Theorem ctor_set_sound : forall nm fs d, check_guarded nm fs d = [] ->
  forall f, In f (ctor_set nm fs d) ->
    In f (declared_ctors nm d) \/
    (~ In f (root_names fs) /\
     forall c h b p, In (FCall c f h b p) fs ->
       b = BLocal \/ (b = BRecv /\ In c (ctor_set nm fs d))).
Proof. exact ctor_set_sound_thm. Qed.

(** The two verdicts about a run.  Hypotheses = the translator's contract. *)
Theorem c18_no_race : forall nm fs d (tr : trace) (x : loc) (st fld : id) (g : lock) (l : slock),
  class_of nm d st fld = Some (Guarded l) ->
  (forall i t k, nth_error tr i = Some (t, Acc x k) ->
     exists f held b p H,
       In (FAccess f st fld k held b p) fs /\ path fs f H /\
       exempt (ctor_set nm fs d) f b = false /\
       forall m, In (lock_id nm l, m) (held ++ H) -> In (t, g, m) (state_at tr i)) ->
  check_guarded nm fs d = [] -> wf tr ->
  forall i j t u k k',
    (i < j)%nat -> nth_error tr i = Some (t, Acc x k) -> nth_error tr j = Some (u, Acc x k') ->
    t <> u -> (k = Wr \/ k' = Wr) -> hb tr i j.
Proof. exact no_race_bridge. Qed.

Theorem c18_no_deadlock : forall fs (cls : lock -> lockid) (s : lstate) (pend : thread -> option lock),
  (forall t b, pend t = Some b ->
     exists f mo h p H,
       In (FAcquire f (cls b) mo h p) fs /\ path fs f H /\
       forall a m, In (t, a, m) s -> In (cls a) (map fst (h ++ H))) ->
  lock_order_acyclic fs = true -> ~ cyclic_wait s pend.
Proof. exact no_deadlock_bridge. Qed.

(** (d) No panic: whatever commands ran before (restarts included), the next
    command does not panic — on the sequential model M4 (props/C18seq.v). *)
Theorem c18_no_panic : forall cs c,
  fst (exec fixed (exec_all fixed init_state cs) c) <> Panic.
Proof. exact c18_no_panic_seq. Qed.

Theorem c18_pause_gates_have_channels : forall st s,
  reachable fixed st -> In s (st_services st) -> p_chan_nil (s_pause s) = false.
Proof. exact c18_gates_have_channels. Qed.

Print Assumptions locks_sound.
Print Assumptions acyclic_sound.
Print Assumptions lock_order_sound.
Print Assumptions check_guarded_sound.
Print Assumptions check_guarded_balanced.
Print Assumptions check_guarded_closes.
Print Assumptions ctor_set_sound.
Print Assumptions c18_no_race.
Print Assumptions c18_no_deadlock.
Print Assumptions c18_no_panic.
Print Assumptions c18_pause_gates_have_channels.

(** * Non-vacuity *)

(** a real trace satisfies the premises of [locks_sound], and its conclusion is
    a fact about it *)
Example locks_sound_applies : hb demo_trace 1%nat 4%nat.
Proof.
  apply (locks_sound demo_trace 3%nat 7%nat demo_wf demo_guarded 1%nat 4%nat 1%nat 2%nat Wr Rd); cbn;
    [lia | reflexivity | reflexivity | discriminate | left; reflexivity].
Qed.

(** without the lock the same two accesses are unordered *)
Example unguarded_is_a_race : ~ hb racy_trace 0%nat 1%nat.
Proof. apply racy_unordered. Qed.

(** the checker on a three-function program: [get] locks and reads, [bump] is
    only called by [set] under the lock, [peek] reads without the lock *)
Definition ex_names : names :=
  [(1, bs "T"); (2, bs "mu"); (3, bs "n"); (4, bs "T.get"); (5, bs "T.set"); (6, bs "T.bump");
   (7, bs "T.peek"); (8, bs "x.go"); (9, bs "rpc")].
Definition ex_disc : discipline := mkDiscipline [(bs "T", bs "n", Guarded (bs "T", bs "mu"))] [] [].
Definition ex_good : list fact :=
  [FFunc 4 (8, 1); FRoot 4 9; FAcquire 4 (1, 2) LR [] (8, 2); FAccess 4 1 3 Rd [((1, 2), LR)] BRecv (8, 3);
   FFunc 5 (8, 5); FRoot 5 9; FAcquire 5 (1, 2) LW [] (8, 6); FCall 5 6 [((1, 2), LW)] BRecv (8, 7);
   FFunc 6 (8, 9); FAccess 6 1 3 Wr [] BRecv (8, 10)].
Definition ex_bad : list fact := ex_good ++ [FFunc 7 (8, 12); FRoot 7 9; FAccess 7 1 3 Rd [] BRecv (8, 13)].

Example checker_accepts : check_guarded ex_names ex_good ex_disc = [].
Proof. vm_compute. reflexivity. Qed.

Example checker_flags : check_guarded ex_names ex_bad ex_disc = [VUnguarded 7 1 3 Rd (8, 13)].
Proof. vm_compute. reflexivity. Qed.

(** a read lock does not license a write *)
Example checker_flags_write_under_rlock :
  check_guarded ex_names [FFunc 4 (8, 1); FRoot 4 9; FAccess 4 1 3 Wr [((1, 2), LR)] BRecv (8, 3)] ex_disc
  = [VUnguarded 4 1 3 Wr (8, 3)].
Proof. vm_compute. reflexivity. Qed.

(** lock order: A then B is fine; adding B then A is a cycle; re-acquiring A is one *)
Example order_ok :
  lock_order_acyclic [FFunc 4 (8, 1); FRoot 4 9; FAcquire 4 (1, 2) LW [] (8, 2); FAcquire 4 (1, 3) LW [((1, 2), LW)] (8, 3)] = true.
Proof. vm_compute. reflexivity. Qed.

Example order_cycle :
  lock_order_acyclic [FFunc 4 (8, 1); FRoot 4 9; FAcquire 4 (1, 2) LW [] (8, 2); FAcquire 4 (1, 3) LW [((1, 2), LW)] (8, 3);
                      FFunc 5 (8, 5); FRoot 5 9; FAcquire 5 (1, 3) LW [] (8, 6); FCall 5 6 [((1, 3), LW)] BRecv (8, 7);
                      FFunc 6 (8, 9); FAcquire 6 (1, 2) LW [] (8, 10)] = false.
Proof. vm_compute. reflexivity. Qed.

Example order_self :
  lock_order_acyclic [FFunc 4 (8, 1); FRoot 4 9; FAcquire 4 (1, 2) LR [] (8, 2); FAcquire 4 (1, 2) LR [((1, 2), LR)] (8, 3)] = false.
Proof. vm_compute. reflexivity. Qed.
