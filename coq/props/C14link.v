(** C14link — the monitors of corr/C14corr.v accept every observation that the
    model of model/Buffer.v itself produces.  So a monitor that is false on an
    observation of the real code proves that the real code left the behaviours
    of the model (for which props/C14.v proves the property).
    Only statements; proofs are in proofs/C14Link.v. *)
From KP Require Import model.Base model.Buffer proofs.BufferFacts corr.C14corr proofs.C14Link.
Local Open Scope N_scope.

(** Buffer level: for every pair of limits and every chunk list (zero-length
    chunks, chunks after a rejected one included) the monitor accepts the
    observation the model predicts. *)
Theorem c14_buf_monitor_of_model : forall maxb maxm chunks,
  buf_monitor maxb maxm chunks (model_buf maxb maxm chunks) = true.
Proof. exact buf_monitor_of_model. Qed.

(** The sticky-overflow clause rests on this: no write resets [overflowed]
    (any buffer state, well-formed or not). *)
Theorem c14_overflow_sticky : forall b chunks,
  overflowed b = true -> overflowed (fst (writes b chunks)) = true.
Proof. intros b chunks. exact (writes_overflow_sticky chunks b). Qed.

(** Target level.  [obs_of_model i any_body any_flushed] is the observation the
    composed model [model_http i] predicts; where the model leaves a field
    open ([None]) the observed value is arbitrary.  [http_hyp i]: when the
    response is buffered, the target's status is a final one (the generator
    draws it from 200 201 302 404 500). *)
Theorem c14_http_monitor_of_model : forall i any_body any_flushed,
  http_hyp i = true -> http_monitor i (obs_of_model i any_body any_flushed) = true.
Proof. exact http_monitor_of_model. Qed.

(** [obs_of_model] is an observation the correspondence check accepts. *)
Theorem c14_obs_of_model_agrees : forall i any_body any_flushed,
  http_agree i (obs_of_model i any_body any_flushed) = true.
Proof. exact obs_of_model_agrees. Qed.

(** The hypothesis is needed: with a buffered response and an interim status
    (103 Early Hints written as the only header) the model answers 200 with the
    body — net/http's implicit header — while the monitor demands the target's
    status.  Not a false alarm of the check: the generator never draws a 1xx. *)
Definition ex_interim : http_in :=
  mkHttpIn false true 4 0 0 [] false 103 false [bs "hi"].

Theorem c14_http_monitor_needs_final_status :
  http_hyp ex_interim = false /\
  ho_status (obs_of_model ex_interim [] false) = 200 /\
  http_monitor ex_interim (obs_of_model ex_interim [] false) = false.
Proof. vm_compute. repeat split. Qed.

(** No other hypothesis is needed; in particular none on [hi_abort] (an abort
    without request buffering is outside the model: it then predicts a
    forwarded request, which the monitor accepts), and none that the
    response status differ from 413/500. *)

(** ** Non-vacuity *)

(** Accepted, spilled, rejected (sticky), zero-length and again-fitting chunks. *)
Definition ex_chunks : list str := [bs "abc"; bs ""; bs "defg"; bs "hijkl"; bs "m"; bs ""; bs "nopq"].

Example c14_link_example_buf :
  map wo_err (bo_steps (model_buf 8 4 ex_chunks)) = [WOk; WOk; WOk; WMaxExceeded; WOk; WOk; WMaxExceeded] /\
  map wo_over (bo_steps (model_buf 8 4 ex_chunks)) = [false; false; false; true; true; true; true] /\
  map wo_files (bo_steps (model_buf 8 4 ex_chunks)) = [[]; []; [3]; [3]; [4]; [4]; [4]] /\
  bo_sent (model_buf 8 4 ex_chunks) = bs "abcdefgm" /\
  buf_monitor 8 4 ex_chunks (model_buf 8 4 ex_chunks) = true.
Proof. vm_compute. repeat split. Qed.

(** The monitor is not trivially true: forgetting the overflow, or delivering
    a rejected chunk, is refused. *)
Example c14_link_example_buf_refused :
  let o := model_buf 8 4 ex_chunks in
  let forget := map (fun w => mkWobs (wo_err w) false (wo_files w)) (bo_steps o) in
  buf_monitor 8 4 ex_chunks (mkBufObs forget (bo_sent o) [] []) = false /\
  buf_monitor 8 4 ex_chunks (mkBufObs (bo_steps o) (bs "abcdefghijklm") [] []) = false /\
  buf_monitor 8 4 ex_chunks (mkBufObs (bo_steps o) (bo_sent o) [4] []) = false.
Proof. vm_compute. repeat split. Qed.

(** Exchanges: too large a request (413), client abort (not forwarded), too
    large a buffered response (500), an event stream beyond the limit. *)
Definition ex_http (breq bresp : bool) (maxreq maxresp : N) (abort sse : bool) : http_in :=
  mkHttpIn breq bresp 4 maxreq maxresp [bs "abc"; bs "defg"] abort 201 sse [bs "01234"; bs "56789"].

Example c14_link_example_http :
  map (fun i => (http_hyp i, ho_status (obs_of_model i [] false), ho_hit (obs_of_model i [] false),
                 http_monitor i (obs_of_model i [] false)))
      [ex_http true true 6 0 false false; ex_http true true 7 0 true false;
       ex_http true true 7 9 false false; ex_http true true 7 9 false true;
       ex_http false false 0 0 false false] =
  [(true, 413, false, true); (true, 500, false, true); (true, 500, true, true); (true, 201, true, true);
   (true, 201, true, true)].
Proof. vm_compute. reflexivity. Qed.

Example c14_link_example_http_refused :
  let i := ex_http true true 7 9 false false in
  let o := obs_of_model i [] false in
  http_monitor i (mkHttpObs 201 (ho_body o) false true (ho_got o) []) = false /\
  http_monitor i (mkHttpObs 500 (ho_body o) false true (bs "abc") []) = false /\
  http_monitor i (mkHttpObs 500 (ho_body o) false true (ho_got o) [6]) = false.
Proof. vm_compute. repeat split. Qed.

Print Assumptions c14_buf_monitor_of_model.
Print Assumptions c14_overflow_sticky.
Print Assumptions c14_http_monitor_of_model.
Print Assumptions c14_obs_of_model_agrees.
Print Assumptions c14_http_monitor_needs_final_status.
