(** C11, the restart step itself: on every history of the model, with a restart inserted after any non-empty prefix, the
    requests asked right after the restart are answered as the same requests were answered right before it (same target
    group, status, body, held time) and `list` shows the same - the monitor corr/C11step.c11_restart_step_ok, which the
    correspondence run evaluates on the real proxy's pair of runs, holds of the model. *)
From KP Require Import model.Base model.ServiceMap model.Seq corr.M4corr corr.C11step proofs.M4Link proofs.C11stepLink.

Theorem c11_restart_step_monitor_of_model : forall ig pre c cs2 reqs,
  c11_restart_step_ok (model_history ig fixed ((pre ++ [c]) ++ cs2) reqs)
                      (model_history ig fixed ((pre ++ [c]) ++ Restart :: cs2) reqs) (length (pre ++ [c])) = true.
Proof. exact c11_step_of_model. Qed.
Print Assumptions c11_restart_step_monitor_of_model.

(** a restart of the empty proxy (no step before it) is covered by the monitor's first clause *)
Theorem c11_restart_step_monitor_at_the_start : forall h1 h2, c11_restart_step_ok h1 h2 0 = true.
Proof. reflexivity. Qed.
Print Assumptions c11_restart_step_monitor_at_the_start.
