(** C03cmd — C03 at the level of the COMMAND: when a deploy, pause or stop returns,
    the Drain calls it started have ended (and a redeploy started one for every target
    of the balancer it replaced); jointly with the request-level view: when such a call
    ended, the requests of its snapshot had completed or been cut off.

    The theorems of props/C03.v speak about ONE Drain call of ONE target (acceptor
    model/M5full.v, which knows nothing of commands).  Here the timing view
    model/M5time.v is used: it follows every command through its phases, keeps the
    replaced targets whose Drain has not begun ([c_pending]), and the open Drain calls
    ([drains], keyed by goroutine) with the commands that may have started them
    ([d_owners]; [true] = certainly).  All statements are about EVERY trace accepted by
    [M5time.step] from [M5time.init] (T3 also by [M5full.step]); a trace is split as
    [pre ++ eR :: post] at the return event [eR] of command [c].
    Proofs: proofs/M5timeC03.v, proofs/M5fullDrainFwd.v.

    What "the command started this Drain call" means — explicit in every statement:
    the view INFERS the owner of a Drain call at its [KDrainBegin t orig timeout]:
    [candidates sB t now timeout] are the commands in their drain phase with that drain
    timeout whose last own step is at [now] (deploys: [t] is a target of the balancer they
    replaced); a single candidate [c] is the CERTAIN owner if [certain sB t c] (a pause/stop
    always; a deploy if [t] is still in its [c_pending]).  With two or more candidates
    (commands acting at the same virtual instant with the same drain timeout) no owner is
    certain and the view does not make any of them wait ([c03_possible_owner_not_waited_refuted]).
    A Drain call that finds its target already draining ([orig = TDraining], finding D11)
    opens no call at all.  The END of an open call is the first state-set by its goroutine
    after its "cancel the rest"; the view accepts it only if it sets a state other than
    "draining" (the deferred restore of [Drain] writes back the state the call found, which
    was not "draining" or the call would have returned at once; a mark is never the end:
    Example [ex_end_event_mark_rejected]).  It does not constrain the state that is
    overwritten: a probe may have flipped it meanwhile (finding D12).  None of the
    statements needs [no_parks]: the structural rules (phases, pending, owners, the
    restore is not a mark) are enforced whether or not goroutines were parked. *)
From Coq Require Import ZifyN ZifyNat ZifyBool.
From KP Require Import model.Base model.Trace model.M5time.
From KP Require model.M5full proofs.M5fullFacts proofs.M5fullPath proofs.M5fullDrainFwd.
From KP Require Import proofs.M5timeFacts proofs.M5timeC03.
Local Open Scope N_scope.

(** ** (T1 ii, T2 — state form) When a command returns — any command, any result — no Drain
    call that is certainly its own is still open. *)
Theorem c03_return_no_open_drain : forall pre eR post s c r s1,
  run step init (pre ++ eR :: post) = Some s -> e_k eR = KReturn c r -> run step init pre = Some s1 ->
  forall g d, nget (drains s1) g = Some d -> owns c d = false.
Proof. exact return_no_open_drain_trace. Qed.
Print Assumptions c03_return_no_open_drain.

(** ** (T1 ii, T2 — trace form) Every Drain call that began in [pre] ([eB], by goroutine
    [goid (e_by eB)], on a target not already draining) with the returning command [c] as its
    single, certain owner has ended in [pre]: after [eB] comes its "cancel the rest" ([eC])
    and then — the first state-set by that goroutine since [eB] — the state-set [eE] on [t]
    with which the call returns, a restore: the state [n] it sets is not "draining".  So the
    command did wait for it. *)
Theorem c03_owned_drain_ended : forall pre eR post s c r p1 eB p2 sB t orig timeout,
  run step init (pre ++ eR :: post) = Some s -> e_k eR = KReturn c r ->
  pre = p1 ++ eB :: p2 -> run step init p1 = Some sB ->
  e_k eB = KDrainBegin t orig timeout -> orig <> TDraining ->
  candidates sB t (e_t eB) timeout = [c] -> certain sB t c = true ->
  exists q1 eE q2 o n, p2 = q1 ++ eE :: q2 /\ goid (e_by eE) = goid (e_by eB) /\ e_k eE = KStateSet t o n /\ n <> TDraining /\
    (forall e', In e' q1 -> goid (e_by e') = goid (e_by eB) -> forall t' o' n', e_k e' <> KStateSet t' o' n') /\
    (exists eC, In eC q1 /\ goid (e_by eC) = goid (e_by eB) /\ e_k eC = KDrainCancelRest t).
Proof. exact owned_drain_ended. Qed.
Print Assumptions c03_owned_drain_ended.

(** ** (T1) A deploy / rollout deploy [c] (durations [eP]) that replaced balancer [old]
    ([eS]; targets [ts], [eN]) and returns Ok: it has installed ([eI]) and AFTER the install,
    for EVERY target [t] of [old], a Drain call of [t] with [c]'s own drain timeout [drt] has
    begun ([eD]) at which [c] was a candidate still expecting the Drain of [t] (this is what
    emptying [c_pending] means); and where [c] was the ONLY candidate and [t] was not already
    draining, that call has ended before the return (as in [c03_owned_drain_ended]). *)
Theorem c03_deploy_return_drains_done : forall pre eR post s c eP dt drt fa eS svc ro lb old eN ts,
  run step init (pre ++ eR :: post) = Some s ->
  e_k eR = KReturn c CROk ->
  In eP pre -> e_k eP = KParams c dt drt fa ->
  In eS pre -> e_by eS = ACmd c -> e_k eS = KSlot svc ro lb (Some old) ->
  In eN pre -> e_k eN = KLbNew old ts ->
  exists p1 eI p2 sv, pre = p1 ++ eI :: p2 /\ e_by eI = ACmd c /\ e_k eI = KInstall sv true /\
    forall t, In t ts ->
      exists m1 eD m2 orig sD, p2 = m1 ++ eD :: m2 /\ e_k eD = KDrainBegin t orig drt /\
        run step init (p1 ++ eI :: m1) = Some sD /\
        nmem c (candidates sD t (e_t eD) drt) = true /\ certain sD t c = true /\
        (orig <> TDraining -> candidates sD t (e_t eD) drt = [c] ->
         exists q1 eE q2 o n, m2 = q1 ++ eE :: q2 /\ goid (e_by eE) = goid (e_by eD) /\ e_k eE = KStateSet t o n /\ n <> TDraining /\
           (forall e', In e' q1 -> goid (e_by e') = goid (e_by eD) -> forall t' o' n', e_k e' <> KStateSet t' o' n') /\
           (exists eC, In eC q1 /\ goid (e_by eC) = goid (e_by eD) /\ e_k eC = KDrainCancelRest t)).
Proof. exact deploy_return_drains_done. Qed.
Print Assumptions c03_deploy_return_drains_done.

(** ** (T2) A pause / stop [c] (issued by [eI]) that returns: every Drain call that began with
    [c] as its only candidate has ended before the return ([certain] is automatic for a
    pause / stop).  The view does not know WHICH targets a pause / stop has to drain (it
    does not follow the service's balancers), so there is no "one for every target" here. *)
Theorem c03_pause_stop_return_drains_done : forall pre eR post s c r eI k name p1 eB p2 sB t orig timeout,
  run step init (pre ++ eR :: post) = Some s -> e_k eR = KReturn c r ->
  pre = p1 ++ eB :: p2 -> run step init p1 = Some sB ->
  In eI p1 -> e_k eI = KIssue c k name -> is_pause_stop k = true ->
  e_k eB = KDrainBegin t orig timeout -> orig <> TDraining ->
  candidates sB t (e_t eB) timeout = [c] ->
  exists q1 eE q2 o n, p2 = q1 ++ eE :: q2 /\ goid (e_by eE) = goid (e_by eB) /\ e_k eE = KStateSet t o n /\ n <> TDraining /\
    (forall e', In e' q1 -> goid (e_by e') = goid (e_by eB) -> forall t' o' n', e_k e' <> KStateSet t' o' n') /\
    (exists eC, In eC q1 /\ goid (e_by eC) = goid (e_by eB) /\ e_k eC = KDrainCancelRest t).
Proof. exact pause_stop_drain_ended. Qed.
Print Assumptions c03_pause_stop_return_drains_done.

(** ** (T3) Jointly — the SAME trace accepted by both views.  When the command returns, every
    Drain call it certainly owned has ended ([eE]), and in the state [fs] of the request-level
    view just before [eE] the call's record [d] of goroutine [goid (e_by eB)] on target [t] is
    still there, "cancel the rest" is done, and every request of its snapshot [sn] — the list
    of the call's own KDrainSnapshot event [es], i.e. exactly the requests in flight on [t]
    when draining began (props/C03.v, [c03_snapshot_is_inflight]) — has left the in-flight
    set of [t] or has been cancelled: "when deploy / pause / stop returns, the requests that
    were in flight on the drained targets when draining began have completed or been cut
    off" — and this is still so in the state [f1] in which the command returns (last
    conjunct).  (The part about [fs] is the conclusion of [c03_settled_when_drain_ends] of
    props/C03.v at [eE].  [eE] is the first state-set by the goroutine after its "cancel the
    rest" and sets a state [n] other than "draining": exactly the event with which the
    request-level view closes the call's record — a mark by that goroutine in its place is
    rejected by the timing view, Example [ex_end_event_mark_rejected].) *)
Theorem c03_return_snapshots_settled : forall pre eR post st sf c r p1 eB p2 sB t orig timeout,
  run step init (pre ++ eR :: post) = Some st ->
  run M5full.step M5full.init (pre ++ eR :: post) = Some sf ->
  e_k eR = KReturn c r -> pre = p1 ++ eB :: p2 -> run step init p1 = Some sB ->
  e_k eB = KDrainBegin t orig timeout -> orig <> TDraining ->
  candidates sB t (e_t eB) timeout = [c] -> certain sB t c = true ->
  exists q1 eE q2 o n fs x d sn,
    p2 = q1 ++ eE :: q2 /\ goid (e_by eE) = goid (e_by eB) /\ e_k eE = KStateSet t o n /\ n <> TDraining /\
    (forall e', In e' q1 -> goid (e_by e') = goid (e_by eB) -> forall t' o' n', e_k e' <> KStateSet t' o' n') /\
    run M5full.step M5full.init (p1 ++ eB :: q1) = Some fs /\
    nget (M5full.targets fs) t = Some x /\ nget (M5full.t_drains x) (goid (e_by eB)) = Some d /\
    M5full.d_cancelled d = true /\ M5full.d_snap d = Some sn /\
    (forall rq, In rq sn -> ~ In rq (M5full.t_inflight x) \/ M5fullFacts.cancelled fs rq = true) /\
    (exists es rs, In es q1 /\ goid (e_by es) = goid (e_by eB) /\ e_k es = KDrainSnapshot t rs /\ map fst rs = sn) /\
    (exists f1 x1, run M5full.step M5full.init pre = Some f1 /\ nget (M5full.targets f1) t = Some x1 /\
       forall rq, In rq sn -> ~ In rq (M5full.t_inflight x1) \/ M5fullFacts.cancelled f1 rq = true).
Proof. exact joint_settled. Qed.
Print Assumptions c03_return_snapshots_settled.

(** ** (T4) The residual (finding D2).  In the request-level view a request [r] claims target
    [t] — at any time, in particular after the command that drained [t] has returned — only
    along this path: it was routed to a service object [sv] that was in the router's table
    then, passed the gate of [sv], picked a balancer [lb] that was in a slot of [sv] AT THE
    PICK, and was given [t], a target of [lb]; and [lb] is the only balancer [t] belongs to.
    So a claim on a target of a replaced balancer [old] can only come from a request that
    holds a service object which, when the request picked, still had [old] in a slot. *)
Theorem c03_claim_origin : forall pre e post s t r,
  run M5full.step M5full.init (pre ++ e :: post) = Some s -> e_k e = KClaim t r ->
  exists sv lb s1 l,
    M5fullPath.req_path r pre = M5fullPath.p_lbclaimed r sv lb (Some t) /\
    run M5full.step M5full.init pre = Some s1 /\ nget (M5full.lbs s1) lb = Some l /\ In t (M5full.l_targets l) /\
    (forall lb' l', nget (M5full.lbs s1) lb' = Some l' -> In t (M5full.l_targets l') -> lb' = lb) /\
    (exists a ep b sp x, pre = a ++ ep :: b /\ e_k ep = KPick r sv (Some lb) /\
       run M5full.step M5full.init a = Some sp /\ nget (M5full.svcs sp) sv = Some x /\ M5full.is_slot x lb = true) /\
    (exists a er b sr, pre = a ++ er :: b /\ e_k er = KRouted r (Some sv) /\
       run M5full.step M5full.init a = Some sr /\ In sv (M5full.installed sr)).
Proof. exact M5fullDrainFwd.claim_origin_lem. Qed.
Print Assumptions c03_claim_origin.

(** ** Non-vacuity: hand-written traces in the full vocabulary, accepted by BOTH views.
    [jx]: deploy web [ta]; request 1 hangs on ta; redeploy web [tb] (deploy timeout 2 s, drain
    timeout 1 s; tb healthy at 1 s); the Drain of ta (goroutine 15) begins at the install,
    runs into its deadline at 2 s, request 1 is cut off (504); then the dispose and the return.
    [jp]: the same first deploy and request; pause web (drain timeout 1 s); request 1 ends
    at 1.5 s, the Drain call (goroutine 20) ends, pause returns. *)
Local Close Scope N_scope.
Definition na : str := [x77;x65;x62].
Definition nb : str := [x61;x70;x69].
Definition ta : str := [x74;x61;x3a;x38;x30].
Definition tb : str := [x74;x62;x3a;x38;x30].
Definition S1 : N := 1000000000%N.
Definition S15 : N := 1500000000%N.
Definition S2 : N := 2000000000%N.
Definition jx_deploy1 : trace := [
 mkEv 0 (ACmd 1) (KIssue 1 CkDeploy na);
 mkEv 0 (ACmd 1) (KParams 1 S2 S1 0);
 mkEv 0 AEnv (KTargetName 0 ta);
 mkEv 0 (ACmd 1) (KLbNew 0 [0]);
 mkEv 0 AEnv (KSvcName 0 na);
 mkEv 0 (ACmd 1) (KDeployLb 0 false 0);
 mkEv 0 AEnv (KProbeSent ta true);
 mkEv 0 AEnv (KProbeApply 0 true TAdding THealthy);
 mkEv 0 AEnv (KRotation 0 [0]);
 mkEv 0 (AGo 10) (KWaiter 0 true);
 mkEv 0 (ACmd 1) (KDeployWaited 0 true);
 mkEv 0 (ACmd 1) (KSlot 0 false 0 None);
 mkEv 0 (ACmd 1) (KInstall 0 true);
 mkEv 0 (ACmd 1) (KReturn 1 CROk)].
Definition jx_req1 : trace := [
 mkEv 0 (AReq 1) (KArrive 1);
 mkEv 0 (AReq 1) (KRouted 1 (Some 0));
 mkEv 0 (AReq 1) (KGateResult 1 0 AProceed);
 mkEv 0 (AReq 1) (KPick 1 0 (Some 0));
 mkEv 0 (AReq 1) (KLbClaim 0 (Some 0) 1);
 mkEv 0 (AReq 1) (KClaim 0 1);
 mkEv 0 (AReq 1) (KAtTarget 0 1)].
Definition jx_deploy2 : trace := [
 mkEv 0 (ACmd 2) (KIssue 2 CkDeploy na);
 mkEv 0 (ACmd 2) (KParams 2 S2 S1 0);
 mkEv 0 AEnv (KSvcName 1 na);
 mkEv 0 (ACmd 2) (KSvcCopy 0 1);
 mkEv 0 AEnv (KTargetName 1 tb);
 mkEv 0 (ACmd 2) (KLbNew 1 [1]);
 mkEv 0 (ACmd 2) (KDeployLb 1 false 1);
 mkEv 0 AEnv (KProbeSent tb false);
 mkEv S1 AEnv (KProbeSent tb true);
 mkEv S1 AEnv (KProbeApply 1 true TAdding THealthy);
 mkEv S1 AEnv (KRotation 1 [1]);
 mkEv S1 (AGo 14) (KWaiter 1 true);
 mkEv S1 (ACmd 2) (KDeployWaited 1 true);
 mkEv S1 (ACmd 2) (KSlot 1 false 1 (Some 0));
 mkEv S1 (ACmd 2) (KInstall 1 true)].
Definition jx_begin : event := mkEv S1 (AGo 15) (KDrainBegin 0 THealthy S1).
Definition jx_drain : trace := [
 mkEv S1 (AGo 15) (KDrainSnapshot 0 [(1, false)]);
 mkEv S2 (AGo 15) (KDrainDeadline 0);
 mkEv S2 (AGo 15) (KDrainCancelRest 0);
 mkEv S2 (AReq 1) (KTargetFailed 0 1 1);
 mkEv S2 (AReq 1) (KEnd 0 1);
 mkEv S2 (AReq 1) (KRespond 1 504 ta);
 mkEv S2 (AGo 15) (KStateSet 0 TDraining THealthy)].
Definition jx_finish : trace := [
 mkEv S2 (ACmd 2) (KLbDispose 0);
 mkEv S2 (ACmd 2) (KProbeStop 0)].
Definition jx_return : event := mkEv S2 (ACmd 2) (KReturn 2 CROk).
(** the events before the Drain call of ta begins *)
Definition jx_p1 : trace := jx_deploy1 ++ jx_req1 ++ jx_deploy2 ++ [mkEv S1 (AGo 15) (KStateSet 0 THealthy TDraining)].
Definition jx_pre : trace := jx_p1 ++ jx_begin :: jx_drain ++ jx_finish.
Definition jx : trace := jx_pre ++ [jx_return].

Definition jp_p1 : trace := jx_deploy1 ++ jx_req1 ++ [
 mkEv S1 (ACmd 3) (KIssue 3 CkPause na);
 mkEv S1 (ACmd 3) (KParams 3 0 S1 0);
 mkEv S1 (ACmd 3) (KGateSet 0 GPaused (Some 0));
 mkEv S1 (AGo 20) (KStateSet 0 THealthy TDraining)].
Definition jp_begin : event := mkEv S1 (AGo 20) (KDrainBegin 0 THealthy S1).
Definition jp_drain : trace := [
 mkEv S1 (AGo 20) (KDrainSnapshot 0 [(1, false)]);
 mkEv S15 (AReq 1) (KTargetReplied 0 1 200);
 mkEv S15 (AReq 1) (KEnd 0 1);
 mkEv S15 (AReq 1) (KRespond 1 200 ta);
 mkEv S15 (AGo 20) (KDrainCancelRest 0);
 mkEv S15 (AGo 20) (KStateSet 0 TDraining THealthy)].
Definition jp_return : event := mkEv S15 (ACmd 3) (KReturn 3 CROk).
Definition jp_pre : trace := jp_p1 ++ jp_begin :: jp_drain.
Definition jp : trace := jp_pre ++ [jp_return].
Local Open Scope N_scope.

Example ex_joint_accepted :
  accepted jx = true /\ M5full.accepted jx = true /\ accepted jp = true /\ M5full.accepted jp = true.
Proof. vm_compute. repeat split; reflexivity. Qed.

(** the hypotheses of [c03_deploy_return_drains_done] hold of [jx] (command 2, replaced balancer 0 = [ta]) *)
Example ex_deploy_hypotheses :
  jx = jx_pre ++ jx_return :: [] /\ run step init (jx_pre ++ jx_return :: []) <> None /\
  e_k jx_return = KReturn 2 CROk /\
  In (mkEv 0 (ACmd 2) (KParams 2 S2 S1 0)) jx_pre /\
  In (mkEv S1 (ACmd 2) (KSlot 1 false 1 (Some 0%nat))) jx_pre /\
  In (mkEv 0 (ACmd 1) (KLbNew 0 [0%nat])) jx_pre.
Proof. vm_compute. repeat split; try discriminate; auto 50. Qed.

(** the Drain call of ta in [jx] begins with command 2 as its single, certain owner
    (hypotheses of [c03_owned_drain_ended] and [c03_return_snapshots_settled]) *)
Example ex_deploy_owner :
  jx_pre = jx_p1 ++ jx_begin :: (jx_drain ++ jx_finish) /\
  exists sB, run step init jx_p1 = Some sB /\
    candidates sB 0 (e_t jx_begin) S1 = [2%nat] /\ certain sB 0 2 = true.
Proof. split; [reflexivity|]. eexists. split; [vm_compute; reflexivity|]. split; vm_compute; reflexivity. Qed.

(** ... and of the pause in [jp] (hypotheses of [c03_pause_stop_return_drains_done]) *)
Example ex_pause_owner :
  jp_pre = jp_p1 ++ jp_begin :: jp_drain /\ In (mkEv S1 (ACmd 3) (KIssue 3 CkPause na)) jp_p1 /\
  exists sB, run step init jp_p1 = Some sB /\ candidates sB 0 (e_t jp_begin) S1 = [3%nat].
Proof. split; [reflexivity|]. split; [vm_compute; auto 50|]. eexists. split; vm_compute; reflexivity. Qed.

(** the rules bite (timing view): the same traces with the return — or the dispose of the replaced
    balancer — moved BEFORE the end of the Drain call, or with no Drain call at all, are rejected,
    while the prefixes up to there are accepted.  The request-level view alone accepts them all:
    it knows nothing of commands. *)
Definition jx_snap : trace := jx_p1 ++ jx_begin :: firstn 1 jx_drain.
Definition jp_snap : trace := jp_p1 ++ jp_begin :: firstn 1 jp_drain.
Definition jx_installed : trace := jx_deploy1 ++ jx_req1 ++ jx_deploy2.

Example ex_early_return_rejected :
  accepted jx_snap = true /\
  accepted (jx_snap ++ [mkEv S1 (ACmd 2) (KReturn 2 CROk)]) = false /\
  accepted (jx_snap ++ [mkEv S1 (ACmd 2) (KLbDispose 0)]) = false /\
  M5full.accepted (jx_snap ++ [mkEv S1 (ACmd 2) (KReturn 2 CROk)]) = true /\
  M5full.accepted (jx_snap ++ [mkEv S1 (ACmd 2) (KLbDispose 0)]) = true.
Proof. vm_compute. repeat split; reflexivity. Qed.

Example ex_no_drain_rejected :
  accepted jx_installed = true /\
  accepted (jx_installed ++ [mkEv S1 (ACmd 2) (KLbDispose 0)]) = false /\
  accepted (jx_installed ++ [mkEv S1 (ACmd 2) (KReturn 2 CROk)]) = false.
Proof. vm_compute. repeat split; reflexivity. Qed.

Example ex_early_pause_return_rejected :
  accepted jp_snap = true /\
  accepted (jp_snap ++ [mkEv S1 (ACmd 3) (KReturn 3 CROk)]) = false /\
  M5full.accepted (jp_snap ++ [mkEv S1 (ACmd 3) (KReturn 3 CROk)]) = true.
Proof. vm_compute. repeat split; reflexivity. Qed.

(** the timing view checks that the state-set that ends a Drain call is a restore, not a mark.
    [jx_flip]: after "cancel the rest" a probe flips ta back to healthy (D12).  If goroutine 15 now
    marks ta draining again ([jx_remark]; not a behaviour of the real [Drain], whose only state-set
    after the mark is the deferred restore of a state that was not "draining") the timing view
    rejects the trace AT THE MARK — it used to take the mark for the end of the call and let
    command 2 return; the request-level view alone still accepts [jx_remark] with the return, the
    call's record open at the return, so it is the timing view that excludes this trace from the
    joint theorem.  The restore over the flipped state (old state healthy, not draining: D12) is
    accepted by both views, also after a park. *)
Definition jx_flip : trace := jx_p1 ++ jx_begin :: firstn 6 jx_drain ++ [
  mkEv S2 AEnv (KProbeApply 0 true TDraining THealthy)].
Definition jx_mark : event := mkEv S2 (AGo 15) (KStateSet 0 THealthy TDraining).
Definition jx_remark : trace := jx_flip ++ [jx_mark] ++ jx_finish.
Definition jx_restored : trace := jx_flip ++ [mkEv S2 (AGo 15) (KStateSet 0 THealthy THealthy)] ++ jx_finish.
Example ex_end_event_mark_rejected :
  accepted jx_flip = true /\ accepted (jx_flip ++ [jx_mark]) = false /\
  accepted (jx_remark ++ [jx_return]) = false /\ M5full.accepted (jx_remark ++ [jx_return]) = true /\
  accepted (mkEv 0 AEnv KParked :: jx_flip) = true /\ accepted (mkEv 0 AEnv KParked :: jx_flip ++ [jx_mark]) = false /\
  accepted (jx_restored ++ [jx_return]) = true /\ M5full.accepted (jx_restored ++ [jx_return]) = true /\
  accepted (mkEv 0 AEnv KParked :: jx_restored ++ [jx_return]) = true /\
  exists f1 x1 d, run M5full.step M5full.init jx_remark = Some f1 /\ nget (M5full.targets f1) 0 = Some x1 /\
    nget (M5full.t_drains x1) 15 = Some d /\ M5full.d_cancelled d = true /\ M5full.t_inflight x1 = [].
Proof.
  do 9 (split; [vm_compute; reflexivity|]).
  eexists. eexists. eexists. split; [vm_compute; reflexivity|]. repeat split; reflexivity.
Qed.

(** parked goroutines do not switch these rules off: the same with a KParked event first *)
Example ex_parked_early_return_rejected :
  accepted (mkEv 0 AEnv KParked :: jx) = true /\
  accepted (mkEv 0 AEnv KParked :: jx_snap) = true /\
  accepted (mkEv 0 AEnv KParked :: jx_snap ++ [mkEv S1 (ACmd 2) (KReturn 2 CROk)]) = false /\
  accepted (mkEv 0 AEnv KParked :: jx_installed ++ [mkEv S1 (ACmd 2) (KLbDispose 0)]) = false.
Proof. vm_compute. repeat split; reflexivity. Qed.

(** ** The limit of the ownership inference (REFUTED: "a returning command has no open Drain call
    that it MAY have started").  Two pauses (web, api) issued at the same instant with the same
    drain timeout: both are candidates of the Drain call that begins, none is its certain owner
    ([d_owners] = [(3,false); (4,false)]), and the view lets pause 3 return while the call is
    still open.  [c03_return_no_open_drain] (certain owners) is the strongest true version. *)
Definition amb_pre : trace := jx_deploy1 ++ jx_req1 ++ [
 mkEv S1 (ACmd 3) (KIssue 3 CkPause na);
 mkEv S1 (ACmd 3) (KParams 3 0 S1 0);
 mkEv S1 (ACmd 4) (KIssue 4 CkPause nb);
 mkEv S1 (ACmd 4) (KParams 4 0 S1 0);
 mkEv S1 (ACmd 3) (KGateSet 0 GPaused (Some 0%nat));
 mkEv S1 (ACmd 4) (KGateSet 1 GPaused (Some 1%nat));
 mkEv S1 (AGo 20) (KStateSet 0 THealthy TDraining);
 mkEv S1 (AGo 20) (KDrainBegin 0 THealthy S1);
 mkEv S1 (AGo 20) (KDrainSnapshot 0 [(1%nat, false)])].
Theorem c03_possible_owner_not_waited_refuted :
  exists pre eR s1 g d,
    accepted (pre ++ [eR]) = true /\ M5full.accepted (pre ++ [eR]) = true /\ e_k eR = KReturn 3 CROk /\
    run step init pre = Some s1 /\ nget (drains s1) g = Some d /\ d_t d = 0%nat /\ In (3%nat, false) (d_owners d).
Proof.
  exists amb_pre, (mkEv S1 (ACmd 3) (KReturn 3 CROk)). eexists. exists 20%nat. eexists.
  split; [vm_compute; reflexivity|]. split; [vm_compute; reflexivity|]. split; [reflexivity|].
  split; [vm_compute; reflexivity|]. split; [vm_compute; reflexivity|]. split; [reflexivity|left; reflexivity].
Qed.
Print Assumptions c03_possible_owner_not_waited_refuted.
