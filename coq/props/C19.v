(** C19 — Each request yields one access-log record that matches what happened.
    Only statements; proofs are in proofs/LoggingFacts.v. *)
From KP Require Import model.Base model.Url model.ServiceMap model.Headers model.Buffer
  model.ProxyError model.ErrorPage model.Logging proofs.BufferFacts proofs.ProxyErrorFacts
  proofs.LoggingFacts.
Local Open Scope N_scope.

(** The logged status is the one set by the LAST status-setting call
    (WriteHeader s, or a successful Hijack = 101); 200 if there was none. *)
Theorem c19_status : forall ops,
  (forall pre o post s, ops = pre ++ o :: post -> sets o = Some s ->
     Forall (fun o' => sets o' = None) post -> lw_status (lw_run ops) = s) /\
  (Forall (fun o => sets o = None) ops -> lw_status (lw_run ops) = 200).
Proof.
  intros ops. split.
  - intros pre o post s -> Ho Hp. exact (status_last_call pre o post s Ho Hp).
  - exact (status_default ops).
Qed.

(** It is the status the client is told whenever the calls are coherent: all
    non-informational status-setting calls agree, and the last one is not
    informational.  "Last wins" (as coded) is what makes 1xx responses come out
    right: [WriteHeader 103; WriteHeader 200] is logged as 200. *)
Theorem c19_status_client : forall ops,
  coherent ops = true -> lw_status (lw_run ops) = client_status ops.
Proof. exact logged_is_client_status. Qed.

(** Without coherence the two can differ: a WriteHeader after the response
    has started is logged although the client never sees it.  (In the real
    chain only an error after a successful hijack does that: ReverseProxy's
    "response write/flush" failures in handleUpgradeResponse.) *)
Theorem c19_status_refuted :
  exists ops, lw_status (lw_run ops) <> client_status ops /\
              ops = [OpHijack true; OpWriteHeader 502].
Proof. exists [OpHijack true; OpWriteHeader 502]. split; [vm_compute; discriminate|reflexivity]. Qed.

(** The logged length is the sum of what the underlying writer accepted. *)
Theorem c19_bytes : forall ops,
  lw_bytes (lw_run ops) = sumN (map accepted_of ops).
Proof. exact lw_run_bytes. Qed.

(** Exactly one record per run of the middleware, however the handler below
    ends (return or panic: the log call is deferred), and it is the record of
    this request, this context and the writer's final state. *)
Theorem c19_exactly_one : forall hp hsp q h,
  length (logging_mw hp hsp q h) = 1%nat /\
  logging_mw hp hsp q h = [make_record hp hsp q (hr_ctx h) (lw_run (hr_ops h)) (hr_resp_headers h)].
Proof. intros. split; [apply logging_mw_one|apply logging_mw_record]. Qed.

(** The fields: host, path, query, method, request id, protocol and length are
    the request's as the handler chain saw it; status and length the writer's;
    service and target whatever was entered into the context; port and scheme
    follow TLS. *)
Theorem c19_fields : forall hp hsp q c w rh,
  let r := make_record hp hsp q c w rh in
  r_host r = rq_host q /\ r_path r = rq_path q /\ r_query r = rq_query q /\ r_method r = rq_method q /\
  r_request_id r = hget K_rid (rq_headers q) /\
  r_status r = lw_status w /\ r_resp_content_length r = lw_bytes w /\
  r_service r = lc_service c /\ r_target r = lc_target c /\
  r_port r = (if rq_tls q then hsp else hp) /\
  r_scheme r = (if rq_tls q then bs "https" else bs "http") /\
  r_proto r = rq_proto q /\ r_req_content_length r = rq_content_length q /\
  r_extra r = custom_attrs (lc_req_headers c) (rq_headers q) (bs "req") ++
              custom_attrs (lc_resp_headers c) rh (bs "resp").
Proof. exact make_record_fields. Qed.

(** For every way a request can end in the chain: the context holds the
    service routed to ("" without a route) and the target claimed ("" if none
    was), the configured header lists are the claimed target's, canonicalised. *)
Theorem c19_service_target : forall svc c rl e,
  let '(ctx, _, _) := chain svc c rl e in
  lc_service ctx = used_service svc e /\ lc_target ctx = used_target e.
Proof. exact chain_ctx. Qed.

Theorem c19_header_lists : forall svc c rl t e,
  (e = EReqTooLarge t \/ e = EReqReadError t \/ e = EUpgraded t \/ (exists b, e = EProxied t b) \/
   (exists s body, e = EProxiedHints t s body)) ->
  let '(ctx, _, _) := chain svc c rl e in
  lc_req_headers ctx = canonicalize_names (ti_log_req t) /\
  lc_resp_headers ctx = canonicalize_names (ti_log_resp t).
Proof. exact chain_header_lists. Qed.

(** ... and the logged status is the ending's status — 404, 301, 503, 504,
    the target's, the classification of its failure (499 for a client abort),
    413 / 500 from the buffers, 101 for an upgrade — which is also what the
    client is told, except when the handler is aborted after the target's
    header block (then the client gets no complete response; the record shows
    the target's status, or the default 200 if the response was being
    buffered and nothing had been passed on). *)
Theorem c19_chain_status : forall svc c rl e,
  (forall t s body, e = EProxied t (TBRespond s body) -> final_status s) ->
  (forall t s sent f, e = EProxied t (TBFailAfter s sent f) -> final_status s) ->
  (forall t s body, e = EProxiedHints t s body -> final_status s) ->
  let '(_, ops, _) := chain svc c rl e in
  lw_status (lw_run ops) = ending_status c e /\
  ((forall t s sent f, e <> EProxied t (TBFailAfter s sent f)) -> client_status ops = ending_status c e).
Proof. exact chain_status. Qed.

(** This includes responses preceded by 103 Early Hints under response
    buffering only since repair 59cbdb7.  On the PINNED buffered writer (first
    WriteHeader taken as final) it was false: the record said 103 and the
    client was told an implicit 200, whatever the target's final status. *)
Theorem c19_chain_status_pinned_refuted : forall maxm s body,
  body <> [] ->
  let ops := hints_ops_pinned maxm 0 s body in
  lw_status (lw_run ops) = 103 /\ client_status ops = 200.
Proof.
  intros maxm s body Hne. apply buffered_hints_pinned; [|exact Hne].
  unfold body_too_large. reflexivity.
Qed.

(** The chain ends in a panic exactly for a failure after the header block;
    the record is still written (c19_exactly_one). *)
Theorem c19_panic_iff : forall svc c rl e,
  let '(_, _, en) := chain svc c rl e in
  en = HPanic <-> exists t s sent f, e = EProxied t (TBFailAfter s sent f).
Proof. exact chain_panic_iff. Qed.

(** Configured headers: one attribute per configured name, in order, named
    prefix_lower_with_underscores, valued with the values joined by ","; and a
    header received under any spelling is found under the canonicalised
    configured name. *)
Theorem c19_extra_headers : forall names h p,
  length (custom_attrs names h p) = length names /\
  (forall i n, nth_error names i = Some n ->
     nth_error (custom_attrs names h p) i = Some (attr_name p n, join (bs ",") (hvalues n h))) /\
  (forall raw name,
     hvalues (canonical_key name) (map (fun kv => (canonical_key (fst kv), snd kv)) raw) =
     map snd (filter (fun kv => str_eqb (canonical_key (fst kv)) (canonical_key name)) raw)).
Proof.
  intros names h p. split; [apply custom_attrs_length|]. split.
  - intros i n H. exact (custom_attrs_nth names h p i n H).
  - intros raw name. exact (hvalues_canonical_received raw name).
Qed.

(** Non-vacuity. *)
Example c19_example_1xx :
  lw_status (lw_run [OpWriteHeader 103; OpWriteHeader 200; OpWrite 5 5]) = 200 /\
  client_status [OpWriteHeader 103; OpWriteHeader 200; OpWrite 5 5] = 200 /\
  coherent [OpWriteHeader 103; OpWriteHeader 200; OpWrite 5 5] = true.
Proof. vm_compute. repeat split. Qed.

Example c19_example_partial_write :
  lw_bytes (lw_run [OpWriteHeader 200; OpWrite 10 10; OpWrite 10 4; OpFlush]) = 14.
Proof. reflexivity. Qed.

Example c19_example_attr :
  custom_attrs (canonicalize_names [bs "x-CUSTOM-hdr"; bs "Set-Cookie"])
               [(bs "X-Custom-Hdr", bs "a"); (bs "Set-Cookie", bs "k=1"); (bs "X-Custom-Hdr", bs "b")] (bs "resp")
  = [(bs "resp_x_custom_hdr", bs "a,b"); (bs "resp_set_cookie", bs "k=1")].
Proof. vm_compute. reflexivity. Qed.

Example c19_example_chain :
  let t := mkTi (bs "10.0.0.1:80") [] [] in
  let c := mkCfg true 1048576 10 None [(504, bs "B504")] in
  let '(ctx, ops, en) := chain (bs "web") c 0 (EProxied t (TBFailBefore FHeaderTimeout)) in
  lc_service ctx = bs "web" /\ lc_target ctx = bs "10.0.0.1:80" /\ lw_status (lw_run ops) = 504 /\
  lw_bytes (lw_run ops) = 4 /\ en = HReturn.
Proof. vm_compute. repeat split. Qed.

Example c19_example_buffered_hints_repaired :
  let t := mkTi (bs "10.0.0.1:80") [] [] in
  let c := mkCfg true 1048576 0 None [] in
  let '(_, ops, _) := chain (bs "web") c 0 (EProxiedHints t 404 (bs "nf")) in
  ops = [OpWriteHeader 103; OpWriteHeader 404; OpWrite 2 2] /\ lw_status (lw_run ops) = 404 /\
  hints_ops_pinned 1048576 0 404 (bs "nf") = [OpWriteHeader 103; OpWrite 2 2].
Proof. vm_compute. repeat split. Qed.

Print Assumptions c19_status.
Print Assumptions c19_status_client.
Print Assumptions c19_status_refuted.
Print Assumptions c19_bytes.
Print Assumptions c19_exactly_one.
Print Assumptions c19_fields.
Print Assumptions c19_service_target.
Print Assumptions c19_header_lists.
Print Assumptions c19_chain_status.
Print Assumptions c19_chain_status_pinned_refuted.
Print Assumptions c19_panic_iff.
Print Assumptions c19_extra_headers.
