(** C13 — Requests and responses pass through unaltered.
    Statements over ALL byte strings / header sets; proofs are in
    proofs/UrlFacts.v.  The model is the repaired tree (fixes/C13-strip-rawpath.patch);
    the pinned behaviour is [forward_target_pinned]. *)
From KP Require Import model.Base model.Url model.Headers proofs.UrlFacts.
Local Open Scope N_scope.

(** net/url round-trip law: a raw path the server accepts and that consists of
    characters valid in an encoded path ([valid_encoded], Go's validEncoded:
    unreserved, sub-delims, ":" "@" "/" "[" "]" and "%") is what EscapedPath
    gives back after setPath. *)
Theorem c13_path_roundtrip : forall p,
  path_accepted p = true -> valid_encoded p = true ->
  exists d raw, set_path p = Some (d, raw) /\ escaped_path_of d raw = p.
Proof.
  intros p Ha Hv. unfold path_accepted in Ha.
  apply andb_true_iff in Ha as [Ha Hu]. apply andb_true_iff in Ha as [Ha _].
  apply andb_true_iff in Ha as [_ Hs].
  unfold set_path. destruct (unescape p) as [d|] eqn:E; [|discriminate].
  eexists _, _. split; [reflexivity|]. eapply path_roundtrip; eauto. unfold set_path. now rewrite E.
Qed.

(** For every path the parser accepts, valid characters or not, the decoded
    path is preserved. *)
Theorem c13_decoded_path_kept : forall p d raw,
  set_path p = Some (d, raw) -> unescape (escaped_path_of d raw) = Some d.
Proof. exact escaped_path_decodes. Qed.

(** Without stripping the request target sent to the target server is the
    request target received, byte for byte (path and query). *)
Theorem c13_no_strip_identity : forall t u,
  parse_request_target t = PAccept u -> has_prefix t [slash] = true ->
  valid_encoded (raw_path_of t) = true ->
  forward_target None u = t.
Proof. intros t u H1 H2 H3. exact (forward_no_strip_identity t u H1 H2 true H3). Qed.

(** With stripping, when the client spelled the prefix literally (the raw path
    is the prefix or continues with "/" after it) the target receives the rest
    of the raw path byte for byte — "/" when nothing is left — and the query. *)
Theorem c13_strip : forall t u pre,
  parse_request_target t = PAccept u -> has_prefix t [slash] = true ->
  valid_encoded (raw_path_of t) = true ->
  mem_byte pct pre = false -> literal_prefix (raw_path_of t) pre = true ->
  forward_target (Some pre) u =
    (let r := skipn (length pre) (raw_path_of t) in if is_empty r then [slash] else r)
    ++ query_suffix_of t.
Proof. intros t u pre H1 H2 H3 H4 H5. exact (forward_strip_literal t u H1 H2 pre H3 H4 H5). Qed.

(** Such a request is indeed routed to that prefix (the router matches on the decoded path). *)
Theorem c13_literal_prefix_matches : forall t u pre,
  parse_request_target t = PAccept u -> has_prefix t [slash] = true ->
  mem_byte pct pre = false -> literal_prefix (raw_path_of t) pre = true ->
  prefix_matches (u_path u) pre = true.
Proof. intros t u pre H1 H2 H3 H4. exact (literal_prefix_routes t u H1 H2 pre H3 H4). Qed.

(** The query string is passed verbatim: any bytes, stripping or not, pinned
    or repaired tree. *)
Theorem c13_query_verbatim : forall t u repaired matched,
  parse_request_target t = PAccept u -> has_prefix t [slash] = true ->
  query_suffix_of (forward_target_gen repaired matched u) = query_suffix_of t.
Proof. intros t u r m H1 H2. exact (forward_query_verbatim t u H1 H2 r m). Qed.

(** X-Forwarded-For / -Proto / -Host as a function of the client address, TLS,
    Host, the client-supplied values and the forward_headers option. *)
Theorem c13_xff_policy : forall e fwd method host raw,
  let h := target_headers e fwd method host raw in
  let sent := server_headers raw in
  hvalues K_xff h = [join comma_space ((if fwd then hvalues K_xff sent else []) ++ [e_client_ip e])] /\
  hvalues K_xfp h = [if fwd && negb (is_empty (hget K_xfp sent)) then hget K_xfp sent else proto_of (e_tls e)] /\
  hvalues K_xfh h = [if fwd && negb (is_empty (hget K_xfh sent)) then hget K_xfh sent else host] /\
  hvalues K_forwarded h = [].
Proof. exact target_xff_policy. Qed.

(** X-Request-Id / X-Request-Start: the client's when its first value is
    non-empty, else a fresh one; and they reach the target unless the client
    named them in Connection. *)
Theorem c13_request_id : forall e fwd method host raw,
  let sent := server_headers raw in
  let mid := after_middleware e raw in
  let h := target_headers e fwd method host raw in
  hvalues K_rid mid = (if is_empty (hget K_rid sent) then [e_fresh_id e] else hvalues K_rid sent) /\
  hvalues K_rstart mid = (if is_empty (hget K_rstart sent) then [e_fresh_start e] else hvalues K_rstart sent) /\
  (mem_str K_rid (connection_listed mid) = false -> hvalues K_rid h = hvalues K_rid mid) /\
  (mem_str K_rstart (connection_listed mid) = false -> hvalues K_rstart h = hvalues K_rstart mid).
Proof.
  intros e fwd method host raw. cbv zeta.
  destruct (middleware_ids e raw) as [H1 H2]. repeat split; auto.
  - intro H. now apply target_header_kept.
  - intro H. now apply target_header_kept.
Qed.

(** Every other end-to-end header reaches the target with the same values in
    the same order. *)
Theorem c13_headers_kept : forall e fwd method host raw k,
  mem_str k reserved_request_keys = false ->
  mem_str k [K_rid; K_rstart; K_host; K_cache_control] = false ->
  mem_str k (connection_listed (after_middleware e raw)) = false ->
  hvalues k (target_headers e fwd method host raw) = hvalues k (resp_canonical raw).
Proof.
  intros e fwd method host raw k H1 H2 H3. rewrite target_header_kept by auto.
  cbn [mem_str] in H2. rewrite orb_false_r in H2.
  apply orb_false_iff in H2 as [A H2]. apply orb_false_iff in H2 as [B H2]. apply orb_false_iff in H2 as [C D].
  unfold after_middleware. rewrite !mw_default_other by auto.
  unfold server_headers, fix_pragma, resp_canonical.
  set (h0 := map (fun kv => (canonical_key (fst kv), snd kv)) raw).
  destruct (hvalues K_pragma (hdel K_host h0)) as [|v l].
  - now apply hvalues_hdel_other.
  - destruct (str_eqb v (bs "no-cache") && negb (hhas K_cache_control (hdel K_host h0))).
    + rewrite hvalues_app, hvalues_single_other by auto. rewrite app_nil_r. now apply hvalues_hdel_other.
    + now apply hvalues_hdel_other.
Qed.

(** Response headers that are neither hop-by-hop nor framing are returned
    with the same values in the same order (Content-Type is dropped on a 304 by
    net/http's server: known finding C13-F6). *)
Theorem c13_response_headers_kept : forall status (gz nonempty : bool) raw k,
  mem_str k (K_cl :: K_ce :: hop_headers) = false ->
  (status =? 304) && str_eqb k K_ct = false ->
  mem_str k (connection_listed (if gz then hdel K_ce (resp_canonical raw) else resp_canonical raw)) = false ->
  hvalues k (fst (fst (client_headers status gz nonempty raw))) = hvalues k (resp_canonical raw).
Proof. exact client_header_kept. Qed.

(** The pinned tree violates [c13_strip] (fixed by fixes/C13-strip-rawpath.patch):
    "/app/a%2Fb" on prefix "/app" is sent on as "/a/b". *)
Theorem c13_refuted_pinned_strip :
  exists t u pre,
    parse_request_target t = PAccept u /\ valid_encoded (raw_path_of t) = true /\
    literal_prefix (raw_path_of t) pre = true /\
    forward_target_pinned (Some pre) u <> skipn (length pre) t /\
    forward_target (Some pre) u = skipn (length pre) t.
Proof. exact pinned_strip_refuted. Qed.

(** Known finding C13-F1: without [valid_encoded] the identity fails
    (a path with a raw double quote, /app/a[0x22]b%2F, is sent on as /app/a%22b/). *)
Theorem c13_refuted_invalid_pchar :
  exists t u,
    parse_request_target t = PAccept u /\ path_accepted (raw_path_of t) = true /\
    valid_encoded (raw_path_of t) = false /\ forward_target None u <> t.
Proof. exact invalid_pchar_refuted. Qed.

(** Known finding C13-F5: a request id set by the middleware does not reach
    the target when the client lists the header in Connection. *)
Theorem c13_refuted_request_id_droppable :
  exists e fwd method host raw,
    hvalues K_rid (after_middleware e raw) <> [] /\
    hvalues K_rid (target_headers e fwd method host raw) = [].
Proof. exact request_id_droppable. Qed.

(** Non-vacuity. *)
Example c13_example_strip :
  let t := bs "/app/a%2Fb;v=1/%C3%A9//?q=a;b&%zz" in
  match parse_request_target t with
  | PAccept u =>
    valid_encoded (raw_path_of t) = true /\ literal_prefix (raw_path_of t) (bs "/app") = true /\
    forward_target (Some (bs "/app")) u = bs "/a%2Fb;v=1/%C3%A9//?q=a;b&%zz" /\
    forward_target None u = t
  | _ => False
  end.
Proof. vm_compute. repeat split. Qed.

Example c13_example_accept :
  path_accepted (bs "/a%2Fb") = true /\ path_accepted (bs "/a%2") = false /\
  path_accepted (bs "a") = false /\ valid_encoded (bs "/a|b") = false /\ path_accepted (bs "/a|b") = true.
Proof. vm_compute. repeat split. Qed.

Example c13_example_xff :
  let e := mkEnv (bs "10.0.0.9") true (bs "id") (bs "1") in
  let raw := [(bs "x-forwarded-for", bs "1.1.1.1"); (bs "X-Forwarded-For", bs "2.2.2.2");
              (bs "x-forwarded-proto", bs "http"); (bs "Forwarded", bs "for=3.3.3.3")] in
  hvalues K_xff (target_headers e true (bs "GET") (bs "h.test") raw) = [bs "1.1.1.1, 2.2.2.2, 10.0.0.9"] /\
  hvalues K_xff (target_headers e false (bs "GET") (bs "h.test") raw) = [bs "10.0.0.9"] /\
  hvalues K_xfp (target_headers e true (bs "GET") (bs "h.test") raw) = [bs "http"] /\
  hvalues K_xfp (target_headers e false (bs "GET") (bs "h.test") raw) = [bs "https"] /\
  hvalues K_rid (target_headers e false (bs "GET") (bs "h.test") raw) = [bs "id"].
Proof. vm_compute. repeat split. Qed.

Print Assumptions c13_path_roundtrip.
Print Assumptions c13_decoded_path_kept.
Print Assumptions c13_no_strip_identity.
Print Assumptions c13_strip.
Print Assumptions c13_literal_prefix_matches.
Print Assumptions c13_query_verbatim.
Print Assumptions c13_xff_policy.
Print Assumptions c13_request_id.
Print Assumptions c13_headers_kept.
Print Assumptions c13_response_headers_kept.
Print Assumptions c13_refuted_pinned_strip.
Print Assumptions c13_refuted_invalid_pchar.
Print Assumptions c13_refuted_request_id_droppable.
