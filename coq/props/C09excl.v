(** C09excl — "a target whose latest probe failed receives no new requests until a later probe succeeds":
    the acceptors imply the exclusion monitor and the hand-off monitor of corr/C09rot.v.

    (1) [c09_excl_ok]: a probe goroutine that applied a FAILING result while its target was in the rotation rebuilt
        last for the target's balancer rebuilds a rotation without the target before it applies its next result.
        model/M5lb.v asks for a rebuild only after a result that CHANGED the target's state; since the rule of
        KProbeApply pins the reported previous state to the state the model holds (the Go code reads it inside the
        lock region that writes the new state), the two agree on every accepted trace that satisfies the side
        condition [c09_excl_side] (corr/C09excl.v): no direct state write leaves a target unhealthy/adding in the
        rotation rebuilt last with nobody owing its exclusion (w1), none makes a target healthy while its exclusion
        is owed (w2, the recorded finding D12), one goroutine applies the probe results of a target (w3) and rebuilds
        the rotation of the target's own balancer (w4).  Each clause is needed: (3) below.
    (2) [c09_handoff_ok]: a request for which the balancer picked a target is claimed or refused as draining
        before it is answered — implied by model/M5full.v without side condition.

    Every theorem is about EVERY accepted trace; that the real code only produces accepted traces is the
    correspondence obligation of tools/c09.py. *)
From KP Require Import model.Base model.Trace model.M5lb corr.C09corr corr.C09rot corr.C09excl proofs.C09exclLink.
From KP Require model.M5full proofs.C09handLink proofs.M5fullExamples.
From KP Require props.C09 props.C01restore.
Local Open Scope nat_scope.

(** (1) The load-balancer acceptor implies the exclusion monitor, under the side condition. *)
Theorem c09_accepted_excl : forall tr,
  M5lb.accepted tr = true -> c09_excl_side tr = true -> c09_excl_ok tr = true.
Proof. exact accepted_c09_excl_ok. Qed.
Print Assumptions c09_accepted_excl.

(** (2) The request life-cycle acceptor implies the hand-off monitor. *)
Theorem c09_full_accepted_handoff : forall tr, M5full.accepted tr = true -> c09_handoff_ok tr = true.
Proof. exact C09handLink.full_accepted_handoff. Qed.
Print Assumptions c09_full_accepted_handoff.

(** Pinning the previous state only removes behaviours: what model/M5lb.v accepts, the acceptor with the former rule
    of KProbeApply ([step_loose], proofs/C09exclLink.v) accepts. *)
Theorem c09_tight_accepted_loose : forall tr, M5lb.accepted tr = true -> accepted_loose tr = true.
Proof. exact accepted_tight_loose. Qed.
Print Assumptions c09_tight_accepted_loose.

(** ** Non-vacuity: the recorded traces of props/C09.v (deploy, probes failing and recovering, drains) and of
    props/C01restore.v (restart) *)
Definition failing_results (tr : trace) : nat :=
  length (filter (fun e => match e_k e with KProbeApply _ false _ _ => true | _ => false end) tr).
(** failing results that took a healthy target out (the goroutine owes the rebuild) *)
Definition excluding_results (tr : trace) : nat :=
  length (filter (fun e => match e_k e with KProbeApply _ false THealthy TUnhealthy => true | _ => false end) tr).

Example real_trace_excl :
  M5lb.accepted C09.real_trace = true /\ c09_excl_side C09.real_trace = true /\ c09_excl_ok C09.real_trace = true /\
  failing_results C09.real_trace = 9 /\ excluding_results C09.real_trace = 5.
Proof. repeat split; vm_compute; reflexivity. Qed.

(** the trace holds direct writes of "unhealthy" (the end of a Drain of an unhealthy target outside the rotation):
    the side condition does not simply forbid them *)
Example real_trace_writes_unhealthy :
  existsb (fun e => match e_k e with KStateSet 2 TDraining TUnhealthy => true | _ => false end) C09.real_trace = true.
Proof. vm_compute; reflexivity. Qed.

Example d12_trace_excl :
  M5lb.accepted C09.d12_trace = true /\ c09_excl_side C09.d12_trace = true /\ c09_excl_ok C09.d12_trace = true /\
  excluding_results C09.d12_trace = 3.
Proof. repeat split; vm_compute; reflexivity. Qed.

Example restart_trace_excl :
  M5lb.accepted C01restore.restart_trace = true /\ c09_excl_side C01restore.restart_trace = true /\
  c09_excl_ok C01restore.restart_trace = true /\ excluding_results C01restore.restart_trace = 1.
Proof. repeat split; vm_compute; reflexivity. Qed.

(** ** Refutation witness: a target marked unhealthy outside the health check

    A code change that marks a target unhealthy without the probe goroutine's doing (no event): the goroutine's next
    failing result reports the previous state "unhealthy" for a target the model holds as healthy, sees no change and
    rebuilds nothing — the target stays in the rotation.  The former rule of KProbeApply accepted this; the pinned one
    rejects it at that event, and so does the exclusion monitor at the goroutine's next result. *)
Definition marked_elsewhere : trace := [
  mkEv 0 (ACmd 1) (KLbNew 0 [0]);
  mkEv 0 (AGo 1) (KProbeApply 0 true TAdding THealthy);
  mkEv 0 (AGo 1) (KRotation 0 [0]);
  mkEv 1000000000 (AGo 1) (KProbeApply 0 false TUnhealthy TUnhealthy);
  mkEv 2000000000 (AGo 1) (KProbeApply 0 false TUnhealthy TUnhealthy)].

Example marked_elsewhere_refuted :
  accepted_loose marked_elsewhere = true /\
  M5lb.accepted marked_elsewhere = false /\ reject_at marked_elsewhere = Some 3 /\
  c09_excl_side marked_elsewhere = true /\
  c09_excl_ok marked_elsewhere = false /\ c09_excl_fail_at marked_elsewhere = Some 4 /\
  (* what the former acceptor implied does not see it *)
  c09_ok marked_elsewhere = true /\ c09_rebuild_ok marked_elsewhere = true /\ c09_rot_ok marked_elsewhere = true.
Proof. repeat split; vm_compute; reflexivity. Qed.

(** ** (3) The side condition is needed: accepted traces on which the exclusion monitor fails, one per clause *)

(** w1: the end of a Drain writes "unhealthy" back over a state that a successful probe made healthy meanwhile; the
    target sits in the rotation, not healthy, and failing results change nothing any more *)
Definition w1_trace : trace := [
  mkEv 0 (ACmd 1) (KLbNew 0 [0]);
  mkEv 0 (AGo 1) (KProbeApply 0 true TAdding THealthy);
  mkEv 0 (AGo 1) (KRotation 0 [0]);
  mkEv 1 (AGo 1) (KProbeApply 0 false THealthy TUnhealthy);
  mkEv 1 (AGo 1) (KRotation 0 []);
  mkEv 2 (AGo 2) (KStateSet 0 TUnhealthy TDraining);
  mkEv 3 (AGo 1) (KProbeApply 0 true TDraining THealthy);
  mkEv 3 (AGo 1) (KRotation 0 [0]);
  mkEv 4 (AGo 2) (KStateSet 0 THealthy TUnhealthy);
  mkEv 5 (AGo 1) (KProbeApply 0 false TUnhealthy TUnhealthy);
  mkEv 6 (AGo 1) (KProbeApply 0 false TUnhealthy TUnhealthy)].

(** w2 (D12): the end of a Drain writes "healthy" back over a failed probe result; the owed rebuild holds the target *)
Definition w2_trace : trace := [
  mkEv 0 (ACmd 1) (KLbNew 0 [0]);
  mkEv 0 (AGo 1) (KProbeApply 0 true TAdding THealthy);
  mkEv 0 (AGo 1) (KRotation 0 [0]);
  mkEv 1 (AGo 2) (KStateSet 0 THealthy TDraining);
  mkEv 2 (AGo 1) (KProbeApply 0 true TDraining THealthy);
  mkEv 2 (AGo 1) (KRotation 0 [0]);
  mkEv 3 (AGo 1) (KProbeApply 0 false THealthy TUnhealthy);
  mkEv 4 (AGo 2) (KStateSet 0 TUnhealthy THealthy);
  mkEv 5 (AGo 1) (KRotation 0 [0])].

(** w3: a second goroutine applies a successful result for the target before the first has rebuilt *)
Definition w3_trace : trace := [
  mkEv 0 (ACmd 1) (KLbNew 0 [0]);
  mkEv 0 (AGo 1) (KProbeApply 0 true TAdding THealthy);
  mkEv 0 (AGo 1) (KRotation 0 [0]);
  mkEv 1 (AGo 1) (KProbeApply 0 false THealthy TUnhealthy);
  mkEv 2 (AGo 2) (KProbeApply 0 true TUnhealthy THealthy);
  mkEv 2 (AGo 2) (KRotation 0 [0]);
  mkEv 3 (AGo 1) (KRotation 0 [0])].

(** w4: the goroutine pays its debt by rebuilding another balancer's rotation *)
Definition w4_trace : trace := [
  mkEv 0 (ACmd 1) (KLbNew 0 [0]);
  mkEv 0 (ACmd 2) (KLbNew 1 [1]);
  mkEv 0 (AGo 1) (KProbeApply 0 true TAdding THealthy);
  mkEv 0 (AGo 1) (KRotation 0 [0]);
  mkEv 1 (AGo 1) (KProbeApply 0 false THealthy TUnhealthy);
  mkEv 1 (AGo 1) (KRotation 1 []);
  mkEv 2 (AGo 1) (KProbeApply 0 false TUnhealthy TUnhealthy);
  mkEv 3 (AGo 1) (KProbeApply 0 false TUnhealthy TUnhealthy)].

Example side_condition_needed :
  (M5lb.accepted w1_trace = true /\ c09_excl_ok w1_trace = false /\ c09_excl_side_at w1_trace = Some 8) /\
  (M5lb.accepted w2_trace = true /\ c09_excl_ok w2_trace = false /\ c09_excl_side_at w2_trace = Some 7) /\
  (M5lb.accepted w3_trace = true /\ c09_excl_ok w3_trace = false /\ c09_excl_side_at w3_trace = Some 4) /\
  (M5lb.accepted w4_trace = true /\ c09_excl_ok w4_trace = false /\ c09_excl_side_at w4_trace = Some 5).
Proof. repeat split; vm_compute; reflexivity. Qed.

(** ** Non-vacuity of (2): the hand-written race of proofs/M5fullExamples.v (request 0 claimed and served, request 1
    picked before the swap and refused by the draining target: 503), and the same without the refusal *)
Definition ex_race_no_refusal : trace :=
  filter (fun e => match e_k e with KClaimRefused _ _ => false | _ => true end) M5fullExamples.ex_race.

Example ex_race_handoff :
  M5full.accepted M5fullExamples.ex_race = true /\ c09_handoff_ok M5fullExamples.ex_race = true /\
  existsb (fun e => match e_k e with KClaimRefused 0 1 => true | _ => false end) M5fullExamples.ex_race = true /\
  M5full.accepted ex_race_no_refusal = false /\ c09_handoff_ok ex_race_no_refusal = false.
Proof. repeat split; vm_compute; reflexivity. Qed.
