(** C02 — No request fails while a service is redeployed.

    Theorems about ALL traces accepted by the acceptor model/M5full.v (which
    accepts the event traces recorded from the real code).  [pre ++ e :: post]
    is an accepted trace split at the event [e] under discussion; [req_path r pre]
    is the list of the events of request r before it.  The property itself is
    REFUTED on the faithful model by the known race D2/D3 ([c02_refuted_race]);
    what holds is the classification of every response by the request's path, the
    "clean balancer" invariant and the absence of proxy errors outside the race.
    Proofs: proofs/M5fullPath.v, M5fullLb.v, M5fullClean.v, M5fullC02.v. *)
From KP Require Import model.Base model.Trace model.M5full
  proofs.M5fullFacts proofs.M5fullGuards proofs.M5fullInv proofs.M5fullDrain proofs.M5fullPath
  proofs.M5fullLb proofs.M5fullClean proofs.M5fullC02 proofs.M5fullExamples.
Local Open Scope nat_scope.

(** ** The origin of every response: a complete classification by the request's path.
    no_service: [arrive; routed None] — before_gate: [arrive; routed (Some sv)]
    (TLS refusal / health-check shortcut, decided before the pause gate) —
    gate_said a: ... ++ [gate-result a] — rotation_empty: ... picked lb; lb-claim lb None —
    claim_refused: ... lb-claim lb (Some t); claim-refused t —
    target_replied t st: ... claim t; at-target t; target-replied t st; end t —
    target_failed t why: ... target-failed t why; end t (why: 0 transport fault,
    1 cancelled by a drain, other: client went away). *)
Theorem c02_response_origin : forall pre e post s r status sb,
  run step init (pre ++ e :: post) = Some s -> e_k e = KRespond r status sb ->
  let ks := req_path r pre in
  (no_service r ks /\ status = 404%N) \/
  (before_gate r ks /\ (status = 200%N \/ status = 301%N \/ status = 503%N) /\ sb = []) \/
  (gate_said r ks AStopped /\ status = 503%N) \/
  (gate_said r ks ATimedOut /\ status = 504%N) \/
  (rotation_empty r ks /\ status = 503%N) \/
  (claim_refused r ks /\ status = 503%N) \/
  (exists t, target_replied r ks t status /\ (sb = [] -> status <> 200%N)) \/
  (exists t why, target_failed r ks t why /\ (sb = [] -> status <> 200%N) /\
     ((why = 0%N /\ status = 502%N) \/ (why = 1%N /\ status = 504%N) \/
      (why <> 0%N /\ why <> 1%N /\ status = 499%N))).
Proof. exact response_cases. Qed.
Print Assumptions c02_response_origin.

(** a non-empty served-by is the name of the target the request was claimed on *)
Theorem c02_served_by : forall pre e post s r status sb t,
  run step init (pre ++ e :: post) = Some s -> e_k e = KRespond r status sb ->
  In (KClaim t r) (req_path r pre) -> sb <> [] ->
  exists s1, run step init pre = Some s1 /\ nget (tgt_names s1) t = Some sb.
Proof. exact response_served_by. Qed.
Print Assumptions c02_served_by.

(** 404 only if routed to no service (or the target itself replied 404) *)
Theorem c02_origin_404 : forall pre e post s r sb,
  run step init (pre ++ e :: post) = Some s -> e_k e = KRespond r 404%N sb ->
  no_service r (req_path r pre) \/ exists t, target_replied r (req_path r pre) t 404%N.
Proof. exact origin_404. Qed.
Print Assumptions c02_origin_404.

(** 503 only if answered before the gate, or the gate said stopped, or the rotation
    was empty, or the claim was refused (target draining), or the target replied 503 *)
Theorem c02_origin_503 : forall pre e post s r sb,
  run step init (pre ++ e :: post) = Some s -> e_k e = KRespond r 503%N sb ->
  before_gate r (req_path r pre) \/ gate_said r (req_path r pre) AStopped \/
  rotation_empty r (req_path r pre) \/ claim_refused r (req_path r pre) \/
  exists t, target_replied r (req_path r pre) t 503%N.
Proof. exact origin_503. Qed.
Print Assumptions c02_origin_503.

(** 504 only if the gate timed out, or a drain cancelled the request, or the target replied 504 *)
Theorem c02_origin_504 : forall pre e post s r sb,
  run step init (pre ++ e :: post) = Some s -> e_k e = KRespond r 504%N sb ->
  gate_said r (req_path r pre) ATimedOut \/ (exists t, target_failed r (req_path r pre) t 1%N) \/
  exists t, target_replied r (req_path r pre) t 504%N.
Proof. exact origin_504. Qed.
Print Assumptions c02_origin_504.

(** 502 only after a transport fault, or the target replied 502 *)
Theorem c02_origin_502 : forall pre e post s r sb,
  run step init (pre ++ e :: post) = Some s -> e_k e = KRespond r 502%N sb ->
  (exists t, target_failed r (req_path r pre) t 0%N) \/ exists t, target_replied r (req_path r pre) t 502%N.
Proof. exact origin_502. Qed.
Print Assumptions c02_origin_502.

(** ** The clean-balancer invariant.
    [lb_clean tr s lb l]: l is the record of lb in s, waited for, not tainted, and no
    state-set event of tr touched one of its targets ([unmarked]).  The extra
    hypothesis is needed: the mark of a Drain (KStateSet t _ TDraining) and the
    taint (at KDrainBegin) are two events, and the acceptor lets a goroutine
    without an open drain set any state ([lb_clean_inv_refuted]). *)
Theorem lb_clean_inv_partial : forall tr s lb l,
  run step init tr = Some s -> lb_clean tr s lb l ->
  l_rot l = l_targets l /\
  forall t, In t (l_targets l) ->
    exists x, nget (targets s) t = Some x /\ t_state x = THealthy /\ t_drains x = [] /\ t_ever_drained x = false.
Proof. exact lb_clean_inv_partial_lem. Qed.
Print Assumptions lb_clean_inv_partial.

Theorem lb_clean_inv_refuted :
  exists tr s lb l t x, run step init tr = Some s /\ nget (lbs s) lb = Some l /\
    l_waited l = true /\ l_tainted l = false /\ In t (l_targets l) /\
    nget (targets s) t = Some x /\ t_state x = TDraining.
Proof.
  exists ex_marked. eexists. exists 0. eexists. exists 0. eexists.
  split; [vm_compute; reflexivity|]. split; [reflexivity|]. split; [reflexivity|]. split; [reflexivity|].
  split; [now left|]. split; reflexivity.
Qed.
Print Assumptions lb_clean_inv_refuted.

(** ** Slots and picks: only waited balancers are installed in a slot; a request
    picks only a current slot of its service object, hence a waited balancer. *)
Theorem c02_slot_requires_wait : forall pre e post s,
  run step init (pre ++ e :: post) = Some s ->
  exists s1, run step init pre = Some s1 /\
  (forall sv ro lb rep, e_k e = KSlot sv ro lb rep ->
     exists l, nget (lbs s1) lb = Some l /\ l_waited l = true) /\
  (forall r sv olb, e_k e = KPick r sv olb ->
     exists lb x l, olb = Some lb /\ nget (svcs s1) sv = Some x /\ is_slot x lb = true /\
                    nget (lbs s1) lb = Some l /\ l_waited l = true).
Proof. exact slot_requires_wait_lem. Qed.
Print Assumptions c02_slot_requires_wait.

(** ** Claims on a clean balancer.
    The balancer claim of a request on a clean, non-empty balancer yields a target of it. *)
Theorem c02_clean_claim_succeeds : forall pre e post s lb ot r s1 l,
  run step init (pre ++ e :: post) = Some s -> e_k e = KLbClaim lb ot r ->
  run step init pre = Some s1 -> lb_clean pre s1 lb l -> l_targets l <> [] ->
  exists t, ot = Some t /\ In t (l_targets l).
Proof. exact clean_claim_lem. Qed.
Print Assumptions c02_clean_claim_succeeds.

(** An empty rotation implies: not waited, or tainted, or no targets, or a state-set touched a target. *)
Theorem c02_empty_rotation_origin : forall pre e post s lb r s1 l,
  run step init (pre ++ e :: post) = Some s -> e_k e = KLbClaim lb None r ->
  run step init pre = Some s1 -> nget (lbs s1) lb = Some l ->
  ~ (l_waited l = true /\ l_tainted l = false /\ l_targets l <> [] /\ forall t, In t (l_targets l) -> unmarked pre t).
Proof. exact empty_rotation_lem. Qed.
Print Assumptions c02_empty_rotation_origin.

(** A refusal: the request holds a waited balancer with that target among its targets, and a
    state-set event — the mark of a Drain call — has set the target to draining before.
    (The stronger "the balancer is tainted at the refusal" is false of the model:
    the taint comes with the KDrainBegin event that follows the mark, [c02_refusal_untainted_refuted].) *)
Theorem c02_refusal_origin : forall pre e post s t r,
  run step init (pre ++ e :: post) = Some s -> e_k e = KClaimRefused t r ->
  exists s1 lb l, run step init pre = Some s1 /\ phase_of s1 r = Some (PLbClaimed lb (Some t)) /\
    nget (lbs s1) lb = Some l /\ l_waited l = true /\ In t (l_targets l) /\
    exists em o, In em pre /\ e_k em = KStateSet t o TDraining.
Proof. exact refused_lem. Qed.
Print Assumptions c02_refusal_origin.

Theorem c02_refusal_untainted_refuted :
  exists pre e s1 lb l t r, accepted (pre ++ [e]) = true /\ run step init pre = Some s1 /\
    e_k e = KClaimRefused t r /\ phase_of s1 r = Some (PLbClaimed lb (Some t)) /\
    nget (lbs s1) lb = Some l /\ l_waited l = true /\ l_tainted l = false.
Proof.
  exists ex_untainted_pre, (ev 41 (AReq 1) (KClaimRefused 0 1)). eexists. exists 0. eexists. exists 0, 1.
  split; [vm_compute; reflexivity|]. split; [vm_compute; reflexivity|]. repeat split; reflexivity.
Qed.
Print Assumptions c02_refusal_untainted_refuted.

(** ** Outside the race: if no state-set event on t precedes it, the claim outcome of r on t
    is never a refusal. *)
Theorem c02_holds_outside_race : forall pre e post s t r,
  run step init (pre ++ e :: post) = Some s -> unmarked pre t -> e_k e <> KClaimRefused t r.
Proof. exact holds_outside_race_lem. Qed.
Print Assumptions c02_holds_outside_race.

(** ** The corollary.  A request that passed the gate and picked the balancer lb, that found lb
    clean and non-empty at each of its claim steps (lb-claim, claim / claim-refused), and whose
    exchange with the target did not fail (no transport fault, not cancelled by a drain, client
    stays), is answered with the reply of the target it was claimed on — never by a proxy error. *)
Theorem c02_no_proxy_error_when_clean : forall pre e post s r status sb sv lb,
  run step init (pre ++ e :: post) = Some s -> e_k e = KRespond r status sb ->
  In (KPick r sv (Some lb)) (req_path r pre) ->
  (forall p1 ec p2 s1 l, pre = p1 ++ ec :: p2 -> about r (e_k ec) = true -> is_claim_step (e_k ec) ->
     run step init p1 = Some s1 -> nget (lbs s1) lb = Some l -> lb_clean p1 s1 lb l /\ l_targets l <> []) ->
  (forall t why, ~ In (KTargetFailed t r why) (req_path r pre)) ->
  exists t, target_replied r (req_path r pre) t status /\ (sb = [] -> status <> 200%N).
Proof. exact no_proxy_error_lem. Qed.
Print Assumptions c02_no_proxy_error_when_clean.

(** ... and if that target replied 200, the answer is 200 with that target's name. *)
Theorem c02_answered_200_when_clean : forall pre e post s r status sb sv lb t,
  run step init (pre ++ e :: post) = Some s -> e_k e = KRespond r status sb ->
  In (KPick r sv (Some lb)) (req_path r pre) ->
  (forall p1 ec p2 s1 l, pre = p1 ++ ec :: p2 -> about r (e_k ec) = true -> is_claim_step (e_k ec) ->
     run step init p1 = Some s1 -> nget (lbs s1) lb = Some l -> lb_clean p1 s1 lb l /\ l_targets l <> []) ->
  (forall t why, ~ In (KTargetFailed t r why) (req_path r pre)) ->
  In (KTargetReplied t r 200%N) (req_path r pre) ->
  status = 200%N /\ exists s1, run step init pre = Some s1 /\ nget (tgt_names s1) t = Some sb.
Proof. exact answered_200_lem. Qed.
Print Assumptions c02_answered_200_when_clean.

(** ** The property is refuted on the model (known findings D2/D3): an accepted trace with no
    pause-gate event at all, in which request r is routed to an installed service, passes the
    gate, and is answered 503 by the proxy during a redeploy. *)
Theorem c02_refuted_race :
  exists tr r sv,
    accepted tr = true /\
    (forall e pc st ch, In e tr -> e_k e <> KGateSet pc st ch) /\
    In (KRouted r (Some sv)) (map e_k tr) /\ In (KGateResult r sv AProceed) (map e_k tr) /\
    In (KRespond r 503%N []) (map e_k tr).
Proof.
  exists ex_race, 1, 0. split; [vm_compute; reflexivity|]. split.
  - intros e pc st ch Hin. unfold ex_race, deploy0, req_ok, req_hang_on, req_picked, redeploy1 in Hin. cbn [app] in Hin.
    repeat (destruct Hin as [<-|Hin]; [discriminate|]). destruct Hin.
  - repeat split; vm_compute; auto 50.
Qed.
Print Assumptions c02_refuted_race.

(** ** Non-vacuity *)

Example ex_deploy_request_accepted : accepted (deploy0 ++ req_ok 0 10 ++ redeploy1 30) = true.
Proof. vm_compute. reflexivity. Qed.
Example ex_race_accepted : accepted ex_race = true.
Proof. vm_compute. reflexivity. Qed.

(** after the deploy lb0 is clean, with both targets healthy and in rotation *)
Example ex_clean_instance :
  exists s l, run step init deploy0 = Some s /\ lb_clean deploy0 s 0 l /\ l_targets l = [0; 1].
Proof.
  eexists. eexists. split; [vm_compute; reflexivity|]. split.
  - split; [reflexivity|]. split; [reflexivity|]. split; [reflexivity|].
    intros t _ e o n Hin. unfold deploy0 in Hin. repeat (destruct Hin as [<-|Hin]; [discriminate|]). destruct Hin.
  - reflexivity.
Qed.

(** the served request of the example has the path "target replied 200" *)
Example ex_path_instance :
  req_path 0 (deploy0 ++ req_ok 0 10) =
  p_attarget 0 0 0 1 ++ [KTargetReplied 1 0 200%N; KEnd 1 0; KRespond 0 200%N (bs "b")].
Proof. vm_compute. reflexivity. Qed.
