(** M4link — the sequential machine M4 (model/Seq.v) satisfies its own
    monitors (corr/M4corr.v): on every history that the model itself produces,
    for all command lists and all request lists,
      - the replay [check_history] finds no mismatch,
      - the C05, C06 and C11 monitors are true.
    So a monitor that is false on a history observed on the real code proves
    that the real code left the behaviours of the model, for which
    props/C05 C06 C11 C18seq prove the properties.
    Only statements; proofs are in proofs/M4Link.v M4LinkSort.v M4Link2.v M4LinkC05.v. *)
From KP Require Import model.Base model.ServiceMap model.Seq corr.M4corr
  proofs.M4Link proofs.M4Link2 proofs.M4LinkC05.
Local Open Scope N_scope.

(** [model_history ig v cs reqs] (proofs/M4Link.v): run [cs] from the empty
    proxy; after every command record its result ([res_obs_of]), `list`
    sorted by name, the state file parsed and sorted by name, the probed set,
    and the answers ([resp_obs_of (serve ig st q)]) to the same requests
    [reqs].  [ig] is the rollout cookie decision (any function). *)

(** The observation functions produce what the replay accepts. *)
Theorem m4_resp_obs_matches : forall ig st q,
  resp_matches (serve ig st q) (resp_obs_of (serve ig st q)) = true.
Proof. exact resp_matches_model. Qed.

(** ([resp_obs_of] names the head of the target list as the serving target:
    a forwarded request always has one.) *)
Theorem m4_forward_nonempty : forall ig st q n ts sp,
  serve ig st q = RForward n ts sp -> ts <> [].
Proof. exact serve_forward_nonempty. Qed.

(** No step of a model history panics, so [upto_panic] keeps all of it. *)
Theorem m4_upto_panic_id : forall ig cs reqs,
  upto_panic (model_history ig fixed cs reqs) = model_history ig fixed cs reqs.
Proof. intros. apply upto_panic_model, SeqInv.Inv_init. Qed.

Theorem m4_self_agreement : forall ig cs reqs,
  check_history ig fixed (model_history ig fixed cs reqs) = [].
Proof. exact self_agreement. Qed.

(** The replay itself (before [upto_panic]) agrees for either variant. *)
Theorem m4_self_agreement_any_variant : forall ig v cs reqs,
  history_mismatches ig v init_state (model_history ig v cs reqs) 0 = [].
Proof. intros. apply history_mismatches_model. Qed.

Theorem c05_monitor_of_model : forall ig cs reqs,
  c05_ok (model_history ig fixed cs reqs) = true.
Proof. intros. apply c05_of_model. Qed.

(** (C05 holds of the pinned tree as well.) *)
Theorem c05_monitor_of_model_any_variant : forall ig v cs reqs,
  c05_ok (model_history ig v cs reqs) = true.
Proof. exact c05_of_model. Qed.

Theorem c06_monitor_of_model : forall ig cs reqs,
  c06_ok None (model_history ig fixed cs reqs) = true.
Proof. exact c06_of_model. Qed.

Theorem c11_monitor_of_model : forall ig cs1 cs2 reqs,
  c11_ok (model_history ig fixed (cs1 ++ cs2) reqs)
         (model_history ig fixed (cs1 ++ Restart :: cs2) reqs) (length cs1) = true.
Proof. exact c11_of_model. Qed.

(** What the C11 monitor rests on: equivalent states are observed alike,
    including the probed set (a restart permutes the probe loops). *)
Theorem m4_equiv_same_observation : forall ig st1 st2 c r reqs,
  SeqEquiv.equiv st1 st2 -> state_obs ig st1 c r reqs = state_obs ig st2 c r reqs.
Proof. exact state_obs_equiv. Qed.

(** ** A concrete history *)

Definition tg (n : String.string) : tgt_in := mkTgt (bs n) true.
Arguments tg _%string_scope.
Definition t0 : topts := mkTopts (bs "/up") 7.
Definition o_web : sopts := mkSopts [bs "a.example.com"] [] true true CertGood PagesNone false.
Definition o_api : sopts := mkSopts [bs "a.example.com"] [bs "api/"] false false CertNone PagesGood true.

(** deploy, deploy, failing deploy (host in use), rollout deploy + set, pause,
    restart, resume, failing remove. *)
Definition hist_a : list cmd :=
  [ Deploy (bs "web") o_web t0 [tg "web-1:3000"; tg "web-2:3000"];
    Deploy (bs "api") o_api t0 [tg "api-1"];
    Deploy (bs "other") o_web t0 [tg "other-1"];
    RolloutDeploy (bs "web") [tg "web-3:3000"];
    RolloutSet (bs "web") 20 [bs "alice"] ].
Definition hist_b : list cmd :=
  [ Pause (bs "api") 30; Resume (bs "api"); Remove (bs "nope") ].
Definition hist : list cmd := hist_a ++ Restart :: hist_b.

Definition ig0 (rc : rollctl) (c : str) : bool := mem_str c (r_allow rc).

Definition rq (host path : String.string) (tls : bool) (cookie : option str) : request :=
  mkReq (bs host) (bs path) (bs path) true tls cookie.
Arguments rq _%string_scope _%string_scope _ _.
Definition reqs0 : list request :=
  [ rq "a.example.com" "/" true None; rq "a.example.com" "/" true (Some (bs "alice"));
    rq "a.example.com" "/x" false None; rq "a.example.com:443" "/api/v1" true None;
    rq "a.example.com" "/up" true None; rq "b.example.com" "/" true None ].

Definition h0 : list step_obs := model_history ig0 fixed hist reqs0.

Definition statuses (o : step_obs) : list (N * str) :=
  map (fun qo => (ro_status (snd qo), ro_served_by (snd qo))) (so_requests o).

Example m4_link_example_history :
  map so_result h0 = [OOk; OOk; OErr EHostInUse; OOk; OOk; OOk; OOk; OOk; OErr ENotFound] /\
  map (fun o => map lr_name (so_list o)) (firstn 2 h0) = [[bs "web"]; [bs "api"; bs "web"]] /\
  map (fun o => map lr_state (so_list o)) (skipn 6 h0) =
    [[bs "paused"; bs "running"]; [bs "running"; bs "running"]; [bs "running"; bs "running"]] /\
  map (fun o => length (so_probed o)) h0 = [2; 3; 3; 4; 4; 4; 4; 4; 4]%nat /\
  map statuses (skipn 6 h0) =
    [ [(200, bs "web-1:3000"); (200, bs "web-3:3000"); (301, []); (504, []); (200, bs "web-1:3000"); (404, [])];
      [(200, bs "web-1:3000"); (200, bs "web-3:3000"); (301, []); (200, bs "api-1"); (200, bs "web-1:3000"); (404, [])];
      [(200, bs "web-1:3000"); (200, bs "web-3:3000"); (301, []); (200, bs "api-1"); (200, bs "web-1:3000"); (404, [])] ].
Proof. vm_compute. repeat split. Qed.

(** The instances of the theorems for this history, computed. *)
Example m4_link_example_monitors :
  check_history ig0 fixed h0 = [] /\ c05_ok h0 = true /\ c06_ok None h0 = true /\
  c11_ok (model_history ig0 fixed (hist_a ++ hist_b) reqs0) h0 (length hist_a) = true.
Proof. vm_compute. repeat split. Qed.

(** The monitors are not trivially true: (C06) a failed deploy that leaves a
    probe loop behind, (C05) a state file listing a host twice, (C11) a
    restart that loses the pause, (replay) a request served by a foreign
    target are all refused. *)
Definition set_step (n : nat) (f : step_obs -> step_obs) (h : list step_obs) : list step_obs :=
  firstn n h ++ match skipn n h with o :: r => f o :: r | [] => [] end.

Definition leak_probe (o : step_obs) : step_obs :=
  mkStep (so_cmd o) (so_result o) (so_list o) (so_snapshot o) ((bs "other-1", 1) :: so_probed o) (so_requests o).
Definition dup_owner (o : step_obs) : step_obs :=
  mkStep (so_cmd o) (so_result o) (so_list o)
         (match so_snapshot o with
          | Some (s :: r) => Some (mkSnap (bs "zzz") (sn_hosts s) (sn_prefixes s) (sn_tls s) (sn_tls_redirect s)
                                    (sn_strip s) (sn_has_cert_paths s) (sn_has_pages s) (sn_health_path s) (sn_tag s)
                                    (sn_active s) (sn_rollout s) (sn_pstate s) (sn_msg s) (sn_fail_after s) (sn_roll s)
                                  :: s :: r)
          | x => x end)
         (so_probed o) (so_requests o).
Definition lose_list (o : step_obs) : step_obs :=
  mkStep (so_cmd o) (so_result o) [] (so_snapshot o) (so_probed o) (so_requests o).
Definition foreign_target (o : step_obs) : step_obs :=
  mkStep (so_cmd o) (so_result o) (so_list o) (so_snapshot o) (so_probed o)
         (map (fun qo => (fst qo, mkResp (ro_status (snd qo)) (ro_location (snd qo))
                                      (match ro_served_by (snd qo) with [] => [] | _ => bs "api-1" end)
                                      (ro_elapsed (snd qo)) (ro_body (snd qo)))) (so_requests o)).

Example m4_link_example_refused :
  c06_ok None (set_step 2 leak_probe h0) = false /\
  c05_ok (set_step 1 dup_owner h0) = false /\
  c11_ok (model_history ig0 fixed (hist_a ++ hist_b) reqs0) (set_step 6 lose_list h0) (length hist_a) = false /\
  check_history ig0 fixed (set_step 0 foreign_target h0) = [mkMis 0 5; mkMis 0 6; mkMis 0 8; mkMis 0 9].
Proof. vm_compute. repeat split. Qed.

Print Assumptions m4_resp_obs_matches.
Print Assumptions m4_forward_nonempty.
Print Assumptions m4_upto_panic_id.
Print Assumptions m4_self_agreement.
Print Assumptions m4_self_agreement_any_variant.
Print Assumptions c05_monitor_of_model.
Print Assumptions c05_monitor_of_model_any_variant.
Print Assumptions c06_monitor_of_model.
Print Assumptions c11_monitor_of_model.
Print Assumptions m4_equiv_same_observation.
