(** C01restore — restored services (a proxy restart) in the load-balancer acceptor.

    After a restart ([Router.RestoreLastSavedState]) the services of the state
    file are back in the routing table with NEW balancers whose targets are
    "presumed healthy until their first probe" ([LoadBalancer.MarkAllHealthy]):
    event [KRestored sv act roll].  The theorems are about EVERY trace accepted
    by model/M5lb.v.  [names act roll lb]: the event puts balancer [lb] into the
    active or the rollout slot of the restored service.

    The licence a restore gives is narrow: (a) it is never given to a balancer
    created by a command (a deploy), and a restored balancer is never the
    subject of a deploy's wait or slot update — so the theorems of props/C01.v
    about deploys apply to deploys unchanged; (b) requests reach a target of a
    restored balancer only through its rotation, by picks made after the
    restore; the rotation it starts with is all its targets (each presumed
    healthy by the restore), and every later rotation is rebuilt exactly as for
    any other balancer (props/C09.v holds for restored balancers as stated:
    [c09_claims_in_rotation], [c09_rotation_is_healthy_set], [c09_exclusion],
    [c09_recovery], [c09_fair_trace] do not distinguish them). *)
From KP Require Import model.Base model.Trace model.M5lb proofs.M5lbFacts proofs.M5lbHist proofs.M5lbC01 proofs.M5lbC09
  corr.C01corr corr.C09corr proofs.M5lbMon proofs.M5lbRestore.
Local Open Scope nat_scope.

(** (a) A balancer created by a command is named by no KRestored event, before or after. *)
Theorem c01r_cmd_balancer_never_restored : forall tr s jn tm c lb ts j sv act roll,
  run step init tr = Some s ->
  nth_error tr jn = Some (mkEv tm (ACmd c) (KLbNew lb ts)) ->
  at_ tr j (KRestored sv act roll) -> ~ names act roll lb.
Proof. exact cmd_balancer_never_restored. Qed.
Print Assumptions c01r_cmd_balancer_never_restored.

(** (a) A balancer named by a KRestored event at index [j] was created before [j] by an actor that
    is not a command; before [j] every one of its targets was made healthy by the restore
    (adding->healthy without a probe) and its rotation at [j] is all its targets; no deploy ever
    waits on it or gives it a slot, anywhere in the trace; and it is restored only once. *)
Theorem c01r_restored_balancer_facts : forall tr s j sv act roll lb jn ts,
  run step init tr = Some s -> at_ tr j (KRestored sv act roll) -> names act roll lb ->
  at_ tr jn (KLbNew lb ts) ->
  jn < j /\ (forall e, nth_error tr jn = Some e -> cmd_of (e_by e) = None) /\
  (forall t, In t ts -> exists j', j' < j /\ at_ tr j' (KStateSet t TAdding THealthy)) /\
  last_rot (firstn j tr) lb = ts /\
  (forall i v, ~ at_ tr i (KDeployWaited lb v)) /\
  (forall i sv' sl rep, ~ at_ tr i (KSlot sv' sl lb rep)) /\
  (forall j' sv' act' roll', at_ tr j' (KRestored sv' act' roll') -> names act' roll' lb -> j' = j).
Proof. exact restored_balancer_facts. Qed.
Print Assumptions c01r_restored_balancer_facts.

(** the rule itself: what an accepted KRestored event found in the state and what it leaves *)
Theorem c01r_restored_step : forall s tm a sv act roll s' lb,
  step s (mkEv tm a (KRestored sv act roll)) = Some s' -> names act roll lb ->
  is_cmd a = false /\
  exists b b', nget (bals s) lb = Some b /\ b_cmd b = false /\ b_restored b = false /\ b_waited b = None /\
    (forall t, In t (b_ts b) -> is_presumed (tgts s) t = true) /\ b_rot b = b_ts b /\
    nget (bals s') lb = Some b' /\ b_restored b' = true /\ b_ts b' = b_ts b.
Proof. exact step_restored_named. Qed.
Print Assumptions c01r_restored_step.

(** (b) Every request handed to a target [t] of a restored balancer [lb] was given that target by a
    round-robin pick of [lb] made AFTER the KRestored event, and [t] was in the rotation of [lb] as
    last rebuilt before that pick ([last_rot]: the list of the last [KRotation lb _] event, which
    by [c09_rotation_is_healthy_set] is the list of [lb]'s targets that were healthy — presumed or
    by probe — at that rebuild). *)
Theorem c01r_restored_claims_in_rotation : forall tr s i t r jn lb ts jr sv act roll,
  run step init tr = Some s -> at_ tr i (KClaim t r) -> at_ tr jn (KLbNew lb ts) -> In t ts ->
  at_ tr jr (KRestored sv act roll) -> names act roll lb ->
  exists j, jr < j /\ j < i /\ at_ tr j (KLbClaim lb (Some t) r) /\ In t (last_rot (firstn j tr) lb).
Proof. exact restored_claims_in_rotation. Qed.
Print Assumptions c01r_restored_claims_in_rotation.

(** a target presumed healthy stays healthy — hence in every rebuilt rotation — until a failing
    probe result or a direct state write (a drain) on it *)
Theorem c01r_presumed_stays_healthy : forall seg s s' t x,
  run step s seg = Some s' -> nget (tgts s) t = Some x -> t_st x = THealthy ->
  existsb (mk_unhealthy t) seg = false ->
  exists x', nget (tgts s') t = Some x' /\ t_st x' = THealthy.
Proof. exact restored_presumed_stays_healthy. Qed.
Print Assumptions c01r_presumed_stays_healthy.

(** ** Non-vacuity: a real restart trace

    Recorded from the real code by the harness (scenario: deploy "web" with two
    targets; one request; RESTART; the restored target n1:80 is scripted to
    refuse its 2nd and 3rd probe after the restart; three requests at once,
    three after 1.1 s, three after 3.1 s).  Events the view ignores (snapshots,
    pause gate, arrivals, responses, probes sent) are left out: 91 of 169. *)
Definition restart_trace : trace :=
[mkEv 0 (ACmd 1) (KIssue 1 CkDeploy [x77;x65;x62]);
 mkEv 0 (ACmd 1) (KParams 1 5000000000 1000000000 0);
 mkEv 0 AEnv (KTargetName 0 [x6e;x30;x3a;x38;x30]);
 mkEv 0 AEnv (KTargetName 1 [x6e;x31;x3a;x38;x30]);
 mkEv 0 (ACmd 1) (KLbNew 0 [0;1]);
 mkEv 0 AEnv (KSvcName 0 [x77;x65;x62]);
 mkEv 0 (ACmd 1) (KDeployLb 0 false 0);
 mkEv 0 (AGo 7) (KProbeApply 0 true TAdding THealthy);
 mkEv 0 (AGo 7) (KRotation 0 [0]);
 mkEv 0 (AGo 8) (KProbeApply 1 true TAdding THealthy);
 mkEv 0 (AGo 8) (KRotation 0 [0;1]);
 mkEv 0 (AGo 10) (KWaiter 1 true);
 mkEv 0 (AGo 9) (KWaiter 0 true);
 mkEv 0 (ACmd 1) (KDeployWaited 0 true);
 mkEv 0 (ACmd 1) (KSlot 0 false 0 None);
 mkEv 0 (ACmd 1) (KInstall 0 true);
 mkEv 0 (ACmd 1) (KReturn 1 CROk);
 mkEv 0 (AReq 1) (KRouted 1 (Some 0));
 mkEv 0 (AReq 1) (KPick 1 0 (Some 0));
 mkEv 0 (AReq 1) (KLbClaim 0 (Some 1) 1);
 mkEv 0 (AReq 1) (KClaim 1 1);
 mkEv 0 (AReq 1) (KEnd 1 1);
 mkEv 0 (AGo 6) (KProbeStop 0);
 mkEv 0 (AGo 6) (KProbeStop 1);
 mkEv 0 AEnv (KTargetName 2 [x6e;x30;x3a;x38;x30]);
 mkEv 0 AEnv (KTargetName 3 [x6e;x31;x3a;x38;x30]);
 mkEv 0 (AGo 6) (KLbNew 1 [2;3]);
 mkEv 0 (AGo 6) (KStateSet 2 TAdding THealthy);
 mkEv 0 (AGo 6) (KStateSet 3 TAdding THealthy);
 mkEv 0 (AGo 6) (KRotation 1 [2;3]);
 mkEv 0 AEnv (KSvcName 1 [x77;x65;x62]);
 mkEv 0 (AGo 6) (KRestored 1 (Some 1) None);
 mkEv 0 (AGo 13) (KProbeApply 3 true THealthy THealthy);
 mkEv 0 (AGo 12) (KProbeApply 2 true THealthy THealthy);
 mkEv 0 (AReq 2) (KRouted 2 (Some 1));
 mkEv 0 (AReq 2) (KPick 2 1 (Some 1));
 mkEv 0 (AReq 2) (KLbClaim 1 (Some 3) 2);
 mkEv 0 (AReq 2) (KClaim 3 2);
 mkEv 0 (AReq 2) (KEnd 3 2);
 mkEv 0 (AReq 3) (KRouted 3 (Some 1));
 mkEv 0 (AReq 3) (KPick 3 1 (Some 1));
 mkEv 0 (AReq 3) (KLbClaim 1 (Some 2) 3);
 mkEv 0 (AReq 3) (KClaim 2 3);
 mkEv 0 (AReq 3) (KEnd 2 3);
 mkEv 0 (AReq 4) (KRouted 4 (Some 1));
 mkEv 0 (AReq 4) (KPick 4 1 (Some 1));
 mkEv 0 (AReq 4) (KLbClaim 1 (Some 3) 4);
 mkEv 0 (AReq 4) (KClaim 3 4);
 mkEv 0 (AReq 4) (KEnd 3 4);
 mkEv 1000000000 (AGo 12) (KProbeApply 2 true THealthy THealthy);
 mkEv 1000000000 (AGo 13) (KProbeApply 3 false THealthy TUnhealthy);
 mkEv 1000000000 (AGo 13) (KRotation 1 [2]);
 mkEv 1100000000 (AReq 5) (KRouted 5 (Some 1));
 mkEv 1100000000 (AReq 5) (KPick 5 1 (Some 1));
 mkEv 1100000000 (AReq 5) (KLbClaim 1 (Some 2) 5);
 mkEv 1100000000 (AReq 5) (KClaim 2 5);
 mkEv 1100000000 (AReq 5) (KEnd 2 5);
 mkEv 1100000000 (AReq 6) (KRouted 6 (Some 1));
 mkEv 1100000000 (AReq 6) (KPick 6 1 (Some 1));
 mkEv 1100000000 (AReq 6) (KLbClaim 1 (Some 2) 6);
 mkEv 1100000000 (AReq 6) (KClaim 2 6);
 mkEv 1100000000 (AReq 6) (KEnd 2 6);
 mkEv 1100000000 (AReq 7) (KRouted 7 (Some 1));
 mkEv 1100000000 (AReq 7) (KPick 7 1 (Some 1));
 mkEv 1100000000 (AReq 7) (KLbClaim 1 (Some 2) 7);
 mkEv 1100000000 (AReq 7) (KClaim 2 7);
 mkEv 1100000000 (AReq 7) (KEnd 2 7);
 mkEv 2000000000 (AGo 13) (KProbeApply 3 false TUnhealthy TUnhealthy);
 mkEv 2000000000 (AGo 12) (KProbeApply 2 true THealthy THealthy);
 mkEv 3000000000 (AGo 12) (KProbeApply 2 true THealthy THealthy);
 mkEv 3000000000 (AGo 13) (KProbeApply 3 true TUnhealthy THealthy);
 mkEv 3000000000 (AGo 13) (KRotation 1 [2;3]);
 mkEv 3100000000 (AReq 8) (KRouted 8 (Some 1));
 mkEv 3100000000 (AReq 8) (KPick 8 1 (Some 1));
 mkEv 3100000000 (AReq 8) (KLbClaim 1 (Some 3) 8);
 mkEv 3100000000 (AReq 8) (KClaim 3 8);
 mkEv 3100000000 (AReq 8) (KEnd 3 8);
 mkEv 3100000000 (AReq 9) (KRouted 9 (Some 1));
 mkEv 3100000000 (AReq 9) (KPick 9 1 (Some 1));
 mkEv 3100000000 (AReq 9) (KLbClaim 1 (Some 2) 9);
 mkEv 3100000000 (AReq 9) (KClaim 2 9);
 mkEv 3100000000 (AReq 9) (KEnd 2 9);
 mkEv 3100000000 (AReq 10) (KRouted 10 (Some 1));
 mkEv 3100000000 (AReq 10) (KPick 10 1 (Some 1));
 mkEv 3100000000 (AReq 10) (KLbClaim 1 (Some 3) 10);
 mkEv 3100000000 (AReq 10) (KClaim 3 10);
 mkEv 3100000000 (AReq 10) (KEnd 3 10);
 mkEv 4000000000 (AGo 13) (KProbeApply 3 true THealthy THealthy);
 mkEv 4000000000 (AGo 12) (KProbeApply 2 true THealthy THealthy);
 mkEv 4600000000 (AGo 6) (KProbeStop 2);
 mkEv 4600000000 (AGo 6) (KProbeStop 3)].

Example restart_trace_accepted : accepted restart_trace = true.
Proof. vm_compute. reflexivity. Qed.

Example restart_trace_monitors :
  c01_ok restart_trace = true /\ c09_ok restart_trace = true /\ c09_rebuild_ok restart_trace = true /\
  c09_restore_free restart_trace = true /\ c09_unprobed_claim_at restart_trace = None.
Proof. repeat split; vm_compute; reflexivity. Qed.

(** it contains the restore of balancer 1 (targets 2 and 3, created by goroutine 6, each presumed
    healthy), claims on the restored target 3 before its failing probe result (index 50), none
    between the rebuild that follows it (51) and the rebuild after its recovery (71), and again after *)
Example restart_trace_has_restore :
  at_ restart_trace 31 (KRestored 1 (Some 1) None) /\
  nth_error restart_trace 26 = Some (mkEv 0 (AGo 6) (KLbNew 1 [2; 3])) /\
  at_ restart_trace 37 (KClaim 3 2) /\
  at_ restart_trace 50 (KProbeApply 3 false THealthy TUnhealthy) /\
  at_ restart_trace 51 (KRotation 1 [2]) /\
  at_ restart_trace 71 (KRotation 1 [2; 3]) /\
  at_ restart_trace 75 (KClaim 3 8) /\
  forallb (fun e => match e_k e with KClaim t _ => Nat.eqb t 2 | _ => true end)
          (firstn 20 (skipn 51 restart_trace)) = true /\
  existsb (fun e => match e_k e with KClaim _ _ => true | _ => false end)
          (firstn 20 (skipn 51 restart_trace)) = true.
Proof. repeat split; try (eexists; split; reflexivity); vm_compute; reflexivity. Qed.

(** the claim at index 37 is licensed by the restore, not by a deploy: the full-strength theorem's
    second disjunct is the one that holds (no KDeployWaited on balancer 1 anywhere) *)
Example restart_trace_claim_licence :
  forallb (fun e => match e_k e with KDeployWaited 1 _ => false | _ => true end) restart_trace = true.
Proof. vm_compute. reflexivity. Qed.

(** Doctored copies of the real trace are rejected. *)
Fixpoint drop_nth {A} (n : nat) (l : list A) : list A :=
  match l, n with
  | [], _ => []
  | _ :: r, 0 => r
  | x :: r, S n' => x :: drop_nth n' r
  end.
Fixpoint set_nth {A} (n : nat) (v : A) (l : list A) : list A :=
  match l, n with
  | [], _ => []
  | _ :: r, 0 => v :: r
  | x :: r, S n' => x :: set_nth n' v r
  end.

(** (a) MarkAllHealthy skips target 3: the restore is rejected *)
Example doctored_not_all_presumed :
  reject_at (set_nth 28 (mkEv 0 (AGo 6) (KRotation 1 [2])) (drop_nth 28 restart_trace)) = Some 30.
Proof. vm_compute. reflexivity. Qed.

(** (b) the rotation is not rebuilt after MarkAllHealthy: rejected at the restore *)
Example doctored_no_rotation : reject_at (drop_nth 29 restart_trace) = Some 30.
Proof. vm_compute. reflexivity. Qed.

(** (c) the restore is performed by a command: rejected *)
Example doctored_restored_by_command :
  reject_at (set_nth 31 (mkEv 0 (ACmd 1) (KRestored 1 (Some 1) None)) restart_trace) = Some 31.
Proof. vm_compute. reflexivity. Qed.

(** (d) the restore names the balancer of the deploy (created by a command, waited on): rejected *)
Example doctored_restore_names_deployed :
  reject_at (set_nth 31 (mkEv 0 (AGo 6) (KRestored 1 (Some 0) None)) restart_trace) = Some 31.
Proof. vm_compute. reflexivity. Qed.

(** (e) without the KRestored event the restored service object is not in the table *)
Example doctored_no_restored_event : reject_at (drop_nth 31 restart_trace) = Some 33.
Proof. vm_compute. reflexivity. Qed.

(** (f) a request is handed to target 3 after its failing probe and the rebuild that dropped it *)
Example doctored_claim_after_failed_probe :
  accepted (set_nth 54 (mkEv 1100000000 (AReq 5) (KLbClaim 1 (Some 3) 5))
           (set_nth 55 (mkEv 1100000000 (AReq 5) (KClaim 3 5)) restart_trace)) = false.
Proof. vm_compute. reflexivity. Qed.

(** (g) the monitor alone (no model state) flags a restore of targets that were not marked healthy,
    and a claim on a balancer that was neither deployed nor restored *)
Example doctored_monitor :
  c01_fail_at (set_nth 28 (mkEv 0 (AGo 6) (KRotation 1 [2])) (drop_nth 28 restart_trace)) = Some 30 /\
  c01_fail_at (drop_nth 31 restart_trace) = Some 36.
Proof. split; vm_compute; reflexivity. Qed.
