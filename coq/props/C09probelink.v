(** C09probelink — the monitor of corr/C09probecorr.v (the cadence property as a
    boolean on the observed probe times alone) accepts every behaviour of the model
    model/Ticker.v.  Only statements, closed by [exact]; proofs in
    proofs/C09probeLink.v. *)
From KP Require Import model.Base model.Ticker corr.C09probecorr proofs.C09probeLink.
Local Open Scope N_scope.

(** Every run of the model that was ended by the stop (not by the end of the script)
    is accepted by the monitor: first probe at t0, no overlap, every next probe
    exactly when due, results within the timeout, nothing after the stop, probing up
    to the stop, exact grid when all checks are shorter than the interval. *)
Theorem c09_probe_model_monitor : forall t0 I TO script stop,
  0 < I ->
  (length (probe_times t0 I TO script stop) < length script)%nat ->
  c09_probe_ok t0 I TO stop (obs_of (probe_times t0 I TO script stop)) = true.
Proof. exact L_model_monitor. Qed.
Print Assumptions c09_probe_model_monitor.

(** An observed case that agrees with the model satisfies the monitor. *)
Theorem c09_probe_agrees_monitor : forall c,
  0 < c_interval c -> agrees c = true -> monitor c = true.
Proof. exact L_agrees_monitor. Qed.
Print Assumptions c09_probe_agrees_monitor.

(** Non-vacuity: the monitor is not constantly true. *)
Example c09_probe_monitor_rejects_drift :       (* re-armed timer: interval counted from the END of a slow check *)
  c09_probe_ok 0 1000 5000 (Some 4500)
    [OSent 0; OResult 300 true; OSent 1300; OResult 1600 true; OSent 2600; OResult 2900 true; OSent 3900; OResult 4200 true] = false.
Proof. vm_compute. reflexivity. Qed.

Example c09_probe_monitor_rejects_late_first :  (* no immediate first probe *)
  c09_probe_ok 0 1000 500 (Some 2500) [OSent 1000; OResult 1000 true; OSent 2000; OResult 2000 true] = false.
Proof. vm_compute. reflexivity. Qed.

Example c09_probe_monitor_rejects_after_stop :  (* a result reported after Close *)
  c09_probe_ok 0 1000 500 (Some 1200) [OSent 0; OResult 0 true; OSent 1000; OResult 1500 false] = false.
Proof. vm_compute. reflexivity. Qed.

Example c09_probe_monitor_rejects_overlap :     (* two checks at a time *)
  c09_probe_ok 0 1000 5000 (Some 2500) [OSent 0; OResult 0 true; OSent 1000; OSent 2000; OResult 2100 true; OResult 2200 true] = false.
Proof. vm_compute. reflexivity. Qed.

Example c09_probe_monitor_rejects_silence :     (* the loop stopped probing long before Close *)
  c09_probe_ok 0 1000 500 (Some 9000) [OSent 0; OResult 0 true; OSent 1000; OResult 1000 true] = false.
Proof. vm_compute. reflexivity. Qed.

Example c09_probe_monitor_accepts :
  c09_probe_ok 0 1000 5000 (Some 6500)
    [OSent 0; OResult 0 true; OSent 1000; OResult 3500 true; OSent 3500; OResult 4200 true; OSent 4200; OResult 4200 true;
     OSent 5000; OResult 5000 true; OSent 6000; OResult 6000 false] = true.
Proof. vm_compute. reflexivity. Qed.
