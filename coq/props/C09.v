(** C09 — Only healthy targets receive traffic, in fair rotation.

    The theorems are about EVERY event trace accepted by the load-balancer
    acceptor model/M5lb.v ([run step init tr = Some s]); that the real code
    only produces accepted traces is the correspondence obligation of
    tools/c09.py (corr/C09corr.v).  Statements about "between" are written with
    the trace cut into pieces ([A ++ e :: B ++ ...]).  What a request gets when
    no target can be claimed (503) is the response mapping of C02's view; the
    probe cadence is checked as a monitor only (corr/C09corr.c09_cadence).
    Balancers restored by a restart ([KRestored], model/M5lb.v) are ordinary
    balancers here: every theorem below holds for them as stated; what is
    special about them (presumed healthy until the first probe, rotation = all
    targets at the restore) is in props/C01restore.v. *)
From KP Require Import model.Base model.Trace model.M5lb proofs.M5lbFacts proofs.M5lbHist proofs.M5lbC01 proofs.M5lbC09
  corr.C01corr corr.C09corr proofs.M5lbMon.
Local Open Scope nat_scope.

(** Every forwarded request ([KClaim t r]) got its target from an earlier round-robin pick
    [KLbClaim lb (Some t) r], and [t] was in the rotation of [lb] at that pick — the rotation being,
    at every moment, the list of the last [KRotation lb _] event ([last_rot]), which in turn is the
    list of the balancer's targets whose state was "healthy" when it was rebuilt. *)
Theorem c09_claims_in_rotation : forall tr s i t r,
  run step init tr = Some s -> at_ tr i (KClaim t r) ->
  exists j lb, j < i /\ at_ tr j (KLbClaim lb (Some t) r) /\ In t (last_rot (firstn j tr) lb).
Proof. exact claims_in_rotation. Qed.
Print Assumptions c09_claims_in_rotation.

Theorem c09_rotation_is_last_event : forall tr s lb b,
  run step init tr = Some s -> nget (bals s) lb = Some b -> b_rot b = last_rot tr lb.
Proof. exact rotation_is_last_event. Qed.
Print Assumptions c09_rotation_is_last_event.

Theorem c09_rotation_is_healthy_set : forall s tm a lb hs s',
  step s (mkEv tm a (KRotation lb hs)) = Some s' ->
  exists b b', nget (bals s) lb = Some b /\ hs = healthy_of (tgts s) (b_ts b) /\
    nget (bals s') lb = Some b' /\ b_rot b' = hs /\ b_ts b' = b_ts b.
Proof. exact step_rotation. Qed.
Print Assumptions c09_rotation_is_healthy_set.

(** Exclusion: after a failing probe result [eI] on target [t] and the rebuild [eJ] of the rotation
    of its balancer, [t] is picked for a request ([eK]) only if, in between, something made it
    healthy again ([mk_healthy]: a successful probe result — or a direct state write, see
    [c09_exclusion_refuted_without_restore]) and, after that, the rotation was rebuilt with [t]. *)
Theorem c09_exclusion : forall A eI B eJ C eK D s t lb lb' hs r bF,
  run step init (A ++ eI :: B ++ eJ :: C ++ eK :: D) = Some s ->
  e_k eI = KProbeApply t false THealthy TUnhealthy ->
  e_k eJ = KRotation lb hs ->
  nget (bals s) lb = Some bF -> In t (b_ts bF) ->
  e_k eK = KLbClaim lb' (Some t) r ->
  lb' = lb /\
  exists M1 e1 M2 e2 M3 hs', B ++ eJ :: C = M1 ++ e1 :: M2 ++ e2 :: M3 /\
    mk_healthy t e1 = true /\ e_k e2 = KRotation lb hs' /\ In t hs'.
Proof. exact exclusion. Qed.
Print Assumptions c09_exclusion.

(** Recovery: a target whose probe succeeded is in the next rebuilt rotation of its balancer
    (hence claimable again), unless a failing result or a direct state write came in between. *)
Theorem c09_recovery : forall A eI B eJ D s t lb hs prev new bF,
  run step init (A ++ eI :: B ++ eJ :: D) = Some s ->
  e_k eI = KProbeApply t true prev new -> e_k eJ = KRotation lb hs ->
  nget (bals s) lb = Some bF -> In t (b_ts bF) ->
  existsb (mk_unhealthy t) B = false ->
  In t hs /\ exists sJ b, run step init (A ++ eI :: B ++ [eJ]) = Some sJ /\ nget (bals sJ) lb = Some b /\ b_rot b = hs.
Proof. exact recovery. Qed.
Print Assumptions c09_recovery.

(** No healthy target: the only accepted outcome of a pick is "none" (the request then gets 503). *)
Theorem c09_none_healthy : forall s tm a lb c r s' b,
  step s (mkEv tm a (KLbClaim lb c r)) = Some s' -> nget (bals s) lb = Some b -> (b_rot b = [] <-> c = None).
Proof. exact none_healthy. Qed.
Print Assumptions c09_none_healthy.

(** Strict rotation (pure arithmetic): for a rotation [h] without duplicates, [k = length h > 0],
    any start cursor, [n] consecutive picks [h[(idx+1) mod k], h[(idx+2) mod k], ...] give every
    element floor(n/k) or ceil(n/k) picks. *)
Theorem c09_fair : forall h, NoDup h -> 0 < length h -> forall n idx x, In x h ->
  n / length h <= count_occ Nat.eq_dec (pick_seq h idx n) x <= (n + length h - 1) / length h.
Proof. exact fair. Qed.
Print Assumptions c09_fair.

(** ... and in an accepted trace, the targets handed out by a balancer along a piece of trace
    without a rebuild of its rotation are exactly that sequence, from its cursor. *)
Theorem c09_fair_trace : forall seg s s' lb b,
  run step s seg = Some s' -> nget (bals s) lb = Some b -> existsb (is_rot lb) seg = false ->
  claims_of lb seg = pick_seq (b_rot b) (b_idx b) (length (claims_of lb seg)).
Proof. exact fair_trace. Qed.
Print Assumptions c09_fair_trace.

(** What the code does (suspected defect D12, not decided here): a successful probe result during a
    drain takes the target from "draining" back to "healthy". *)
Theorem c09_drain_overrides : forall s tm a t prev new s' x,
  step s (mkEv tm a (KProbeApply t true prev new)) = Some s' -> nget (tgts s) t = Some x -> t_st x = TDraining ->
  new = THealthy /\ exists x', nget (tgts s') t = Some x' /\ t_st x' = THealthy.
Proof. exact drain_overrides. Qed.
Print Assumptions c09_drain_overrides.

(** The acceptor implies the monitors of corr/C09corr.v. *)
Theorem c09_accepted_monitor : forall tr, accepted tr = true -> c09_restore_free tr = true -> c09_ok tr = true.
Proof. exact accepted_c09_ok. Qed.
Print Assumptions c09_accepted_monitor.

Theorem c09_accepted_rebuild : forall tr, accepted tr = true -> c09_rebuild_ok tr = true.
Proof. exact accepted_c09_rebuild_ok. Qed.
Print Assumptions c09_accepted_rebuild.

(** ** Non-vacuity: a real trace

    Recorded from the real code (tools/m5.py): one service with three targets whose probes flap
    (n0: ok ok refused ok; n2: 500 ok ok refused refused ok), bursts of requests between the probes,
    then all targets failing (a request finds no target), one recovering, and a redeploy with two
    targets.  Events the view ignores are left out. *)
Definition real_trace : trace :=
[mkEv 0 (ACmd 1) (KIssue 1 CkDeploy [x77;x65;x62]);
 mkEv 0 (ACmd 1) (KParams 1 3000000000 1000000000 0);
 mkEv 0 AEnv (KTargetName 0 [x6e;x30;x3a;x38;x30]);
 mkEv 0 AEnv (KTargetName 1 [x6e;x31;x3a;x38;x30]);
 mkEv 0 AEnv (KTargetName 2 [x6e;x32;x3a;x38;x30]);
 mkEv 0 (ACmd 1) (KLbNew 0 [0;1;2]);
 mkEv 0 AEnv (KSvcName 0 [x77;x65;x62]);
 mkEv 0 (ACmd 1) (KDeployLb 0 false 0);
 mkEv 0 (AGo 6) (KProbeApply 0 true TAdding THealthy);
 mkEv 0 (AGo 6) (KRotation 0 [0]);
 mkEv 0 (AGo 7) (KProbeApply 1 true TAdding THealthy);
 mkEv 0 (AGo 7) (KRotation 0 [0;1]);
 mkEv 0 (AGo 8) (KProbeApply 2 false TAdding TAdding);
 mkEv 0 (AGo 9) (KWaiter 0 true);
 mkEv 0 (AGo 10) (KWaiter 1 true);
 mkEv 1000000000 (AGo 8) (KProbeApply 2 true TAdding THealthy);
 mkEv 1000000000 (AGo 8) (KRotation 0 [0;1;2]);
 mkEv 1000000000 (AGo 11) (KWaiter 2 true);
 mkEv 1000000000 (ACmd 1) (KDeployWaited 0 true);
 mkEv 1000000000 (ACmd 1) (KSlot 0 false 0 None);
 mkEv 1000000000 (ACmd 1) (KInstall 0 true);
 mkEv 1000000000 (ACmd 1) (KReturn 1 CROk);
 mkEv 1000000000 (AReq 1) (KRouted 1 (Some 0));
 mkEv 1000000000 (AReq 1) (KPick 1 0 (Some 0));
 mkEv 1000000000 (AReq 1) (KLbClaim 0 (Some 1) 1);
 mkEv 1000000000 (AReq 1) (KClaim 1 1);
 mkEv 1000000000 (AReq 1) (KEnd 1 1);
 mkEv 1000000000 (AGo 6) (KProbeApply 0 true THealthy THealthy);
 mkEv 1000000000 (AGo 7) (KProbeApply 1 true THealthy THealthy);
 mkEv 1000000000 (AReq 2) (KRouted 2 (Some 0));
 mkEv 1000000000 (AReq 2) (KPick 2 0 (Some 0));
 mkEv 1000000000 (AReq 2) (KLbClaim 0 (Some 2) 2);
 mkEv 1000000000 (AReq 2) (KClaim 2 2);
 mkEv 1000000000 (AReq 2) (KEnd 2 2);
 mkEv 1000000000 (AReq 3) (KRouted 3 (Some 0));
 mkEv 1000000000 (AReq 3) (KPick 3 0 (Some 0));
 mkEv 1000000000 (AReq 3) (KLbClaim 0 (Some 0) 3);
 mkEv 1000000000 (AReq 3) (KClaim 0 3);
 mkEv 1000000000 (AReq 3) (KEnd 0 3);
 mkEv 1000000000 (AReq 4) (KRouted 4 (Some 0));
 mkEv 1000000000 (AReq 4) (KPick 4 0 (Some 0));
 mkEv 1000000000 (AReq 4) (KLbClaim 0 (Some 1) 4);
 mkEv 1000000000 (AReq 4) (KClaim 1 4);
 mkEv 1000000000 (AReq 4) (KEnd 1 4);
 mkEv 2000000000 (AGo 7) (KProbeApply 1 true THealthy THealthy);
 mkEv 2000000000 (AGo 8) (KProbeApply 2 true THealthy THealthy);
 mkEv 2000000000 (AGo 6) (KProbeApply 0 false THealthy TUnhealthy);
 mkEv 2000000000 (AGo 6) (KRotation 0 [1;2]);
 mkEv 2500000000 (AReq 5) (KRouted 5 (Some 0));
 mkEv 2500000000 (AReq 5) (KPick 5 0 (Some 0));
 mkEv 2500000000 (AReq 5) (KLbClaim 0 (Some 1) 5);
 mkEv 2500000000 (AReq 5) (KClaim 1 5);
 mkEv 2500000000 (AReq 5) (KEnd 1 5);
 mkEv 2500000000 (AReq 6) (KRouted 6 (Some 0));
 mkEv 2500000000 (AReq 6) (KPick 6 0 (Some 0));
 mkEv 2500000000 (AReq 6) (KLbClaim 0 (Some 2) 6);
 mkEv 2500000000 (AReq 6) (KClaim 2 6);
 mkEv 2500000000 (AReq 6) (KEnd 2 6);
 mkEv 2500000000 (AReq 7) (KRouted 7 (Some 0));
 mkEv 2500000000 (AReq 7) (KPick 7 0 (Some 0));
 mkEv 2500000000 (AReq 7) (KLbClaim 0 (Some 1) 7);
 mkEv 2500000000 (AReq 7) (KClaim 1 7);
 mkEv 2500000000 (AReq 7) (KEnd 1 7);
 mkEv 3000000000 (AGo 6) (KProbeApply 0 true TUnhealthy THealthy);
 mkEv 3000000000 (AGo 6) (KRotation 0 [0;1;2]);
 mkEv 3000000000 (AGo 7) (KProbeApply 1 true THealthy THealthy);
 mkEv 3000000000 (AGo 8) (KProbeApply 2 false THealthy TUnhealthy);
 mkEv 3000000000 (AGo 8) (KRotation 0 [0;1]);
 mkEv 3500000000 (AReq 8) (KRouted 8 (Some 0));
 mkEv 3500000000 (AReq 8) (KPick 8 0 (Some 0));
 mkEv 3500000000 (AReq 8) (KLbClaim 0 (Some 1) 8);
 mkEv 3500000000 (AReq 8) (KClaim 1 8);
 mkEv 3500000000 (AReq 8) (KEnd 1 8);
 mkEv 3500000000 (AReq 9) (KRouted 9 (Some 0));
 mkEv 3500000000 (AReq 9) (KPick 9 0 (Some 0));
 mkEv 3500000000 (AReq 9) (KLbClaim 0 (Some 0) 9);
 mkEv 3500000000 (AReq 9) (KClaim 0 9);
 mkEv 3500000000 (AReq 9) (KEnd 0 9);
 mkEv 4000000000 (AGo 7) (KProbeApply 1 true THealthy THealthy);
 mkEv 4000000000 (AGo 8) (KProbeApply 2 false TUnhealthy TUnhealthy);
 mkEv 4000000000 (AGo 6) (KProbeApply 0 true THealthy THealthy);
 mkEv 4500000000 (AReq 10) (KRouted 10 (Some 0));
 mkEv 4500000000 (AReq 10) (KPick 10 0 (Some 0));
 mkEv 4500000000 (AReq 10) (KLbClaim 0 (Some 1) 10);
 mkEv 4500000000 (AReq 10) (KClaim 1 10);
 mkEv 4500000000 (AReq 10) (KEnd 1 10);
 mkEv 4500000000 (AReq 11) (KRouted 11 (Some 0));
 mkEv 4500000000 (AReq 11) (KPick 11 0 (Some 0));
 mkEv 4500000000 (AReq 11) (KLbClaim 0 (Some 0) 11);
 mkEv 4500000000 (AReq 11) (KClaim 0 11);
 mkEv 4500000000 (AReq 11) (KEnd 0 11);
 mkEv 4500000000 (AReq 12) (KRouted 12 (Some 0));
 mkEv 4500000000 (AReq 12) (KPick 12 0 (Some 0));
 mkEv 4500000000 (AReq 12) (KLbClaim 0 (Some 1) 12);
 mkEv 4500000000 (AReq 12) (KClaim 1 12);
 mkEv 4500000000 (AReq 12) (KEnd 1 12);
 mkEv 5000000000 (AGo 6) (KProbeApply 0 true THealthy THealthy);
 mkEv 5000000000 (AGo 7) (KProbeApply 1 true THealthy THealthy);
 mkEv 5000000000 (AGo 8) (KProbeApply 2 true TUnhealthy THealthy);
 mkEv 5000000000 (AGo 8) (KRotation 0 [0;1;2]);
 mkEv 5500000000 (AReq 13) (KRouted 13 (Some 0));
 mkEv 5500000000 (AReq 13) (KPick 13 0 (Some 0));
 mkEv 5500000000 (AReq 13) (KLbClaim 0 (Some 2) 13);
 mkEv 5500000000 (AReq 13) (KClaim 2 13);
 mkEv 5500000000 (AReq 13) (KEnd 2 13);
 mkEv 6000000000 (AGo 8) (KProbeApply 2 false THealthy TUnhealthy);
 mkEv 6000000000 (AGo 8) (KRotation 0 [0;1]);
 mkEv 6000000000 (AGo 6) (KProbeApply 0 false THealthy TUnhealthy);
 mkEv 6000000000 (AGo 6) (KRotation 0 [1]);
 mkEv 6000000000 (AGo 7) (KProbeApply 1 false THealthy TUnhealthy);
 mkEv 6000000000 (AGo 7) (KRotation 0 []);
 mkEv 6500000000 (AReq 14) (KRouted 14 (Some 0));
 mkEv 6500000000 (AReq 14) (KPick 14 0 (Some 0));
 mkEv 6500000000 (AReq 14) (KLbClaim 0 None 14);
 mkEv 7000000000 (AGo 7) (KProbeApply 1 true TUnhealthy THealthy);
 mkEv 7000000000 (AGo 7) (KRotation 0 [1]);
 mkEv 7000000000 (AGo 8) (KProbeApply 2 false TUnhealthy TUnhealthy);
 mkEv 7000000000 (AGo 6) (KProbeApply 0 false TUnhealthy TUnhealthy);
 mkEv 7500000000 (AReq 15) (KRouted 15 (Some 0));
 mkEv 7500000000 (AReq 15) (KPick 15 0 (Some 0));
 mkEv 7500000000 (AReq 15) (KLbClaim 0 (Some 1) 15);
 mkEv 7500000000 (AReq 15) (KClaim 1 15);
 mkEv 7500000000 (AReq 15) (KEnd 1 15);
 mkEv 7500000000 (AReq 16) (KRouted 16 (Some 0));
 mkEv 7500000000 (AReq 16) (KPick 16 0 (Some 0));
 mkEv 7500000000 (AReq 16) (KLbClaim 0 (Some 1) 16);
 mkEv 7500000000 (AReq 16) (KClaim 1 16);
 mkEv 7500000000 (AReq 16) (KEnd 1 16);
 mkEv 7500000000 (ACmd 2) (KIssue 2 CkDeploy [x77;x65;x62]);
 mkEv 7500000000 (ACmd 2) (KParams 2 2000000000 1000000000 0);
 mkEv 7500000000 AEnv (KSvcName 1 [x77;x65;x62]);
 mkEv 7500000000 (ACmd 2) (KSvcCopy 0 1);
 mkEv 7500000000 AEnv (KTargetName 3 [x6e;x33;x3a;x38;x30]);
 mkEv 7500000000 AEnv (KTargetName 4 [x6e;x34;x3a;x38;x30]);
 mkEv 7500000000 (ACmd 2) (KLbNew 1 [3;4]);
 mkEv 7500000000 (ACmd 2) (KDeployLb 1 false 1);
 mkEv 7500000000 (AGo 46) (KProbeApply 3 true TAdding THealthy);
 mkEv 7500000000 (AGo 46) (KRotation 1 [3]);
 mkEv 7500000000 (AGo 47) (KProbeApply 4 true TAdding THealthy);
 mkEv 7500000000 (AGo 47) (KRotation 1 [3;4]);
 mkEv 7500000000 (AGo 49) (KWaiter 4 true);
 mkEv 7500000000 (AGo 48) (KWaiter 3 true);
 mkEv 7500000000 (ACmd 2) (KDeployWaited 1 true);
 mkEv 7500000000 (ACmd 2) (KSlot 1 false 1 (Some 0));
 mkEv 7500000000 (ACmd 2) (KInstall 1 true);
 mkEv 7500000000 (AGo 52) (KStateSet 2 TUnhealthy TDraining);
 mkEv 7500000000 (AGo 52) (KStateSet 2 TDraining TUnhealthy);
 mkEv 7500000000 (AGo 50) (KStateSet 0 TUnhealthy TDraining);
 mkEv 7500000000 (AGo 50) (KStateSet 0 TDraining TUnhealthy);
 mkEv 7500000000 (AGo 51) (KStateSet 1 THealthy TDraining);
 mkEv 7500000000 (AGo 51) (KStateSet 1 TDraining THealthy);
 mkEv 7500000000 (ACmd 2) (KLbDispose 0);
 mkEv 7500000000 (ACmd 2) (KProbeStop 0);
 mkEv 7500000000 (ACmd 2) (KProbeStop 1);
 mkEv 7500000000 (ACmd 2) (KProbeStop 2);
 mkEv 7500000000 (ACmd 2) (KReturn 2 CROk);
 mkEv 7500000000 (AReq 17) (KRouted 17 (Some 1));
 mkEv 7500000000 (AReq 17) (KPick 17 1 (Some 1));
 mkEv 7500000000 (AReq 17) (KLbClaim 1 (Some 4) 17);
 mkEv 7500000000 (AReq 17) (KClaim 4 17);
 mkEv 7500000000 (AReq 17) (KEnd 4 17);
 mkEv 7500000000 (AReq 18) (KRouted 18 (Some 1));
 mkEv 7500000000 (AReq 18) (KPick 18 1 (Some 1));
 mkEv 7500000000 (AReq 18) (KLbClaim 1 (Some 3) 18);
 mkEv 7500000000 (AReq 18) (KClaim 3 18);
 mkEv 7500000000 (AReq 18) (KEnd 3 18);
 mkEv 7500000000 (AReq 19) (KRouted 19 (Some 1));
 mkEv 7500000000 (AReq 19) (KPick 19 1 (Some 1));
 mkEv 7500000000 (AReq 19) (KLbClaim 1 (Some 4) 19);
 mkEv 7500000000 (AReq 19) (KClaim 4 19);
 mkEv 7500000000 (AReq 19) (KEnd 4 19);
 mkEv 7600000000 (AGo 5) (KProbeStop 3);
 mkEv 7600000000 (AGo 5) (KProbeStop 4)].

Example real_trace_accepted : accepted real_trace = true.
Proof. vm_compute. reflexivity. Qed.

Example real_trace_monitor :
  c09_ok real_trace = true /\ c09_rebuild_ok real_trace = true /\ c09_restore_free real_trace = true /\ c01_ok real_trace = true.
Proof. repeat split; vm_compute; reflexivity. Qed.

(** it contains what the theorems speak about: a failing result on a healthy target, the rebuild
    without it, picks, a pick that finds no target, a recovery *)
Example real_trace_content :
  existsb (fun e => match e_k e with KProbeApply 0 false THealthy TUnhealthy => true | _ => false end) real_trace = true /\
  existsb (fun e => match e_k e with KRotation 0 [1; 2] => true | _ => false end) real_trace = true /\
  existsb (fun e => match e_k e with KLbClaim 0 None _ => true | _ => false end) real_trace = true /\
  existsb (fun e => match e_k e with KProbeApply 2 true TUnhealthy THealthy => true | _ => false end) real_trace = true /\
  length (claims_of 0 real_trace) = 15.
Proof. repeat split; vm_compute; reflexivity. Qed.

(** ** Exclusion does not hold with "a successful probe" alone (D12, second half)

    Recorded from the real code (scenario in the report of tools/c09.py): target 0 is being drained
    (pause of the service with a hanging request) when a probe succeeds (draining -> healthy),
    the next probe fails (healthy -> unhealthy, rotation [1]), the drain ends and WRITES BACK the
    pre-drain state "healthy" over the failed probe; the failing probe of target 1 then rebuilds
    the rotation as [0], and three requests are sent to target 0 although its latest probe failed
    and no probe has succeeded since. The acceptor accepts the trace (it is what the code does); the
    monitor [c09_ok] flags the rebuilt rotation, [c09_restore_free] the write. *)
Definition d12_trace : trace :=
[mkEv 0 (ACmd 1) (KIssue 1 CkDeploy [x77;x65;x62]);
 mkEv 0 (ACmd 1) (KParams 1 3000000000 1000000000 0);
 mkEv 0 AEnv (KTargetName 0 [x6e;x30;x3a;x38;x30]);
 mkEv 0 AEnv (KTargetName 1 [x6e;x31;x3a;x38;x30]);
 mkEv 0 (ACmd 1) (KLbNew 0 [0;1]);
 mkEv 0 AEnv (KSvcName 0 [x77;x65;x62]);
 mkEv 0 (ACmd 1) (KDeployLb 0 false 0);
 mkEv 0 (AGo 6) (KProbeApply 0 true TAdding THealthy);
 mkEv 0 (AGo 6) (KRotation 0 [0]);
 mkEv 0 (AGo 7) (KProbeApply 1 true TAdding THealthy);
 mkEv 0 (AGo 7) (KRotation 0 [0;1]);
 mkEv 0 (AGo 9) (KWaiter 1 true);
 mkEv 0 (AGo 8) (KWaiter 0 true);
 mkEv 0 (ACmd 1) (KDeployWaited 0 true);
 mkEv 0 (ACmd 1) (KSlot 0 false 0 None);
 mkEv 0 (ACmd 1) (KInstall 0 true);
 mkEv 0 (ACmd 1) (KReturn 1 CROk);
 mkEv 0 (AReq 1) (KRouted 1 (Some 0));
 mkEv 0 (AReq 1) (KPick 1 0 (Some 0));
 mkEv 0 (AReq 1) (KLbClaim 0 (Some 1) 1);
 mkEv 0 (AReq 1) (KClaim 1 1);
 mkEv 0 (AReq 2) (KRouted 2 (Some 0));
 mkEv 0 (AReq 2) (KPick 2 0 (Some 0));
 mkEv 0 (AReq 2) (KLbClaim 0 (Some 0) 2);
 mkEv 0 (AReq 2) (KClaim 0 2);
 mkEv 1000000000 (AGo 6) (KProbeApply 0 true THealthy THealthy);
 mkEv 1000000000 (AGo 7) (KProbeApply 1 true THealthy THealthy);
 mkEv 1000000000 (ACmd 2) (KIssue 2 CkPause [x77;x65;x62]);
 mkEv 1000000000 (ACmd 2) (KParams 2 0 2500000000 10000000000);
 mkEv 1000000000 (AGo 16) (KStateSet 1 THealthy TDraining);
 mkEv 1000000000 (AGo 16) (KDrainBegin 1 THealthy 2500000000);
 mkEv 1000000000 (AGo 15) (KStateSet 0 THealthy TDraining);
 mkEv 1000000000 (AGo 15) (KDrainBegin 0 THealthy 2500000000);
 mkEv 2000000000 (AGo 6) (KProbeApply 0 true TDraining THealthy);
 mkEv 2000000000 (AGo 6) (KRotation 0 [0]);
 mkEv 2000000000 (AGo 7) (KProbeApply 1 true TDraining THealthy);
 mkEv 2000000000 (AGo 7) (KRotation 0 [0;1]);
 mkEv 3000000000 (AGo 6) (KProbeApply 0 false THealthy TUnhealthy);
 mkEv 3000000000 (AGo 6) (KRotation 0 [1]);
 mkEv 3500000000 (AGo 16) (KStateSet 1 THealthy THealthy);
 mkEv 3500000000 (AReq 1) (KEnd 1 1);
 mkEv 3500000000 (AGo 15) (KStateSet 0 TUnhealthy THealthy);
 mkEv 3500000000 (ACmd 2) (KReturn 2 CROk);
 mkEv 3500000000 (AReq 2) (KEnd 0 2);
 mkEv 3600000000 (ACmd 3) (KIssue 3 CkResume [x77;x65;x62]);
 mkEv 3600000000 (ACmd 3) (KParams 3 0 0 0);
 mkEv 3600000000 (ACmd 3) (KReturn 3 CROk);
 mkEv 3700000000 (AGo 7) (KProbeApply 1 false THealthy TUnhealthy);
 mkEv 3700000000 (AGo 7) (KRotation 0 [0]);
 mkEv 3800000000 (AReq 3) (KRouted 3 (Some 0));
 mkEv 3800000000 (AReq 3) (KPick 3 0 (Some 0));
 mkEv 3800000000 (AReq 3) (KLbClaim 0 (Some 0) 3);
 mkEv 3800000000 (AReq 3) (KClaim 0 3);
 mkEv 3800000000 (AReq 3) (KEnd 0 3);
 mkEv 3800000000 (AReq 4) (KRouted 4 (Some 0));
 mkEv 3800000000 (AReq 4) (KPick 4 0 (Some 0));
 mkEv 3800000000 (AReq 4) (KLbClaim 0 (Some 0) 4);
 mkEv 3800000000 (AReq 4) (KClaim 0 4);
 mkEv 3800000000 (AReq 4) (KEnd 0 4);
 mkEv 3800000000 (AReq 5) (KRouted 5 (Some 0));
 mkEv 3800000000 (AReq 5) (KPick 5 0 (Some 0));
 mkEv 3800000000 (AReq 5) (KLbClaim 0 (Some 0) 5);
 mkEv 3800000000 (AReq 5) (KClaim 0 5);
 mkEv 3800000000 (AReq 5) (KEnd 0 5);
 mkEv 4000000000 (AGo 7) (KProbeApply 1 true TUnhealthy THealthy);
 mkEv 4000000000 (AGo 7) (KRotation 0 [0;1]);
 mkEv 4000000000 (AGo 6) (KProbeApply 0 false THealthy TUnhealthy);
 mkEv 4000000000 (AGo 6) (KRotation 0 [1]);
 mkEv 5000000000 (AGo 6) (KProbeApply 0 false TUnhealthy TUnhealthy);
 mkEv 5000000000 (AGo 7) (KProbeApply 1 true THealthy THealthy);
 mkEv 5300000000 (AReq 6) (KRouted 6 (Some 0));
 mkEv 5300000000 (AReq 6) (KPick 6 0 (Some 0));
 mkEv 5300000000 (AReq 6) (KLbClaim 0 (Some 1) 6);
 mkEv 5300000000 (AReq 6) (KClaim 1 6);
 mkEv 5300000000 (AReq 6) (KEnd 1 6);
 mkEv 5800000000 (AGo 5) (KProbeStop 0);
 mkEv 5800000000 (AGo 5) (KProbeStop 1)].

Theorem c09_exclusion_refuted_without_restore :
  exists tr i j k t lb hs r,
    accepted tr = true /\ i < j /\ j < k /\
    at_ tr i (KProbeApply t false THealthy TUnhealthy) /\
    at_ tr j (KRotation lb hs) /\ ~ In t hs /\
    at_ tr k (KLbClaim lb (Some t) r) /\
    existsb (fun e => match e_k e with KProbeApply t' true _ _ => Nat.eqb t' t | _ => false end)
            (firstn (k - S i) (skipn (S i) tr)) = false.
Proof.
  exists d12_trace, 37, 38, 51, 0, 0, [1], 3.
  split; [vm_compute; reflexivity|].
  split; [lia|]. split; [lia|].
  split; [eexists; split; reflexivity|].
  split; [eexists; split; reflexivity|].
  split; [intros [H|[]]; discriminate|].
  split; [eexists; split; reflexivity|].
  vm_compute. reflexivity.
Qed.
Print Assumptions c09_exclusion_refuted_without_restore.

Example d12_trace_monitors : c09_ok d12_trace = false /\ c09_restore_free d12_trace = false /\ c09_rebuild_ok d12_trace = true.
Proof. repeat split; vm_compute; reflexivity. Qed.

(** the flip draining -> healthy by a probe occurs in it *)
Example d12_trace_flip : at_ d12_trace 33 (KProbeApply 0 true TDraining THealthy).
Proof. eexists; split; reflexivity. Qed.

(** Doctored copies of the real trace are rejected: a pick that skips the round-robin successor,
    a claim by a target other than the one picked. *)
Fixpoint set_nth {A} (n : nat) (v : A) (l : list A) : list A :=
  match l, n with
  | [], _ => []
  | _ :: r, 0 => v :: r
  | x :: r, S n' => x :: set_nth n' v r
  end.

Example doctored_skip : accepted (set_nth 24 (mkEv 1000000000 (AReq 1) (KLbClaim 0 (Some 2) 1)) real_trace) = false.
Proof. vm_compute. reflexivity. Qed.

Example doctored_other_target : accepted (set_nth 25 (mkEv 1000000000 (AReq 1) (KClaim 0 1)) real_trace) = false.
Proof. vm_compute. reflexivity. Qed.

Example doctored_positions :
  nth_error real_trace 24 = Some (mkEv 1000000000 (AReq 1) (KLbClaim 0 (Some 1) 1)) /\
  nth_error real_trace 25 = Some (mkEv 1000000000 (AReq 1) (KClaim 1 1)).
Proof. split; reflexivity. Qed.
