(** C15 — Target failures become well-formed 502/504 responses, never hangs.
    Only statements; proofs are in proofs/ProxyErrorFacts.v. *)
From KP Require Import model.Base model.Trace model.Buffer model.ProxyError model.ErrorPage
  proofs.ProxyErrorFacts.
Local Open Scope N_scope.

(** [classify] is a total function of the error value, with the precedence of
    handleProxyError: request too large, then timeout, then client
    cancellation, then draining, else bad gateway.  In particular an error that
    is both a timeout and wraps context.Canceled is a 504, and one that carries
    both context.Canceled and ErrorDraining is a 499. *)
Theorem c15_classify : forall f,
  let e := info_of f in
  (is_max_bytes e = true -> classify f = 413) /\
  (is_max_bytes e = false -> is_timeout e = true -> classify f = 504) /\
  (is_max_bytes e = false -> is_timeout e = false -> is_canceled e = true -> classify f = 499) /\
  (is_max_bytes e = false -> is_timeout e = false -> is_canceled e = false -> is_draining e = true ->
     classify f = 504) /\
  (is_max_bytes e = false -> is_timeout e = false -> is_canceled e = false -> is_draining e = false ->
     classify f = 502).
Proof. intros f. exact (classify_info_cases (info_of f)). Qed.

(** The failures [http.Transport] reports, by name. *)
Theorem c15_classify_table :
  classify FBodyTooLarge = 413 /\ classify FHeaderTimeout = 504 /\ classify FDialTimeout = 504 /\
  classify FClientCancel = 499 /\ classify FDrainCancel = 504 /\
  classify FRefused = 502 /\ classify FReset = 502 /\ classify FEOF = 502 /\
  classify FMalformed = 502 /\ classify FPartialHeader = 502 /\ classify FOther = 502.
Proof. exact classify_named. Qed.

(** Every failure before a response header block has been passed on yields a
    complete response whose status is the classification: 502 or 504 for
    every target-side cause (413 / 499 only for the two client-side ones) —
    never 200, never nothing — whatever the buffering and page configuration. *)
Theorem c15_before_headers_status : forall c f,
  let o := serve c (TBFailBefore f) in
  let v := cview_of (o_events o) in
  complete o = true /\
  cv_status v = Some (classify f) /\
  client_status v = classify f /\
  (classify f = 413 \/ classify f = 504 \/ classify f = 499 \/ classify f = 502) /\
  (is_max_bytes (info_of f) = false -> is_canceled (info_of f) = false ->
     (classify f = 502 \/ classify f = 504) /\
     (classify f = 504 <-> is_timeout (info_of f) = true \/ is_draining (info_of f) = true)).
Proof.
  intros c f. cbv zeta. destruct (before_headers c f) as (H1 & H2 & _).
  split; [exact H1|]. split; [exact H2|]. split; [unfold client_status; rewrite H2; reflexivity|].
  split; [exact (classify_info_range (info_of f))|]. intros Hm Hc.
  split; [exact (classify_target_side f Hm Hc)|exact (classify_504_iff f Hm Hc)].
Qed.

(** The body: the service's page for that status if it has one, else the
    built-in page, else the <h1> fallback — as a function of which templates
    exist and of the status; served as text/html.  (499 has no page: the
    client is gone.) *)
Theorem c15_page : forall c f,
  classify f <> 499 ->
  let v := cview_of (o_events (serve c (TBFailBefore f))) in
  cv_html v = true /\
  cv_body v = match c_custom c with
              | Some cp => match lookup (classify f) cp with
                           | Some p => p
                           | None => match lookup (classify f) (c_builtin c) with
                                     | Some q => q | None => h1_page (classify f) end
                           end
              | None => match lookup (classify f) (c_builtin c) with
                        | Some q => q | None => h1_page (classify f) end
              end.
Proof. intros c f Hne. cbv zeta. destruct (before_headers c f) as (_ & _ & H). exact (H Hne). Qed.

(** The same for any status put into the slot (404, 503, a paused-out 504 …):
    the slot is consumed exactly once. *)
Theorem c15_page_any_status : forall custom builtin s,
  cview_of (fst (error_pages custom builtin (Some s))) = mkCv (Some s) true (page_for custom builtin s) /\
  snd (error_pages custom builtin (Some s)) = None.
Proof. exact error_pages_view. Qed.

(** Once a header has gone out an error page cannot replace the status. *)
Theorem c15_header_already_written : forall s0 rest custom builtin s,
  cv_status (cview_of (WWriteHeader s0 :: rest ++ fst (error_pages custom builtin (Some s)))) = Some s0.
Proof. intros. apply header_already_written. Qed.

(** A failure after the header block: the handler is aborted, no error page is
    appended, the response is never complete; with response buffering nothing
    of it has reached the client's writer at all. *)
Theorem c15_after_headers_cut_short : forall c s sent f,
  let o := serve c (TBFailAfter s sent f) in
  complete o = false /\
  o_events o = (if c_buffer_resp c then [] else [WWriteHeader s; WWrite sent]).
Proof. intros c s sent f. cbv zeta. rewrite serve_fail_after. split; reflexivity. Qed.

(** Nothing is left behind.  (a) the map itself: however the handler ends,
    the request is gone from the in-flight set (others untouched), so a
    snapshot taken afterwards does not contain it. *)
Theorem c15_no_residue : forall infl infl' r e,
  start_request false infl r = Some infl' ->
  ~ In r (drain_snapshot (send_request infl' r e)) /\
  (forall x, x <> r -> (In x (drain_snapshot (send_request infl' r e)) <-> In x infl)).
Proof.
  intros infl infl' r e Hs. unfold start_request in Hs. inversion Hs; subst infl'.
  unfold drain_snapshot. split.
  - rewrite send_request_spec. tauto.
  - intros x Hx. rewrite send_request_spec. cbn. split.
    + intros [[H|H] _]; [congruence|exact H].
    + intros H. split; [right; exact H|exact Hx].
Qed.

(** (b) on traces: in every trace the bookkeeping acceptor accepts, a request
    that has ended at a target is in no later drain snapshot of that target
    (unless claimed there again), and the events of one request — for every
    ending — are accepted and leave the set as they found it. *)
Theorem c15_no_residue_trace : forall pre e1 mid e2 post t r snap s,
  e_k e1 = KEnd t r -> e_k e2 = KDrainSnapshot t snap ->
  Forall (fun e => e_k e <> KClaim t r) mid ->
  run if_step if_init (pre ++ e1 :: mid ++ e2 :: post) = Some s ->
  ~ In r (map fst snap).
Proof. exact if_no_residue. Qed.

Theorem c15_request_events : forall s t r e,
  ~ In r (if_get s t) ->
  exists s', run if_step s (request_events t r e) = Some s' /\
             (forall x, In x (if_get s' t) <-> In x (if_get s t)) /\
             (forall t', t' <> t -> if_get s' t' = if_get s t').
Proof. exact request_events_accepted. Qed.

(** Non-vacuity. *)
Definition ex_builtin : templates := [(404, bs "B404"); (413, bs "B413"); (502, bs "B502"); (503, bs "B503"); (504, bs "B504")].
Definition ex_custom : templates := [(502, bs "custom502"); (503, bs "custom503"); (404, bs "custom404")].
Definition ex_cfg (buf : bool) (custom : bool) : chain_cfg :=
  mkCfg buf 1048576 0 (if custom then Some ex_custom else None) ex_builtin.

Example c15_example_refused_custom :
  cview_of (o_events (serve (ex_cfg true true) (TBFailBefore FRefused))) = mkCv (Some 502) true (bs "custom502").
Proof. vm_compute. reflexivity. Qed.

Example c15_example_timeout_falls_back_to_builtin :
  o_events (serve (ex_cfg false true) (TBFailBefore FHeaderTimeout)) =
    [WSetCT true; WWriteHeader 504; WSetCT true; WWriteHeader 504; WWrite (bs "B504")].
Proof. vm_compute. reflexivity. Qed.

Example c15_example_h1 :
  cv_body (cview_of (fst (error_pages None ex_builtin (Some 500)))) = bs "<h1>500 Internal Server Error</h1>".
Proof. vm_compute. reflexivity. Qed.

Example c15_example_precedence :
  classify (FInfo (mkErr false true true false)) = 504 /\
  classify (FInfo (mkErr false false true true)) = 499 /\
  classify (FInfo (mkErr true true true true)) = 413.
Proof. repeat split; reflexivity. Qed.

Example c15_example_trace_accepted :
  run if_step if_init
    [ev (KClaim 0 1); ev (KClaim 0 2); ev (KEnd 0 1); ev (KDrainSnapshot 0 [(2%nat, false)]); ev (KEnd 0 2);
     ev (KDrainSnapshot 0 [])] = Some [(0%nat, [])] /\
  run if_step if_init [ev (KClaim 0 1); ev (KEnd 0 1); ev (KDrainSnapshot 0 [(1%nat, false)])] = None.
Proof. vm_compute. split; reflexivity. Qed.

Print Assumptions c15_classify.
Print Assumptions c15_classify_table.
Print Assumptions c15_before_headers_status.
Print Assumptions c15_page.
Print Assumptions c15_page_any_status.
Print Assumptions c15_header_already_written.
Print Assumptions c15_after_headers_cut_short.
Print Assumptions c15_no_residue.
Print Assumptions c15_no_residue_trace.
Print Assumptions c15_request_events.
