(** C04 — Routing: exact host, then wildcard, then default; longest path
    prefix wins; the answer depends only on the set of deployed services.
    Only statements, each closed by [exact]; proofs are in proofs/ServiceMapFacts.v.

    Model: model/ServiceMap.v ([service_for], [route], [first_match],
    [request_host_key]) and model/Seq.v ([exec_all]). *)
From KP Require Import model.Base model.ServiceMap model.Seq proofs.ServiceMapFacts.
From Coq Require Import Permutation Sorted.

(** * The declarative specification

    (The definitions below repeat those of proofs/ServiceMapFacts.v verbatim so
    that the statement can be read here; [exact] checks that they coincide.) *)

(** A prefix as produced by NormalizePathPrefixes: "/" + Trim(x, "/"). *)
Definition normalised (p : str) : Prop := exists x, p = normalize_prefix x.
Definition norm_table (t : table) : Prop :=
  forall s p, In s t -> In p (bi_prefixes s) -> normalised p.

(** Service [n] of table [t] lists host [h] and path prefix [p]. *)
Definition binds (t : table) (h p n : str) : Prop :=
  exists s, In s t /\ bi_name s = n /\ In h (bi_hosts s) /\ In p (bi_prefixes s).
Definition lists_host (t : table) (h : str) : Prop :=
  exists s, In s t /\ In h (bi_hosts s).

(** "*" + the host from its first '.', provided that '.' is not the first byte. *)
Definition wildcard_of (host w : str) : Prop :=
  exists a b, host = a ++ dot :: b /\ a <> [] /\ ~ In dot a /\ w = star :: dot :: b.

(** The level of a host key: the exact host if some service lists it, else the
    wildcard of its parent domain if some service lists that, else "". *)
Definition level_of (t : table) (host l : str) : Prop :=
  (lists_host t host /\ l = host) \/
  (~ lists_host t host /\ exists w, wildcard_of host w /\ lists_host t w /\ l = w) \/
  (~ lists_host t host /\ (forall w, wildcard_of host w -> ~ lists_host t w) /\ l = []).

(** [p] matches [path] on a segment boundary.  (For a rooted path the side
    condition of the first case is vacuous, see [c04_seg_match_rooted].) *)
Definition seg_match (path p : str) : Prop :=
  (p = root_path /\ (path = [] \/ exists r, path = slash :: r)) \/
  path = p \/
  exists r, path = p ++ slash :: r.

Definition candidate (t : table) (l path p n : str) : Prop :=
  binds t l p n /\ seg_match path p.

(** The answer [Some (owner, prefix)] / [None] = 404: a matching binding of the
    host's level with no strictly longer matching binding at that level. *)
Definition route_spec (t : table) (host path : str) (r : option (str * str)) : Prop :=
  exists l, level_of t host l /\
  match r with
  | Some (n, p) => candidate t l path p n /\
                   forall p' n', candidate t l path p' n' -> length p' <= length p
  | None => forall p n, ~ candidate t l path p n
  end.

(** Descending prefix length, ties in any order. *)
Definition longer_first (a b : str * str) : Prop := length (fst b) <= length (fst a).
Definition desc_sorted (bs : list (str * str)) : Prop := Sorted longer_first bs.

(** No ':', '[' or ']'. *)
Definition plain (s : str) : Prop := ~ In colon s /\ ~ In x5b s /\ ~ In x5d s.

(** * The segment-boundary reading of the code's test *)

(** [HasPrefix(EnsureTrailingSlash(path), EnsureTrailingSlash(prefix))] is
    [seg_match], for every normalised prefix and every path. *)
Theorem c04_seg_match : forall path p,
  normalised p -> (prefix_matches path p = true <-> seg_match path p).
Proof. exact prefix_matches_seg. Qed.

Theorem c04_seg_match_rooted : forall r p,
  seg_match (slash :: r) p <->
  p = root_path \/ slash :: r = p \/ exists r', slash :: r = p ++ slash :: r'.
Proof. exact seg_match_rooted. Qed.

(** A path and the same path with one more trailing slash match the same
    prefixes ("/api" and "/api/" are routed alike). *)
Theorem c04_trailing_slash : forall path p,
  has_suffix path [slash] = false ->
  prefix_matches (path ++ [slash]) p = prefix_matches path p.
Proof. exact prefix_matches_trailing_slash. Qed.

(** Request paths that are not rooted ("*" of OPTIONS, "" of CONNECT): a
    non-empty one matches nothing, the empty one matches only "/". *)
Theorem c04_unrooted_path : forall path p,
  normalised p ->
  (seg_match path p -> path = [] \/ exists r, path = slash :: r) /\
  (seg_match [] p <-> p = root_path).
Proof.
  intros path p Hn. split; [exact (seg_match_path_shape path p Hn)|exact (seg_match_empty_path p Hn)].
Qed.

(** The executable level and wildcard are the declarative ones. *)
Theorem c04_level : forall t host l w,
  (level_of t host l <-> l = host_level t host) /\
  (wildcard_of host w <-> wildcard_key host = Some w).
Proof.
  intros t host l w. split; [exact (level_of_iff t host l)|].
  symmetry. exact (wildcard_key_iff host w).
Qed.

(** * c04_route_spec *)

(** [service_for] returns an answer meeting the specification; it answers
    [None] iff no binding of the level matches; and under unique ownership the
    specification has no other solution. *)
Theorem c04_route_spec : forall t host path,
  norm_table t ->
  route_spec t host path (service_for t host path) /\
  (service_for t host path = None <->
   forall l, level_of t host l -> forall p n, ~ candidate t l path p n) /\
  (pair_owned_once t = true ->
   forall r, route_spec t host path r -> r = service_for t host path).
Proof. exact route_spec_full. Qed.

(** Two matching bindings of one level with prefixes of equal length are the
    same binding. *)
Theorem c04_tie_unique : forall t l path p1 n1 p2 n2,
  pair_owned_once t = true -> norm_table t ->
  candidate t l path p1 n1 -> candidate t l path p2 n2 -> length p1 = length p2 ->
  p1 = p2 /\ n1 = n2.
Proof. exact tie_unique. Qed.

(** * Order independence *)

(** The code sorts the level's bindings by descending prefix length (unstable
    sort, random map order) and returns the first match. *)
Theorem c04_impl_order_free : forall t host path bs',
  pair_owned_once t = true -> norm_table t ->
  Permutation bs' (bindings_for t (host_level t host)) -> desc_sorted bs' ->
  first_match path bs' = service_for t host path.
Proof. exact impl_order_free. Qed.

(** The same for any list holding exactly the level's bindings (duplicates
    dropped or repeated). *)
Theorem c04_impl_order_free_set : forall t host path bs',
  pair_owned_once t = true -> norm_table t ->
  (forall p n, In (p, n) bs' <-> binds t (host_level t host) p n) -> desc_sorted bs' ->
  first_match path bs' = service_for t host path.
Proof. exact impl_order_free_set. Qed.

Theorem c04_table_order_free : forall t1 t2,
  Permutation t1 t2 -> pair_owned_once t1 = true -> norm_table t1 ->
  forall host path,
    service_for t1 host path = service_for t2 host path /\
    route t1 host path = route t2 host path.
Proof. exact table_order_free. Qed.

(** Every reachable table satisfies the hypotheses above. *)
Theorem c04_reachable_wf : forall v cs,
  let t := table_of (st_services (exec_all v init_state cs)) in
  pair_owned_once t = true /\ norm_table t /\
  (forall s, In s t -> bi_hosts s <> [] /\ bi_prefixes s <> []).
Proof. exact reachable_wf. Qed.

(** Two histories (any commands, restarts included, either variant) ending in
    the same set of services route every request identically. *)
Theorem c04_history_free : forall v1 v2 cs1 cs2,
  Permutation (table_of (st_services (exec_all v1 init_state cs1)))
              (table_of (st_services (exec_all v2 init_state cs2))) ->
  forall host_header path,
    route (table_of (st_services (exec_all v1 init_state cs1))) host_header path =
    route (table_of (st_services (exec_all v2 init_state cs2))) host_header path.
Proof. exact history_free. Qed.

(** * The host key *)

Theorem c04_port_ignored : forall h port,
  h <> [] -> plain h -> forallb is_digit port = true ->
  request_host_key (h ++ colon :: port) = h /\ request_host_key h = h.
Proof. exact port_ignored. Qed.

(** (any port text without ':', '[' , ']' — net.SplitHostPort does not look at it) *)
Theorem c04_port_ignored_gen : forall h port,
  h <> [] -> plain h -> plain port -> request_host_key (h ++ colon :: port) = h.
Proof. exact request_host_key_port. Qed.

(** IPv6 literals ("[a]" with a ':' inside): the port is ignored as well, the
    key keeps its brackets with and without a port. *)
Theorem c04_port_ignored_ipv6 : forall a port,
  In colon a -> ~ In x5b a -> ~ In x5d a -> plain port ->
  request_host_key (x5b :: a ++ x5d :: colon :: port) = x5b :: a ++ [x5d] /\
  request_host_key (x5b :: a ++ [x5d]) = x5b :: a ++ [x5d].
Proof. exact port_ignored_ipv6. Qed.

(** "[a]" without a port keeps its brackets, whatever [a] is ... *)
Theorem c04_ipv6_without_port_keeps_brackets : forall a,
  ~ In x5d a -> request_host_key (x5b :: a ++ [x5d]) = x5b :: a ++ [x5d].
Proof. exact request_host_key_bracket_no_port. Qed.

(** ... but a bracketed host WITHOUT ':' inside loses them when a port follows:
    "[abc]:80" is looked up as "abc", "[abc]" as "[abc]" (not an IPv6 literal;
    no client sends it). *)
Theorem c04_bracketed_name_with_port : forall a port,
  ~ In colon a -> ~ In x5b a -> ~ In x5d a -> plain port ->
  request_host_key (x5b :: a ++ x5d :: colon :: port) = a.
Proof. exact request_host_key_bracket_port_no_colon. Qed.

(** The tree as given ([request_host_key_pinned]) looked the two forms of one
    IPv6 authority up under different keys. *)
Theorem c04_refuted_pinned_ipv6 : exists a port,
  request_host_key_pinned (x5b :: a ++ x5d :: colon :: port) <>
  request_host_key_pinned (x5b :: a ++ [x5d]).
Proof. exact refuted_pinned_ipv6. Qed.

(** (for every literal: "[a]:port" gave "a", "[a]" gave "[a]") *)
Theorem c04_pinned_ipv6_keys : forall a port,
  ~ In x5b a -> ~ In x5d a -> plain port ->
  request_host_key_pinned (x5b :: a ++ x5d :: colon :: port) = a /\
  request_host_key_pinned (x5b :: a ++ [x5d]) = x5b :: a ++ [x5d].
Proof.
  intros a port Hl Hr Hp. split; [exact (request_host_key_pinned_bracket_port a port Hl Hr Hp)|].
  exact (request_host_key_pinned_bracket_no_port a Hr).
Qed.

(** For plain hosts nothing changed. *)
Theorem c04_pinned_port_ignored : forall h port,
  h <> [] -> plain h -> plain port -> request_host_key_pinned (h ++ colon :: port) = h.
Proof. exact request_host_key_pinned_port. Qed.

Example c04_ipv6_discrepancy :
  (request_host_key (bs "[::1]:80") = bs "[::1]" /\ request_host_key (bs "[::1]") = bs "[::1]") /\
  (request_host_key_pinned (bs "[::1]:80") = bs "::1" /\
   request_host_key_pinned (bs "[::1]") = bs "[::1]") /\
  (request_host_key (bs "[abc]:80") = bs "abc" /\ request_host_key (bs "[abc]") = bs "[abc]").
Proof. vm_compute. repeat split; reflexivity. Qed.

(** * Non-vacuity *)

Definition ex_table : table :=
  [ mkBI (bs "web")     [bs "example.com"]                    [bs "/"];
    mkBI (bs "api")     [bs "example.com"; bs "*.example.com"] [bs "/api"; bs "/api/v2"];
    mkBI (bs "apiary")  [bs "example.com"]                    [bs "/apiary"];
    mkBI (bs "default") [bs ""]                               [bs "/"] ].

Lemma ex_table_norm : norm_table ex_table.
Proof.
  intros s p Hs Hp. exists p.
  repeat (destruct Hs as [<-|Hs]; [repeat (destruct Hp as [<-|Hp]; [reflexivity|]); destruct Hp|]).
  destruct Hs.
Qed.

Example c04_example_hypotheses : pair_owned_once ex_table = true /\ norm_table ex_table.
Proof. split; [vm_compute; reflexivity|exact ex_table_norm]. Qed.

Example c04_example_routes :
  service_for ex_table (bs "example.com") (bs "/api/v2/x") = Some (bs "api", bs "/api/v2") /\
  service_for ex_table (bs "example.com") (bs "/api/") = Some (bs "api", bs "/api") /\
  service_for ex_table (bs "example.com") (bs "/apiary") = Some (bs "apiary", bs "/apiary") /\
  service_for ex_table (bs "example.com") (bs "/apix") = Some (bs "web", bs "/") /\
  service_for ex_table (bs "a.example.com") (bs "/api") = Some (bs "api", bs "/api") /\
  service_for ex_table (bs "a.example.com") (bs "/other") = None /\
  service_for ex_table (bs "a.b.example.com") (bs "/api") = Some (bs "default", bs "/") /\
  service_for ex_table (bs "other.org") (bs "*") = None /\
  route ex_table (bs "example.com:8080") (bs "/api") = Some (bs "api", bs "/api").
Proof. vm_compute. repeat split; reflexivity. Qed.

(** Two different sorted orders of the level "example.com" (the two prefixes
    of length 7 swapped) and a permuted table. *)
Definition ex_sorted1 : list (str * str) :=
  [ (bs "/apiary", bs "apiary"); (bs "/api/v2", bs "api"); (bs "/api", bs "api"); (bs "/", bs "web") ].
Definition ex_sorted2 : list (str * str) :=
  [ (bs "/api/v2", bs "api"); (bs "/apiary", bs "apiary"); (bs "/api", bs "api"); (bs "/", bs "web") ].

Example c04_example_sorted :
  Permutation ex_sorted1 (bindings_for ex_table (host_level ex_table (bs "example.com"))) /\
  desc_sorted ex_sorted1 /\
  Permutation ex_sorted2 (bindings_for ex_table (host_level ex_table (bs "example.com"))) /\
  desc_sorted ex_sorted2.
Proof.
  assert (S : forall l, l = ex_sorted1 \/ l = ex_sorted2 -> desc_sorted l).
  { intros l [-> | ->];
      repeat (apply Sorted_cons || apply Sorted_nil || apply HdRel_cons || apply HdRel_nil);
      unfold longer_first; cbn; lia. }
  assert (P1 : Permutation ex_sorted1 (bindings_for ex_table (host_level ex_table (bs "example.com")))).
  { apply Permutation_sym. exact (Permutation_rev [ (bs "/", bs "web"); (bs "/api", bs "api");
      (bs "/api/v2", bs "api"); (bs "/apiary", bs "apiary") ]). }
  repeat split; auto.
  eapply Permutation_trans; [|exact P1]. apply perm_swap.
Qed.

Example c04_example_permuted_table : Permutation ex_table (rev ex_table).
Proof. apply Permutation_rev. Qed.

(** Two histories (different order, a restart, a redeploy) ending in the same
    set of services: the hypothesis of [c04_history_free]. *)
Definition ex_dep (name : str) (hosts prefixes : list str) : cmd :=
  Deploy name (mkSopts hosts prefixes false false CertNone PagesNone false)
         (mkTopts (bs "/up") 0) [mkTgt (bs "t1:80") true].
Definition ex_hist1 : list cmd :=
  [ ex_dep (bs "a") [bs "x.com"] []; ex_dep (bs "b") [bs "x.com"; bs "*.x.com"] [bs "api/"] ].
Definition ex_hist2 : list cmd :=
  [ ex_dep (bs "b") [] []; ex_dep (bs "a") [bs "x.com"] [bs "/"]; Restart;
    ex_dep (bs "b") [bs "x.com"; bs "*.x.com"] [bs "/api"]; ex_dep (bs "a") [bs "x.com"] [bs "//"];
    Restart ].

Example c04_example_histories :
  Permutation (table_of (st_services (exec_all fixed init_state ex_hist1)))
              (table_of (st_services (exec_all pinned init_state ex_hist2))) /\
  table_of (st_services (exec_all fixed init_state ex_hist1)) <>
  table_of (st_services (exec_all pinned init_state ex_hist2)) /\
  table_of (st_services (exec_all fixed init_state ex_hist1)) <> [].
Proof.
  repeat split.
  - vm_compute. apply perm_swap.
  - vm_compute. intros H. discriminate.
  - vm_compute. intros H. discriminate.
Qed.

(** Hypotheses of [c04_port_ignored]. *)
Example c04_example_port :
  bs "example.com" <> [] /\ plain (bs "example.com") /\ forallb is_digit (bs "8080") = true /\
  request_host_key (bs "example.com:8080") = bs "example.com".
Proof.
  repeat split; try (vm_compute; reflexivity); intros H; vm_compute in H; intuition discriminate.
Qed.

Print Assumptions c04_seg_match.
Print Assumptions c04_seg_match_rooted.
Print Assumptions c04_trailing_slash.
Print Assumptions c04_unrooted_path.
Print Assumptions c04_level.
Print Assumptions c04_route_spec.
Print Assumptions c04_tie_unique.
Print Assumptions c04_impl_order_free.
Print Assumptions c04_impl_order_free_set.
Print Assumptions c04_table_order_free.
Print Assumptions c04_reachable_wf.
Print Assumptions c04_history_free.
Print Assumptions c04_port_ignored.
Print Assumptions c04_port_ignored_gen.
Print Assumptions c04_port_ignored_ipv6.
Print Assumptions c04_ipv6_without_port_keeps_brackets.
Print Assumptions c04_bracketed_name_with_port.
Print Assumptions c04_refuted_pinned_ipv6.
Print Assumptions c04_pinned_ipv6_keys.
Print Assumptions c04_pinned_port_ignored.
