package server

// C12 at file-system granularity, independent of where the hooks sit: an
// inotify watch on the state DIRECTORY while commands run on a real Router
// under the real scheduler (no synctest bubble, no yields armed).  The ordered
// list of (mask, name) events is the observation; the monitor
// (corr/C12corr.v: c12_fs_ok) reads nothing else.
//
// Case: {"steps": [ <command> | {"par": [<command>, <command>]} ... ]} with the
// command objects of harness/sim_test.go (op, id, name, targets, ...).  Steps
// run one after the other, the commands of a "par" step concurrently.

import (
	"encoding/binary"
	"fmt"
	"path/filepath"
	"sync"
	"syscall"
	"testing"
)

const c12fsMask = syscall.IN_CREATE | syscall.IN_DELETE | syscall.IN_MODIFY | syscall.IN_MOVED_FROM |
	syscall.IN_MOVED_TO | syscall.IN_CLOSE_WRITE | syscall.IN_ATTRIB

// c12fsDrain reads everything queued on the (non-blocking) inotify descriptor.
func c12fsDrain(fd int, out *[][]any) error {
	buf := make([]byte, 1<<16)
	for {
		n, err := syscall.Read(fd, buf)
		if err == syscall.EAGAIN || err == syscall.EWOULDBLOCK {
			return nil
		}
		if err == syscall.EINTR {
			continue
		}
		if err != nil {
			return err
		}
		if n <= 0 {
			return nil
		}
		for off := 0; off+syscall.SizeofInotifyEvent <= n; {
			mask := binary.LittleEndian.Uint32(buf[off+4:])
			ln := int(binary.LittleEndian.Uint32(buf[off+12:]))
			name := buf[off+syscall.SizeofInotifyEvent : off+syscall.SizeofInotifyEvent+ln]
			for len(name) > 0 && name[len(name)-1] == 0 {
				name = name[:len(name)-1]
			}
			*out = append(*out, []any{mask, string(name)})
			off += syscall.SizeofInotifyEvent + ln
		}
	}
}

func c12fsRun(t *testing.T, sc map[string]any) map[string]any {
	dir := t.TempDir()
	s := newSim(t, dir)
	restore := s.install()
	defer restore()
	s.router = NewRouter(s.statePath)

	fd, err := syscall.InotifyInit1(syscall.IN_NONBLOCK | syscall.IN_CLOEXEC)
	if err != nil {
		t.Fatalf("verif: inotify_init1: %v", err)
	}
	defer syscall.Close(fd)
	if _, err := syscall.InotifyAddWatch(fd, dir, c12fsMask); err != nil {
		t.Fatalf("verif: inotify_add_watch: %v", err)
	}

	fsEvents := [][]any{}
	overflow := false
	run := func(c map[string]any) {
		id := vStr(c["id"])
		s.mu.Lock()
		s.gidNames[vGoid()] = id
		s.mu.Unlock()
		s.record(s.runCommand(id, c))
		s.mu.Lock()
		delete(s.gidNames, vGoid())
		s.mu.Unlock()
	}
	for _, st := range vList(sc["steps"]) {
		c := st.(map[string]any)
		if par := vList(c["par"]); len(par) > 0 {
			var wg sync.WaitGroup
			for _, p := range par {
				wg.Add(1)
				go func(pc map[string]any) {
					defer wg.Done()
					run(pc)
				}(p.(map[string]any))
			}
			wg.Wait()
		} else {
			run(c)
		}
		if err := c12fsDrain(fd, &fsEvents); err != nil {
			t.Fatalf("verif: inotify read: %v", err)
		}
	}
	s.cleanup()
	if err := c12fsDrain(fd, &fsEvents); err != nil {
		t.Fatalf("verif: inotify read: %v", err)
	}
	for _, e := range fsEvents {
		if e[0].(uint32)&syscall.IN_Q_OVERFLOW != 0 {
			overflow = true
		}
	}
	hooks := map[string]int{}
	s.mu.Lock()
	for _, e := range s.events {
		switch e.Kind {
		case "snap-collect", "snap-create", "snap-write", "snap-rename":
			hooks[e.Kind]++
		}
	}
	results := s.results
	s.mu.Unlock()
	return map[string]any{"fs_events": fsEvents, "state_name": filepath.Base(s.statePath), "results": results,
		"hooks": hooks, "overflow": overflow, "final_state_file": s.stateFile(), "final_cfg": c12Config(s.router),
		"dir": fmt.Sprint(vDirSizes(dir))}
}

// TestVerifC12FS: real scheduler, real file system, inotify on the state directory.
func TestVerifC12FS(t *testing.T) {
	cases := verifCases(t)
	out := verifOpenOut(t)
	defer out.close()
	vMakeAssets(t)
	for i, sc := range cases {
		res := c12fsRun(t, sc)
		res["i"] = i
		out.emit(res)
	}
}
