package server

// C12 at file-system granularity, independent of where the hooks sit: an
// inotify watch on the state DIRECTORY while commands run on a real Router
// under the real scheduler (no synctest bubble, no yields armed).  The ordered
// list of (mask, name) events is the observation; the monitor
// (corr/C12corr.v: c12_fs_ok) reads nothing else.
//
// Case: {"steps": [ <command> | {"par": [<command>, <command>]} ... ]} with the
// command objects of harness/sim_test.go (op, id, name, targets, ...).  Steps
// run one after the other, the commands of a "par" step concurrently.

import (
	"encoding/binary"
	"encoding/json"
	"fmt"
	"io"
	"net/http"
	"os"
	"path/filepath"
	"sort"
	"strconv"
	"strings"
	"sync"
	"syscall"
	"testing"
	"time"
)

const c12fsMask = syscall.IN_CREATE | syscall.IN_DELETE | syscall.IN_MODIFY | syscall.IN_MOVED_FROM |
	syscall.IN_MOVED_TO | syscall.IN_CLOSE_WRITE | syscall.IN_ATTRIB

// c12fsDrain reads everything queued on the (non-blocking) inotify descriptor.
func c12fsDrain(fd int, out *[][]any) error {
	buf := make([]byte, 1<<16)
	for {
		n, err := syscall.Read(fd, buf)
		if err == syscall.EAGAIN || err == syscall.EWOULDBLOCK {
			return nil
		}
		if err == syscall.EINTR {
			continue
		}
		if err != nil {
			return err
		}
		if n <= 0 {
			return nil
		}
		for off := 0; off+syscall.SizeofInotifyEvent <= n; {
			mask := binary.LittleEndian.Uint32(buf[off+4:])
			ln := int(binary.LittleEndian.Uint32(buf[off+12:]))
			name := buf[off+syscall.SizeofInotifyEvent : off+syscall.SizeofInotifyEvent+ln]
			for len(name) > 0 && name[len(name)-1] == 0 {
				name = name[:len(name)-1]
			}
			*out = append(*out, []any{mask, string(name)})
			off += syscall.SizeofInotifyEvent + ln
		}
	}
}

func c12fsRun(t *testing.T, sc map[string]any) map[string]any {
	dir := t.TempDir()
	s := newSim(t, dir)
	restore := s.install()
	defer restore()
	s.router = NewRouter(s.statePath)
	if vBool(sc["no_hooks"]) {
		// the hook callbacks cost some microseconds inside the snapshot's critical section, enough to hide races that
		// are decided within a microsecond after it: these scenarios run with the hooks inert, as in production
		verifEventFn, verifYieldFn = nil, nil
	}

	fd, err := syscall.InotifyInit1(syscall.IN_NONBLOCK | syscall.IN_CLOEXEC)
	if err != nil {
		t.Fatalf("verif: inotify_init1: %v", err)
	}
	defer syscall.Close(fd)
	if _, err := syscall.InotifyAddWatch(fd, dir, c12fsMask); err != nil {
		t.Fatalf("verif: inotify_add_watch: %v", err)
	}

	fsEvents := [][]any{}
	afterPar := []any{}
	overflow := false
	run := func(c map[string]any) {
		id := vStr(c["id"])
		s.mu.Lock()
		s.gidNames[vGoid()] = id
		s.mu.Unlock()
		s.record(s.runCommand(id, c))
		s.mu.Lock()
		delete(s.gidNames, vGoid())
		s.mu.Unlock()
	}
	for _, st := range vList(sc["steps"]) {
		c := st.(map[string]any)
		if par := vList(c["par"]); len(par) > 0 {
			var wg sync.WaitGroup
			for _, p := range par {
				wg.Add(1)
				go func(pc map[string]any) {
					defer wg.Done()
					run(pc)
				}(p.(map[string]any))
			}
			wg.Wait()
			// all the overlapping commands have returned: the file must describe the configuration in force NOW (a later
			// snapshot would paper over one that got lost here)
			afterPar = append(afterPar, map[string]any{"state_file": s.stateFile(), "cfg": c12Config(s.router)})
		} else {
			run(c)
		}
		if err := c12fsDrain(fd, &fsEvents); err != nil {
			t.Fatalf("verif: inotify read: %v", err)
		}
	}
	s.cleanup()
	if err := c12fsDrain(fd, &fsEvents); err != nil {
		t.Fatalf("verif: inotify read: %v", err)
	}
	for _, e := range fsEvents {
		if e[0].(uint32)&syscall.IN_Q_OVERFLOW != 0 {
			overflow = true
		}
	}
	hooks := map[string]int{}
	s.mu.Lock()
	for _, e := range s.events {
		switch e.Kind {
		case "snap-collect", "snap-create", "snap-write", "snap-rename":
			hooks[e.Kind]++
		}
	}
	results := s.results
	s.mu.Unlock()
	return map[string]any{"fs_events": fsEvents, "state_name": filepath.Base(s.statePath), "results": results,
		"hooks": hooks, "overflow": overflow, "final_state_file": s.stateFile(), "final_cfg": c12Config(s.router), "after_par": afterPar, "no_hooks": vBool(sc["no_hooks"]),
		"dir": fmt.Sprint(vDirSizes(dir))}
}

// TestVerifC12FS: real scheduler, real file system, inotify on the state directory.
func TestVerifC12FS(t *testing.T) {
	cases := verifCases(t)
	out := verifOpenOut(t)
	defer out.close()
	vMakeAssets(t)
	for i, sc := range cases {
		res := c12fsRun(t, sc)
		res["i"] = i
		out.emit(res)
	}
}

// TestVerifC12Burst: "once all overlapping commands have returned the file describes the configuration in force", with
// MANY quick commands at once and the hooks inert (as in production): round after round eight `rollout set` commands on
// two services are issued together; when all have returned the state file is compared with the configuration in force.
// Only stale rounds are written out (with both sides), plus one summary row.
func TestVerifC12Burst(t *testing.T) {
	if os.Getenv("VERIF_OUT") == "" {
		t.Skip("VERIF_OUT not set")
	}
	rounds, _ := strconv.Atoi(os.Getenv("VERIF_ROUNDS"))
	if rounds == 0 {
		rounds = 2000
	}
	out := verifOpenOut(t)
	defer out.close()
	oldT := http.DefaultTransport
	http.DefaultTransport = c12OKTransport{}
	defer func() { http.DefaultTransport = oldT }()
	statePath := filepath.Join(t.TempDir(), "state.json")
	router := NewRouter(statePath)
	topts := TargetOptions{HealthCheckConfig: HealthCheckConfig{Path: "/up", Interval: time.Hour, Timeout: time.Second}, ResponseTimeout: time.Second}
	// many services: a snapshot takes a while to write, so commands queue up behind one another for it (a mutex whose
	// waiters have waited long hands the lock over directly and the unlocking goroutine steps aside)
	names := []string{}
	for i := 0; i < 48; i++ {
		names = append(names, "svc"+strconv.Itoa(i))
	}
	for i, name := range names {
		if err := router.DeployService(name, []string{"t" + strconv.Itoa(i) + ":80"}, ServiceOptions{Hosts: []string{name + ".test"}}, topts, time.Second, time.Millisecond); err != nil {
			t.Fatalf("verif: deploy: %v", err)
		}
		if i < 8 {
			if err := router.SetRolloutTargets(name, []string{"r" + strconv.Itoa(i) + ":80"}, time.Second, time.Millisecond); err != nil {
				t.Fatalf("verif: rollout deploy: %v", err)
			}
		}
	}
	defer func() {
		for _, name := range names {
			router.RemoveService(name)
		}
	}()
	canon := func(v any) string { b, _ := json.Marshal(v); return string(b) }
	stale := 0
	for round := 0; round < rounds; round++ {
		var wg sync.WaitGroup
		start := make(chan struct{})
		for j := 0; j < 8; j++ {
			wg.Add(1)
			go func(j int) {
				defer wg.Done()
				<-start
				for k := 0; k < 4; k++ { // each client issues a few commands in a row for its own service
					router.SetRolloutSplit(names[j], (round*8+j+k)%101, []string{"v" + strconv.Itoa(round*32+j*4+k)})
				}
			}(j)
		}
		close(start)
		wg.Wait()
		var file any = map[string]any{"error": "absent"}
		if b, err := os.ReadFile(statePath); err == nil {
			file = c12Parse(b, nil)
		}
		cfg := c12Config(router)
		// the file lists the services in the order of the table walk: compare as sets of services
		if !c12SameServices(file, cfg) {
			stale++
			if stale <= 3 {
				out.emit(map[string]any{"round": round, "state_file": canon(file), "configuration_in_force": canon(cfg)})
			}
		}
	}
	out.emit(map[string]any{"summary": true, "rounds": rounds, "commands": rounds * 32, "services": len(names), "stale_rounds": stale})
}

type c12OKTransport struct{}

func (c12OKTransport) RoundTrip(req *http.Request) (*http.Response, error) {
	return &http.Response{StatusCode: 200, Status: "200 OK", Proto: "HTTP/1.1", ProtoMajor: 1, ProtoMinor: 1,
		Header: http.Header{}, Body: io.NopCloser(strings.NewReader("")), Request: req}, nil
}

func c12SameServices(a, b any) bool {
	la, ok1 := a.([]any)
	lb, ok2 := b.([]any)
	if !ok1 || !ok2 || len(la) != len(lb) {
		return false
	}
	key := func(l []any) []string {
		out := []string{}
		for _, x := range l {
			j, _ := json.Marshal(x)
			out = append(out, string(j))
		}
		sort.Strings(out)
		return out
	}
	ka, kb := key(la), key(lb)
	for i := range ka {
		if ka[i] != kb[i] {
			return false
		}
	}
	return true
}
