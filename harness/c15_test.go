package server

// C15 — target failures.  Fault enumeration against the real code:
//
// TestVerifC15: one real Server (buildHandler chain, real listener), eight
// services (request buffering x response buffering x custom error pages), each
// in front of its own byte-level scripted TCP target on loopback, reached
// through the target's own *http.Transport* (only its DialContext is wrapped,
// to redirect a dial to a refusing / black-holing address), so that every wire
// fault produces the real Go error.  The client is a raw TCP connection, so a
// truncated response is seen as it is on the wire.  Real time, with a short
// target timeout.
//
// TestVerifC15Stall: the stall durations right at the target timeout (-1 ns,
// 0, +1 ns, ...) need an exact clock: the same chain (buildHandler + a service
// deployed through the Router, the real http.Transport) inside a
// testing/synctest bubble with the target on a net.Pipe.

import (
	"bufio"
	"bytes"
	"context"
	"errors"
	"fmt"
	"io"
	"log/slog"
	"net"
	"net/http"
	"net/http/httptest"
	"net/http/httputil"
	"os"
	"path/filepath"
	"strconv"
	"strings"
	"sync"
	"syscall"
	"testing"
	"testing/synctest"
	"time"
)

const vC15Header = "X-Verif-Case"

func vC15Body(start, n int) []byte {
	b := make([]byte, n)
	for i := range b {
		b[i] = byte((start + i) % 251)
	}
	return b
}

type vC15Head struct {
	method, path string
	headers      map[string]string
	cl           int64
	chunked      bool
}

func vC15ReadHead(br *bufio.Reader) (*vC15Head, error) {
	line, err := br.ReadString('\n')
	if err != nil {
		return nil, err
	}
	f := strings.Fields(line)
	if len(f) < 2 {
		return nil, errors.New("bad request line")
	}
	h := &vC15Head{method: f[0], path: f[1], headers: map[string]string{}, cl: 0}
	for {
		l, err := br.ReadString('\n')
		if err != nil {
			return nil, err
		}
		l = strings.TrimRight(l, "\r\n")
		if l == "" {
			break
		}
		k, v, _ := strings.Cut(l, ":")
		k = strings.ToLower(strings.TrimSpace(k))
		v = strings.TrimSpace(v)
		h.headers[k] = v
		switch k {
		case "content-length":
			h.cl, _ = strconv.ParseInt(v, 10, 64)
		case "transfer-encoding":
			h.chunked = strings.Contains(strings.ToLower(v), "chunked")
		}
	}
	return h, nil
}

// ---- the scripted target ----

type vC15Target struct {
	ln  net.Listener
	mu  sync.Mutex
	cur map[string]any // the step being executed (nil: answer 200 to anything)
	// per step
	hits   int
	sentAt int64 // ms between having read the request and writing the header block; -1: never
}

func (t *vC15Target) current() map[string]any {
	t.mu.Lock()
	defer t.mu.Unlock()
	return t.cur
}

func (t *vC15Target) begin(step map[string]any) {
	t.mu.Lock()
	t.cur, t.hits, t.sentAt = step, 0, -1
	t.mu.Unlock()
}

func (t *vC15Target) serve() {
	for {
		c, err := t.ln.Accept()
		if err != nil {
			return
		}
		go t.conn(c)
	}
}

func vC15Reset(c net.Conn) {
	if tc, ok := c.(*net.TCPConn); ok {
		tc.SetLinger(0)
	}
	c.Close()
}

func (t *vC15Target) conn(c net.Conn) {
	defer c.Close()
	if st := t.current(); st != nil && vStr(st["fault"]) == "close_immediately" {
		t.mu.Lock()
		t.hits++
		t.mu.Unlock()
		return
	}
	if st := t.current(); st != nil && vStr(st["fault"]) == "write_stall" {
		// accept, never read: a large request body cannot be written
		t.mu.Lock()
		t.hits++
		t.mu.Unlock()
		c.SetReadDeadline(time.Now().Add(30 * time.Second))
		time.Sleep(time.Duration(vInt(st["hold_ms"])) * time.Millisecond)
		return
	}
	br := bufio.NewReaderSize(c, 1<<16)
	for {
		h, err := vC15ReadHead(br)
		if err != nil {
			return
		}
		if h.chunked {
			if _, err := io.Copy(io.Discard, httputil.NewChunkedReader(br)); err != nil {
				return
			}
			br.ReadString('\n')
		} else if h.cl > 0 {
			if _, err := io.CopyN(io.Discard, br, h.cl); err != nil {
				return
			}
		}
		st := t.current()
		if st == nil || h.headers[strings.ToLower(vC15Header)] == "" {
			c.Write([]byte("HTTP/1.1 200 OK\r\nContent-Length: 0\r\n\r\n"))
			continue
		}
		t0 := time.Now()
		t.mu.Lock()
		t.hits++
		t.mu.Unlock()
		if !t.respond(c, st, t0) {
			return
		}
	}
}

// respond plays the step's script; true = keep the connection.
func (t *vC15Target) respond(c net.Conn, st map[string]any, t0 time.Time) bool {
	status := int(vInt(st["status"]))
	if status == 0 {
		status = 200
	}
	body := vC15Body(int(vInt(st["body_start"])), int(vInt(st["body_len"])))
	prefix := int(vInt(st["prefix_len"]))
	if prefix > len(body) {
		prefix = len(body)
	}
	sent := func() {
		t.mu.Lock()
		t.sentAt = time.Since(t0).Milliseconds()
		t.mu.Unlock()
	}
	head := fmt.Sprintf("HTTP/1.1 %d %s\r\nContent-Type: application/octet-stream\r\n", status, http.StatusText(status))
	keep := vBool(st["keepalive"])
	conn := "Connection: close\r\n"
	if keep {
		conn = ""
	}
	okCL := func() bool {
		sent()
		c.Write([]byte(head + conn + fmt.Sprintf("Content-Length: %d\r\n\r\n", len(body))))
		c.Write(body)
		return keep
	}
	chunk := func(b []byte) []byte {
		return append(append([]byte(fmt.Sprintf("%x\r\n", len(b))), b...), '\r', '\n')
	}
	switch vStr(st["fault"]) {
	case "close_immediately", "refused", "dial_blackhole", "write_stall":
		// a dial-level fault met on a kept-alive connection (the generator avoids it)
		return false
	case "ok_cl":
		return okCL()
	case "ok_chunked":
		sent()
		c.Write([]byte(head + conn + "Transfer-Encoding: chunked\r\n\r\n"))
		for i := 0; i < len(body); i += 1000 {
			c.Write(chunk(body[i:min(i+1000, len(body))]))
		}
		c.Write([]byte("0\r\n\r\n"))
		return keep
	case "stall":
		time.Sleep(time.Duration(vInt(st["stall_ms"])) * time.Millisecond)
		return okCL()
	case "silence":
		c.SetReadDeadline(time.Now().Add(30 * time.Second))
		io.Copy(io.Discard, c) // until the proxy gives up
		return false
	case "close_after_read":
		return false
	case "reset_before":
		vC15Reset(c)
		return false
	case "garbage":
		c.Write([]byte("BLAH BLAH BLAH\r\nnot: http\r\n\r\n"))
		return false
	case "partial_status":
		c.Write([]byte("HTTP/1.1 200"))
		return false
	case "partial_header":
		c.Write([]byte(head + "Content-Le"))
		return false
	case "early_hints_close":
		c.Write([]byte("HTTP/1.1 103 Early Hints\r\nLink: </style.css>; rel=preload\r\n\r\n"))
		time.Sleep(20 * time.Millisecond)
		return false
	case "reset_mid_cl":
		sent()
		c.Write([]byte(head + conn + fmt.Sprintf("Content-Length: %d\r\n\r\n", len(body))))
		c.Write(body[:prefix])
		time.Sleep(30 * time.Millisecond)
		vC15Reset(c)
		return false
	case "close_mid_cl":
		sent()
		c.Write([]byte(head + conn + fmt.Sprintf("Content-Length: %d\r\n\r\n", len(body))))
		c.Write(body[:prefix])
		return false
	case "close_mid_chunk":
		sent()
		c.Write([]byte(head + conn + "Transfer-Encoding: chunked\r\n\r\n"))
		c.Write([]byte(fmt.Sprintf("%x\r\n", len(body))))
		c.Write(body[:prefix])
		return false
	case "no_terminal_chunk":
		sent()
		c.Write([]byte(head + conn + "Transfer-Encoding: chunked\r\n\r\n"))
		if prefix > 0 {
			c.Write(chunk(body[:prefix]))
		}
		return false
	case "bad_chunk_size":
		sent()
		c.Write([]byte(head + conn + "Transfer-Encoding: chunked\r\n\r\n"))
		if prefix > 0 {
			c.Write(chunk(body[:prefix]))
		}
		c.Write([]byte("zz\r\nxx\r\n0\r\n\r\n"))
		return false
	case "reset_mid_eof":
		sent()
		c.Write([]byte(head + "Connection: close\r\n\r\n"))
		c.Write(body[:prefix])
		time.Sleep(30 * time.Millisecond)
		vC15Reset(c)
		return false
	case "cl_too_small":
		sent()
		c.Write([]byte(head + "Connection: close\r\n" + fmt.Sprintf("Content-Length: %d\r\n\r\n", prefix)))
		c.Write(body)
		return false
	}
	panic("verif: unknown fault " + vStr(st["fault"]))
}

// vC15ClosedPort reserves a loopback port that refuses connections (bound,
// not listening) for the lifetime of the test.
func vC15ClosedPort(t *testing.T) string {
	fd, err := syscall.Socket(syscall.AF_INET, syscall.SOCK_STREAM, 0)
	if err != nil {
		t.Fatalf("verif: socket: %v", err)
	}
	t.Cleanup(func() { syscall.Close(fd) })
	if err := syscall.Bind(fd, &syscall.SockaddrInet4{Addr: [4]byte{127, 0, 0, 1}}); err != nil {
		t.Fatalf("verif: bind: %v", err)
	}
	sa, _ := syscall.Getsockname(fd)
	return fmt.Sprintf("127.0.0.1:%d", sa.(*syscall.SockaddrInet4).Port)
}

// vC15Blackhole: a listening socket with backlog 0 whose only accept-queue
// slot is taken: further SYNs are dropped, a connect() neither succeeds nor
// fails (a target whose accept queue is full).
func vC15Blackhole(t *testing.T) (string, bool) {
	fd, err := syscall.Socket(syscall.AF_INET, syscall.SOCK_STREAM, 0)
	if err != nil {
		t.Fatalf("verif: socket: %v", err)
	}
	t.Cleanup(func() { syscall.Close(fd) })
	if err := syscall.Bind(fd, &syscall.SockaddrInet4{Addr: [4]byte{127, 0, 0, 1}}); err != nil {
		t.Fatalf("verif: bind: %v", err)
	}
	if err := syscall.Listen(fd, 0); err != nil {
		t.Fatalf("verif: listen: %v", err)
	}
	sa, _ := syscall.Getsockname(fd)
	addr := fmt.Sprintf("127.0.0.1:%d", sa.(*syscall.SockaddrInet4).Port)
	// fill the queue, then check that a further connect really hangs
	var held []net.Conn
	t.Cleanup(func() {
		for _, c := range held {
			c.Close()
		}
	})
	for i := 0; i < 8; i++ {
		c, err := net.DialTimeout("tcp", addr, 300*time.Millisecond)
		if err != nil {
			var ne net.Error
			return addr, errors.As(err, &ne) && ne.Timeout()
		}
		held = append(held, c)
	}
	return addr, false
}

type vC15Svc struct {
	name    string
	host    string
	target  *vC15Target
	service func() *Service
	mu      sync.Mutex
	events  [][]any
}

func (s *vC15Svc) inflight() int {
	n := 0
	sv := s.service()
	if sv == nil {
		return -1
	}
	for _, tg := range sv.active.Targets() {
		tg.inflightLock.Lock()
		n += len(tg.inflight)
		tg.inflightLock.Unlock()
	}
	return n
}

// vC15Parse decodes what the raw client received.
func vC15Parse(raw []byte, method string, res map[string]any) {
	br := bufio.NewReader(bytes.NewReader(raw))
	interim := []int{}
	for {
		resp, err := http.ReadResponse(br, &http.Request{Method: method})
		if err != nil {
			res["wellformed"] = false
			res["parse_err"] = err.Error()
			res["interim"] = interim
			return
		}
		if resp.StatusCode >= 100 && resp.StatusCode < 200 {
			interim = append(interim, resp.StatusCode)
			continue
		}
		body, err := io.ReadAll(resp.Body)
		rest, _ := io.ReadAll(br)
		res["wellformed"] = true
		res["interim"] = interim
		res["status"] = resp.StatusCode
		res["ct"] = resp.Header.Get("Content-Type")
		res["cl"] = resp.ContentLength
		res["chunked"] = len(resp.TransferEncoding) > 0 && resp.TransferEncoding[0] == "chunked"
		res["body"] = vHex(body)
		res["complete"] = err == nil
		if err != nil {
			res["body_err"] = err.Error()
		}
		res["extra"] = len(rest)
		return
	}
}

// c15MakePages: the custom error pages of this check: the shared good set plus a 504 page that is a template with a field
// reference (target failures are rendered with nil arguments: the {{ else }} branch).
func c15MakePages(t *testing.T) string {
	dir := filepath.Join(t.TempDir(), "pages_c15")
	os.MkdirAll(dir, 0o700)
	if entries, err := os.ReadDir(filepath.Join(vAssets, "pages_good")); err == nil {
		for _, e := range entries {
			if b, err := os.ReadFile(filepath.Join(vAssets, "pages_good", e.Name())); err == nil {
				os.WriteFile(filepath.Join(dir, e.Name()), b, 0o600)
			}
		}
	}
	os.WriteFile(filepath.Join(dir, "504.html"), []byte("custom504[{{ if .Message }}{{ .Message }}{{ else }}none{{ end }}]"), 0o600)
	return dir
}

func TestVerifC15(t *testing.T) {
	cases := verifCases(t)
	out := verifOpenOut(t)
	defer out.close()
	if len(cases) == 0 || vStr(cases[0]["kind"]) != "config" {
		t.Fatalf("verif: first case must be the configuration")
	}
	vMakeAssets(t)
	c15Pages := c15MakePages(t)
	// the same pages without 504.html: custom pages for some statuses only
	c15PagesPartial := filepath.Join(t.TempDir(), "pages_c15_partial")
	os.MkdirAll(c15PagesPartial, 0o700)
	if entries, err := os.ReadDir(c15Pages); err == nil {
		for _, e := range entries {
			if e.Name() == "504.html" {
				continue
			}
			if b, err := os.ReadFile(filepath.Join(c15Pages, e.Name())); err == nil {
				os.WriteFile(filepath.Join(c15PagesPartial, e.Name()), b, 0o600)
			}
		}
	}
	oldLog := slog.Default()
	slog.SetDefault(slog.New(slog.NewTextHandler(io.Discard, nil)))
	defer slog.SetDefault(oldLog)

	timeout := time.Duration(vInt(cases[0]["timeout_ms"])) * time.Millisecond
	hangAfter := time.Duration(vInt(cases[0]["hang_ms"])) * time.Millisecond

	closedAddr := vC15ClosedPort(t)
	blackholeAddr, blackholeOK := vC15Blackhole(t)

	svcs := []*vC15Svc{}
	byAddr := map[string]*vC15Svc{}
	byTarget := map[*Target]*vC15Svc{}
	var hookMu sync.Mutex

	verifTargetCreatedFn = func(tg *Target) {
		hookMu.Lock()
		s := byAddr[tg.Target()]
		if s != nil {
			byTarget[tg] = s
		}
		hookMu.Unlock()
		if s == nil {
			return
		}
		rp, ok := tg.proxyHandler.(*httputil.ReverseProxy)
		if !ok {
			return
		}
		tr, ok := rp.Transport.(*http.Transport)
		if !ok {
			return
		}
		// Keep the transport and whatever dialer it was given; only the
		// address is redirected for the two dial faults.
		orig := tr.DialContext
		if orig == nil {
			orig = (&net.Dialer{}).DialContext
		}
		tr.DialContext = func(ctx context.Context, network, addr string) (net.Conn, error) {
			if st := s.target.current(); st != nil {
				switch vStr(st["fault"]) {
				case "refused":
					return orig(ctx, network, closedAddr)
				case "dial_blackhole":
					return orig(ctx, network, blackholeAddr)
				}
			}
			return orig(ctx, network, addr)
		}
	}
	verifEventFn = func(kind string, args ...any) {
		switch kind {
		case "claim", "end":
			tg, _ := args[0].(*Target)
			req, _ := args[1].(*http.Request)
			hookMu.Lock()
			s := byTarget[tg]
			hookMu.Unlock()
			if s == nil || req == nil {
				return
			}
			if req.Header.Get(vC15Header) == "" {
				return // a client of a "gone_before" prelude: not a step of the case
			}
			id, _ := strconv.Atoi(req.Header.Get(vC15Header))
			s.mu.Lock()
			s.events = append(s.events, []any{kind, id})
			s.mu.Unlock()
		case "drain-snapshot":
			tg, _ := args[0].(*Target)
			m, _ := args[1].(inflightMap)
			hookMu.Lock()
			s := byTarget[tg]
			hookMu.Unlock()
			if s == nil {
				return
			}
			ids := []any{}
			for req := range m {
				id, _ := strconv.Atoi(req.Header.Get(vC15Header))
				ids = append(ids, id)
			}
			s.mu.Lock()
			s.events = append(s.events, []any{kind, ids})
			s.mu.Unlock()
		}
	}
	defer func() { verifEventFn, verifTargetCreatedFn = nil, nil }()

	dir := t.TempDir()
	config := &Config{Bind: "127.0.0.1", HttpPort: 0, HttpsPort: 0, AlternateConfigDir: dir}
	router := NewRouter(config.StatePath())
	server := NewServer(config, router)
	if err := server.Start(); err != nil {
		t.Fatalf("verif: server start: %v", err)
	}
	defer server.Stop()
	httpAddr := fmt.Sprintf("127.0.0.1:%d", server.HttpPort())

	for _, sc := range vList(cases[0]["services"]) {
		m := sc.(map[string]any)
		ln, err := net.Listen("tcp", "127.0.0.1:0")
		if err != nil {
			t.Fatalf("verif: listen: %v", err)
		}
		defer ln.Close()
		name := vStr(m["name"])
		s := &vC15Svc{name: name, host: name + ".test", target: &vC15Target{ln: ln}}
		s.service = func() *Service { return router.serviceForName(name) }
		go s.target.serve()
		hookMu.Lock()
		byAddr[ln.Addr().String()] = s
		hookMu.Unlock()
		so := ServiceOptions{Hosts: []string{s.host}}
		if vBool(m["custom"]) {
			so.ErrorPagePath = c15Pages
			if vBool(m["partial"]) {
				so.ErrorPagePath = c15PagesPartial
			}
		}
		to := TargetOptions{
			HealthCheckConfig:   HealthCheckConfig{Path: DefaultHealthCheckPath, Interval: time.Hour, Timeout: 5 * time.Second},
			ResponseTimeout:     timeout,
			BufferRequests:      vBool(m["buffer_req"]),
			BufferResponses:     vBool(m["buffer_resp"]),
			MaxMemoryBufferSize: 64 * 1024,
		}
		if err := router.DeployService(name, []string{ln.Addr().String()}, so, to, 10*time.Second, time.Second); err != nil {
			t.Fatalf("verif: deploy %s: %v", name, err)
		}
		svcs = append(svcs, s)
	}

	results := make([]map[string]any, len(cases))
	custom := map[string]string{}
	if entries, err := os.ReadDir(c15Pages); err == nil {
		for _, e := range entries {
			if b, err := os.ReadFile(filepath.Join(c15Pages, e.Name())); err == nil {
				custom[e.Name()] = vHex(b)
			}
		}
	}
	results[0] = map[string]any{"i": 0, "kind": "config", "blackhole_ok": blackholeOK, "custom_pages": custom}

	// goneBefore: clients whose error page cannot be delivered.  The service is paused, n clients send a small POST and
	// reset their connections while the request waits at the gate (its body unread, so the server is not watching the
	// connection), the target is made to refuse connections and the service is resumed: each request fails with a page
	// written to a connection that is gone.  Nothing of this may show in what any later client is sent.
	goneBefore := func(s *vC15Svc, n int) {
		s.mu.Lock()
		nEvents := len(s.events)
		s.mu.Unlock()
		defer func() { // the prelude's own drain (the pause) is not part of the case's event log
			s.mu.Lock()
			if len(s.events) > nEvents {
				s.events = s.events[:nEvents]
			}
			s.mu.Unlock()
		}()
		s.target.begin(map[string]any{"fault": "refused"})
		if err := router.PauseService(s.name, time.Second, 20*time.Second); err != nil {
			return
		}
		conns := []net.Conn{}
		for k := 0; k < n; k++ {
			c, err := net.Dial("tcp", httpAddr)
			if err != nil {
				continue
			}
			fmt.Fprintf(c, "POST /gone HTTP/1.1\r\nHost: %s\r\nContent-Length: 10\r\n\r\n0123456789", s.host)
			conns = append(conns, c)
		}
		time.Sleep(60 * time.Millisecond)
		for _, c := range conns {
			vC15Reset(c)
		}
		time.Sleep(30 * time.Millisecond)
		router.ResumeService(s.name)
		for w0 := time.Now(); time.Since(w0) < 2*time.Second; {
			time.Sleep(5 * time.Millisecond)
			if s.inflight() == 0 && time.Since(w0) > 50*time.Millisecond {
				break
			}
		}
	}

	runStep := func(s *vC15Svc, st map[string]any) map[string]any {
		res := map[string]any{"id": vInt(st["id"])}
		if n := int(vInt(st["gone_before"])); n > 0 {
			goneBefore(s, n)
		}
		s.target.begin(st)
		method := vStr(st["method"])
		if method == "" {
			method = "GET"
		}
		reqBody := vC15Body(3, int(vInt(st["req_len"])))
		var raw bytes.Buffer
		fmt.Fprintf(&raw, "%s /c%d HTTP/1.1\r\nHost: %s\r\n%s: %d\r\nConnection: close\r\n", method, vInt(st["id"]), s.host, vC15Header, vInt(st["id"]))
		if method != "GET" {
			fmt.Fprintf(&raw, "Content-Length: %d\r\n", len(reqBody))
		}
		raw.WriteString("\r\n")
		if method != "GET" {
			raw.Write(reqBody)
		}
		conn, err := net.Dial("tcp", httpAddr)
		if err != nil {
			res["err"] = "dial: " + err.Error()
			return res
		}
		t0 := time.Now()
		conn.SetDeadline(t0.Add(hangAfter))
		go func() {
			// a large body may block while the proxy is not reading: write concurrently
			conn.Write(raw.Bytes())
		}()
		got, rerr := io.ReadAll(conn)
		elapsed := time.Since(t0)
		conn.Close()
		res["elapsed_ms"] = elapsed.Milliseconds()
		res["raw_len"] = len(got)
		hang := false
		if rerr != nil {
			var ne net.Error
			if errors.As(rerr, &ne) && ne.Timeout() {
				hang = true
			}
			res["read_err"] = rerr.Error()
		}
		res["hang"] = hang
		vC15Parse(got, method, res)
		// the handler may return a moment after the client has everything
		w0 := time.Now()
		n := s.inflight()
		for n != 0 && time.Since(w0) < 2*time.Second {
			time.Sleep(2 * time.Millisecond)
			n = s.inflight()
		}
		res["inflight_after"] = n
		res["inflight_wait_ms"] = time.Since(w0).Milliseconds()
		s.target.mu.Lock()
		res["hits"], res["sent_at_ms"] = s.target.hits, s.target.sentAt
		s.target.mu.Unlock()
		return res
	}

	var wg sync.WaitGroup
	for si, s := range svcs {
		wg.Add(1)
		go func() {
			defer wg.Done()
			for i, c := range cases {
				if vStr(c["kind"]) != "seq" || int(vInt(c["svc"])) != si {
					continue
				}
				res := map[string]any{"i": i, "kind": "seq", "svc": si}
				s.mu.Lock()
				s.events = nil
				s.mu.Unlock()
				steps := []any{}
				for _, st := range vList(c["steps"]) {
					steps = append(steps, runStep(s, st.(map[string]any)))
				}
				s.target.begin(nil)
				res["steps"] = steps
				d0 := time.Now()
				if sv := s.service(); sv != nil {
					sv.Drain(10 * time.Second)
				}
				res["drain_ms"] = time.Since(d0).Milliseconds()
				res["inflight_end"] = s.inflight()
				// what the drain cut off at its deadline unwinds a moment later: let it end within THIS case's event log
				for w0 := time.Now(); s.inflight() != 0 && time.Since(w0) < 3*time.Second; {
					time.Sleep(2 * time.Millisecond)
				}
				s.mu.Lock()
				res["events"] = s.events
				s.events = nil
				s.mu.Unlock()
				results[i] = res
			}
		}()
	}
	wg.Wait()
	for i := range cases {
		if results[i] == nil {
			results[i] = map[string]any{"i": i, "kind": "skipped"}
		}
		out.emit(results[i])
	}
}

// ---- virtual clock: stalls right at the target timeout ----

type vC15ProbeOK struct{}

func (vC15ProbeOK) RoundTrip(req *http.Request) (*http.Response, error) {
	return &http.Response{
		StatusCode: 200, Status: "200 OK", Proto: "HTTP/1.1", ProtoMajor: 1, ProtoMinor: 1,
		Header: http.Header{}, Body: io.NopCloser(strings.NewReader("")), Request: req,
	}, nil
}

func vC15StallCase(t *testing.T, c map[string]any) map[string]any {
	res := map[string]any{}
	dir := t.TempDir()
	synctest.Run(func() {
		timeout := time.Duration(vInt(c["timeout_ns"]))
		delay := time.Duration(vInt(c["delay_ns"]))
		phase := vStr(c["phase"]) // "headers": silence after the request was read; "write": the request is never read
		giveUp := time.Duration(vInt(c["give_up_ns"]))
		var targetHits int
		var mu sync.Mutex
		var conns []net.Conn
		target := func(sc net.Conn) {
			defer sc.Close()
			if phase == "write" {
				time.Sleep(delay)
				return
			}
			br := bufio.NewReader(sc)
			if _, err := vC15ReadHead(br); err != nil {
				return
			}
			mu.Lock()
			targetHits++
			mu.Unlock()
			if phase == "headers" {
				time.Sleep(delay)
			}
			sc.Write([]byte("HTTP/1.1 200 OK\r\nContent-Length: 5\r\nConnection: close\r\n\r\nhello"))
		}
		verifTargetCreatedFn = func(tg *Target) {
			rp, ok := tg.proxyHandler.(*httputil.ReverseProxy)
			if !ok {
				return
			}
			tr, ok := rp.Transport.(*http.Transport)
			if !ok {
				return
			}
			tr.DialContext = func(ctx context.Context, network, addr string) (net.Conn, error) {
				cc, sc := net.Pipe()
				mu.Lock()
				conns = append(conns, cc, sc)
				mu.Unlock()
				go target(sc)
				return cc, nil
			}
		}
		oldDT := http.DefaultTransport
		http.DefaultTransport = vC15ProbeOK{}
		oldLog := slog.Default()
		slog.SetDefault(slog.New(slog.NewTextHandler(io.Discard, nil)))
		defer func() {
			verifTargetCreatedFn = nil
			http.DefaultTransport = oldDT
			slog.SetDefault(oldLog)
		}()

		config := &Config{Bind: "127.0.0.1", AlternateConfigDir: dir}
		router := NewRouter(config.StatePath())
		server := NewServer(config, router)
		handler := server.buildHandler()
		so := ServiceOptions{Hosts: []string{"stall.test"}}
		if vBool(c["custom"]) {
			so.ErrorPagePath = c15MakePages(t)
		}
		to := TargetOptions{
			HealthCheckConfig:   HealthCheckConfig{Path: DefaultHealthCheckPath, Interval: time.Hour, Timeout: 5 * time.Second},
			ResponseTimeout:     timeout,
			BufferRequests:      vBool(c["buffer_req"]),
			BufferResponses:     vBool(c["buffer_resp"]),
			MaxMemoryBufferSize: 64 * 1024,
		}
		if err := router.DeployService("stall", []string{"target.internal:80"}, so, to, 10*time.Second, time.Second); err != nil {
			res["err"] = "deploy: " + err.Error()
			return
		}
		var body io.Reader
		method := "GET"
		if phase == "write" {
			method = "POST"
			body = bytes.NewReader(vC15Body(1, 4096))
		}
		req := httptest.NewRequest(method, "http://stall.test/x", body)
		ctx, cancel := context.WithCancel(context.WithValue(context.Background(), http.ServerContextKey, &http.Server{}))
		req = req.WithContext(ctx)
		rec := httptest.NewRecorder()
		done := make(chan struct{})
		t0 := time.Now()
		go func() {
			defer close(done)
			defer func() {
				if p := recover(); p != nil {
					res["panic"] = fmt.Sprint(p)
				}
			}()
			handler.ServeHTTP(rec, req)
		}()
		select {
		case <-done:
			res["hang"] = false
		case <-time.After(giveUp):
			res["hang"] = true
			cancel() // the client gives up
			<-done
		}
		res["elapsed_ns"] = int64(time.Since(t0))
		cancel()
		res["status"] = rec.Code
		res["ct"] = rec.Header().Get("Content-Type")
		res["body"] = vHex(rec.Body.Bytes())
		mu.Lock()
		res["hits"] = targetHits
		mu.Unlock()
		sv := router.serviceForName("stall")
		n := 0
		for _, tg := range sv.active.Targets() {
			tg.inflightLock.Lock()
			n += len(tg.inflight)
			tg.inflightLock.Unlock()
		}
		res["inflight_after"] = n
		d0 := time.Now()
		sv.Drain(10 * time.Second)
		res["drain_ns"] = int64(time.Since(d0))
		router.RemoveService("stall")
		mu.Lock()
		for _, cn := range conns {
			cn.Close()
		}
		mu.Unlock()
		synctest.Wait()
	})
	return res
}

func TestVerifC15Stall(t *testing.T) {
	cases := verifCases(t)
	out := verifOpenOut(t)
	defer out.close()
	vMakeAssets(t)
	for i, c := range cases {
		res := vC15StallCase(t, c)
		res["i"] = i
		out.emit(res)
	}
}
