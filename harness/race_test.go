package server

// C18 — stress of the real Router / Service / LoadBalancer / Target /
// PauseController under the REAL scheduler (no synctest bubble, no
// GOMAXPROCS(1), no yield hooks) for `go test -race`: mixed scenarios with a
// watchdog for hangs and capture of panics, and targeted two-sided scenarios
// that make one pair of unsynchronised accesses overlap.
//
//   VERIF_C18_MODE   "stress" (default) or "site:<name>" (see c18Sites)
//   VERIF_C18_MS     duration of the run in milliseconds (default 3000)
//   VERIF_SEED       seed of the workers' choices
//   VERIF_C18_WORKERS number of workers of the mixed stress (default 16)
//
// Output markers (stdout): "C18-PANIC <op>: <value>" + stack for a panic caught
// in a worker, "C18-HANG" + a dump of all goroutines when no operation finished
// for the watchdog interval, "C18-DONE ops=<n> <per-op counts>" at the end.
// Race reports are the race detector's own ("WARNING: DATA RACE").

import (
	"bufio"
	"fmt"
	"io"
	"log/slog"
	"math/rand"
	"net"
	"net/http"
	"net/http/httptest"
	"net/http/httputil"
	"os"
	"path/filepath"
	"runtime"
	"runtime/debug"
	"sort"
	"strconv"
	"strings"
	"sync"
	"sync/atomic"
	"testing"
	"time"
)

// ---- scripted health-probe responder and target transport -----------------

type c18ProbeRT struct{}

func (c18ProbeRT) RoundTrip(req *http.Request) (*http.Response, error) {
	if err := req.Context().Err(); err != nil {
		return nil, err
	}
	status := 200
	if strings.HasPrefix(req.URL.Host, "bad") { // targets named bad-* never become healthy
		status = 500
	}
	if strings.HasPrefix(req.URL.Host, "flap") { // targets named flap-* fail their probes one window in three:
		// rotations shrink and grow while requests are being claimed
		if (time.Now().UnixNano()/int64(5*time.Millisecond)+int64(len(req.URL.Host)))%3 == 0 {
			status = 500
		}
	}
	return &http.Response{StatusCode: status, Status: strconv.Itoa(status), Proto: "HTTP/1.1", ProtoMajor: 1, ProtoMinor: 1,
		Header: http.Header{}, Body: io.NopCloser(strings.NewReader("")), Request: req}, nil
}

type c18TargetRT struct{ name string }

// pipeBody is the backend side of an upgraded connection.
type pipeBody struct{ net.Conn }

func (c18TargetRT) RoundTrip(req *http.Request) (*http.Response, error) {
	switch beh := req.Header.Get("X-Verif-Behaviour"); {
	case beh == "slow":
		select {
		case <-time.After(time.Duration(200+rand.Intn(1500)) * time.Microsecond):
		case <-req.Context().Done():
			return nil, req.Context().Err()
		}
	case beh == "hold": // until cancelled (drain) or 20ms
		select {
		case <-time.After(20 * time.Millisecond):
		case <-req.Context().Done():
			return nil, req.Context().Err()
		}
	case beh == "upgrade":
		time.Sleep(time.Duration(rand.Intn(300)) * time.Microsecond)
		mine, theirs := net.Pipe()
		go func() { // the "backend": says nothing, goes away after a while or when the proxy closes
			buf := make([]byte, 256)
			theirs.SetReadDeadline(time.Now().Add(15 * time.Millisecond))
			for {
				if _, err := theirs.Read(buf); err != nil {
					break
				}
			}
			theirs.Close()
		}()
		h := http.Header{}
		h.Set("Connection", "Upgrade")
		h.Set("Upgrade", "websocket")
		return &http.Response{StatusCode: 101, Status: "101 Switching Protocols", Proto: "HTTP/1.1", ProtoMajor: 1, ProtoMinor: 1,
			Header: h, Body: pipeBody{mine}, Request: req}, nil
	}
	h := http.Header{}
	h.Set("Content-Type", "text/plain")
	h.Set("X-Served", "yes")
	body := "ok"
	return &http.Response{StatusCode: 200, Status: "200 OK", Proto: "HTTP/1.1", ProtoMajor: 1, ProtoMinor: 1,
		Header: h, Body: io.NopCloser(strings.NewReader(body)), ContentLength: int64(len(body)), Request: req}, nil
}

// hijackRecorder: a ResponseWriter whose connection can be taken over.
type hijackRecorder struct {
	*httptest.ResponseRecorder
	peer net.Conn
}

func (h *hijackRecorder) Hijack() (net.Conn, *bufio.ReadWriter, error) {
	mine, theirs := net.Pipe()
	h.peer = theirs
	go func() { // the "client": reads what the proxy writes, leaves after a while
		theirs.SetReadDeadline(time.Now().Add(15 * time.Millisecond))
		io.Copy(io.Discard, theirs)
		theirs.Close()
	}()
	return mine, bufio.NewReadWriter(bufio.NewReader(mine), bufio.NewWriter(mine)), nil
}

// ---- the system under stress ----------------------------------------------

type c18Sys struct {
	router  *Router
	handler *CommandHandler
	dir     string
	seq     atomic.Int64
	ops     sync.Map // op name -> *atomic.Int64
	last    atomic.Int64
	panics  atomic.Int64
}

func (s *c18Sys) count(op string) {
	v, _ := s.ops.LoadOrStore(op, new(atomic.Int64))
	v.(*atomic.Int64).Add(1)
	s.last.Store(time.Now().UnixNano())
}

// do runs one operation, capturing a panic of the calling goroutine.
func (s *c18Sys) do(op string, f func()) {
	defer func() {
		if r := recover(); r != nil {
			s.panics.Add(1)
			fmt.Printf("C18-PANIC %s: %v\n%s\n", op, r, debug.Stack())
		}
		s.count(op)
	}()
	f()
}

var c18Services = []string{"web", "api", "app"}

func (s *c18Sys) svcOptions(name string) ServiceOptions {
	switch name {
	case "web": // the root-path service of the host, TLS with a static certificate
		return ServiceOptions{Hosts: []string{"c18.test"}, TLSEnabled: true, TLSRedirect: false,
			TLSCertificatePath: filepath.Join(vAssets, "cert.pem"), TLSPrivateKeyPath: filepath.Join(vAssets, "key.pem")}
	case "api": // a sub-path service of the same host: inherits the TLS flags
		return ServiceOptions{Hosts: []string{"c18.test"}, PathPrefixes: []string{"/api"}, StripPrefix: true}
	}
	return ServiceOptions{Hosts: []string{"app.test"}}
}

func c18TargetOptions() TargetOptions {
	return TargetOptions{
		HealthCheckConfig: HealthCheckConfig{Path: "/up", Interval: 2 * time.Millisecond, Timeout: time.Second},
		ResponseTimeout:   5 * time.Second,
		LogRequestHeaders: []string{"x-verif-behaviour", "cookie"}, LogResponseHeaders: []string{"x-served"},
	}
}

func (s *c18Sys) targets(rnd *rand.Rand, allowBad bool) []string {
	n := 1 + rnd.Intn(3)
	out := []string{}
	for i := 0; i < n; i++ {
		if rnd.Intn(3) == 0 {
			out = append(out, fmt.Sprintf("flap-%d", s.seq.Add(1)))
		} else {
			out = append(out, fmt.Sprintf("t%d", s.seq.Add(1)))
		}
	}
	if allowBad && rnd.Intn(12) == 0 {
		out[0] = fmt.Sprintf("bad-%d", s.seq.Add(1))
	}
	if allowBad && rnd.Intn(12) == 0 {
		// several targets that never become healthy: their waiters give up together at the deploy deadline while the
		// command disposes the rejected balancer
		out = out[:0]
		for i := 0; i < 2+rnd.Intn(2); i++ {
			out = append(out, fmt.Sprintf("bad-%d", s.seq.Add(1)))
		}
	}
	return out
}

const (
	c18DeployTimeout = 40 * time.Millisecond
	c18DrainTimeout  = 10 * time.Millisecond
	c18PauseTimeout  = 15 * time.Millisecond
)

func (s *c18Sys) deploy(rnd *rand.Rand, name string, allowBad bool) {
	var reply bool
	s.handler.Deploy(DeployArgs{Service: name, TargetURLs: s.targets(rnd, allowBad), DeployTimeout: c18DeployTimeout,
		DrainTimeout: c18DrainTimeout, ServiceOptions: s.svcOptions(name), TargetOptions: c18TargetOptions()}, &reply)
}

func (s *c18Sys) request(rnd *rand.Rand, kind string) {
	name := c18Services[rnd.Intn(len(c18Services))]
	host, path := "app.test", "/x"
	switch name {
	case "web":
		host, path = "c18.test", "/index"
	case "api":
		host, path = "c18.test", "/api/v1"
	}
	req := httptest.NewRequest("GET", "http://"+host+path, nil)
	req.Host = host
	var w http.ResponseWriter = httptest.NewRecorder()
	switch kind {
	case "cookie":
		req.AddCookie(&http.Cookie{Name: RolloutCookieName, Value: fmt.Sprintf("u%d", rnd.Intn(50))})
	case "slow", "hold":
		req.Header.Set("X-Verif-Behaviour", kind)
	case "upgrade":
		req.Header.Set("X-Verif-Behaviour", "upgrade")
		req.Header.Set("Connection", "Upgrade")
		req.Header.Set("Upgrade", "websocket")
		w = &hijackRecorder{ResponseRecorder: httptest.NewRecorder()}
	}
	// the same chain of middleware as the server, minus the access log
	var h http.Handler = s.router
	h, _ = WithErrorPageMiddleware(os.DirFS(filepath.Join(vAssets, "pages_good")), true, h)
	h = WithLoggingMiddleware(slog.New(slog.NewTextHandler(io.Discard, nil)), 80, 443, h)
	h.ServeHTTP(w, req)
}

// op performs one randomly chosen operation of the given kind.
func (s *c18Sys) op(rnd *rand.Rand, kind string) {
	name := c18Services[rnd.Intn(len(c18Services))]
	var reply bool
	switch kind {
	case "request", "cookie", "slow", "hold", "upgrade":
		s.do(kind, func() { s.request(rnd, kind) })
	case "deploy":
		s.do(kind, func() { s.deploy(rnd, name, true) })
	case "rollout_deploy":
		s.do(kind, func() {
			s.handler.RolloutDeploy(RolloutDeployArgs{Service: name, TargetURLs: s.targets(rnd, true),
				DeployTimeout: c18DeployTimeout, DrainTimeout: c18DrainTimeout}, &reply)
		})
	case "rollout_set":
		s.do(kind, func() {
			s.handler.RolloutSet(RolloutSetArgs{Service: name, Percentage: rnd.Intn(101), Allowlist: []string{"u1", "u2"}}, &reply)
		})
	case "rollout_stop":
		s.do(kind, func() { s.handler.RolloutStop(RolloutStopArgs{Service: name}, &reply) })
	case "pause":
		s.do(kind, func() {
			s.handler.Pause(PauseArgs{Service: name, DrainTimeout: c18DrainTimeout, PauseTimeout: c18PauseTimeout}, &reply)
		})
	case "stop":
		s.do(kind, func() {
			s.handler.Stop(StopArgs{Service: name, DrainTimeout: c18DrainTimeout, Message: "down"}, &reply)
		})
	case "resume":
		s.do(kind, func() { s.handler.Resume(ResumeArgs{Service: name}, &reply) })
	case "remove":
		s.do(kind, func() { s.handler.Remove(RemoveArgs{Service: name}, &reply) })
	case "list":
		s.do(kind, func() { var r ListResponse; s.handler.List(true, &r) })
	case "restart":
		// what a restarted process does with the state file, next to the live router
		s.do(kind, func() {
			r2 := NewRouter(s.router.statePath)
			if r2.RestoreLastSavedState() == nil {
				r2.statePath = filepath.Join(s.dir, "restored.state")
				// every command a restored process may be given in the state it was restored in (paused, stopped,
				// with or without rollout targets): none may panic
				for n := range r2.ListActiveServices() {
					switch rnd.Intn(5) {
					case 0:
						r2.ResumeService(n)
					case 1:
						r2.StopService(n, c18DrainTimeout, "down")
						r2.ResumeService(n)
					case 2:
						r2.PauseService(n, c18DrainTimeout, c18PauseTimeout)
						r2.ResumeService(n)
					case 3:
						r2.SetRolloutSplit(n, rnd.Intn(101), []string{"u1"})
						r2.StopRollout(n)
					}
				}
				for n := range r2.ListActiveServices() {
					r2.RemoveService(n)
				}
			}
		})
	}
}

// ---- scenarios --------------------------------------------------------------

// c18Sites: the two sides of each targeted scenario (each side is a list of
// operation kinds run in a loop by its own goroutines).
var c18Sites = map[string][2][]string{
	"rollout-vs-request":  {{"rollout_deploy", "rollout_set", "rollout_stop"}, {"request", "cookie"}},
	"rollout-vs-drain":    {{"rollout_deploy"}, {"pause", "resume"}},
	"rollout-vs-remove":   {{"rollout_deploy", "rollout_set"}, {"remove", "deploy"}},
	"rollout-vs-deploy":   {{"rollout_deploy", "rollout_set", "rollout_stop"}, {"deploy"}},
	"rollout-vs-snapshot": {{"rollout_deploy", "rollout_set", "rollout_stop"}, {"resume"}},
	"rollout-vs-list":     {{"rollout_deploy", "deploy"}, {"list"}},
	"probe-vs-drain":      {{"pause", "resume", "stop"}, {"slow"}},
	"hijack-vs-drain":     {{"upgrade"}, {"pause", "resume"}},
	"tls-vs-request":      {{"deploy", "remove"}, {"request"}},
	"pause-vs-snapshot":   {{"pause", "stop", "resume"}, {"rollout_stop"}},
	"dispose-vs-waiter":   {{"deploy", "rollout_deploy"}, {"remove"}},
	"logheaders":          {{"rollout_deploy"}, {"request", "slow"}},
}

var c18StressOps = []string{
	"request", "request", "request", "cookie", "cookie", "slow", "hold", "upgrade",
	"deploy", "deploy", "rollout_deploy", "rollout_set", "rollout_stop",
	"pause", "stop", "resume", "resume", "remove", "list", "restart",
}

func TestVerifC18Race(t *testing.T) {
	vMakeAssets(t)
	mode := os.Getenv("VERIF_C18_MODE")
	if mode == "" {
		mode = "stress"
	}
	ms, _ := strconv.Atoi(os.Getenv("VERIF_C18_MS"))
	if ms <= 0 {
		ms = 3000
	}
	seed, _ := strconv.ParseInt(os.Getenv("VERIF_SEED"), 10, 64)
	workers, _ := strconv.Atoi(os.Getenv("VERIF_C18_WORKERS"))
	if workers <= 0 {
		workers = 16
	}

	// installed once, before any goroutine of the system exists, and never
	// restored: probe loops of balancers that lost a deploy race may still run
	// when the test ends (the process exits right after)
	http.DefaultTransport = c18ProbeRT{}
	slog.SetDefault(slog.New(slog.NewTextHandler(io.Discard, nil)))
	verifTargetCreatedFn = func(tg *Target) {
		if rp, ok := tg.proxyHandler.(*httputil.ReverseProxy); ok {
			rp.Transport = c18TargetRT{tg.Target()}
		}
	}

	dir := t.TempDir()
	router := NewRouter(filepath.Join(dir, "kamal-proxy.state"))
	s := &c18Sys{router: router, handler: NewCommandHandler(router), dir: dir}
	s.last.Store(time.Now().UnixNano())
	rnd0 := rand.New(rand.NewSource(seed))
	for _, name := range c18Services {
		s.deploy(rnd0, name, false)
	}

	// watchdog: no operation finished for 20 s => hang
	stop := make(chan struct{})
	var wd sync.WaitGroup
	wd.Add(1)
	go func() {
		defer wd.Done()
		tick := time.NewTicker(500 * time.Millisecond)
		defer tick.Stop()
		for {
			select {
			case <-stop:
				return
			case <-tick.C:
				if idle := time.Since(time.Unix(0, s.last.Load())); idle > 20*time.Second {
					buf := make([]byte, 4<<20)
					n := runtime.Stack(buf, true)
					// A deadlock leaves every goroutine BLOCKED (mutex, channel, wait group, select, I/O). A process that is
					// merely starved (an overloaded machine under the race detector: the holder of a lock sits in "GC assist
					// wait" or is runnable for many seconds) is not hung: it gets two minutes before that counts as one.
					busy := 0
					for _, g := range strings.Split(string(buf[:n]), "\n\n") {
						head, _, _ := strings.Cut(g, "\n")
						if strings.Contains(head, "[GC assist wait") || strings.Contains(head, "[runnable") ||
							(strings.Contains(head, "[running") && !strings.Contains(g, "runtime.Stack")) {
							busy++
						}
					}
					if busy > 0 && idle < 120*time.Second {
						continue
					}
					fmt.Printf("C18-HANG no operation finished for %ds\n%s\n", int(idle/time.Second), buf[:n])
					os.Exit(3)
				}
			}
		}
	}()

	deadline := time.Now().Add(time.Duration(ms) * time.Millisecond)
	var wg sync.WaitGroup
	run := func(id int, kinds []string) {
		wg.Add(1)
		go func() {
			defer wg.Done()
			rnd := rand.New(rand.NewSource(seed*1000 + int64(id)))
			for time.Now().Before(deadline) {
				s.op(rnd, kinds[rnd.Intn(len(kinds))])
			}
		}()
	}
	if strings.HasPrefix(mode, "site:") {
		sides, ok := c18Sites[strings.TrimPrefix(mode, "site:")]
		if !ok {
			t.Fatalf("unknown site scenario %q", mode)
		}
		for i := 0; i < 4; i++ {
			run(2*i, sides[0])
			run(2*i+1, sides[1])
		}
		// keep the services deployed while "remove" runs on the other side
		run(100, []string{"deploy"})
	} else {
		for i := 0; i < workers; i++ {
			run(i, c18StressOps)
		}
	}
	wg.Wait()

	// a waiter that blocks for ever would be a deadlock of the drain / pause logic:
	// every held request must be answered once the gates are opened
	for _, name := range c18Services {
		var reply bool
		s.do("resume", func() { s.handler.Resume(ResumeArgs{Service: name}, &reply) })
	}
	for _, name := range c18Services {
		s.do("remove", func() { router.RemoveService(name) })
	}
	close(stop)
	wd.Wait()

	names := []string{}
	total := int64(0)
	s.ops.Range(func(k, v any) bool {
		n := v.(*atomic.Int64).Load()
		total += n
		names = append(names, fmt.Sprintf("%s=%d", k, n))
		return true
	})
	sort.Strings(names)
	fmt.Printf("C18-DONE ops=%d panics=%d %s\n", total, s.panics.Load(), strings.Join(names, " "))
	if s.panics.Load() > 0 {
		t.Fail()
	}
}
