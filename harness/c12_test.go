package server

// C12 — crash points of the state snapshot.  Extra scenario operations for
// harness/sim_test.go (registered through vExtraOps):
//
//	c12_crash    what a process killed NOW leaves behind: the state directory is
//	             copied, a fresh Router is restored from the copy, and the parsed
//	             file, the restore result, what the restored router lists and the
//	             configuration in force in the live router are recorded.
//	c12_issue    issue a command asynchronously and let it run up to its next
//	             armed yield (bounded settle, see below).
//	c12_release  release one goroutine parked at (point, who); bounded settle.
//	c12_drain    disarm the snapshot yields, release everything parked at them
//	             (oldest first) until nothing is parked, then synctest.Wait.
//
// Bounded settle.  In the repaired tree saveStateSnapshot holds a sync.Mutex
// from collect to rename, so a goroutine parked at a snapshot:* yield holds it
// and a second command blocks on that mutex.  testing/synctest does not treat
// a mutex wait as durably blocked: synctest.Wait and time.Sleep would hang.
// Between the first park at a snapshot:* point and c12_drain a scenario may
// therefore only use the c12_* operations, which give the processor away with
// runtime.Gosched (GOMAXPROCS is 1) until every command issued through
// c12_issue is parked at a yield or has returned — or, when one of them can do
// neither because it waits for the mutex (or for the virtual clock), until a
// stop-the-world goroutine dump shows every goroutine of the bubble blocked.  Commands issued in that window must not need the virtual clock to
// reach their snapshot (targets answering their first probe; no requests in
// flight).

import (
	"encoding/json"
	"os"
	"path/filepath"
	"runtime"
	"sort"
	"strconv"
	"strings"
	"syscall"
	"testing/synctest"
)

type c12Sim struct {
	muted   map[int64]bool  // goroutines whose hook events are dropped (crash restores)
	foreign []*Target       // targets created by crash restores
	cmds    map[string]bool // commands issued through c12_issue: returned?
	order   []string
	crashes int
}

var c12Sims = map[*vSim]*c12Sim{}

// c12For wraps the hooks of s once: events and target registrations coming
// from a crash restore (another process, as far as the trace is concerned)
// are kept out of the trace.
func c12For(s *vSim) *c12Sim {
	if c, ok := c12Sims[s]; ok {
		return c
	}
	for k := range c12Sims { // one scenario at a time
		delete(c12Sims, k)
	}
	c := &c12Sim{muted: map[int64]bool{}, cmds: map[string]bool{}}
	c12Sims[s] = c
	ev, created := verifEventFn, verifTargetCreatedFn
	verifEventFn = func(kind string, args ...any) {
		if c.muted[vGoid()] {
			return
		}
		ev(kind, args...)
	}
	verifTargetCreatedFn = func(t *Target) {
		if c.muted[vGoid()] {
			c.foreign = append(c.foreign, t)
			return
		}
		created(t)
	}
	return c
}

func c12RealNow() int64 {
	var tv syscall.Timeval
	syscall.Gettimeofday(&tv)
	return tv.Sec*1_000_000 + tv.Usec
}

func (c *c12Sim) accounted(s *vSim) bool {
	s.mu.Lock()
	defer s.mu.Unlock()
	for id, done := range c.cmds {
		if done {
			continue
		}
		parked := false
		for _, p := range s.parked {
			if s.nameG(p.gid) == id {
				parked = true
			}
		}
		if !parked {
			return false
		}
	}
	return true
}

// c12Quiet reports whether every goroutine of the bubble other than the caller
// is waiting for something (a channel, a timer, a mutex, ...): none is running,
// runnable or inside a system call, so nothing moves until the caller acts.
// runtime.Stack(all) stops the world: the answer is a consistent cut.
func c12Quiet() bool {
	buf := make([]byte, 1<<20)
	n := runtime.Stack(buf, true)
	self := vGoid()
	for _, blk := range strings.Split(string(buf[:n]), "\n\n") {
		hdr, _, _ := strings.Cut(blk, "\n")
		if !strings.HasPrefix(hdr, "goroutine ") || !strings.Contains(hdr, "synctest") {
			continue
		}
		f := strings.Fields(hdr)
		if id, _ := strconv.ParseInt(f[1], 10, 64); id == self {
			continue
		}
		open := strings.Index(hdr, "[")
		if open < 0 {
			return false
		}
		st := hdr[open+1:]
		if i := strings.IndexAny(st, ",]"); i >= 0 {
			st = st[:i]
		}
		// anything but a wait reason (chan receive, select, sleep, sync.Mutex.Lock,
		// sync.WaitGroup.Wait, synctest.Run, ...) means the goroutine can still move
		for _, w := range []string{"running", "runnable", "syscall", "preempted", "copystack", "GC", "waiting", "idle"} {
			if strings.HasPrefix(st, w) || strings.Contains(st, "GC ") {
				return false
			}
		}
	}
	return true
}

// settle: see the file comment.  Returns true when every command is parked at a
// yield or has returned, or when every goroutine of the bubble is blocked (a
// command waits for the snapshot mutex or for the virtual clock); false when
// neither was reached within the bound (an anomaly the driver reports).
func (c *c12Sim) settle(s *vSim) bool {
	start := c12RealNow()
	calm, quiet := 0, 0
	for i := 1; ; i++ {
		runtime.Gosched()
		if c.accounted(s) {
			calm++
			if calm >= 64 {
				return true
			}
			continue
		}
		calm = 0
		if i%256 == 0 {
			if c12Quiet() {
				quiet++
				if quiet >= 2 {
					return true
				}
			} else {
				quiet = 0
			}
			if c12RealNow()-start > 5_000_000 {
				if os.Getenv("VERIF_C12_DEBUG") != "" {
					buf := make([]byte, 1<<20)
					n := runtime.Stack(buf, true)
					os.WriteFile(os.Getenv("VERIF_C12_DEBUG"), buf[:n], 0o644)
				}
				return false
			}
		}
	}
}

func c12CopyDir(src, dst string) [][]any {
	files := [][]any{}
	entries, _ := os.ReadDir(src)
	for _, e := range entries {
		info, err := e.Info()
		if err != nil || !info.Mode().IsRegular() {
			continue
		}
		b, err := os.ReadFile(filepath.Join(src, e.Name()))
		if err != nil {
			continue
		}
		os.WriteFile(filepath.Join(dst, e.Name()), b, 0o600)
		files = append(files, []any{e.Name(), len(b)})
	}
	sort.Slice(files, func(i, j int) bool { return files[i][0].(string) < files[j][0].(string) })
	return files
}

func c12Parse(b []byte, err error) any {
	if err != nil {
		return map[string]any{"error": "absent"}
	}
	var v any
	if err := json.Unmarshal(b, &v); err != nil {
		return map[string]any{"error": "undecodable", "len": len(b)}
	}
	if v == nil {
		return []any{}
	}
	return v
}

// c12Config is the configuration in force in r, in the words of the state
// file: what a snapshot taken now, atomically, would contain.
func c12Config(r *Router) any {
	services := []*Service{}
	r.withReadLock(func() error {
		for _, sv := range r.services.All() {
			services = append(services, sv)
		}
		return nil
	})
	sort.Slice(services, func(i, j int) bool { return services[i].name < services[j].name })
	b, err := json.Marshal(services)
	if err != nil {
		return map[string]any{"error": "marshal: " + err.Error()}
	}
	return c12Parse(b, nil)
}

func c12List(r *Router) any {
	out := map[string]any{}
	for k, v := range r.ListActiveServices() {
		out[vHex([]byte(k))] = map[string]any{"host": vHex([]byte(v.Host)), "path": vHex([]byte(v.Path)), "target": vHex([]byte(v.Target)), "tls": v.TLS, "state": v.State}
	}
	return out
}

func c12Crash(s *vSim, id string, cs map[string]any) {
	c := c12For(s)
	gid := vGoid()
	c.muted[gid] = true
	defer delete(c.muted, gid)
	c.crashes++

	dir := filepath.Dir(s.statePath)
	dst, err := os.MkdirTemp(dir, "crash-copy-")
	if err != nil {
		panic(err)
	}
	defer os.RemoveAll(dst)
	files := c12CopyDir(dir, dst)
	copied := filepath.Join(dst, filepath.Base(s.statePath))
	raw, rerr := os.ReadFile(copied)

	fresh := NewRouter(copied)
	restoreErr := fresh.RestoreLastSavedState()
	res := map[string]any{"id": id, "op": "c12_crash", "t": s.now(), "files": files, "raw_len": len(raw),
		"file": c12Parse(raw, rerr), "restore": "ok", "restored_list": c12List(fresh), "restored_cfg": c12Config(fresh),
		"cfg": c12Config(s.router), "list": c12List(s.router)}
	if restoreErr != nil {
		res["restore"] = "error: " + restoreErr.Error()
	}
	// the restored process is observed, then forgotten
	for _, t := range c.foreign {
		t.stopHealthChecks()
	}
	c.foreign = nil

	s.mu.Lock()
	res["seq"] = len(s.events)
	parked := [][]string{}
	for _, p := range s.parked {
		parked = append(parked, []string{p.point, s.nameG(p.gid)})
	}
	res["parked"] = parked
	inprog := []string{}
	for _, cid := range c.order {
		if !c.cmds[cid] {
			inprog = append(inprog, cid)
		}
	}
	res["in_progress"] = inprog
	s.mu.Unlock()
	s.record(res)
}

func c12Issue(s *vSim, id string, cs map[string]any) {
	c := c12For(s)
	cmd, _ := cs["cmd"].(map[string]any)
	cid := vStr(cmd["id"])
	s.mu.Lock()
	s.events = append(s.events, vEvent{Seq: len(s.events), T: s.now(), G: cid, Kind: "issue", Args: []any{cid, vStr(cmd["op"]), vHexOrEmpty(cmd["name"]), vInt(cmd["deploy_timeout"]), vInt(cmd["drain_timeout"]), vInt(cmd["fail_after"])}})
	s.mu.Unlock()
	c.cmds[cid] = false
	c.order = append(c.order, cid)
	s.wg.Add(1)
	go func() {
		defer s.wg.Done()
		s.mu.Lock()
		s.gidNames[vGoid()] = cid
		s.mu.Unlock()
		r := s.runCommand(cid, cmd)
		s.record(r)
		s.mu.Lock()
		c.cmds[cid] = true
		s.mu.Unlock()
	}()
	ok := c.settle(s)
	s.record(map[string]any{"id": id, "op": "c12_issue", "cmd": cid, "settled": ok})
}

func c12Release(s *vSim, id string, cs map[string]any) {
	c := c12For(s)
	ok := s.release(vStr(cs["point"]), vStr(cs["who"]))
	settled := c.settle(s)
	s.record(map[string]any{"id": id, "op": "c12_release", "ok": ok, "settled": settled})
}

func c12Drain(s *vSim, id string, cs map[string]any) {
	c := c12For(s)
	s.mu.Lock()
	for k := range s.armed {
		if strings.HasPrefix(k, "snapshot:") {
			s.armed[k] = 0
		}
	}
	s.mu.Unlock()
	n := 0
	for {
		s.mu.Lock()
		point, who := "", ""
		for _, p := range s.parked {
			if strings.HasPrefix(p.point, "snapshot:") {
				point, who = p.point, s.nameG(p.gid)
				break
			}
		}
		s.mu.Unlock()
		if point == "" {
			break
		}
		s.release(point, who)
		c.settle(s)
		n++
	}
	synctest.Wait()
	s.record(map[string]any{"id": id, "op": "c12_drain", "released": n})
}

func init() {
	vExtraOps["c12_crash"] = c12Crash
	vExtraOps["c12_issue"] = c12Issue
	vExtraOps["c12_release"] = c12Release
	vExtraOps["c12_drain"] = c12Drain
}
