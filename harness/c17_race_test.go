package server

// C17 — "after remove, after a successful redeploy and after any failed deploy the proxy sends no further health probes
// to the targets concerned", under the REAL scheduler: a redeploy of a service and its removal issued together, round after
// round.  Whichever way the two commands interleave, once both have returned every target that is still being probed must
// be a target of a service that `list` shows: probes are counted per target over a window after the round.

import (
	"io"
	"net/http"
	"os"
	"path/filepath"
	"strconv"
	"strings"
	"sync"
	"testing"
	"time"
)

type c17ProbeCounter struct {
	mu sync.Mutex
	n  map[string]int
}

func (c *c17ProbeCounter) RoundTrip(req *http.Request) (*http.Response, error) {
	c.mu.Lock()
	c.n[req.URL.Host]++
	c.mu.Unlock()
	return &http.Response{StatusCode: 200, Status: "200 OK", Proto: "HTTP/1.1", ProtoMajor: 1, ProtoMinor: 1,
		Header: http.Header{}, Body: io.NopCloser(strings.NewReader("")), Request: req}, nil
}

func (c *c17ProbeCounter) snapshot() map[string]int {
	c.mu.Lock()
	defer c.mu.Unlock()
	out := map[string]int{}
	for k, v := range c.n {
		out[k] = v
	}
	return out
}

func TestVerifC17Race(t *testing.T) {
	if os.Getenv("VERIF_OUT") == "" {
		t.Skip("VERIF_OUT not set")
	}
	rounds, _ := strconv.Atoi(os.Getenv("VERIF_ROUNDS"))
	if rounds == 0 {
		rounds = 40
	}
	out := verifOpenOut(t)
	defer out.close()
	counter := &c17ProbeCounter{n: map[string]int{}}
	oldT := http.DefaultTransport
	http.DefaultTransport = counter
	defer func() { http.DefaultTransport = oldT }()

	router := NewRouter(filepath.Join(t.TempDir(), "state.json"))
	topts := TargetOptions{HealthCheckConfig: HealthCheckConfig{Path: "/up", Interval: 2 * time.Millisecond, Timeout: time.Second},
		ResponseTimeout: time.Second}
	sopts := ServiceOptions{Hosts: []string{"c17.test"}}
	for round := 0; round < rounds; round++ {
		a := "a" + strconv.Itoa(round) + ":80"
		b := "b" + strconv.Itoa(round) + ":80"
		if err := router.DeployService("svc", []string{a}, sopts, topts, time.Second, 10*time.Millisecond); err != nil {
			t.Fatalf("verif: deploy: %v", err)
		}
		var wg sync.WaitGroup
		start := make(chan struct{})
		var errD, errR error
		wg.Add(2)
		go func() {
			defer wg.Done()
			<-start
			errD = router.DeployService("svc", []string{b}, sopts, topts, time.Second, 10*time.Millisecond)
		}()
		go func() {
			defer wg.Done()
			<-start
			if round%2 == 1 { // let the redeploy get ahead in half of the rounds
				time.Sleep(time.Duration(round%7) * 100 * time.Microsecond)
			}
			errR = router.RemoveService("svc")
		}()
		// in two rounds out of three the balancer being replaced / removed is slow to dispose of (its lock is held for a
		// moment): whatever a command does with it takes a while, the other command runs on meanwhile
		if old := router.serviceForName("svc"); old != nil && old.active != nil && round%3 != 0 {
			lb := old.active
			lb.lock.Lock()
			close(start)
			time.Sleep(time.Duration(500+300*(round%5)) * time.Microsecond)
			lb.lock.Unlock()
		} else {
			close(start)
		}
		wg.Wait()
		// probes already on their way when the commands returned have landed after this
		time.Sleep(30 * time.Millisecond)
		before := counter.snapshot()
		time.Sleep(40 * time.Millisecond)
		after := counter.snapshot()
		listed := map[string]bool{}
		for _, d := range router.ListActiveServices() {
			for _, tg := range strings.Split(d.Target, ",") {
				listed[strings.TrimSpace(tg)] = true
			}
		}
		leaked := []string{}
		for host, n := range after {
			if n >= before[host]+3 && !listed[host] { // a live probe loop sends ~20 probes in the window; 1-2 stragglers are not a loop
				leaked = append(leaked, host)
			}
		}
		out.emit(map[string]any{"round": round, "deploy": vErrName(errD), "remove": vErrName(errR),
			"listed_targets": len(listed), "probed_but_not_listed": leaked})
		router.RemoveService("svc")
		time.Sleep(5 * time.Millisecond)
	}
}
