package server

// C06 under a fault of the file system: the state file cannot be replaced (a
// directory sits where the snapshot's temporary file is created, or where the
// state file itself is).  The pinned code ignores a failed snapshot; whatever a
// tree does, a command that REPORTS an error must have changed nothing.

import (
	"encoding/json"
	"fmt"
	"io"
	"net/http"
	"net/http/httptest"
	"os"
	"path/filepath"
	"sort"
	"strings"
	"testing"
	"time"
)

type vC06FaultTransport struct{}

func (vC06FaultTransport) RoundTrip(req *http.Request) (*http.Response, error) {
	if strings.HasPrefix(req.URL.Host, "bad") {
		return nil, fmt.Errorf("verif: connection refused")
	}
	return &http.Response{StatusCode: 200, Status: "200 OK", Proto: "HTTP/1.1", ProtoMajor: 1, ProtoMinor: 1,
		Header: http.Header{}, Body: io.NopCloser(strings.NewReader("")), Request: req}, nil
}

// vC06Observe: what is in force — the list, every service's marshalled configuration, and a routing sample.
func vC06Observe(router *Router) (string, string, string) {
	list := router.ListActiveServices()
	names := []string{}
	for n := range list {
		names = append(names, n)
	}
	sort.Strings(names)
	l := []string{}
	for _, n := range names {
		d := list[n]
		l = append(l, fmt.Sprintf("%s|%s|%s|%s|%s|%v", n, d.Host, d.Path, d.Target, d.State, d.TLS))
	}
	cfg := []string{}
	router.withReadLock(func() error {
		for _, n := range names {
			if sv := router.services.Get(n); sv != nil {
				b, _ := json.Marshal(sv)
				cfg = append(cfg, string(b))
			}
		}
		return nil
	})
	routes := []string{}
	for _, h := range []string{"a.example.com", "b.example.com", "c.example.com", "other.org"} {
		for _, p := range []string{"/", "/api/x"} {
			req := httptest.NewRequest("GET", "http://"+h+p, nil)
			sv, prefix := router.serviceForRequest(req)
			n := "-"
			if sv != nil {
				n = sv.name
			}
			routes = append(routes, h+p+"=>"+n+":"+prefix)
		}
	}
	return strings.Join(l, ";"), strings.Join(cfg, ";"), strings.Join(routes, ";")
}

func TestVerifC06Fault(t *testing.T) {
	cases := verifCases(t)
	out := verifOpenOut(t)
	defer out.close()
	old := http.DefaultTransport
	http.DefaultTransport = vC06FaultTransport{}
	defer func() { http.DefaultTransport = old }()

	topts := TargetOptions{HealthCheckConfig: HealthCheckConfig{Path: "/up", Interval: 50 * time.Millisecond, Timeout: time.Second}, ResponseTimeout: time.Second}
	so := func(host string) ServiceOptions { return ServiceOptions{Hosts: []string{host}} }
	for i, c := range cases {
		dir := t.TempDir()
		statePath := filepath.Join(dir, "state.json")
		router := NewRouter(statePath)
		res := map[string]any{"i": i, "cmd": c["cmd"], "fault": c["fault"]}
		// a small configuration, set up without any fault
		must := func(err error) {
			if err != nil {
				t.Fatalf("verif: setup of case %d: %v", i, err)
			}
		}
		must(router.DeployService("web", []string{"ta:80"}, so("a.example.com"), topts, time.Second, 0))
		must(router.DeployService("api", []string{"tb:80"}, so("b.example.com"), topts, time.Second, 0))
		must(router.SetRolloutTargets("web", []string{"tc:80"}, time.Second, 0))
		if vStr(c["cmd"]) == "resume" {
			must(router.PauseService("web", 0, time.Minute))
		}
		switch vStr(c["fault"]) {
		case "tmpdir": // the snapshot's temporary file cannot be created
			os.MkdirAll(statePath+".tmp", 0o755)
			os.WriteFile(filepath.Join(statePath+".tmp", "x"), []byte("x"), 0o644)
		case "statedir": // the state file cannot be replaced
			os.Remove(statePath)
			os.MkdirAll(statePath, 0o755)
			os.WriteFile(filepath.Join(statePath, "x"), []byte("x"), 0o644)
		case "none":
		}
		l0, c0, r0 := vC06Observe(router)
		var err error
		switch vStr(c["cmd"]) {
		case "deploy_new":
			err = router.DeployService("docs", []string{"td:80"}, so("c.example.com"), topts, time.Second, 0)
		case "redeploy":
			err = router.DeployService("web", []string{"te:80"}, so("a.example.com"), topts, time.Second, 0)
		case "redeploy_move":
			err = router.DeployService("web", []string{"te:80"}, so("c.example.com"), topts, time.Second, 0)
		case "deploy_unhealthy":
			err = router.DeployService("docs", []string{"bad1:80"}, so("c.example.com"), topts, 200*time.Millisecond, 0)
		case "deploy_conflict":
			err = router.DeployService("docs", []string{"td:80"}, so("a.example.com"), topts, time.Second, 0)
		case "rollout_deploy":
			err = router.SetRolloutTargets("web", []string{"tf:80"}, time.Second, 0)
		case "rollout_set":
			err = router.SetRolloutSplit("web", 50, []string{"alice"})
		case "rollout_stop":
			err = router.StopRollout("web")
		case "pause":
			err = router.PauseService("web", 0, time.Minute)
		case "stop":
			err = router.StopService("web", 0, "down")
		case "resume":
			err = router.ResumeService("web")
		case "remove":
			err = router.RemoveService("api")
		default:
			t.Fatalf("verif: unknown command %v", c["cmd"])
		}
		l1, c1, r1 := vC06Observe(router)
		res["result"] = vErrName(err)
		res["err"] = err != nil
		res["same_list"] = l0 == l1
		res["same_config"] = c0 == c1
		res["same_routing"] = r0 == r1
		res["before"] = map[string]any{"list": l0, "routing": r0}
		res["after"] = map[string]any{"list": l1, "routing": r1}
		out.emit(res)
		for _, n := range []string{"web", "api", "docs"} {
			router.RemoveService(n)
		}
	}
}
