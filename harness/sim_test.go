package server

// Scenario runner on a virtual clock (testing/synctest, Go 1.24 experiment):
// real Router / Service / LoadBalancer / Target / PauseController code, scripted
// health-probe responder (http.DefaultTransport) and scripted target transport
// (installed through the verifTargetCreated hook), event log through the
// verifEvent hook, goroutine parking through the verifYield hook.

import (
	"bufio"
	"bytes"
	"context"
	"crypto/tls"
	"encoding/hex"
	"encoding/json"
	"errors"
	"fmt"
	"io"
	"log/slog"
	"net"
	"net/http"
	"net/http/httptest"
	"net/http/httputil"
	"os"
	"path/filepath"
	"runtime"
	"sort"
	"strconv"
	"strings"
	"sync"
	"testing"
	"testing/synctest"
	"time"
)

type vEvent struct {
	Seq  int    `json:"seq"`
	T    int64  `json:"t"`
	G    string `json:"g"`
	Kind string `json:"kind"`
	Args []any  `json:"args"`
}

type vParked struct {
	point string
	ch    chan struct{}
	gid   int64
	who   string
}

type vSim struct {
	t     *testing.T
	mu    sync.Mutex
	start time.Time

	events []vEvent

	targetIDs map[*Target]int
	targets   []*Target
	lbIDs     map[*LoadBalancer]int
	svcIDs    map[*Service]int
	pcIDs     map[*PauseController]int
	chanIDs   map[chan bool]int
	reqPtrIDs map[*http.Request]string
	inflIDs   map[*inflightRequest]string
	gidNames  map[int64]string

	inBubble     bool                // running inside a synctest bubble (virtual clock)
	wgIDs        map[*sync.WaitGroup]int
	probeScripts map[string][]string // host -> outcomes, last one repeats
	probeCount   map[string]int
	probeLog     []map[string]any

	armed  map[string]int // point -> remaining parks
	parked []*vParked

	hung      map[string]context.CancelFunc
	router    *Router
	statePath string
	results   []map[string]any
	wg        sync.WaitGroup
}

func vGoid() int64 {
	var buf [64]byte
	n := runtime.Stack(buf[:], false)
	f := strings.Fields(string(buf[:n]))
	id, _ := strconv.ParseInt(f[1], 10, 64)
	return id
}

func newSim(t *testing.T, dir string) *vSim {
	s := &vSim{
		t: t, start: time.Now(),
		targetIDs: map[*Target]int{}, lbIDs: map[*LoadBalancer]int{}, svcIDs: map[*Service]int{},
		pcIDs: map[*PauseController]int{}, chanIDs: map[chan bool]int{}, reqPtrIDs: map[*http.Request]string{},
		inflIDs: map[*inflightRequest]string{}, gidNames: map[int64]string{},
		probeScripts: map[string][]string{}, probeCount: map[string]int{}, wgIDs: map[*sync.WaitGroup]int{},
		armed: map[string]int{}, hung: map[string]context.CancelFunc{},
		statePath: filepath.Join(dir, "kamal-proxy.state"),
	}
	return s
}

func (s *vSim) now() int64 { return int64(time.Since(s.start)) }

func (s *vSim) nameG(gid int64) string {
	if n, ok := s.gidNames[gid]; ok {
		return n
	}
	return "g" + strconv.FormatInt(gid, 10)
}

func (s *vSim) idTarget(t *Target) string {
	if t == nil {
		return "nil"
	}
	id, ok := s.targetIDs[t]
	if !ok {
		id = len(s.targetIDs)
		s.targetIDs[t] = id
		s.targets = append(s.targets, t)
	}
	return fmt.Sprintf("T%d:%s", id, t.Target())
}

func (s *vSim) idLB(lb *LoadBalancer) string {
	if lb == nil {
		return "nil"
	}
	id, ok := s.lbIDs[lb]
	if !ok {
		id = len(s.lbIDs)
		s.lbIDs[lb] = id
	}
	return fmt.Sprintf("L%d", id)
}

func (s *vSim) idSvc(sv *Service) string {
	if sv == nil {
		return "nil"
	}
	id, ok := s.svcIDs[sv]
	if !ok {
		id = len(s.svcIDs)
		s.svcIDs[sv] = id
	}
	return fmt.Sprintf("S%d:%s", id, sv.name)
}

func (s *vSim) idPC(p *PauseController) string {
	id, ok := s.pcIDs[p]
	if !ok {
		id = len(s.pcIDs)
		s.pcIDs[p] = id
	}
	return fmt.Sprintf("P%d", id)
}

func (s *vSim) canon(gid int64, a any) any {
	switch x := a.(type) {
	case *Target:
		return s.idTarget(x)
	case *LoadBalancer:
		return s.idLB(x)
	case *Service:
		return s.idSvc(x)
	case *PauseController:
		return s.idPC(x)
	case *sync.WaitGroup: // the WaitGroup of one LoadBalancer.DrainAll call identifies that call
		id, ok := s.wgIDs[x]
		if !ok {
			id = len(s.wgIDs)
			s.wgIDs[x] = id
		}
		return fmt.Sprintf("W%d", id)
	case *Router:
		return "router"
	case *http.Request:
		if id, ok := s.reqPtrIDs[x]; ok {
			return id
		}
		return s.nameG(gid)
	case *inflightRequest:
		if id, ok := s.inflIDs[x]; ok {
			return id
		}
		return "?"
	case chan bool:
		if x == nil {
			return "chan:nil"
		}
		id, ok := s.chanIDs[x]
		if !ok {
			id = len(s.chanIDs)
			s.chanIDs[x] = id
		}
		return fmt.Sprintf("chan:%d", id)
	case TargetList:
		out := []any{}
		for _, t := range x {
			out = append(out, s.idTarget(t))
		}
		return out
	case []*Service:
		out := []string{}
		for _, sv := range x {
			out = append(out, s.idSvc(sv))
		}
		sort.Strings(out)
		return out
	case inflightMap:
		out := []string{}
		for r, infl := range x {
			id := s.reqPtrIDs[r]
			if infl.hijacked.Load() {
				id += "!"
			}
			out = append(out, id)
		}
		sort.Strings(out)
		return out
	case error:
		return x.Error()
	}
	return a
}

// the command <-> drain linkage events are recorded only on request (VERIF_LINK=1): the views that predate them are
// offered traces without them
var vLinkKinds = map[string]bool{"svc-drain": true, "svc-drain-done": true, "drainall": true, "drain-child": true, "drainall-done": true}
var vLinkEvents = os.Getenv("VERIF_LINK") == "1"

func (s *vSim) event(kind string, args ...any) {
	if vLinkKinds[kind] && !vLinkEvents {
		return
	}
	gid := vGoid()
	s.mu.Lock()
	defer s.mu.Unlock()
	// learn identities
	if kind == "claim" && len(args) == 2 {
		if r, ok := args[1].(*http.Request); ok {
			s.reqPtrIDs[r] = s.nameG(gid)
			if t, ok := args[0].(*Target); ok {
				if infl := t.inflight[r]; infl != nil { // called with the target lock held
					s.inflIDs[infl] = s.nameG(gid)
				}
			}
		}
	}
	cargs := make([]any, 0, len(args))
	for _, a := range args {
		cargs = append(cargs, s.canon(gid, a))
	}
	// the options the availability check of installService was given (ownership view, model/M5own.v)
	if kind == "install" && len(args) >= 1 {
		if sv, ok := args[0].(*Service); ok && sv != nil {
			cargs = append(cargs, vToHex(sv.options.Hosts), vToHex(sv.options.PathPrefixes))
		}
	}
	s.events = append(s.events, vEvent{Seq: len(s.events), T: s.now(), G: s.nameG(gid), Kind: kind, Args: cargs})
}

func vToHex(l []string) []string {
	out := make([]string, 0, len(l))
	for _, x := range l {
		out = append(out, hex.EncodeToString([]byte(x)))
	}
	return out
}

func (s *vSim) yield(point string, args ...any) {
	gid := vGoid()
	s.mu.Lock()
	n := s.armed[point]
	if n <= 0 {
		s.mu.Unlock()
		return
	}
	s.armed[point] = n - 1
	who := ""
	if len(args) > 0 {
		who = fmt.Sprint(s.canon(gid, args[0]))
	}
	p := &vParked{point: point, ch: make(chan struct{}), gid: gid, who: who}
	s.parked = append(s.parked, p)
	s.events = append(s.events, vEvent{Seq: len(s.events), T: s.now(), G: s.nameG(gid), Kind: "parked", Args: []any{point, who}})
	s.mu.Unlock()
	<-p.ch
}

// release lets the oldest goroutine parked at point (and, if who != "", with
// that identity) continue.
func (s *vSim) release(point, who string) bool {
	s.mu.Lock()
	defer s.mu.Unlock()
	for i, p := range s.parked {
		if p.point == point && (who == "" || p.who == who || s.nameG(p.gid) == who) {
			s.parked = append(s.parked[:i], s.parked[i+1:]...)
			s.events = append(s.events, vEvent{Seq: len(s.events), T: s.now(), G: s.nameG(p.gid), Kind: "released", Args: []any{point, p.who}})
			close(p.ch)
			return true
		}
	}
	return false
}

func (s *vSim) releaseAll() {
	s.mu.Lock()
	for k := range s.armed {
		s.armed[k] = 0
	}
	ps := s.parked
	s.parked = nil
	s.mu.Unlock()
	for _, p := range ps {
		close(p.ch)
	}
}

// ---- scripted health-probe responder (http.DefaultTransport) ----

type vProbeRT struct{ s *vSim }

func (rt vProbeRT) RoundTrip(req *http.Request) (*http.Response, error) {
	s := rt.s
	if err := req.Context().Err(); err != nil {
		return nil, context.Cause(req.Context())
	}
	host := req.URL.Host
	s.mu.Lock()
	script := s.probeScripts[host]
	k := s.probeCount[host]
	s.probeCount[host] = k + 1
	outcome := "ok"
	if len(script) > 0 {
		if k < len(script) {
			outcome = script[k]
		} else {
			outcome = script[len(script)-1]
		}
	}
	s.events = append(s.events, vEvent{Seq: len(s.events), T: s.now(), G: "probe", Kind: "probe-sent", Args: []any{host, outcome, req.URL.Path}})
	s.mu.Unlock()

	status := 200
	switch {
	case outcome == "ok":
	case outcome == "refused":
		return nil, errors.New("verif: connection refused")
	case strings.HasPrefix(outcome, "status:"):
		status, _ = strconv.Atoi(outcome[len("status:"):])
	case strings.HasPrefix(outcome, "slow:"): // slow:<ns>[:status]
		parts := strings.Split(outcome, ":")
		d, _ := strconv.ParseInt(parts[1], 10, 64)
		if len(parts) > 2 {
			status, _ = strconv.Atoi(parts[2])
		}
		select {
		case <-time.After(time.Duration(d)):
		case <-req.Context().Done():
			return nil, req.Context().Err()
		}
	case outcome == "hang":
		<-req.Context().Done()
		return nil, req.Context().Err()
	}
	return &http.Response{
		StatusCode: status, Status: fmt.Sprintf("%d", status), Proto: "HTTP/1.1", ProtoMajor: 1, ProtoMinor: 1,
		Header: http.Header{}, Body: io.NopCloser(strings.NewReader("")), Request: req,
	}, nil
}

// ---- scripted target transport ----

type vTargetRT struct {
	s *vSim
	t *Target
}

// failed records why the target did not answer: "draining" (cancelled by a
// drain), "client" (the client went away) or "fault" (anything else).
func (rt vTargetRT) failed(rid string, err error) error {
	why := "fault"
	switch {
	case errors.Is(err, ErrorDraining):
		why = "draining"
	case errors.Is(err, context.Canceled):
		why = "client"
	}
	s := rt.s
	s.mu.Lock()
	s.events = append(s.events, vEvent{Seq: len(s.events), T: s.now(), G: rid, Kind: "target-failed", Args: []any{s.idTarget(rt.t), rid, why}})
	s.mu.Unlock()
	return err
}

// The behaviour of the target for one request is chosen by the request itself
// (header X-Verif-Behaviour): "" or "reply" = immediate 200, "delay:<ns>",
// "hang" (until the request context ends), "fault:<text>" (transport error), "dialfail:<target>" (connection refused by that target), "upgrade" / "upgrade:<ns>" (101, at once / late),
// "status:<n>".
func (rt vTargetRT) RoundTrip(req *http.Request) (*http.Response, error) {
	s := rt.s
	name := rt.t.Target()
	beh := req.Header.Get("X-Verif-Behaviour")
	rid := req.Header.Get("X-Verif-Req")
	s.mu.Lock()
	s.events = append(s.events, vEvent{Seq: len(s.events), T: s.now(), G: rid, Kind: "at-target", Args: []any{s.idTarget(rt.t), rid, req.URL.Path}})
	s.mu.Unlock()
	status := 200
	if want := req.Header.Get("X-Verif-Body"); want != "" && !strings.HasPrefix(beh, "upgrade") {
		// like net/http's transport, the scripted one sends the request body: it must be the client's, whole
		var got []byte
		if req.Body != nil {
			got, _ = io.ReadAll(req.Body)
		}
		if have := strconv.Itoa(len(got)) + ":" + strconv.FormatUint(uint64(vSum(got)), 10); have != want {
			return nil, rt.failed(rid, fmt.Errorf("verif: request body not intact at the target: got %s, the client sent %s", have, want))
		}
	}
	switch {
	case beh == "" || beh == "reply":
	case strings.HasPrefix(beh, "delay:"):
		d, _ := strconv.ParseInt(beh[len("delay:"):], 10, 64)
		select {
		case <-time.After(time.Duration(d)):
		case <-req.Context().Done():
			return nil, rt.failed(rid, context.Cause(req.Context()))
		}
	case beh == "hang":
		<-req.Context().Done()
		return nil, rt.failed(rid, context.Cause(req.Context()))
	case strings.HasPrefix(beh, "fault:"):
		return nil, rt.failed(rid, errors.New(beh[len("fault:"):]))
	case strings.HasPrefix(beh, "dialfail:"):
		// nothing listens at the named target: the connection is refused; any other target replies
		if beh[len("dialfail:"):] == name {
			return nil, rt.failed(rid, &net.OpError{Op: "dial", Net: "tcp", Err: errors.New("connect: connection refused")})
		}
	case strings.HasPrefix(beh, "status:"):
		status, _ = strconv.Atoi(beh[len("status:"):])
	case beh == "upgrade" || strings.HasPrefix(beh, "upgrade:"):
		if strings.HasPrefix(beh, "upgrade:") { // the 101 comes late
			d, _ := strconv.ParseInt(beh[len("upgrade:"):], 10, 64)
			select {
			case <-time.After(time.Duration(d)):
			case <-req.Context().Done():
				return nil, rt.failed(rid, context.Cause(req.Context()))
			}
		}
		// 101 Switching Protocols with a writable body: the target's end of an in-memory connection that
		// stays open until the proxy closes it
		near, far := net.Pipe()
		go func() { io.Copy(io.Discard, far) }()
		s.mu.Lock()
		s.events = append(s.events, vEvent{Seq: len(s.events), T: s.now(), G: rid, Kind: "target-replied", Args: []any{s.idTarget(rt.t), rid, 101}})
		s.mu.Unlock()
		h := http.Header{}
		h.Set("Connection", "Upgrade")
		h.Set("Upgrade", "websocket")
		h.Set("X-Verif-Served-By", name)
		return &http.Response{StatusCode: 101, Status: "101 Switching Protocols", Proto: "HTTP/1.1", ProtoMajor: 1, ProtoMinor: 1,
			Header: h, Body: vPipeBody{near, far}, Request: req}, nil
	}
	s.mu.Lock()
	s.events = append(s.events, vEvent{Seq: len(s.events), T: s.now(), G: rid, Kind: "target-replied", Args: []any{s.idTarget(rt.t), rid, status}})
	s.mu.Unlock()
	h := http.Header{}
	h.Set("X-Verif-Served-By", name)
	h.Set("Content-Type", "text/plain")
	body := "served-by:" + name + " path:" + req.URL.EscapedPath()
	if strings.HasPrefix(beh, "stream:") {
		// a response without Content-Length whose body arrives in two parts, the second one <ns> later: the exchange is
		// still running (headers and first part already with the client) when a drain begins
		d, _ := strconv.ParseInt(beh[len("stream:"):], 10, 64)
		h.Set("X-Verif-Body-Len", strconv.Itoa(len(body)))
		return &http.Response{
			StatusCode: status, Status: fmt.Sprintf("%d", status), Proto: "HTTP/1.1", ProtoMajor: 1, ProtoMinor: 1,
			Header: h, Body: &vStreamBody{ctx: req.Context(), parts: []string{body[:len(body)/2], body[len(body)/2:]}, gap: time.Duration(d)},
			ContentLength: -1, Request: req,
		}, nil
	}
	return &http.Response{
		StatusCode: status, Status: fmt.Sprintf("%d", status), Proto: "HTTP/1.1", ProtoMajor: 1, ProtoMinor: 1,
		Header: h, Body: io.NopCloser(strings.NewReader(body)), ContentLength: int64(len(body)), Request: req,
	}, nil
}

// vStreamBody delivers its parts one Read at a time, waiting `gap` before every part but the first; a cancelled
// request context ends the stream with that error (the upstream connection is gone).
type vStreamBody struct {
	ctx   context.Context
	parts []string
	gap   time.Duration
	next  int
}

func (b *vStreamBody) Read(p []byte) (int, error) {
	if b.next >= len(b.parts) {
		return 0, io.EOF
	}
	if b.next > 0 {
		select {
		case <-time.After(b.gap):
		case <-b.ctx.Done():
			return 0, context.Cause(b.ctx)
		}
	}
	n := copy(p, b.parts[b.next])
	b.parts[b.next] = b.parts[b.next][n:]
	if b.parts[b.next] == "" {
		b.next++
	}
	return n, nil
}

func (b *vStreamBody) Close() error { return nil }

// vPipeBody is the writable body of a 101 response (ReverseProxy needs an io.ReadWriteCloser).
type vPipeBody struct{ near, far net.Conn }

func (b vPipeBody) Read(p []byte) (int, error)  { return b.near.Read(p) }
func (b vPipeBody) Write(p []byte) (int, error) { return b.near.Write(p) }
func (b vPipeBody) Close() error                { b.far.Close(); return b.near.Close() }

// vHijackRecorder is a ResponseRecorder whose connection can be taken over (for upgraded requests): the
// client's end is drained by a goroutine that keeps what the proxy wrote.
type vHijackRecorder struct {
	*httptest.ResponseRecorder
	mu       sync.Mutex
	hijacked bool
	wrote    bytes.Buffer
	server   net.Conn
}

func (w *vHijackRecorder) Hijack() (net.Conn, *bufio.ReadWriter, error) {
	c := &vCaptureConn{w: w, closed: make(chan struct{})}
	w.mu.Lock()
	w.hijacked = true
	w.server = c
	w.mu.Unlock()
	return c, bufio.NewReadWriter(bufio.NewReader(c), bufio.NewWriter(c)), nil
}

// vCaptureConn is the taken-over client connection: what the proxy writes is kept (synchronously), the client
// never sends anything, and a read returns EOF once the proxy has closed the connection.
type vCaptureConn struct {
	w      *vHijackRecorder
	closed chan struct{}
	once   sync.Once
}

func (c *vCaptureConn) Read(p []byte) (int, error) { <-c.closed; return 0, io.EOF }
func (c *vCaptureConn) Write(p []byte) (int, error) {
	c.w.mu.Lock()
	defer c.w.mu.Unlock()
	return c.w.wrote.Write(p)
}
func (c *vCaptureConn) Close() error                       { c.once.Do(func() { close(c.closed) }); return nil }
func (c *vCaptureConn) LocalAddr() net.Addr                { return vAddr{} }
func (c *vCaptureConn) RemoteAddr() net.Addr               { return vAddr{} }
func (c *vCaptureConn) SetDeadline(t time.Time) error      { return nil }
func (c *vCaptureConn) SetReadDeadline(t time.Time) error  { return nil }
func (c *vCaptureConn) SetWriteDeadline(t time.Time) error { return nil }

type vAddr struct{}

func (vAddr) Network() string { return "verif" }
func (vAddr) String() string  { return "verif" }

func (s *vSim) install() func() {
	oldDT := http.DefaultTransport
	oldLog := slog.Default()
	http.DefaultTransport = vProbeRT{s}
	slog.SetDefault(slog.New(slog.NewTextHandler(io.Discard, nil)))
	verifEventFn = s.event
	verifYieldFn = s.yield
	verifTargetCreatedFn = func(t *Target) {
		s.mu.Lock()
		s.idTarget(t)
		s.mu.Unlock()
		if rp, ok := t.proxyHandler.(*httputil.ReverseProxy); ok {
			rp.Transport = vTargetRT{s, t}
		}
	}
	return func() {
		http.DefaultTransport = oldDT
		slog.SetDefault(oldLog)
		verifEventFn, verifYieldFn, verifTargetCreatedFn = nil, nil, nil
	}
}

// vSlowLog: a log handler at level Debug whose every record takes d to get rid of (no lock held meanwhile).
type vSlowLog struct{ d time.Duration }

func (h vSlowLog) Enabled(context.Context, slog.Level) bool  { return true }
func (h vSlowLog) Handle(context.Context, slog.Record) error { time.Sleep(h.d); return nil }
func (h vSlowLog) WithAttrs([]slog.Attr) slog.Handler        { return h }
func (h vSlowLog) WithGroup(string) slog.Handler             { return h }

// ---- scenario steps ----

func vDur(v any) time.Duration { return time.Duration(vInt(v)) }

func vErrName(err error) string {
	switch {
	case err == nil:
		return "ok"
	case errors.Is(err, ErrorServiceNotFound):
		return "not_found"
	case errors.Is(err, ErrorTargetFailedToBecomeHealthy):
		return "unhealthy"
	case errors.Is(err, ErrorHostInUse):
		return "host_in_use"
	case errors.Is(err, ErrorInvalidHostPattern):
		return "invalid_target"
	case errors.Is(err, ErrorUnableToLoadCertificate):
		return "cert"
	case errors.Is(err, ErrorAutomaticTLSDoesNotSupportWildcards):
		return "wildcard_acme"
	case errors.Is(err, ErrorUnableToLoadErrorPages):
		return "pages"
	case errors.Is(err, ErrorRolloutTargetNotSet):
		return "rollout_not_set"
	}
	return "other:" + err.Error()
}

func (s *vSim) serviceOptions(c map[string]any) ServiceOptions {
	o := ServiceOptions{
		Hosts: vStrList(c["hosts"]), PathPrefixes: vStrList(c["prefixes"]),
		TLSEnabled: vBool(c["tls"]), TLSRedirect: vBool(c["tls_redirect"]), StripPrefix: vBool(c["strip"]),
		ACMECachePath: filepath.Join(filepath.Dir(s.statePath), "certs"), ACMEDirectory: "https://127.0.0.1:1/dir",
	}
	switch vStr(c["cert"]) {
	case "good":
		o.TLSCertificatePath = filepath.Join(vAssets, "cert.pem")
		o.TLSPrivateKeyPath = filepath.Join(vAssets, "key.pem")
	case "bad":
		o.TLSCertificatePath = filepath.Join(vAssets, "missing-cert.pem")
		o.TLSPrivateKeyPath = filepath.Join(vAssets, "missing-key.pem")
	}
	switch vStr(c["pages"]) {
	case "good":
		o.ErrorPagePath = filepath.Join(vAssets, "pages_good")
	case "partial":
		o.ErrorPagePath = filepath.Join(vAssets, "pages_partial")
	case "bad":
		o.ErrorPagePath = filepath.Join(vAssets, "pages_bad")
	}
	return o
}

func (s *vSim) targetOptions(c map[string]any) TargetOptions {
	to := TargetOptions{
		HealthCheckConfig: HealthCheckConfig{Path: "/up", Interval: time.Second, Timeout: 5 * time.Second},
		ResponseTimeout:   30 * time.Second,
	}
	if m, ok := c["topts"].(map[string]any); ok {
		if v, ok := m["health_path"]; ok {
			to.HealthCheckConfig.Path = string(vUnhex(v))
		}
		if v, ok := m["interval"]; ok {
			to.HealthCheckConfig.Interval = vDur(v)
		}
		if v, ok := m["timeout"]; ok {
			to.HealthCheckConfig.Timeout = vDur(v)
		}
		if v, ok := m["response_timeout"]; ok {
			to.ResponseTimeout = vDur(v)
		}
		to.BufferRequests = vBool(m["buffer_requests"])
		to.BufferResponses = vBool(m["buffer_responses"])
		to.MaxMemoryBufferSize = vInt(m["buffer_memory"])
		to.MaxRequestBodySize = vInt(m["max_request_body"])
		to.MaxResponseBodySize = vInt(m["max_response_body"])
		to.ForwardHeaders = vBool(m["forward_headers"])
	}
	return to
}

func (s *vSim) setProbeScripts(targets []any) []string {
	names := []string{}
	for _, t := range targets {
		m := t.(map[string]any)
		name := string(vUnhex(m["name"]))
		names = append(names, name)
		script := []string{}
		for _, o := range vList(m["probes"]) {
			script = append(script, vStr(o))
		}
		s.mu.Lock()
		s.probeScripts[name] = script
		s.probeCount[name] = 0
		s.mu.Unlock()
	}
	return names
}

func (s *vSim) runCommand(id string, c map[string]any) map[string]any {
	r := s.router
	name := string(vUnhex(c["name"]))
	res := map[string]any{"id": id, "op": c["op"], "t_issue": s.now()}
	var err error
	panicked := ""
	func() {
		defer func() {
			if p := recover(); p != nil {
				panicked = fmt.Sprint(p)
			}
		}()
		switch vStr(c["op"]) {
		case "deploy":
			names := s.setProbeScripts(vList(c["targets"]))
			err = r.DeployService(name, names, s.serviceOptions(c), s.targetOptions(c), vDur(c["deploy_timeout"]), vDur(c["drain_timeout"]))
		case "rollout_deploy":
			names := s.setProbeScripts(vList(c["targets"]))
			err = r.SetRolloutTargets(name, names, vDur(c["deploy_timeout"]), vDur(c["drain_timeout"]))
		case "rollout_set":
			err = r.SetRolloutSplit(name, int(vInt(c["pct"])), vStrList(c["allow"]))
		case "rollout_stop":
			err = r.StopRollout(name)
		case "pause":
			err = r.PauseService(name, vDur(c["drain_timeout"]), vDur(c["fail_after"]))
		case "stop":
			err = r.StopService(name, vDur(c["drain_timeout"]), string(vUnhex(c["msg"])))
		case "resume":
			err = r.ResumeService(name)
		case "remove":
			err = r.RemoveService(name)
		default:
			panic("verif: unknown command " + vStr(c["op"]))
		}
	}()
	res["t_return"] = s.now()
	if panicked != "" {
		res["result"] = "panic"
		res["panic"] = panicked
	} else {
		res["result"] = vErrName(err)
	}
	s.mu.Lock()
	s.events = append(s.events, vEvent{Seq: len(s.events), T: s.now(), G: id, Kind: "return", Args: []any{id, res["result"]}})
	s.mu.Unlock()
	return res
}

type vRecorder struct {
	*httptest.ResponseRecorder
	hijacked bool
}

// vSum: a simple position-sensitive checksum of a body
func vSum(b []byte) uint32 {
	var h uint32 = 2166136261
	for _, x := range b {
		h = (h ^ uint32(x)) * 16777619
	}
	return h
}

func (s *vSim) runRequest(id string, c map[string]any) map[string]any {
	method := vStr(c["method"])
	if method == "" {
		method = "GET"
	}
	uri := string(vUnhex(c["uri"]))
	if uri == "" {
		uri = "/"
	}
	req := httptest.NewRequest(method, "http://placeholder"+uri, bytes.NewReader(vUnhex(c["body"])))
	req.Host = string(vUnhex(c["host"]))
	req.RequestURI = uri
	if vBool(c["tls"]) {
		req.TLS = &tls.ConnectionState{}
	} else {
		req.TLS = nil
	}
	for _, h := range vList(c["headers"]) {
		kv := vList(h)
		req.Header.Add(string(vUnhex(kv[0])), string(vUnhex(kv[1])))
	}
	if b := vStr(c["behaviour"]); b != "" {
		req.Header.Set("X-Verif-Behaviour", b)
	}
	req.Header.Set("X-Verif-Req", id)
	if body := vUnhex(c["body"]); len(body) > 0 {
		// what the target must receive: the scripted target transport compares (length and checksum)
		req.Header.Set("X-Verif-Body", strconv.Itoa(len(body))+":"+strconv.FormatUint(uint64(vSum(body)), 10))
		if vBool(c["chunked"]) {
			req.ContentLength = -1
			req.TransferEncoding = []string{"chunked"}
		}
	}
	ctx, cancel := context.WithCancel(context.Background())
	req = req.WithContext(ctx)
	s.mu.Lock()
	s.hung[id] = cancel
	s.events = append(s.events, vEvent{Seq: len(s.events), T: s.now(), G: id, Kind: "arrive", Args: []any{id, req.Host, uri}})
	s.mu.Unlock()
	w := httptest.NewRecorder()
	var hw *vHijackRecorder
	var rw http.ResponseWriter = w
	if strings.HasPrefix(vStr(c["behaviour"]), "upgrade") {
		req.Header.Set("Connection", "Upgrade")
		req.Header.Set("Upgrade", "websocket")
		hw = &vHijackRecorder{ResponseRecorder: w}
		rw = hw
	}
	handler, _ := WithErrorPageMiddleware(vPagesFS(), true, s.router)
	res := map[string]any{"id": id, "op": "request", "t_arrive": s.now()}
	func() {
		defer func() {
			if p := recover(); p != nil {
				res["panic"] = fmt.Sprint(p)
			}
		}()
		handler.ServeHTTP(rw, req)
	}()
	if ctx.Err() != nil {
		res["client_gone"] = true // the harness (cancel op / teardown) had withdrawn the client before the handler returned
	}
	cancel()
	res["t_done"] = s.now()
	if hw != nil {
		hw.mu.Lock()
		if hw.hijacked {
			// the status line the proxy wrote on the taken-over connection
			line := hw.wrote.String()
			if f := strings.Fields(line); len(f) >= 2 {
				if n, err := strconv.Atoi(f[1]); err == nil {
					w.Code = n
				}
			}
			for _, l := range strings.Split(line, "\r\n") {
				if strings.HasPrefix(strings.ToLower(l), "x-verif-served-by:") {
					w.Header().Set("X-Verif-Served-By", strings.TrimSpace(l[len("x-verif-served-by:"):]))
				}
			}
			res["upgraded"] = true
		}
		hw.mu.Unlock()
	}
	res["status"] = w.Code
	if bl := w.Header().Get("X-Verif-Body-Len"); bl != "" {
		// a streamed response: did the whole body reach the client?
		if n, err := strconv.Atoi(bl); err == nil && n != w.Body.Len() {
			res["truncated"] = true
		}
		res["streamed"] = true
	}
	res["served_by"] = w.Header().Get("X-Verif-Served-By")
	res["location"] = w.Header().Get("Location")
	res["body"] = vHex(w.Body.Bytes())
	s.mu.Lock()
	delete(s.hung, id)
	s.events = append(s.events, vEvent{Seq: len(s.events), T: s.now(), G: id, Kind: "respond", Args: []any{id, w.Code, w.Header().Get("X-Verif-Served-By")}})
	s.mu.Unlock()
	return res
}

func (s *vSim) stateFile() any {
	b, err := os.ReadFile(s.statePath)
	if err != nil {
		return map[string]any{"error": "absent"}
	}
	var v any
	if err := json.Unmarshal(b, &v); err != nil {
		return map[string]any{"error": "undecodable", "len": len(b)}
	}
	return v
}

func (s *vSim) listServices() any {
	m := s.router.ListActiveServices()
	out := map[string]any{}
	for k, v := range m {
		out[vHex([]byte(k))] = map[string]any{"host": vHex([]byte(v.Host)), "path": vHex([]byte(v.Path)), "target": vHex([]byte(v.Target)), "tls": v.TLS, "state": v.State}
	}
	return out
}

func (s *vSim) record(res map[string]any) {
	s.mu.Lock()
	s.results = append(s.results, res)
	s.mu.Unlock()
}

func (s *vSim) cleanup() {
	// Orderly teardown: first the clients still waiting go away and their exchanges unwind completely (target-failed
	// "client", end, respond 499); only then are the goroutines still parked at yield points released.  Releasing both at
	// once made a released Drain call snapshot requests whose client had already gone (context done, handler not yet
	// unwound): the drain's wait loop rightly skips them, but the trace then shows requests "in flight" at the
	// cancel-rest that no drain cut off - an artefact of the teardown, not a behaviour of the scenario.
	s.mu.Lock()
	s.events = append(s.events, vEvent{Seq: len(s.events), T: s.now(), G: "env", Kind: "teardown", Args: []any{}})
	for _, c := range s.hung {
		c()
	}
	s.mu.Unlock()
	if s.inBubble {
		synctest.Wait()
	} else {
		time.Sleep(100 * time.Millisecond) // real scheduler (harness/c12fs_test.go): give the withdrawn exchanges time to unwind
	}
	s.releaseAll()
	s.mu.Lock()
	ts := append([]*Target{}, s.targets...)
	s.mu.Unlock()
	s.wg.Wait()
	for _, t := range ts {
		t.stopHealthChecks()
	}
}

// vExtraOps lets other harness files add scenario operations (op name ->
// handler running inside the bubble; use s.record to emit a result).
var vExtraOps = map[string]func(s *vSim, id string, c map[string]any){}

// runScenario executes the steps inside a synctest bubble and returns results + events.
func vRunScenario(t *testing.T, sc map[string]any) map[string]any {
	dir := t.TempDir()
	out := map[string]any{}
	synctest.Run(func() {
		s := newSim(t, dir)
		s.inBubble = true
		restore := s.install()
		defer restore()
		s.router = NewRouter(s.statePath)
		vWritePages(1)
		if d := vDur(sc["slow_log_ns"]); d > 0 {
			// the log sink is slow (a pipe to a collector that is behind) and the level is Debug: every log call takes a
			// moment, during which other goroutines run
			slog.SetDefault(slog.New(vSlowLog{d}))
		}
		stepN := 0
		for _, st := range vList(sc["steps"]) {
			c := st.(map[string]any)
			stepN++
			id := vStr(c["id"])
			if id == "" {
				id = fmt.Sprintf("x%d", stepN)
			}
			op := vStr(c["op"])
			switch op {
			case "sleep":
				time.Sleep(vDur(c["ns"]))
				synctest.Wait()
			case "settle":
				synctest.Wait()
			case "arm":
				s.mu.Lock()
				s.armed[vStr(c["point"])] += int(vInt(c["n"]))
				s.mu.Unlock()
			case "release":
				ok := s.release(vStr(c["point"]), vStr(c["who"]))
				synctest.Wait()
				s.record(map[string]any{"id": id, "op": "release", "ok": ok})
			case "probe_script":
				s.setProbeScripts(vList(c["targets"]))
			case "write_pages":
				// the operator replaces the custom error pages in place (same directory): a later deploy reads the new ones
				vWritePages(int(vInt(c["version"])))
			case "cancel":
				s.mu.Lock()
				cf := s.hung[vStr(c["who"])]
				s.mu.Unlock()
				if cf != nil {
					cf()
				}
				synctest.Wait()
			case "observe":
				s.record(map[string]any{"id": id, "op": "observe", "t": s.now(), "state_file": s.stateFile(), "list": s.listServices()})
			case "restart":
				// a new process: new router restored from the state file; the old
				// router's probe loops die with the old process
				s.mu.Lock()
				old := append([]*Target{}, s.targets...)
				s.mu.Unlock()
				for _, tg := range old {
					tg.stopHealthChecks()
				}
				s.router = NewRouter(s.statePath)
				err := s.router.RestoreLastSavedState()
				s.record(map[string]any{"id": id, "op": "restart", "result": vErrName(err)})
				synctest.Wait()
			case "request":
				if vBool(c["async"]) {
					s.wg.Add(1)
					go func() {
						defer s.wg.Done()
						s.mu.Lock()
						s.gidNames[vGoid()] = id
						s.mu.Unlock()
						s.record(s.runRequest(id, c))
					}()
					synctest.Wait()
				} else {
					s.mu.Lock()
					s.gidNames[vGoid()] = id
					s.mu.Unlock()
					s.record(s.runRequest(id, c))
					s.mu.Lock()
					delete(s.gidNames, vGoid())
					s.mu.Unlock()
				}
			default: // commands
				if fn, ok := vExtraOps[op]; ok {
					fn(s, id, c)
					continue
				}
				s.mu.Lock()
				s.events = append(s.events, vEvent{Seq: len(s.events), T: s.now(), G: id, Kind: "issue", Args: []any{id, op, vHexOrEmpty(c["name"]), vInt(c["deploy_timeout"]), vInt(c["drain_timeout"]), vInt(c["fail_after"])}})
				s.mu.Unlock()
				if vBool(c["async"]) {
					s.wg.Add(1)
					go func() {
						defer s.wg.Done()
						s.mu.Lock()
						s.gidNames[vGoid()] = id
						s.mu.Unlock()
						s.record(s.runCommand(id, c))
					}()
					synctest.Wait()
				} else {
					s.mu.Lock()
					s.gidNames[vGoid()] = id
					s.mu.Unlock()
					s.record(s.runCommand(id, c))
					s.mu.Lock()
					delete(s.gidNames, vGoid())
					s.mu.Unlock()
				}
			}
		}
		// let everything that can finish, finish; then tear down
		synctest.Wait()
		s.mu.Lock()
		stuck := []string{}
		for _, p := range s.parked {
			stuck = append(stuck, p.point+"/"+p.who)
		}
		for id := range s.hung {
			stuck = append(stuck, "hung/"+id)
		}
		s.mu.Unlock()
		sort.Strings(stuck)
		out["pending_at_end"] = stuck
		s.cleanup()
		synctest.Wait()
		s.mu.Lock()
		out["results"] = s.results
		out["events"] = s.events
		out["t_end"] = s.now()
		s.mu.Unlock()
	})
	return out
}

func vHexOrEmpty(v any) string {
	if v == nil {
		return ""
	}
	return string(vUnhex(v))
}
