package server

import (
	"io/fs"
	"runtime"
	"testing"

	"github.com/basecamp/kamal-proxy/internal/pages"
)

func vPagesFS() fs.FS { return pages.DefaultErrorPages }

// TestVerifSim runs every scenario of VERIF_IN (one JSON object per line) on
// the real code under the virtual clock and writes results + event logs.
func TestVerifSim(t *testing.T) {
	cases := verifCases(t)
	out := verifOpenOut(t)
	defer out.close()
	vMakeAssets(t)
	// One P: goroutines interleave only where they block (or at armed yields),
	// so every lock region of the code is one atomic step of the recorded trace.
	defer runtime.GOMAXPROCS(runtime.GOMAXPROCS(1))
	for i, sc := range cases {
		res := vRunScenario(t, sc)
		res["i"] = i
		out.emit(res)
	}
}
