package server

import (
	"encoding/json"
	"io/fs"
	"os"
	"runtime"
	"strconv"
	"testing"
	"time"

	"github.com/basecamp/kamal-proxy/internal/pages"
)

func vPagesFS() fs.FS { return pages.DefaultErrorPages }

// TestVerifSim runs every scenario of VERIF_IN (one JSON object per line) on
// the real code under the virtual clock and writes results + event logs.
func TestVerifSim(t *testing.T) {
	cases := verifCases(t)
	out := verifOpenOut(t)
	defer out.close()
	vMakeAssets(t)
	// One P: goroutines interleave only where they block (or at armed yields),
	// so every lock region of the code is one atomic step of the recorded trace.
	defer runtime.GOMAXPROCS(runtime.GOMAXPROCS(1))
	// Watchdog in REAL time: a scenario normally takes a fraction of a second.  One that does not end - goroutines of the
	// bubble blocked on a lock (the virtual clock cannot advance), or goroutines that never stop - is reported with its
	// index and the stacks of all goroutines in VERIF_OUT + ".hang"; the run is abandoned.
	limit := 120 * time.Second
	if v, err := strconv.Atoi(os.Getenv("VERIF_HANG_S")); err == nil && v > 0 {
		limit = time.Duration(v) * time.Second
	}
	for i, sc := range cases {
		done := make(chan struct{})
		go func(i int) {
			select {
			case <-done:
			case <-time.After(limit):
				buf := make([]byte, 1<<20)
				buf = buf[:runtime.Stack(buf, true)]
				b, _ := json.Marshal(map[string]any{"i": i, "hung": true, "limit_s": int(limit / time.Second), "stacks": string(buf)})
				os.WriteFile(os.Getenv("VERIF_OUT")+".hang", b, 0o644)
				out.close()
				os.Exit(3)
			}
		}(i)
		// which scenario is running: if the process dies (a panic outside a request handler / command, a fatal runtime
		// error), the Python side reads this to name the scenario that killed the proxy
		os.WriteFile(os.Getenv("VERIF_OUT")+".cur", []byte(strconv.Itoa(i)), 0o644)
		res := vRunScenario(t, sc)
		close(done)
		res["i"] = i
		out.emit(res)
	}
}
