package server

// C08 — "every request for a stopped service is answered 503 with the operator's message rendered into the page",
// with MANY requests at once under the REAL scheduler: two stopped services (one with custom error pages, one without)
// with different messages, and an unknown host, asked concurrently from several goroutines through the server's handler
// chain.  Every answer is recorded; the distinct (host, status, body) triples are written out and judged by the model's
// rendering (corr/C08held.v): requests served at the same moment must not see anything of each other's pages.

import (
	"encoding/hex"
	"fmt"
	"io"
	"net/http"
	"net/http/httptest"
	"os"
	"path/filepath"
	"runtime"
	"strconv"
	"strings"
	"sync"
	"testing"
	"time"
)

type c08OKTransport struct{}

func (c08OKTransport) RoundTrip(req *http.Request) (*http.Response, error) {
	return &http.Response{StatusCode: 200, Status: "200 OK", Proto: "HTTP/1.1", ProtoMajor: 1, ProtoMinor: 1,
		Header: http.Header{}, Body: io.NopCloser(strings.NewReader("")), Request: req}, nil
}

func TestVerifC08Race(t *testing.T) {
	if os.Getenv("VERIF_OUT") == "" {
		t.Skip("VERIF_OUT not set")
	}
	per, _ := strconv.Atoi(os.Getenv("VERIF_ROUNDS"))
	if per == 0 {
		per = 300
	}
	out := verifOpenOut(t)
	defer out.close()
	vMakeAssets(t)
	vWritePages(1)
	oldT := http.DefaultTransport
	http.DefaultTransport = c08OKTransport{}
	defer func() { http.DefaultTransport = oldT }()
	defer runtime.GOMAXPROCS(runtime.GOMAXPROCS(0))
	if runtime.GOMAXPROCS(0) < 4 {
		runtime.GOMAXPROCS(4)
	}

	router := NewRouter(filepath.Join(t.TempDir(), "state.json"))
	topts := TargetOptions{HealthCheckConfig: HealthCheckConfig{Path: "/up", Interval: 50 * time.Millisecond, Timeout: time.Second},
		ResponseTimeout: time.Second}
	msgs := map[string]string{}
	for i, name := range []string{"plain", "custom", "plain2"} {
		so := ServiceOptions{Hosts: []string{name + ".test"}}
		if name == "custom" {
			so.ErrorPagePath = filepath.Join(vAssets, "pages_good")
		}
		if err := router.DeployService(name, []string{"t" + strconv.Itoa(i) + ":80"}, so, topts, time.Second, 10*time.Millisecond); err != nil {
			t.Fatalf("verif: deploy %s: %v", name, err)
		}
		mb, _ := hex.DecodeString(os.Getenv("VERIF_MSG_" + strconv.Itoa(i)))
		msg := string(mb)
		msgs[name+".test"] = msg
		if err := router.StopService(name, 10*time.Millisecond, msg); err != nil {
			t.Fatalf("verif: stop %s: %v", name, err)
		}
	}
	defer func() {
		// (in the background and bounded: on a tree where a pause controller is stuck the removal would wait for ever)
		done := make(chan struct{})
		go func() {
			for _, name := range []string{"plain", "custom", "plain2", "held"} {
				router.RemoveService(name)
			}
			close(done)
		}()
		select {
		case <-done:
		case <-time.After(3 * time.Second):
		}
	}()
	handler, _ := WithErrorPageMiddleware(vPagesFS(), true, router)

	hosts := []string{"plain.test", "custom.test", "plain2.test", "nobody.test"}
	type answer struct {
		host   string
		status int
		body   string
	}
	var mu sync.Mutex
	seen := map[answer]int{}
	var wg sync.WaitGroup
	start := make(chan struct{})
	workers := 16
	for w := 0; w < workers; w++ {
		wg.Add(1)
		go func(w int) {
			defer wg.Done()
			<-start
			for k := 0; k < per; k++ {
				host := hosts[(w+k)%len(hosts)]
				a := answer{host: host}
				func() {
					defer func() {
						if p := recover(); p != nil {
							a.status, a.body = -1, "panic: "+fmt.Sprint(p)
						}
					}()
					req := httptest.NewRequest("GET", "http://"+host+"/x", nil)
					rec := httptest.NewRecorder()
					handler.ServeHTTP(rec, req)
					a.status, a.body = rec.Code, rec.Body.String()
				}()
				mu.Lock()
				seen[a]++
				mu.Unlock()
			}
		}(w)
	}
	close(start)
	wg.Wait()
	// Second phase: requests HELD by a pause when two stop commands arrive together (same message), round after round.
	// Every held request must be answered 503 with the message soon after; a request still unanswered 30 s later is
	// reported as such (status -2; the wait is long so that a starved machine is not taken for a stuck proxy).
	heldMsg := msgs["plain.test"]
	msgs["held.test"] = heldMsg
	hosts = append(hosts, "held.test")
	if err := router.DeployService("held", []string{"t9:80"}, ServiceOptions{Hosts: []string{"held.test"}}, topts, time.Second, 10*time.Millisecond); err != nil {
		t.Fatalf("verif: deploy held: %v", err)
	}
	rounds := 8
	for round := 0; round < rounds; round++ {
		if err := router.PauseService("held", 10*time.Millisecond, 60*time.Second); err != nil {
			t.Fatalf("verif: pause: %v", err)
		}
		const waiters = 3000
		done := make(chan answer, waiters)
		for k := 0; k < waiters; k++ {
			go func() {
				a := answer{host: "held.test"}
				defer func() {
					if p := recover(); p != nil {
						a.status, a.body = -1, "panic: "+fmt.Sprint(p)
					}
					done <- a
				}()
				req := httptest.NewRequest("GET", "http://held.test/x", nil)
				rec := httptest.NewRecorder()
				handler.ServeHTTP(rec, req)
				a.status, a.body = rec.Code, rec.Body.String()
			}()
		}
		time.Sleep(30 * time.Millisecond) // they are at the gate
		var cw sync.WaitGroup
		for k := 0; k < 2; k++ {
			cw.Add(1)
			go func() {
				defer cw.Done()
				router.StopService("held", 10*time.Millisecond, heldMsg)
			}()
		}
		got := 0
		deadline := time.After(30 * time.Second)
	collect:
		for got < waiters {
			select {
			case a := <-done:
				seen[a]++
				got++
			case <-deadline:
				break collect
			}
		}
		if got < waiters {
			seen[answer{host: "held.test", status: -2, body: fmt.Sprintf("%d of %d held requests still unanswered 30 s after the stop (round %d)", waiters-got, waiters, round)}]++
			break // the controller is stuck: commands would hang too
		}
		cw.Wait()
		router.ResumeService("held")
	}
	for a, n := range seen {
		out.emit(map[string]any{"host": a.host, "status": a.status, "body": hex.EncodeToString([]byte(a.body)), "count": n,
			"msg": hex.EncodeToString([]byte(msgs[a.host])), "custom": a.host == "custom.test", "stopped": a.host != "nobody.test"})
	}
}
