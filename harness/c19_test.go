package server

// C19 — access log.
//
// TestVerifC19Unit: the real LoggingMiddleware around a scripted handler and a
// scripted underlying ResponseWriter (partial writes, failing / missing
// Hijacker, panics): the writer state machine and the record function.
//
// TestVerifC19: the JSON records of a real Server (slog.SetDefault before
// buildHandler runs) joined with what a raw client and the scripted targets
// saw, for every way a request can end.

import (
	"bufio"
	"bytes"
	"crypto/tls"
	"encoding/json"
	"errors"
	"fmt"
	"io"
	"log/slog"
	"net"
	"net/http"
	"net/http/httptest"
	"path/filepath"
	"regexp"
	"sort"
	"strconv"
	"strings"
	"sync"
	"testing"
	"time"
)

type vC19Log struct {
	mu  sync.Mutex
	buf bytes.Buffer
}

func (l *vC19Log) Write(p []byte) (int, error) {
	l.mu.Lock()
	defer l.mu.Unlock()
	return l.buf.Write(p)
}

// records returns the "Request" records written so far.
func (l *vC19Log) records() []map[string]any {
	l.mu.Lock()
	data := append([]byte(nil), l.buf.Bytes()...)
	l.mu.Unlock()
	out := []map[string]any{}
	for _, line := range bytes.Split(data, []byte("\n")) {
		if len(line) == 0 {
			continue
		}
		var m map[string]any
		if json.Unmarshal(line, &m) != nil {
			continue
		}
		if m["msg"] == "Request" {
			out = append(out, m)
		}
	}
	return out
}

// vC19Record renders a record for the driver: every string hex-encoded, custom
// attributes (req_* / resp_* beyond the fixed ones) in a list.  JSON objects
// with duplicate keys are not expected (the generator configures distinct names).
var vC19Fixed = map[string]bool{
	"time": true, "level": true, "msg": true, "host": true, "port": true, "path": true, "request_id": true,
	"status": true, "service": true, "target": true, "duration": true, "method": true, "req_content_length": true,
	"req_content_type": true, "resp_content_length": true, "resp_content_type": true, "client_addr": true,
	"client_port": true, "remote_addr": true, "user_agent": true, "proto": true, "scheme": true, "query": true,
}

func vC19Record(m map[string]any) map[string]any {
	r := map[string]any{}
	extra := [][]string{}
	keys := []string{}
	for k := range m {
		keys = append(keys, k)
	}
	sort.Strings(keys)
	for _, k := range keys {
		v := m[k]
		if !vC19Fixed[k] {
			s, _ := v.(string)
			extra = append(extra, []string{vHex([]byte(k)), vHex([]byte(s))})
			continue
		}
		switch x := v.(type) {
		case string:
			r[k] = vHex([]byte(x))
		case float64:
			r[k] = int64(x)
		}
	}
	r["extra"] = extra
	return r
}

func vC19Body(start, n int) []byte {
	b := make([]byte, n)
	for i := range b {
		b[i] = byte((start + i) % 251)
	}
	return b
}

// ---- unit level ----

type vC19Writer struct {
	h        http.Header
	statuses []int
	accepts  []int // scripted: bytes to accept for the next Write calls
	written  int
	flushes  int
}

func (w *vC19Writer) Header() http.Header { return w.h }
func (w *vC19Writer) WriteHeader(s int)   { w.statuses = append(w.statuses, s) }
func (w *vC19Writer) Write(p []byte) (int, error) {
	n := len(p)
	if len(w.accepts) > 0 {
		n = w.accepts[0]
		w.accepts = w.accepts[1:]
	}
	if n > len(p) {
		n = len(p)
	}
	w.written += n
	if n < len(p) {
		return n, errors.New("verif: short write")
	}
	return n, nil
}
func (w *vC19Writer) Flush() { w.flushes++ }

type vC19Hijacker struct {
	*vC19Writer
	fail     bool
	hijacked int
}

func (w *vC19Hijacker) Hijack() (net.Conn, *bufio.ReadWriter, error) {
	if w.fail {
		return nil, nil, errors.New("verif: hijack failed")
	}
	w.hijacked++
	return nil, nil, nil
}

func TestVerifC19Unit(t *testing.T) {
	cases := verifCases(t)
	out := verifOpenOut(t)
	defer out.close()
	for i, c := range cases {
		lg := &vC19Log{}
		logger := slog.New(slog.NewJSONHandler(lg, nil))
		rq := c["req"].(map[string]any)
		req := httptest.NewRequest(vStr(rq["method"]), "http://placeholder"+string(vUnhex(rq["uri"])), nil)
		req.Host = string(vUnhex(rq["host"]))
		req.RemoteAddr = string(vUnhex(rq["remote_addr"]))
		req.Proto = vStr(rq["proto"])
		req.ContentLength = vInt(rq["content_length"])
		if vBool(rq["tls"]) {
			req.TLS = &tls.ConnectionState{}
		}
		req.Header = http.Header{}
		for _, h := range vList(rq["headers"]) {
			kv := vList(h)
			k := string(vUnhex(kv[0]))
			req.Header[k] = append(req.Header[k], string(vUnhex(kv[1])))
		}
		base := &vC19Writer{h: http.Header{}}
		for _, op := range vList(c["ops"]) {
			o := vList(op)
			if vStr(o[0]) == "w" {
				base.accepts = append(base.accepts, int(vInt(o[2])))
			}
		}
		var under http.ResponseWriter = base
		hj := &vC19Hijacker{vC19Writer: base}
		switch vStr(c["hijacker"]) {
		case "ok":
			under = hj
		case "fail":
			hj.fail = true
			under = hj
		}
		handler := http.HandlerFunc(func(w http.ResponseWriter, r *http.Request) {
			if cx, ok := c["ctx"].(map[string]any); ok {
				lrc := LoggingRequestContext(r)
				lrc.Service = string(vUnhex(cx["service"]))
				lrc.Target = string(vUnhex(cx["target"]))
				lrc.RequestHeaders = vStrList(cx["req_headers"])
				lrc.ResponseHeaders = vStrList(cx["resp_headers"])
			}
			for _, h := range vList(c["resp_headers"]) {
				kv := vList(h)
				k := string(vUnhex(kv[0]))
				w.Header()[k] = append(w.Header()[k], string(vUnhex(kv[1])))
			}
			for _, op := range vList(c["ops"]) {
				o := vList(op)
				switch vStr(o[0]) {
				case "wh":
					w.WriteHeader(int(vInt(o[1])))
				case "w":
					w.Write(make([]byte, vInt(o[1])))
				case "f":
					if f, ok := w.(http.Flusher); ok {
						f.Flush()
					}
				case "hj":
					if h, ok := w.(http.Hijacker); ok {
						h.Hijack()
					}
				}
			}
			if vBool(c["panic"]) {
				panic("verif: handler panic")
			}
		})
		mw := WithLoggingMiddleware(logger, int(vInt(c["http_port"])), int(vInt(c["https_port"])), handler)
		panicked := false
		func() {
			defer func() {
				if recover() != nil {
					panicked = true
				}
			}()
			mw.ServeHTTP(under, req)
		}()
		recs := []any{}
		for _, m := range lg.records() {
			recs = append(recs, vC19Record(m))
		}
		out.emit(map[string]any{
			"i": i, "records": recs, "panicked": panicked, "under_statuses": base.statuses, "under_written": base.written,
			"under_flushes": base.flushes, "under_hijacked": hj.hijacked,
			"path": vHex([]byte(req.URL.Path)), "query": vHex([]byte(req.URL.RawQuery)),
		})
	}
}

// ---- chain level ----

type vC19Seen struct {
	hits    int
	addr    string
	headers map[string][]string
}

type vC19Backend struct {
	ln      net.Listener
	mu      *sync.Mutex
	scripts map[int64]map[string]any
	seen    map[int64]*vC19Seen
}

var vC19Marker = regexp.MustCompile(`^/c(\d+)`)

func (b *vC19Backend) serve() {
	for {
		c, err := b.ln.Accept()
		if err != nil {
			return
		}
		go b.conn(c)
	}
}

func (b *vC19Backend) conn(c net.Conn) {
	defer c.Close()
	br := bufio.NewReaderSize(c, 1<<16)
	for {
		line, err := br.ReadString('\n')
		if err != nil {
			return
		}
		f := strings.Fields(line)
		if len(f) < 2 {
			return
		}
		hdr := map[string][]string{}
		cl := int64(0)
		chunked := false
		for {
			l, err := br.ReadString('\n')
			if err != nil {
				return
			}
			l = strings.TrimRight(l, "\r\n")
			if l == "" {
				break
			}
			k, v, _ := strings.Cut(l, ":")
			k = http.CanonicalHeaderKey(strings.TrimSpace(k))
			v = strings.TrimSpace(v)
			hdr[k] = append(hdr[k], v)
			if k == "Content-Length" {
				cl, _ = strconv.ParseInt(v, 10, 64)
			}
			if k == "Transfer-Encoding" && strings.Contains(v, "chunked") {
				chunked = true
			}
		}
		if chunked {
			for {
				sz, err := br.ReadString('\n')
				if err != nil {
					return
				}
				n, _ := strconv.ParseInt(strings.TrimSpace(sz), 16, 64)
				if _, err := io.CopyN(io.Discard, br, n+2); err != nil {
					return
				}
				if n == 0 {
					break
				}
			}
		} else if cl > 0 {
			if _, err := io.CopyN(io.Discard, br, cl); err != nil {
				return
			}
		}
		m := vC19Marker.FindStringSubmatch(f[1])
		if m == nil {
			c.Write([]byte("HTTP/1.1 200 OK\r\nContent-Length: 0\r\n\r\n"))
			continue
		}
		id, _ := strconv.ParseInt(m[1], 10, 64)
		b.mu.Lock()
		s := b.seen[id]
		if s == nil {
			s = &vC19Seen{}
			b.seen[id] = s
		}
		s.hits++
		s.addr = b.ln.Addr().String()
		s.headers = hdr
		sc := b.scripts[id]
		b.mu.Unlock()
		if !b.respond(c, br, f[0], sc) {
			return
		}
	}
}

func (b *vC19Backend) respond(c net.Conn, br *bufio.Reader, method string, sc map[string]any) bool {
	status := int(vInt(sc["status"]))
	if status == 0 {
		status = 200
	}
	var head bytes.Buffer
	fmt.Fprintf(&head, "HTTP/1.1 %d %s\r\n", status, http.StatusText(status))
	for _, h := range vList(sc["headers"]) {
		kv := vList(h)
		fmt.Fprintf(&head, "%s: %s\r\n", string(vUnhex(kv[0])), string(vUnhex(kv[1])))
	}
	body := vC19Body(int(vInt(sc["body_start"])), int(vInt(sc["body_len"])))
	nobody := method == "HEAD" || status == 204 || status == 304
	switch vStr(sc["kind"]) {
	case "", "reply", "delay", "hints":
		if vStr(sc["kind"]) == "delay" {
			time.Sleep(time.Duration(vInt(sc["delay_ms"])) * time.Millisecond)
		}
		if vStr(sc["kind"]) == "hints" {
			c.Write([]byte("HTTP/1.1 103 Early Hints\r\nLink: </a.css>; rel=preload\r\n\r\n"))
			time.Sleep(10 * time.Millisecond)
		}
		if vBool(sc["chunked"]) && !nobody {
			head.WriteString("Transfer-Encoding: chunked\r\n\r\n")
			c.Write(head.Bytes())
			for i := 0; i < len(body); i += 4000 {
				e := min(i+4000, len(body))
				fmt.Fprintf(c, "%x\r\n", e-i)
				c.Write(body[i:e])
				c.Write([]byte("\r\n"))
			}
			c.Write([]byte("0\r\n\r\n"))
			return true
		}
		if status != 204 && status != 304 {
			fmt.Fprintf(&head, "Content-Length: %d\r\n", len(body))
		}
		head.WriteString("\r\n")
		c.Write(head.Bytes())
		if !nobody {
			c.Write(body)
		}
		return true
	case "sse":
		head.WriteString("Content-Type: text/event-stream\r\nTransfer-Encoding: chunked\r\n\r\n")
		c.Write(head.Bytes())
		for i := 0; i < int(vInt(sc["events"])); i++ {
			ev := fmt.Sprintf("data: event %d\n\n", i)
			fmt.Fprintf(c, "%x\r\n%s\r\n", len(ev), ev)
			time.Sleep(5 * time.Millisecond)
		}
		c.Write([]byte("0\r\n\r\n"))
		return true
	case "close":
		return false
	case "silence":
		c.SetReadDeadline(time.Now().Add(20 * time.Second))
		io.Copy(io.Discard, br)
		return false
	case "cut":
		fmt.Fprintf(&head, "Content-Length: %d\r\n\r\n", len(body))
		c.Write(head.Bytes())
		c.Write(body[:min(int(vInt(sc["prefix_len"])), len(body))])
		return false
	case "upgrade":
		c.Write([]byte("HTTP/1.1 101 Switching Protocols\r\nUpgrade: websocket\r\nConnection: Upgrade\r\n"))
		for _, h := range vList(sc["headers"]) {
			kv := vList(h)
			fmt.Fprintf(c, "%s: %s\r\n", string(vUnhex(kv[0])), string(vUnhex(kv[1])))
		}
		c.Write([]byte("\r\n"))
		// echo until the peer closes
		buf := make([]byte, 4096)
		c.SetReadDeadline(time.Now().Add(10 * time.Second))
		for {
			n, err := br.Read(buf)
			if n > 0 {
				c.Write(buf[:n])
			}
			if err != nil {
				return false
			}
		}
	}
	panic("verif: unknown script " + vStr(sc["kind"]))
}

// vC19Client performs one raw exchange.
func vC19Client(addr string, tlsAddr string, c map[string]any) map[string]any {
	res := map[string]any{}
	var conn net.Conn
	var err error
	if vBool(c["tls"]) {
		conn, err = tls.Dial("tcp", tlsAddr, &tls.Config{ServerName: vStr(c["sni"]), InsecureSkipVerify: true, NextProtos: []string{"http/1.1"}})
	} else {
		conn, err = net.Dial("tcp", addr)
	}
	if err != nil {
		res["err"] = "dial: " + err.Error()
		return res
	}
	defer conn.Close()
	conn.SetDeadline(time.Now().Add(8 * time.Second))
	res["client_addr"] = conn.LocalAddr().String()
	method := vStr(c["method"])
	t0 := time.Now()
	go conn.Write(vUnhex(c["raw"]))
	switch vStr(c["client"]) {
	case "abort":
		time.Sleep(time.Duration(vInt(c["abort_ms"])) * time.Millisecond)
		res["aborted"] = true
		return res
	case "upgrade":
		br := bufio.NewReader(conn)
		resp, err := http.ReadResponse(br, &http.Request{Method: method})
		if err != nil {
			res["err"] = "read: " + err.Error()
			return res
		}
		res["status"] = resp.StatusCode
		res["headers"] = vC19Headers(resp.Header)
		echoed := 0
		if resp.StatusCode == 101 {
			msg := []byte("ping-over-upgraded-connection")
			conn.Write(msg)
			buf := make([]byte, len(msg))
			n, _ := io.ReadFull(br, buf)
			echoed = n
		}
		res["echoed"] = echoed
		res["complete"] = true
		res["body_len"] = 0
		res["elapsed_ms"] = time.Since(t0).Milliseconds()
		return res
	}
	raw, _ := io.ReadAll(conn)
	res["elapsed_ms"] = time.Since(t0).Milliseconds()
	res["raw_len"] = len(raw)
	br := bufio.NewReader(bytes.NewReader(raw))
	interim := []int{}
	for {
		resp, err := http.ReadResponse(br, &http.Request{Method: method})
		if err != nil {
			res["interim"] = interim
			return res
		}
		if resp.StatusCode >= 100 && resp.StatusCode < 200 {
			interim = append(interim, resp.StatusCode)
			continue
		}
		body, err := io.ReadAll(resp.Body)
		res["interim"] = interim
		res["status"] = resp.StatusCode
		res["headers"] = vC19Headers(resp.Header)
		res["body_len"] = len(body)
		res["complete"] = err == nil
		return res
	}
}

func vC19Headers(h http.Header) [][]string {
	keys := []string{}
	for k := range h {
		keys = append(keys, k)
	}
	sort.Strings(keys)
	out := [][]string{}
	for _, k := range keys {
		for _, v := range h[k] {
			out = append(out, []string{vHex([]byte(k)), vHex([]byte(v))})
		}
	}
	return out
}

func TestVerifC19(t *testing.T) {
	cases := verifCases(t)
	out := verifOpenOut(t)
	defer out.close()
	if len(cases) == 0 || vStr(cases[0]["kind"]) != "config" {
		t.Fatalf("verif: first case must be the configuration")
	}
	vMakeAssets(t)
	lg := &vC19Log{}
	oldLog := slog.Default()
	slog.SetDefault(slog.New(slog.NewJSONHandler(lg, nil)))
	defer slog.SetDefault(oldLog)

	mu := &sync.Mutex{}
	scripts := map[int64]map[string]any{}
	seen := map[int64]*vC19Seen{}
	for _, c := range cases[1:] {
		if sc, ok := c["script"].(map[string]any); ok {
			scripts[vInt(c["id"])] = sc
		}
		if sl, ok := c["slow"].(map[string]any); ok {
			if sc, ok := sl["script"].(map[string]any); ok {
				scripts[vInt(sl["id"])] = sc
			}
		}
	}
	claimed := map[int64][]string{} // case id -> targets claimed
	var hookMu sync.Mutex
	verifEventFn = func(kind string, args ...any) {
		if kind != "claim" {
			return
		}
		tg, _ := args[0].(*Target)
		req, _ := args[1].(*http.Request)
		if tg == nil || req == nil {
			return
		}
		if m := vC19Marker.FindStringSubmatch(req.URL.Path); m != nil {
			id, _ := strconv.ParseInt(m[1], 10, 64)
			hookMu.Lock()
			claimed[id] = append(claimed[id], tg.Target())
			hookMu.Unlock()
		}
	}
	defer func() { verifEventFn = nil }()

	dir := t.TempDir()
	config := &Config{Bind: "127.0.0.1", HttpPort: 0, HttpsPort: 0, AlternateConfigDir: dir}
	router := NewRouter(config.StatePath())

	targets := map[string]string{}
	for _, sv := range vList(cases[0]["services"]) {
		m := sv.(map[string]any)
		name := vStr(m["name"])
		ln, err := net.Listen("tcp", "127.0.0.1:0")
		if err != nil {
			t.Fatalf("verif: listen: %v", err)
		}
		defer ln.Close()
		b := &vC19Backend{ln: ln, mu: mu, scripts: scripts, seen: seen}
		go b.serve()
		targets[name] = ln.Addr().String()
		so := ServiceOptions{Hosts: []string{vStr(m["host"])}}
		if vBool(m["custom"]) {
			so.ErrorPagePath = filepath.Join(vAssets, "pages_good")
		}
		if vBool(m["tls"]) {
			so.TLSEnabled, so.TLSRedirect = true, true
			so.TLSCertificatePath = filepath.Join(vAssets, "cert.pem")
			so.TLSPrivateKeyPath = filepath.Join(vAssets, "key.pem")
		}
		to := TargetOptions{
			HealthCheckConfig:   HealthCheckConfig{Path: DefaultHealthCheckPath, Interval: time.Hour, Timeout: 5 * time.Second},
			ResponseTimeout:     time.Duration(vInt(cases[0]["timeout_ms"])) * time.Millisecond,
			BufferRequests:      vBool(m["buffer"]),
			BufferResponses:     vBool(m["buffer"]),
			MaxMemoryBufferSize: func() int64 {
				if v := vInt(m["mem"]); v > 0 {
					return v
				}
				return 64 * 1024
			}(),
			MaxRequestBodySize:  vInt(m["max_req"]),
			MaxResponseBodySize: vInt(m["max_resp"]),
			LogRequestHeaders:   vStrList(m["log_req"]),
			LogResponseHeaders:  vStrList(m["log_resp"]),
		}
		if err := router.DeployService(name, []string{ln.Addr().String()}, so, to, 10*time.Second, time.Second); err != nil {
			t.Fatalf("verif: deploy %s: %v", name, err)
		}
		switch vStr(m["state"]) {
		case "paused":
			if err := router.PauseService(name, time.Second, time.Duration(vInt(m["pause_ms"]))*time.Millisecond); err != nil {
				t.Fatalf("verif: pause: %v", err)
			}
		case "stopped":
			if err := router.StopService(name, time.Second, string(vUnhex(m["message"]))); err != nil {
				t.Fatalf("verif: stop: %v", err)
			}
		}
	}

	if vBool(cases[0]["restored"]) {
		// the whole run goes through a RESTARTED proxy: a new router restored from the state file the deploys wrote
		restored := NewRouter(config.StatePath())
		if err := restored.RestoreLastSavedState(); err != nil {
			t.Fatalf("verif: restore: %v", err)
		}
		for name := range targets {
			if sv := router.serviceForName(name); sv != nil {
				sv.Dispose()
			}
		}
		router = restored
	}
	server := NewServer(config, router)
	if err := server.Start(); err != nil {
		t.Fatalf("verif: server start: %v", err)
	}
	defer server.Stop()
	httpAddr := fmt.Sprintf("127.0.0.1:%d", server.HttpPort())
	httpsAddr := fmt.Sprintf("127.0.0.1:%d", server.HttpsPort())

	results := make([]map[string]any, len(cases))
	results[0] = map[string]any{"i": 0, "kind": "config", "targets": targets, "http_port": config.HttpPort, "https_port": config.HttpsPort}
	for i, c := range cases {
		if vStr(c["kind"]) != "req" {
			continue
		}
		res := map[string]any{"i": i, "kind": "req", "id": vInt(c["id"])}
		if vStr(c["choreography"]) == "claim_refused" {
			// a slow request keeps a drain of the service's target busy; this request meets the draining target
			sv := router.serviceForName(vStr(c["service"]))
			slowID := vInt(c["slow_id"])
			var wg sync.WaitGroup
			wg.Add(1)
			var slow map[string]any
			go func() {
				defer wg.Done()
				slow = vC19Client(httpAddr, httpsAddr, c["slow"].(map[string]any))
			}()
			deadline := time.Now().Add(3 * time.Second)
			for time.Now().Before(deadline) {
				mu.Lock()
				_, ok := seen[slowID]
				mu.Unlock()
				if ok {
					break
				}
				time.Sleep(2 * time.Millisecond)
			}
			drained := make(chan struct{})
			go func() { sv.Drain(5 * time.Second); close(drained) }()
			for time.Now().Before(deadline) {
				if sv.active.Targets()[0].State() == TargetStateDraining {
					break
				}
				time.Sleep(time.Millisecond)
			}
			res["client"] = vC19Client(httpAddr, httpsAddr, c)
			wg.Wait()
			<-drained
			res["slow_client"] = slow
		} else {
			res["client"] = vC19Client(httpAddr, httpsAddr, c)
		}
		results[i] = res
	}
	// every request is expected to leave a record: wait for the late ones (client aborts)
	want := map[int64]bool{}
	for _, c := range cases[1:] {
		want[vInt(c["id"])] = true
		if c["slow_id"] != nil {
			want[vInt(c["slow_id"])] = true
		}
	}
	byID := func() map[int64][]map[string]any {
		m := map[int64][]map[string]any{}
		for _, r := range lg.records() {
			p, _ := r["path"].(string)
			if mm := vC19Marker.FindStringSubmatch(p); mm != nil {
				id, _ := strconv.ParseInt(mm[1], 10, 64)
				m[id] = append(m[id], r)
			}
		}
		return m
	}
	deadline := time.Now().Add(5 * time.Second)
	for time.Now().Before(deadline) {
		m := byID()
		missing := 0
		for id := range want {
			if len(m[id]) == 0 {
				missing++
			}
		}
		if missing == 0 {
			break
		}
		time.Sleep(20 * time.Millisecond)
	}
	time.Sleep(200 * time.Millisecond)
	recs := byID()
	emitFor := func(res map[string]any, id int64, prefix string) {
		l := []any{}
		for _, r := range recs[id] {
			l = append(l, vC19Record(r))
		}
		res[prefix+"records"] = l
		mu.Lock()
		if s := seen[id]; s != nil {
			hs := [][]string{}
			keys := []string{}
			for k := range s.headers {
				keys = append(keys, k)
			}
			sort.Strings(keys)
			for _, k := range keys {
				for _, v := range s.headers[k] {
					hs = append(hs, []string{vHex([]byte(k)), vHex([]byte(v))})
				}
			}
			res[prefix+"target"] = map[string]any{"hits": s.hits, "addr": s.addr, "headers": hs}
		}
		mu.Unlock()
		hookMu.Lock()
		cl := claimed[id]
		hookMu.Unlock()
		if cl == nil {
			cl = []string{}
		}
		res[prefix+"claimed"] = cl
	}
	for i, c := range cases {
		if results[i] == nil {
			results[i] = map[string]any{"i": i, "kind": "skipped"}
		}
		if vStr(c["kind"]) == "req" {
			emitFor(results[i], vInt(c["id"]), "")
			if c["slow_id"] != nil {
				emitFor(results[i], vInt(c["slow_id"]), "slow_")
			}
		}
		out.emit(results[i])
	}
}
