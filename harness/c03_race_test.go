package server

import (
	"net/http"
	"net/http/httptest"
	"os"
	"strconv"
	"sync"
	"sync/atomic"
	"testing"
	"time"
)

// TestVerifC03Race: requests arrive just as a drain begins (real scheduler). A
// request that is accepted must either be in the drain's snapshot (then the
// drain cuts it off at its deadline, since these requests never finish by
// themselves) or have been refused. So when Drain has returned, every accepted
// request has been cancelled; an accepted, un-cancelled request was let in while
// the target was draining and was missed by the drain.
func TestVerifC03Race(t *testing.T) {
	if os.Getenv("VERIF_OUT") == "" {
		t.Skip("VERIF_OUT not set")
	}
	rounds, _ := strconv.Atoi(os.Getenv("VERIF_ROUNDS"))
	if rounds == 0 {
		rounds = 300
	}
	out := verifOpenOut(t)
	defer out.close()
	const claimers = 12
	for round := 0; round < rounds; round++ {
		target, err := NewTarget("tgt:80", TargetOptions{HealthCheckConfig: defaultHealthCheckConfig})
		if err != nil {
			t.Fatal(err)
		}
		target.updateState(TargetStateHealthy)
		// one request is in flight before the drain starts and never finishes: the drain lasts until its deadline
		r0, err := target.StartRequest(httptest.NewRequest("GET", "/", nil))
		if err != nil {
			t.Fatal(err)
		}
		var wg sync.WaitGroup
		start := make(chan struct{})
		var accepted, refused, missed int32
		type acc struct {
			r  *http.Request
			at time.Time
		}
		var mu sync.Mutex
		var all []acc
		for i := 0; i < claimers; i++ {
			wg.Add(1)
			go func(i int) {
				defer wg.Done()
				<-start
				// requests keep arriving until the target refuses one (it is draining)
				for n := 0; n < 20000; n++ {
					r, err := target.StartRequest(httptest.NewRequest("GET", "/", nil))
					now := time.Now()
					if err != nil {
						atomic.AddInt32(&refused, 1)
						return
					}
					atomic.AddInt32(&accepted, 1)
					mu.Lock()
					all = append(all, acc{r, now})
					mu.Unlock()
				}
			}(i)
		}
		done := make(chan struct{})
		var drainStart time.Time
		go func() {
			<-start
			time.Sleep(time.Duration(round%50) * time.Microsecond)
			drainStart = time.Now()
			target.Drain(20 * time.Millisecond)
			close(done)
		}()
		close(start)
		<-done
		wg.Wait()
		for _, a := range all {
			// accepted and not cut off, so it was not in the drain's snapshot: it was accepted after the mark. The
			// drain cannot end before its deadline (r0 never finishes; a timer never fires early), so an accept
			// that had returned before drainStart + 19 ms happened while the target was draining.
			if a.r.Context().Err() == nil && a.at.Before(drainStart.Add(19*time.Millisecond)) && a.at.After(drainStart) {
				missed++
			}
			target.endInflightRequest(a.r)
		}
		target.endInflightRequest(r0)
		out.emit(map[string]any{"round": round, "accepted": accepted, "refused": refused, "accepted_not_cut_off": missed})
	}
}
