package server

import (
	"fmt"
	"io"
	"net/http"
	"os"
	"path/filepath"
	"strconv"
	"strings"
	"sync"
	"testing"
	"time"
)

type vOKTransport struct{}

func (vOKTransport) RoundTrip(req *http.Request) (*http.Response, error) {
	return &http.Response{StatusCode: 200, Status: "200 OK", Proto: "HTTP/1.1", ProtoMajor: 1, ProtoMinor: 1,
		Header: http.Header{}, Body: io.NopCloser(strings.NewReader("")), Request: req}, nil
}

// TestVerifC05Race: several deploys of different new services race for one
// (host, prefix) pair under the real scheduler; exactly one may succeed.
func TestVerifC05Race(t *testing.T) {
	outPath := os.Getenv("VERIF_OUT")
	if outPath == "" {
		t.Skip("VERIF_OUT not set")
	}
	rounds, _ := strconv.Atoi(os.Getenv("VERIF_ROUNDS"))
	if rounds == 0 {
		rounds = 20
	}
	old := http.DefaultTransport
	http.DefaultTransport = vOKTransport{}
	defer func() { http.DefaultTransport = old }()
	out := verifOpenOut(t)
	defer out.close()

	const racers = 8
	nhosts, _ := strconv.Atoi(os.Getenv("VERIF_HOSTS"))
	if nhosts == 0 {
		nhosts = 3000
	}
	// VERIF_RECORD=1: the sequence of write-lock regions (install / removed hook events, which sit inside the regions)
	// is recorded with the options each install was given, for the ownership view model/M5own.v
	record := os.Getenv("VERIF_RECORD") == "1"
	var recMu sync.Mutex
	var regions []map[string]any
	if record {
		verifEventFn = func(kind string, args ...any) {
			if kind != "install" && kind != "removed" {
				return
			}
			sv, _ := args[0].(*Service)
			if sv == nil {
				return
			}
			recMu.Lock()
			defer recMu.Unlock()
			if kind == "install" {
				regions = append(regions, map[string]any{"k": "install", "name": sv.name, "hosts": vToHex(sv.options.Hosts),
					"prefixes": vToHex(sv.options.PathPrefixes), "ok": args[1].(bool)})
			} else {
				regions = append(regions, map[string]any{"k": "removed", "name": sv.name})
			}
		}
		defer func() { verifEventFn = nil }()
	}
	for round := 0; round < rounds; round++ {
		recMu.Lock()
		regions = nil
		recMu.Unlock()
		dir := t.TempDir()
		router := NewRouter(filepath.Join(dir, "state"))
		var wg, ready sync.WaitGroup
		ready.Add(racers)
		start := make(chan struct{})
		results := make([]string, racers)
		for i := 0; i < racers; i++ {
			wg.Add(1)
			go func(i int) {
				defer wg.Done()
				// many private bindings make the availability check long; the contested pair comes last
				hosts := make([]string, 0, nhosts+1)
				for k := 0; k < nhosts; k++ {
					hosts = append(hosts, fmt.Sprintf("h%d-%d-%d.example.com", round, i, k))
				}
				hosts = append(hosts, "contested.example.com")
				opts := ServiceOptions{Hosts: hosts, PathPrefixes: []string{"/", "/a", "/b"}}
				topts := TargetOptions{HealthCheckConfig: HealthCheckConfig{Path: "/up", Interval: time.Second, Timeout: time.Second}, ResponseTimeout: time.Second}
				// everything up to the install is prepared first, so that the racers reach the routing table together
				service, err := router.findOrCreateService(fmt.Sprintf("svc%d", i), opts, topts)
				if err != nil {
					results[i] = vErrName(err)
					<-start
					return
				}
				tl, _ := NewTargetList([]string{fmt.Sprintf("tgt%d:80", i)}, topts)
				lb := NewLoadBalancer(tl)
				if err := lb.WaitUntilHealthy(2 * time.Second); err != nil {
					results[i] = vErrName(err)
					lb.Dispose()
					<-start
					return
				}
				service.UpdateLoadBalancer(lb, TargetSlotActive)
				ready.Done()
				<-start
				err = router.installService(service)
				if err != nil {
					lb.Dispose()
				}
				results[i] = vErrName(err)
			}(i)
		}
		ready.Wait()
		close(start)
		wg.Wait()
		ok := 0
		for _, r := range results {
			if r == "ok" {
				ok++
			}
		}
		owners := 0
		for _, d := range router.ListActiveServices() {
			if strings.Contains(","+d.Host+",", ",contested.example.com,") {
				owners++
			}
		}
		// the winner is removed and the losers race again for the released pair (second wave), then everything is removed
		winner := -1
		for i, r := range results {
			if r == "ok" {
				winner = i
			}
		}
		ok2 := -1
		if record && winner >= 0 {
			router.RemoveService(fmt.Sprintf("svc%d", winner))
			var wg2 sync.WaitGroup
			start2 := make(chan struct{})
			res2 := make([]string, racers)
			for i := 0; i < racers; i++ {
				if i == winner {
					continue
				}
				wg2.Add(1)
				go func(i int) {
					defer wg2.Done()
					opts := ServiceOptions{Hosts: []string{fmt.Sprintf("p%d-%d.example.com", round, i), "contested.example.com"}, PathPrefixes: []string{"/", "/a"}}
					topts := TargetOptions{HealthCheckConfig: HealthCheckConfig{Path: "/up", Interval: time.Second, Timeout: time.Second}, ResponseTimeout: time.Second}
					service, err := router.findOrCreateService(fmt.Sprintf("svc%d", i), opts, topts)
					if err != nil {
						res2[i] = vErrName(err)
						return
					}
					tl, _ := NewTargetList([]string{fmt.Sprintf("tgt%d:80", i)}, topts)
					lb := NewLoadBalancer(tl)
					if err := lb.WaitUntilHealthy(2 * time.Second); err != nil {
						res2[i] = vErrName(err)
						lb.Dispose()
						return
					}
					service.UpdateLoadBalancer(lb, TargetSlotActive)
					<-start2
					err = router.installService(service)
					if err != nil {
						lb.Dispose()
					}
					res2[i] = vErrName(err)
				}(i)
			}
			close(start2)
			wg2.Wait()
			ok2 = 0
			for _, r := range res2 {
				if r == "ok" {
					ok2++
				}
			}
		}
		for i := 0; i < racers; i++ {
			router.RemoveService(fmt.Sprintf("svc%d", i))
		}
		recMu.Lock()
		row := map[string]any{"round": round, "results": results, "succeeded": ok, "owners_listed": owners, "second_wave_succeeded": ok2}
		if record {
			row["regions"] = regions
		}
		recMu.Unlock()
		out.emit(row)
	}
}
