package server

import (
	"fmt"
	"io"
	"net/http"
	"os"
	"path/filepath"
	"strconv"
	"strings"
	"sync"
	"testing"
	"time"
)

type vOKTransport struct{}

func (vOKTransport) RoundTrip(req *http.Request) (*http.Response, error) {
	return &http.Response{StatusCode: 200, Status: "200 OK", Proto: "HTTP/1.1", ProtoMajor: 1, ProtoMinor: 1,
		Header: http.Header{}, Body: io.NopCloser(strings.NewReader("")), Request: req}, nil
}

// TestVerifC05Race: several deploys of different new services race for one
// (host, prefix) pair under the real scheduler; exactly one may succeed.
func TestVerifC05Race(t *testing.T) {
	outPath := os.Getenv("VERIF_OUT")
	if outPath == "" {
		t.Skip("VERIF_OUT not set")
	}
	rounds, _ := strconv.Atoi(os.Getenv("VERIF_ROUNDS"))
	if rounds == 0 {
		rounds = 20
	}
	old := http.DefaultTransport
	http.DefaultTransport = vOKTransport{}
	defer func() { http.DefaultTransport = old }()
	out := verifOpenOut(t)
	defer out.close()

	const racers = 8
	for round := 0; round < rounds; round++ {
		dir := t.TempDir()
		router := NewRouter(filepath.Join(dir, "state"))
		var wg, ready sync.WaitGroup
		ready.Add(racers)
		start := make(chan struct{})
		results := make([]string, racers)
		for i := 0; i < racers; i++ {
			wg.Add(1)
			go func(i int) {
				defer wg.Done()
				// many private bindings make the availability check long; the contested pair comes last
				hosts := make([]string, 0, 3001)
				for k := 0; k < 3000; k++ {
					hosts = append(hosts, fmt.Sprintf("h%d-%d-%d.example.com", round, i, k))
				}
				hosts = append(hosts, "contested.example.com")
				opts := ServiceOptions{Hosts: hosts, PathPrefixes: []string{"/", "/a", "/b"}}
				topts := TargetOptions{HealthCheckConfig: HealthCheckConfig{Path: "/up", Interval: time.Second, Timeout: time.Second}, ResponseTimeout: time.Second}
				// everything up to the install is prepared first, so that the racers reach the routing table together
				service, err := router.findOrCreateService(fmt.Sprintf("svc%d", i), opts, topts)
				if err != nil {
					results[i] = vErrName(err)
					<-start
					return
				}
				tl, _ := NewTargetList([]string{fmt.Sprintf("tgt%d:80", i)}, topts)
				lb := NewLoadBalancer(tl)
				if err := lb.WaitUntilHealthy(2 * time.Second); err != nil {
					results[i] = vErrName(err)
					lb.Dispose()
					<-start
					return
				}
				service.UpdateLoadBalancer(lb, TargetSlotActive)
				ready.Done()
				<-start
				err = router.installService(service)
				if err != nil {
					lb.Dispose()
				}
				results[i] = vErrName(err)
			}(i)
		}
		ready.Wait()
		close(start)
		wg.Wait()
		ok := 0
		for _, r := range results {
			if r == "ok" {
				ok++
			}
		}
		owners := 0
		for _, d := range router.ListActiveServices() {
			if strings.Contains(","+d.Host+",", ",contested.example.com,") {
				owners++
			}
		}
		out.emit(map[string]any{"round": round, "results": results, "succeeded": ok, "owners_listed": owners})
		for i := 0; i < racers; i++ {
			router.RemoveService(fmt.Sprintf("svc%d", i))
		}
	}
}
