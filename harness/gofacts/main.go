package main

// gofacts <GenFacts.v> [report.json]
//
// A second, much smaller translator beside harness/lockfacts: it re-reads two
// pieces of straight-line decision logic from $VERIF_REPO/internal/server
// (default /repo) on every run and writes them as Gallina definitions, so that
// the model's own definitions can be PROVED equal to what the source says now
// (coq/corr/GenTie.v is compiled against the generated file):
//
//   Target.HealthCheckCompleted, the closure run under the in-flight lock
//       -> gen_health_check_locked : tstate -> bool -> bool -> tstate * bool
//          (state, becameHealthy) after the locked region, from the state
//          before, the old becameHealthy and the probe's verdict
//   LoadBalancer.nextTarget
//       -> gen_next_target : nat -> nat -> nat * option nat
//          (cursor, index picked in the rotation) from the cursor and the
//          length of the rotation
//
// The accepted Go subset is deliberately small (assignments to the tracked
// variables, switch / if over them, early return); anything else makes the
// translation of THAT function "unsupported", which is reported and is not an
// alarm by itself (the correspondence run remains the tie) - see tools/gentie.py.

import (
	"encoding/json"
	"fmt"
	"go/ast"
	"go/parser"
	"go/token"
	"os"
	"path/filepath"
	"strings"
)

type unsupported struct{ msg string }

func fail(format string, a ...any) { panic(unsupported{fmt.Sprintf(format, a...)}) }

// ---- the tracked state of one translation ----

type tvar struct {
	goExpr string // how the source spells it: "t.state", "becameHealthy", "lb.index"
	coq    string // Gallina name
}

type spec struct {
	name       string
	vars       []tvar            // tracked, in tuple order
	params     map[string]string // Go spelling -> Gallina name (read-only inputs)
	ignoreLHS  map[string]bool   // assignments to these are bookkeeping outside the decision
	ignoreCall map[string]bool   // calls that are inert (hooks, logging)
	consts     map[string]string
	withReturn bool
	// calls that amount to assignments to tracked variables: callee spelling -> (tracked Go spelling, argument index or -1, constant)
	callAssign map[string][]callSet
	// `a, b := f()` for these calls binds a, b to the given read-only Gallina names ("_" skipped)
	multiDefine map[string][]string
}

type callSet struct {
	goExpr string // tracked variable
	arg    int    // index of the argument that is assigned, or -1
	konst  string // Gallina constant assigned when arg < 0
}

func (s *spec) tuple() string {
	n := []string{}
	for _, v := range s.vars {
		n = append(n, v.coq)
	}
	if len(n) == 1 {
		return n[0]
	}
	return "(" + strings.Join(n, ", ") + ")"
}

func (s *spec) pattern() string {
	if len(s.vars) == 1 {
		return s.vars[0].coq
	}
	return "'" + s.tuple()
}

func src(e ast.Expr) string {
	switch x := e.(type) {
	case *ast.Ident:
		return x.Name
	case *ast.SelectorExpr:
		return src(x.X) + "." + x.Sel.Name
	case *ast.CallExpr:
		a := []string{}
		for _, y := range x.Args {
			a = append(a, src(y))
		}
		return src(x.Fun) + "(" + strings.Join(a, ",") + ")"
	case *ast.BasicLit:
		return x.Value
	case *ast.ParenExpr:
		return "(" + src(x.X) + ")"
	case *ast.IndexExpr:
		return src(x.X) + "[" + src(x.Index) + "]"
	case *ast.BinaryExpr:
		return src(x.X) + x.Op.String() + src(x.Y)
	}
	return fmt.Sprintf("<%T>", e)
}

// expr translates a Go expression over the tracked variables, parameters and constants.
func (s *spec) expr(e ast.Expr) string {
	key := src(e)
	for _, v := range s.vars {
		if v.goExpr == key {
			return v.coq
		}
	}
	if c, ok := s.params[key]; ok {
		return c
	}
	if c, ok := s.consts[key]; ok {
		return c
	}
	switch x := e.(type) {
	case *ast.ParenExpr:
		return s.expr(x.X)
	case *ast.BasicLit:
		if x.Kind == token.INT {
			return x.Value
		}
	case *ast.BinaryExpr:
		a, b := s.expr(x.X), s.expr(x.Y)
		switch x.Op {
		case token.ADD:
			return "(" + a + " + " + b + ")"
		case token.REM:
			return "(Nat.modulo " + a + " " + b + ")"
		case token.EQL:
			if b == "None" {
				return "(negb " + a + ")" // x == nil for a pointer modelled as the boolean "is set"
			}
			return "(gen_eqb " + a + " " + b + ")"
		case token.NEQ:
			if b == "None" {
				return a
			}
			return "(negb (gen_eqb " + a + " " + b + "))"
		case token.GTR:
			return "(Nat.ltb " + b + " " + a + ")"
		case token.LSS:
			return "(Nat.ltb " + a + " " + b + ")"
		case token.GEQ:
			return "(Nat.leb " + b + " " + a + ")"
		case token.LEQ:
			return "(Nat.leb " + a + " " + b + ")"
		case token.LAND:
			return "(" + a + " && " + b + ")"
		case token.LOR:
			return "(" + a + " || " + b + ")"
		}
	case *ast.UnaryExpr:
		if x.Op == token.NOT {
			return "(negb " + s.expr(x.X) + ")"
		}
	case *ast.IndexExpr:
		// lb.healthy[i]: the pick is reported as the index into the rotation
		if src(x.X) == "lb.healthy" {
			return "(Some " + s.expr(x.Index) + ")"
		}
	}
	fail("expression %s", key)
	return ""
}

// tryExpr: expr, but a refusal is reported instead of aborting the translation.
func (s *spec) tryExpr(e ast.Expr) (out string, ok bool) {
	defer func() {
		if p := recover(); p != nil {
			if _, is := p.(unsupported); is {
				out, ok = "", false
				return
			}
			panic(p)
		}
	}()
	return s.expr(e), true
}

// block translates stmts followed by the continuation `rest` (a Gallina expression over the tracked names).
func (s *spec) block(stmts []ast.Stmt, rest string) string {
	if len(stmts) == 0 {
		return rest
	}
	st, tail := stmts[0], stmts[1:]
	switch x := st.(type) {
	case *ast.EmptyStmt:
		return s.block(tail, rest)
	case *ast.BlockStmt:
		return s.block(append(append([]ast.Stmt{}, x.List...), tail...), rest)
	case *ast.ExprStmt:
		if c, ok := x.X.(*ast.CallExpr); ok && (s.ignoreCall[src(c.Fun)] || strings.HasPrefix(src(c.Fun), "slog.")) {
			return s.block(tail, rest)
		}
		if c, ok := x.X.(*ast.CallExpr); ok {
			if sets, ok := s.callAssign[src(c.Fun)]; ok {
				body := s.block(tail, rest)
				for i := len(sets) - 1; i >= 0; i-- {
					val := sets[i].konst
					if sets[i].arg >= 0 {
						if sets[i].arg >= len(c.Args) {
							fail("call %s: argument %d missing", src(c.Fun), sets[i].arg)
						}
						val = s.expr(c.Args[sets[i].arg])
					}
					for _, v := range s.vars {
						if v.goExpr == sets[i].goExpr {
							body = "(let " + v.coq + " := " + val + " in " + body + ")"
						}
					}
				}
				return body
			}
		}
	case *ast.AssignStmt:
		if len(x.Rhs) == 1 && len(x.Lhs) > 1 && x.Tok == token.DEFINE {
			if names, ok := s.multiDefine[src(x.Rhs[0])]; ok && len(names) == len(x.Lhs) {
				saved := map[string]string{}
				had := map[string]bool{}
				for i, l := range x.Lhs {
					n := src(l)
					if n == "_" {
						continue
					}
					saved[n], had[n] = s.params[n], true
					if _, ok := s.params[n]; !ok {
						had[n] = false
					}
					s.params[n] = names[i]
				}
				body := s.block(tail, rest)
				for n := range saved {
					if had[n] {
						s.params[n] = saved[n]
					} else {
						delete(s.params, n)
					}
				}
				return body
			}
		}
		if len(x.Lhs) == 1 && len(x.Rhs) == 1 && (x.Tok == token.ASSIGN || x.Tok == token.DEFINE) {
			lhs := src(x.Lhs[0])
			if s.ignoreLHS[lhs] {
				// bookkeeping outside the decision - but if its value can be expressed, later statements may read it
				val, ok := s.tryExpr(x.Rhs[0])
				if !ok {
					return s.block(tail, rest)
				}
				name := "loc_" + strings.NewReplacer(".", "_", "(", "_", ")", "_").Replace(lhs)
				old, had := s.params[lhs]
				s.params[lhs] = name
				body := s.block(tail, rest)
				if had {
					s.params[lhs] = old
				} else {
					delete(s.params, lhs)
				}
				return "(let " + name + " := " + val + " in " + body + ")"
			}
			for _, v := range s.vars {
				if v.goExpr == lhs {
					return "(let " + v.coq + " := " + s.expr(x.Rhs[0]) + " in " + s.block(tail, rest) + ")"
				}
			}
			if x.Tok == token.DEFINE { // a new local: becomes a read-only name
				name := "loc_" + lhs
				old, had := s.params[lhs]
				val := s.expr(x.Rhs[0])
				s.params[lhs] = name
				body := s.block(tail, rest)
				if had {
					s.params[lhs] = old
				} else {
					delete(s.params, lhs)
				}
				return "(let " + name + " := " + val + " in " + body + ")"
			}
		}
	case *ast.ReturnStmt:
		if s.withReturn && len(x.Results) == 1 {
			return "(" + s.tuple() + ", " + s.expr(x.Results[0]) + ")"
		}
		if !s.withReturn && len(x.Results) == 0 {
			return s.tuple()
		}
	case *ast.IfStmt:
		if x.Init != nil {
			// if init; cond { ... }: the init statement first (its names stay visible a little longer than in Go: harmless here)
			y := *x
			y.Init = nil
			return s.block(append([]ast.Stmt{x.Init, &y}, tail...), rest)
		}
		if x.Init == nil {
			c := s.expr(x.Cond)
			if s.withReturn {
				// early-return form only: if c { ...; return e }  (no else)
				if x.Else == nil && endsWithReturn(x.Body.List) {
					return "(if " + c + " then " + s.block(x.Body.List, "") + " else " + s.block(tail, rest) + ")"
				}
				break
			}
			if x.Else == nil && endsWithReturn(x.Body.List) {
				// if c { ...; return }: the rest of the function runs only when c is false
				return "(if " + c + " then " + s.block(x.Body.List, s.tuple()) + " else " + s.block(tail, rest) + ")"
			}
			thenB := s.block(x.Body.List, s.tuple())
			elseB := s.tuple()
			if x.Else != nil {
				elseB = s.block([]ast.Stmt{x.Else}, s.tuple())
			}
			return "(let " + s.pattern() + " := (if " + c + " then " + thenB + " else " + elseB + ") in " + s.block(tail, rest) + ")"
		}
	case *ast.SwitchStmt:
		if x.Init == nil && x.Tag == nil && !s.withReturn {
			// switch { case c1: ...; case c2, c3: ...; default: ... }: a chain of ifs; an arm that ends with `return`
			// ends the function, any other arm goes on with the statements after the switch
			arm := func(body []ast.Stmt) string {
				if endsWithReturn(body) {
					return s.block(body, s.tuple())
				}
				return s.block(append(append([]ast.Stmt{}, body...), tail...), rest)
			}
			out := ""
			var dflt []ast.Stmt
			type armT struct {
				cond string
				body []ast.Stmt
			}
			arms := []armT{}
			for _, cl := range x.Body.List {
				cc := cl.(*ast.CaseClause)
				if cc.List == nil {
					dflt = cc.Body
					continue
				}
				conds := []string{}
				for _, v := range cc.List {
					conds = append(conds, s.expr(v))
				}
				arms = append(arms, armT{"(" + strings.Join(conds, " || ") + ")", cc.Body})
			}
			out = arm(dflt)
			for i := len(arms) - 1; i >= 0; i-- {
				out = "(if " + arms[i].cond + " then " + arm(arms[i].body) + " else " + out + ")"
			}
			return out
		}
		if x.Init == nil && x.Tag != nil && !s.withReturn {
			tag := s.expr(x.Tag)
			arms, dflt := []string{}, s.tuple()
			hasDefault := false
			for _, cl := range x.Body.List {
				cc := cl.(*ast.CaseClause)
				body := s.block(cc.Body, s.tuple())
				if cc.List == nil {
					dflt, hasDefault = body, true
					continue
				}
				pats := []string{}
				for _, v := range cc.List {
					pats = append(pats, s.expr(v))
				}
				arms = append(arms, "| "+strings.Join(pats, " | ")+" => "+body)
			}
			_ = hasDefault
			// a wildcard arm after an exhaustive list of constructors would be rejected as redundant
			covered, domain := map[string]bool{}, 0
			for _, cl := range x.Body.List {
				for _, v := range cl.(*ast.CaseClause).List {
					c := s.expr(v)
					covered[c] = true
					switch c {
					case "true", "false":
						domain = 2
					case "TAdding", "TDraining", "THealthy", "TUnhealthy":
						domain = 4
					}
				}
			}
			wild := " | _ => " + dflt
			if domain > 0 && len(covered) == domain {
				wild = ""
			}
			m := "(match " + tag + " with " + strings.Join(arms, " ") + wild + " end)"
			return "(let " + s.pattern() + " := " + m + " in " + s.block(tail, rest) + ")"
		}
	}
	fail("statement at offset %d: %T", st.Pos(), st)
	return ""
}

func endsWithReturn(l []ast.Stmt) bool {
	if len(l) == 0 {
		return false
	}
	_, ok := l[len(l)-1].(*ast.ReturnStmt)
	return ok
}

// ---- locating the code ----

func method(files []*ast.File, recv, name string) *ast.FuncDecl {
	for _, f := range files {
		for _, d := range f.Decls {
			fd, ok := d.(*ast.FuncDecl)
			if !ok || fd.Name.Name != name || fd.Recv == nil || len(fd.Recv.List) != 1 {
				continue
			}
			t := fd.Recv.List[0].Type
			if st, ok := t.(*ast.StarExpr); ok {
				t = st.X
			}
			if id, ok := t.(*ast.Ident); ok && id.Name == recv {
				return fd
			}
		}
	}
	return nil
}

// closureArg finds the function literal passed to <recvVar>.<callee>(func() {...}) inside fd.
func closureArg(fd *ast.FuncDecl, callee string) *ast.FuncLit {
	var lit *ast.FuncLit
	n := 0
	ast.Inspect(fd.Body, func(x ast.Node) bool {
		c, ok := x.(*ast.CallExpr)
		if !ok {
			return true
		}
		if sel, ok := c.Fun.(*ast.SelectorExpr); ok && sel.Sel.Name == callee && len(c.Args) == 1 {
			if fl, ok := c.Args[0].(*ast.FuncLit); ok {
				lit = fl
				n++
			}
		}
		return true
	})
	if n != 1 {
		return nil
	}
	return lit
}

type result struct {
	Name        string `json:"name"`
	OK          bool   `json:"ok"`
	Unsupported string `json:"unsupported,omitempty"`
	Source      string `json:"source"`
	Gallina     string `json:"gallina,omitempty"`
}

func translate(r *result, f func() string) {
	defer func() {
		if p := recover(); p != nil {
			if u, ok := p.(unsupported); ok {
				r.Unsupported = u.msg
				return
			}
			panic(p)
		}
	}()
	r.Gallina = f()
	r.OK = true
}

func main() {
	if len(os.Args) < 2 {
		fmt.Fprintln(os.Stderr, "usage: gofacts <GenFacts.v> [report.json]")
		os.Exit(2)
	}
	repo := os.Getenv("VERIF_REPO")
	if repo == "" {
		repo = "/repo"
	}
	text, results, err := generate(filepath.Join(repo, "internal", "server"))
	if err != nil {
		fmt.Fprintln(os.Stderr, err)
		os.Exit(1)
	}
	if err := os.WriteFile(os.Args[1], []byte(text), 0o644); err != nil {
		fmt.Fprintln(os.Stderr, err)
		os.Exit(1)
	}
	if len(os.Args) > 2 {
		j, _ := json.MarshalIndent(results, "", " ")
		os.WriteFile(os.Args[2], j, 0o644)
	}
}

// generate translates the functions of the package in dir; the text of GenFacts.v and one result per function.
func generate(dir string) (string, []*result, error) {
	fset := token.NewFileSet()
	files := []*ast.File{}
	for _, n := range []string{"target.go", "load_balancer.go"} {
		f, err := parser.ParseFile(fset, filepath.Join(dir, n), nil, parser.SkipObjectResolution)
		if err != nil {
			return "", nil, err
		}
		files = append(files, f)
	}
	consts := map[string]string{"TargetStateAdding": "TAdding", "TargetStateDraining": "TDraining", "TargetStateHealthy": "THealthy",
		"TargetStateUnhealthy": "TUnhealthy", "true": "true", "false": "false", "nil": "None"}
	results := []*result{}

	// 1. the locked region of HealthCheckCompleted
	r1 := &result{Name: "gen_health_check_locked", Source: "internal/server/target.go: Target.HealthCheckCompleted, closure under withInflightLock"}
	results = append(results, r1)
	translate(r1, func() string {
		fd := method(files, "Target", "HealthCheckCompleted")
		if fd == nil || fd.Type.Params == nil || len(fd.Type.Params.List) != 1 || len(fd.Type.Params.List[0].Names) != 1 {
			fail("method (*Target).HealthCheckCompleted(success bool) not found")
		}
		param := fd.Type.Params.List[0].Names[0].Name
		lit := closureArg(fd, "withInflightLock")
		if lit == nil {
			fail("no single closure passed to withInflightLock")
		}
		// the flag is false when the region starts: `becameHealthy := false` (or `var becameHealthy bool`) ahead of the closure
		declared := false
		for _, st := range fd.Body.List {
			if st.Pos() > lit.Pos() {
				break
			}
			switch x := st.(type) {
			case *ast.AssignStmt:
				if len(x.Lhs) == 1 && len(x.Rhs) == 1 && src(x.Lhs[0]) == "becameHealthy" && src(x.Rhs[0]) == "false" {
					declared = true
				}
			case *ast.DeclStmt:
				if gd, ok := x.Decl.(*ast.GenDecl); ok {
					for _, sp := range gd.Specs {
						if vs, ok := sp.(*ast.ValueSpec); ok && len(vs.Values) == 0 {
							for _, n := range vs.Names {
								if n.Name == "becameHealthy" {
									if id, ok := vs.Type.(*ast.Ident); ok && id.Name == "bool" {
										declared = true
									}
								}
							}
						}
					}
				}
			}
		}
		if !declared {
			fail("becameHealthy is not declared false ahead of the locked region")
		}
		s := &spec{name: r1.Name, vars: []tvar{{"t.state", "st"}, {"becameHealthy", "bh"}}, params: map[string]string{param: "success"},
			ignoreLHS: map[string]bool{"previousState": true, "newState": true}, ignoreCall: map[string]bool{"verifEvent": true}, consts: consts}
		body := s.block(lit.Body.List, s.tuple())
		return "Definition gen_health_check_locked (st : tstate) (bh : bool) (success : bool) : tstate * bool :=\n  " + body + "."
	})

	// 2. nextTarget
	r2 := &result{Name: "gen_next_target", Source: "internal/server/load_balancer.go: LoadBalancer.nextTarget"}
	results = append(results, r2)
	translate(r2, func() string {
		fd := method(files, "LoadBalancer", "nextTarget")
		if fd == nil {
			fail("method (*LoadBalancer).nextTarget not found")
		}
		s := &spec{name: r2.Name, vars: []tvar{{"lb.index", "idx"}}, params: map[string]string{"len(lb.healthy)": "k"},
			ignoreLHS: map[string]bool{}, ignoreCall: map[string]bool{"verifEvent": true}, consts: consts, withReturn: true}
		if !endsWithReturn(fd.Body.List) {
			fail("nextTarget does not end with a return")
		}
		body := s.block(fd.Body.List, "")
		return "Definition gen_next_target (idx k : nat) : nat * option nat :=\n  " + body + "."
	})

	// 3. handleProxyError: the if-chain over the four classifiers
	r3 := &result{Name: "gen_handle_proxy_error", Source: "internal/server/target.go: Target.handleProxyError"}
	results = append(results, r3)
	translate(r3, func() string {
		fd := method(files, "Target", "handleProxyError")
		if fd == nil || fd.Type.Params == nil || len(fd.Type.Params.List) != 3 {
			fail("method Target.handleProxyError(w, r, err) not found")
		}
		names := []string{}
		for _, f := range fd.Type.Params.List {
			for _, n := range f.Names {
				names = append(names, n.Name)
			}
		}
		if len(names) != 3 {
			fail("handleProxyError: unexpected parameter list")
		}
		w, errName := names[0], names[2]
		cs := map[string]string{"http.StatusRequestEntityTooLarge": "413", "http.StatusGatewayTimeout": "504", "http.StatusBadGateway": "502",
			"StatusClientClosedRequest": "499", "http.StatusServiceUnavailable": "503", "http.StatusInternalServerError": "500",
			"true": "true", "false": "false"}
		s := &spec{name: r3.Name, vars: []tvar{{"#status", "status"}, {"#direct", "direct"}},
			params: map[string]string{"t.isRequestEntityTooLarge(" + errName + ")": "max_bytes", "t.isGatewayTimeout(" + errName + ")": "timeout",
				"t.isClientCancellation(" + errName + ")": "canceled", "t.isDraining(" + errName + ")": "draining"},
			ignoreLHS: map[string]bool{}, ignoreCall: map[string]bool{"verifEvent": true}, consts: cs,
			callAssign: map[string][]callSet{
				"SetErrorResponse":   {{"#status", 2, ""}, {"#direct", -1, "false"}},
				w + ".WriteHeader": {{"#status", 0, ""}, {"#direct", -1, "true"}},
			}}
		body := s.block(fd.Body.List, s.tuple())
		return "Definition gen_handle_proxy_error (max_bytes timeout canceled draining : bool) : nat * bool :=\n  let status := 0 in let direct := false in\n  " + body + "."
	})

	// 4. the service's own ladder in front of the balancer: HTTPS redirect, TLS refusal, pause gate, forward
	svcFiles := []*ast.File{}
	if f, err := parser.ParseFile(fset, filepath.Join(dir, "service.go"), nil, parser.SkipObjectResolution); err == nil {
		svcFiles = append(svcFiles, f)
	}
	r4 := &result{Name: "gen_should_redirect", Source: "internal/server/service.go: Service.shouldRedirectToHTTPS"}
	results = append(results, r4)
	translate(r4, func() string {
		fd := method(svcFiles, "Service", "shouldRedirectToHTTPS")
		if fd == nil || fd.Type.Params == nil || len(fd.Type.Params.List) != 1 || len(fd.Type.Params.List[0].Names) != 1 {
			fail("method Service.shouldRedirectToHTTPS(r) not found")
		}
		req := fd.Type.Params.List[0].Names[0].Name
		s := &spec{name: r4.Name, vars: []tvar{{"#unit", "u"}}, params: map[string]string{req + ".TLS": "is_tls"},
			ignoreLHS: map[string]bool{}, ignoreCall: map[string]bool{}, consts: map[string]string{"nil": "None", "true": "true", "false": "false"},
			withReturn: true, multiDefine: map[string][]string{"s.tlsSettings()": {"tls", "redir"}}}
		if !endsWithReturn(fd.Body.List) {
			fail("shouldRedirectToHTTPS does not end with a return")
		}
		return "Definition gen_should_redirect (tls redir is_tls : bool) : bool :=\n  let u := tt in snd " + s.block(fd.Body.List, "") + "."
	})
	r5 := &result{Name: "gen_service_ladder", Source: "internal/server/service.go: Service.serviceRequestWithTarget"}
	results = append(results, r5)
	translate(r5, func() string {
		fd := method(svcFiles, "Service", "serviceRequestWithTarget")
		if fd == nil || fd.Type.Params == nil {
			fail("method Service.serviceRequestWithTarget not found")
		}
		names := []string{}
		for _, f := range fd.Type.Params.List {
			for _, n := range f.Names {
				names = append(names, n.Name)
			}
		}
		if len(names) != 2 {
			fail("serviceRequestWithTarget: unexpected parameter list")
		}
		w, req := names[0], names[1]
		s := &spec{name: r5.Name, vars: []tvar{{"#decision", "decision"}},
			params: map[string]string{req + ".TLS": "is_tls", "s.shouldRedirectToHTTPS(" + req + ")": "should_redirect",
				"s.handlePausedAndStoppedRequests(" + w + "," + req + ")": "gate_handled"},
			ignoreLHS:  map[string]bool{"LoggingRequestContext(" + req + ").Service": true, "lb": true},
			ignoreCall: map[string]bool{"verifEvent": true, "verifYield": true},
			consts:     map[string]string{"nil": "None", "true": "true", "false": "false", "http.StatusServiceUnavailable": "503"},
			callAssign: map[string][]callSet{
				"s.redirectToHTTPS": {{"#decision", -1, "1"}},
				"SetErrorResponse":  {{"#decision", 2, ""}},
				"lb.ServeHTTP":      {{"#decision", -1, "4"}},
			},
			multiDefine: map[string][]string{"s.tlsSettings()": {"tls", "redir"}}}
		return "Definition gen_service_ladder (should_redirect tls redir is_tls gate_handled : bool) : nat :=\n  let decision := 0 in\n  " +
			s.block(fd.Body.List, s.tuple()) + "."
	})

	var b strings.Builder
	b.WriteString("(* GENERATED by harness/gofacts from " + dir + " - do not edit *)\n")
	b.WriteString("From KP Require Import model.Base model.Trace.\n")
	b.WriteString("Class GenEq (A : Type) := gen_eqb : A -> A -> bool.\n")
	b.WriteString("#[global] Instance gen_eq_nat : GenEq nat := Nat.eqb.\n#[global] Instance gen_eq_tstate : GenEq tstate := tstate_eqb.\n")
	b.WriteString("#[global] Instance gen_eq_bool : GenEq bool := Bool.eqb.\n\n")
	for _, r := range results {
		if r.OK {
			b.WriteString("(* " + r.Source + " *)\n" + r.Gallina + "\n")
			b.WriteString("Definition " + r.Name + "_translated := true.\n\n")
		} else {
			b.WriteString("(* " + r.Source + ": NOT TRANSLATED (" + strings.NewReplacer("(*", "( *", "*)", "* )").Replace(r.Unsupported) + ") *)\n")
			b.WriteString("Definition " + r.Name + "_translated := false.\n\n")
		}
	}
	return b.String(), results, nil
}
