package main

import (
	"os"
	"path/filepath"
	"strings"
	"testing"
)

// The translator on small sources of known meaning: the forms it must translate (and to what), and forms it must
// decline rather than mistranslate.

const tgtHead = "package server\nimport (\"net/http\")\n"

func write(t *testing.T, target, lb, service string) string {
	t.Helper()
	dir := t.TempDir()
	for n, src := range map[string]string{"target.go": target, "load_balancer.go": lb, "service.go": service} {
		if err := os.WriteFile(filepath.Join(dir, n), []byte(src), 0o644); err != nil {
			t.Fatal(err)
		}
	}
	return dir
}

func find(rs []*result, name string) *result {
	for _, r := range rs {
		if r.Name == name {
			return r
		}
	}
	return nil
}

const lbPlain = `package server
func (lb *LoadBalancer) nextTarget() *Target {
	if len(lb.healthy) == 0 {
		return nil
	}
	lb.index = (lb.index + 1) % len(lb.healthy)
	return lb.healthy[lb.index]
}`

const svcPlain = `package server
func (s *Service) shouldRedirectToHTTPS(r *http.Request) bool {
	tlsEnabled, tlsRedirect := s.tlsSettings()
	return tlsEnabled && tlsRedirect && r.TLS == nil
}
func (s *Service) serviceRequestWithTarget(w http.ResponseWriter, r *http.Request) {
	if s.shouldRedirectToHTTPS(r) {
		s.redirectToHTTPS(w, r)
		return
	}
	if tlsEnabled, _ := s.tlsSettings(); !tlsEnabled && r.TLS != nil {
		SetErrorResponse(w, r, http.StatusServiceUnavailable, nil)
		return
	}
	if s.handlePausedAndStoppedRequests(w, r) {
		return
	}
	lb := s.loadBalancerForRequest(r)
	lb.ServeHTTP(w, r)
}`

const tgtChain = tgtHead + `
func (t *Target) HealthCheckCompleted(success bool) {
	var previousState, newState TargetState
	becameHealthy := false

	t.withInflightLock(func() {
		previousState = t.state
		switch success {
		case true:
			switch t.state {
			case TargetStateAdding:
				t.state = TargetStateHealthy
				becameHealthy = true
			default:
				t.state = TargetStateHealthy
			}
		case false:
			switch t.state {
			case TargetStateHealthy:
				t.state = TargetStateUnhealthy
			}
		}
		newState = t.state
	})
}
func (t *Target) handleProxyError(w http.ResponseWriter, r *http.Request, err error) {
	if t.isRequestEntityTooLarge(err) {
		SetErrorResponse(w, r, http.StatusRequestEntityTooLarge, nil)
		return
	}
	if t.isClientCancellation(err) {
		w.WriteHeader(StatusClientClosedRequest)
		return
	}
	slog.Error("x")
	SetErrorResponse(w, r, http.StatusBadGateway, nil)
}`

func TestTranslatesTheKnownForms(t *testing.T) {
	text, rs, err := generate(write(t, tgtChain, lbPlain, svcPlain))
	if err != nil {
		t.Fatal(err)
	}
	for _, n := range []string{"gen_health_check_locked", "gen_next_target", "gen_handle_proxy_error", "gen_should_redirect", "gen_service_ladder"} {
		if r := find(rs, n); r == nil || !r.OK {
			t.Fatalf("%s not translated: %+v", n, r)
		}
	}
	for _, want := range []string{
		"(if max_bytes then (let status := 413 in (let direct := false in (status, direct))) else (if canceled then (let status := 499 in (let direct := true in (status, direct))) else (let status := 502 in (let direct := false in (status, direct)))))",
		"(if (gen_eqb k 0) then (idx, None) else (let idx := (Nat.modulo (idx + 1) k) in (idx, (Some idx))))",
		"((tls && redir) && (negb is_tls))",
		"(if should_redirect then (let decision := 1 in decision) else (if ((negb tls) && is_tls) then (let decision := 503 in decision) else (if gate_handled then decision else (let decision := 4 in decision))))",
		"| TAdding => (let st := THealthy in (let bh := true in (st, bh)))",
	} {
		if !strings.Contains(text, want) {
			t.Errorf("generated text lacks %q\n%s", want, text)
		}
	}
	if strings.Contains(strings.ReplaceAll(text, "(* ", ""), "(*") {
		t.Errorf("a comment opener inside the generated text")
	}
}

func TestTaglessSwitchIsAnIfChain(t *testing.T) {
	src := tgtHead + `
func (t *Target) handleProxyError(w http.ResponseWriter, r *http.Request, err error) {
	switch {
	case t.isRequestEntityTooLarge(err):
		SetErrorResponse(w, r, http.StatusRequestEntityTooLarge, nil)
	case t.isGatewayTimeout(err), t.isDraining(err):
		SetErrorResponse(w, r, http.StatusGatewayTimeout, nil)
	default:
		SetErrorResponse(w, r, http.StatusBadGateway, nil)
	}
}`
	_, rs, _ := generate(write(t, src, lbPlain, svcPlain))
	r := find(rs, "gen_handle_proxy_error")
	if r == nil || !r.OK || !strings.Contains(r.Gallina, "(if (timeout || draining) then (let status := 504") {
		t.Fatalf("tagless switch: %+v", r)
	}
}

func TestDeclinesWhatItCannotExpress(t *testing.T) {
	for name, src := range map[string]string{
		"a loop":             tgtHead + "func (t *Target) handleProxyError(w http.ResponseWriter, r *http.Request, err error) {\n for i := 0; i < 2; i++ { SetErrorResponse(w, r, http.StatusBadGateway, nil) }\n}",
		"an unknown call":    tgtHead + "func (t *Target) handleProxyError(w http.ResponseWriter, r *http.Request, err error) {\n t.note(err)\n SetErrorResponse(w, r, http.StatusBadGateway, nil)\n}",
		"an unknown status":  tgtHead + "func (t *Target) handleProxyError(w http.ResponseWriter, r *http.Request, err error) {\n SetErrorResponse(w, r, statusFor(err), nil)\n}",
		"a missing function": tgtHead,
	} {
		_, rs, _ := generate(write(t, src, lbPlain, svcPlain))
		if r := find(rs, "gen_handle_proxy_error"); r == nil || r.OK || r.Unsupported == "" {
			t.Errorf("%s: expected a refusal, got %+v", name, r)
		}
	}
}
