module gofacts

go 1.24.2
