package server

// C13 — transparency of the proxy.  One real Server (buildHandler chain, real
// listeners), a handful of services deployed through the Router, each in front
// of its own raw TCP echo backend that records the request bytes it received
// and answers with scripted response bytes.  The client side is a raw loopback
// TCP (or TLS) connection, so arbitrary request targets, header sets and
// bodies reach the server exactly as generated.

import (
	"bufio"
	"bytes"
	"crypto/ecdsa"
	"crypto/elliptic"
	"crypto/rand"
	"crypto/tls"
	"crypto/x509"
	"crypto/x509/pkix"
	"encoding/pem"
	"fmt"
	"io"
	"math/big"
	"net"
	"net/http"
	"net/http/httputil"
	"net/textproto"
	"os"
	"path/filepath"
	"sort"
	"strconv"
	"strings"
	"sync"
	"testing"
	"time"
)

const vC13CaseHeader = "X-Verif-Case"

type vC13Recv struct {
	svc     string
	line    []byte
	headers [][2]string // raw name, raw value (after the colon, OWS trimmed)
	body    []byte
	hits    int
}

type vC13Backend struct {
	name  string
	ln    net.Listener
	mu    *sync.Mutex
	recv  map[int64]*vC13Recv
	resps map[int64][]byte // scripted raw response bytes by case id
	pause map[int64]int64  // case ids whose response body is written in two parts, that many ms apart
	heads map[int64]bool   // case ids whose request method is HEAD
}

func (b *vC13Backend) serve() {
	for {
		c, err := b.ln.Accept()
		if err != nil {
			return
		}
		go b.conn(c)
	}
}

// conn parses requests by hand: request line and header lines are kept as raw bytes.
func (b *vC13Backend) conn(c net.Conn) {
	defer c.Close()
	br := bufio.NewReaderSize(c, 1<<16)
	for {
		line, err := br.ReadBytes('\n')
		if err != nil {
			return
		}
		line = bytes.TrimRight(line, "\r\n")
		var hdrs [][2]string
		cl := int64(-1)
		chunked := false
		id := int64(-1)
		for {
			h, err := br.ReadBytes('\n')
			if err != nil {
				return
			}
			h = bytes.TrimRight(h, "\r\n")
			if len(h) == 0 {
				break
			}
			name, value, _ := bytes.Cut(h, []byte(":"))
			v := strings.Trim(string(value), " \t")
			hdrs = append(hdrs, [2]string{string(name), v})
			switch strings.ToLower(string(name)) {
			case "content-length":
				cl, _ = strconv.ParseInt(v, 10, 64)
			case "transfer-encoding":
				chunked = strings.Contains(strings.ToLower(v), "chunked")
			case strings.ToLower(vC13CaseHeader):
				id, _ = strconv.ParseInt(v, 10, 64)
			}
		}
		var body []byte
		if chunked {
			body, err = io.ReadAll(httputil.NewChunkedReader(br))
			if err != nil {
				return
			}
			// trailer section: lines up to the empty line
			for {
				t, err := br.ReadBytes('\n')
				if err != nil || len(bytes.TrimRight(t, "\r\n")) == 0 {
					break
				}
			}
		} else if cl > 0 {
			body = make([]byte, cl)
			if _, err := io.ReadFull(br, body); err != nil {
				return
			}
		}
		if id < 0 {
			// health probe (or a request that lost its case header)
			c.Write([]byte("HTTP/1.1 200 OK\r\nContent-Length: 0\r\n\r\n"))
			continue
		}
		b.mu.Lock()
		r := b.recv[id]
		if r == nil {
			r = &vC13Recv{}
			b.recv[id] = r
		}
		r.svc, r.line, r.headers, r.body = b.name, line, hdrs, body
		r.hits++
		resp := b.resps[id]
		pauseMs := b.pause[id]
		b.mu.Unlock()
		if resp == nil {
			resp = []byte("HTTP/1.1 200 OK\r\nContent-Length: 0\r\n\r\n")
		}
		if he := bytes.LastIndex(resp, []byte("\r\n\r\n")); pauseMs > 0 && he >= 0 {
			// header block and the first half of what follows at once, the rest after a pause: a response that is
			// under way in good time and takes longer than the target timeout to complete
			he = bytes.Index(resp, []byte("\r\n\r\n"))
			cut := he + 4 + (len(resp)-he-4)/2
			if _, err := c.Write(resp[:cut]); err != nil {
				return
			}
			time.Sleep(time.Duration(pauseMs) * time.Millisecond)
			resp = resp[cut:]
		}
		if _, err := c.Write(resp); err != nil {
			return
		}
	}
}

func vC13SelfSigned(t *testing.T, dir string, hosts []string) (string, string) {
	key, err := ecdsa.GenerateKey(elliptic.P256(), rand.Reader)
	if err != nil {
		t.Fatalf("verif: key: %v", err)
	}
	tmpl := &x509.Certificate{
		SerialNumber: big.NewInt(13), Subject: pkix.Name{Organization: []string{"verif"}},
		NotBefore: time.Now().Add(-time.Hour), NotAfter: time.Now().Add(24 * time.Hour),
		KeyUsage: x509.KeyUsageDigitalSignature, ExtKeyUsage: []x509.ExtKeyUsage{x509.ExtKeyUsageServerAuth},
		DNSNames: hosts,
	}
	der, err := x509.CreateCertificate(rand.Reader, tmpl, tmpl, &key.PublicKey, key)
	if err != nil {
		t.Fatalf("verif: cert: %v", err)
	}
	kb, _ := x509.MarshalECPrivateKey(key)
	cp, kp := filepath.Join(dir, "c13-cert.pem"), filepath.Join(dir, "c13-key.pem")
	os.WriteFile(cp, pem.EncodeToMemory(&pem.Block{Type: "CERTIFICATE", Bytes: der}), 0o644)
	os.WriteFile(kp, pem.EncodeToMemory(&pem.Block{Type: "EC PRIVATE KEY", Bytes: kb}), 0o600)
	return cp, kp
}

// vC13Response renders the scripted target response.
func vC13Response(r map[string]any, head bool) []byte {
	var b bytes.Buffer
	// informational responses (103 Early Hints, 102 Processing) sent ahead of the final one
	for _, e := range vList(r["early"]) {
		em := e.(map[string]any)
		fmt.Fprintf(&b, "HTTP/1.1 %03d Early\r\n", int(vInt(em["status"])))
		for _, h := range vList(em["headers"]) {
			kv := vList(h)
			b.Write(vUnhex(kv[0]))
			b.WriteString(": ")
			b.Write(vUnhex(kv[1]))
			b.WriteString("\r\n")
		}
		b.WriteString("\r\n")
	}
	status := int(vInt(r["status"]))
	fmt.Fprintf(&b, "HTTP/1.1 %03d %s\r\n", status, string(vUnhex(r["reason"])))
	for _, h := range vList(r["headers"]) {
		kv := vList(h)
		b.Write(vUnhex(kv[0]))
		b.WriteString(": ")
		b.Write(vUnhex(kv[1]))
		b.WriteString("\r\n")
	}
	body := vUnhex(r["body"])
	nobody := status == 204 || status == 304 || (status >= 100 && status < 200)
	switch vStr(r["framing"]) {
	case "chunked":
		if !nobody {
			b.WriteString("Transfer-Encoding: chunked\r\n")
		}
		b.WriteString("\r\n")
		if !nobody && !head {
			for _, sz := range []int{3, 7, 1 << 20} {
				if len(body) == 0 {
					break
				}
				n := sz
				if n > len(body) {
					n = len(body)
				}
				fmt.Fprintf(&b, "%x\r\n", n)
				b.Write(body[:n])
				b.WriteString("\r\n")
				body = body[n:]
			}
			b.WriteString("0\r\n\r\n")
		}
	default:
		if !nobody {
			fmt.Fprintf(&b, "Content-Length: %d\r\n", len(body))
		}
		b.WriteString("\r\n")
		if !nobody && !head {
			b.Write(body)
		}
	}
	return b.Bytes()
}

func TestVerifC13(t *testing.T) {
	cases := verifCases(t)
	out := verifOpenOut(t)
	defer out.close()
	if len(cases) == 0 || vStr(cases[0]["kind"]) != "config" {
		t.Fatalf("verif: first case must be the configuration")
	}

	dir := t.TempDir()
	config := &Config{Bind: "127.0.0.1", HttpPort: 0, HttpsPort: 0, AlternateConfigDir: dir}
	router := NewRouter(config.StatePath())
	server := NewServer(config, router)
	if err := server.Start(); err != nil {
		t.Fatalf("verif: server start: %v", err)
	}
	defer server.Stop()

	mu := &sync.Mutex{}
	recv := map[int64]*vC13Recv{}
	resps := map[int64][]byte{}
	pauses := map[int64]int64{}
	for _, c := range cases[1:] {
		if vStr(c["kind"]) != "req" {
			continue
		}
		id := vInt(c["id"])
		if r, ok := c["resp"].(map[string]any); ok {
			resps[id] = vC13Response(r, vStr(c["method"]) == "HEAD")
			if ms := vInt(r["pause_ms"]); ms > 0 {
				pauses[id] = ms
			}
		}
	}

	var tlsHosts []string
	for _, s := range vList(cases[0]["services"]) {
		sv := s.(map[string]any)
		if vBool(sv["tls"]) {
			for _, h := range vList(sv["hosts"]) {
				tlsHosts = append(tlsHosts, vStr(h))
			}
		}
	}
	certPath, keyPath := "", ""
	if len(tlsHosts) > 0 {
		certPath, keyPath = vC13SelfSigned(t, dir, tlsHosts)
	}

	for _, s := range vList(cases[0]["services"]) {
		sv := s.(map[string]any)
		ln, err := net.Listen("tcp", "127.0.0.1:0")
		if err != nil {
			t.Fatalf("verif: backend listen: %v", err)
		}
		defer ln.Close()
		b := &vC13Backend{name: vStr(sv["name"]), ln: ln, mu: mu, recv: recv, resps: resps, pause: pauses}
		go b.serve()
		so := ServiceOptions{StripPrefix: vBool(sv["strip"]), TLSRedirect: false}
		for _, h := range vList(sv["hosts"]) {
			so.Hosts = append(so.Hosts, vStr(h))
		}
		for _, p := range vList(sv["prefixes"]) {
			so.PathPrefixes = append(so.PathPrefixes, vStr(p))
		}
		if vBool(sv["tls"]) {
			so.TLSEnabled = true
			so.TLSCertificatePath, so.TLSPrivateKeyPath = certPath, keyPath
		}
		to := TargetOptions{
			HealthCheckConfig: HealthCheckConfig{Path: DefaultHealthCheckPath, Interval: 50 * time.Millisecond, Timeout: 5 * time.Second},
			ResponseTimeout:   DefaultTargetTimeout,
			ForwardHeaders:    vBool(sv["forward"]),
		}
		if ms := vInt(sv["target_timeout_ms"]); ms > 0 {
			to.ResponseTimeout = time.Duration(ms) * time.Millisecond
		}
		if err := router.DeployService(b.name, []string{ln.Addr().String()}, so, to, 10*time.Second, time.Second); err != nil {
			t.Fatalf("verif: deploy %s: %v", b.name, err)
		}
	}

	httpAddr := fmt.Sprintf("127.0.0.1:%d", server.HttpPort())
	httpsAddr := fmt.Sprintf("127.0.0.1:%d", server.HttpsPort())

	// one exchange: raw request in, what the client read back
	exchange := func(i int, c map[string]any) map[string]any {
		id := vInt(c["id"])
		res := map[string]any{"i": i, "kind": "req", "id": id}
		func() {
			var conn net.Conn
			var err error
			if vBool(c["tls"]) {
				conn, err = tls.Dial("tcp", httpsAddr, &tls.Config{
					ServerName: vStr(c["sni"]), InsecureSkipVerify: true, NextProtos: []string{"http/1.1"}})
			} else {
				conn, err = net.Dial("tcp", httpAddr)
			}
			if err != nil {
				res["err"] = "dial: " + err.Error()
				return
			}
			defer conn.Close()
			conn.SetDeadline(time.Now().Add(10 * time.Second))
			host, _, _ := net.SplitHostPort(conn.LocalAddr().String())
			res["client_ip"] = host
			t0 := time.Now().UnixMilli()
			if _, err := conn.Write(vUnhex(c["raw"])); err != nil {
				res["err"] = "write: " + err.Error()
				return
			}
			cbr := bufio.NewReader(conn)
			resp, err := http.ReadResponse(cbr, &http.Request{Method: vStr(c["method"])})
			early := []any{}
			for err == nil && resp.StatusCode >= 100 && resp.StatusCode < 200 && resp.StatusCode != 101 && len(early) < 8 {
				early = append(early, map[string]any{"status": resp.StatusCode, "headers": vC13HeaderList(resp.Header)})
				resp, err = http.ReadResponse(cbr, &http.Request{Method: vStr(c["method"])})
			}
			res["early"] = early
			if err != nil {
				res["err"] = "read: " + err.Error()
				return
			}
			body, err := io.ReadAll(resp.Body)
			if err != nil {
				res["err"] = "body: " + err.Error()
			}
			t1 := time.Now().UnixMilli()
			res["t0"], res["t1"] = t0, t1
			res["status"] = resp.StatusCode
			res["resp_body"] = vHex(body)
			res["resp_headers"] = vC13HeaderList(resp.Header)
			res["resp_cl"] = resp.ContentLength
			res["resp_te"] = resp.TransferEncoding
			res["resp_uncompressed"] = resp.Uncompressed
		}()
		return res
	}
	// cases marked "par": g (g > 0) are sent CONCURRENTLY with the other cases of group g (requests in flight to one target at
	// the same time, each with its own path, query and headers); their results are kept and emitted in case order below
	parRes := map[int]map[string]any{}
	groups := map[int64][]int{}
	for i, c := range cases {
		if g := vInt(c["par"]); g > 0 && vStr(c["kind"]) == "req" {
			groups[g] = append(groups[g], i)
		}
	}
	for _, idxs := range groups {
		var wg sync.WaitGroup
		var pm sync.Mutex
		for _, i := range idxs {
			wg.Add(1)
			go func(i int) {
				defer wg.Done()
				r := exchange(i, cases[i])
				pm.Lock()
				parRes[i] = r
				pm.Unlock()
			}(i)
		}
		wg.Wait()
	}

	for i, c := range cases {
		if vStr(c["kind"]) == "config" {
			out.emit(map[string]any{"i": i, "kind": "config"})
			continue
		}
		id := vInt(c["id"])
		res, done := parRes[i]
		if !done {
			res = exchange(i, c)
		}
		mu.Lock()
		r := recv[id]
		mu.Unlock()
		if r != nil {
			res["hit"] = true
			res["hits"] = r.hits
			res["svc"] = r.svc
			res["req_line"] = vHex(r.line)
			hl := [][]string{}
			for _, h := range r.headers {
				hl = append(hl, []string{vHex([]byte(textproto.CanonicalMIMEHeaderKey(h[0]))), vHex([]byte(h[1])), vHex([]byte(h[0]))})
			}
			sort.SliceStable(hl, func(a, b int) bool { return hl[a][0] < hl[b][0] })
			res["req_headers"] = hl
			res["req_body"] = vHex(r.body)
		} else {
			res["hit"] = false
		}
		out.emit(res)
	}
}

// vC13HeaderList renders a header map as a list of [key, value] (hex), keys sorted, values in order.
func vC13HeaderList(h http.Header) [][]string {
	keys := make([]string, 0, len(h))
	for k := range h {
		keys = append(keys, k)
	}
	sort.Strings(keys)
	l := [][]string{}
	for _, k := range keys {
		for _, v := range h[k] {
			l = append(l, []string{vHex([]byte(k)), vHex([]byte(v))})
		}
	}
	return l
}
