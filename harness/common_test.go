package server

// Shared helpers of the /verif correspondence harness.  These files live in
// /verif/harness and are compiled into package server through `go test
// -overlay`; nothing here is committed to /repo.

import (
	"bufio"
	"encoding/hex"
	"encoding/json"
	"fmt"
	"os"
	"sort"
	"testing"
)

// verifCases reads the JSON-lines case file named by VERIF_IN.
func verifCases(t *testing.T) []map[string]any {
	t.Helper()
	path := os.Getenv("VERIF_IN")
	if path == "" {
		t.Skip("VERIF_IN not set")
	}
	f, err := os.Open(path)
	if err != nil {
		t.Fatalf("verif: cannot open cases: %v", err)
	}
	defer f.Close()
	var cases []map[string]any
	sc := bufio.NewScanner(f)
	sc.Buffer(make([]byte, 1<<20), 1<<28)
	for sc.Scan() {
		if len(sc.Bytes()) == 0 {
			continue
		}
		var c map[string]any
		if err := json.Unmarshal(sc.Bytes(), &c); err != nil {
			t.Fatalf("verif: bad case line: %v", err)
		}
		cases = append(cases, c)
	}
	return cases
}

type verifOut struct {
	w *bufio.Writer
	f *os.File
}

func verifOpenOut(t *testing.T) *verifOut {
	t.Helper()
	f, err := os.Create(os.Getenv("VERIF_OUT"))
	if err != nil {
		t.Fatalf("verif: cannot create output: %v", err)
	}
	return &verifOut{w: bufio.NewWriterSize(f, 1<<20), f: f}
}

func (o *verifOut) emit(v any) {
	b, err := json.Marshal(v)
	if err != nil {
		panic(err)
	}
	o.w.Write(b)
	o.w.WriteByte('\n')
}

func (o *verifOut) close() {
	o.w.Flush()
	o.f.Close()
}

func vHex(b []byte) string { return hex.EncodeToString(b) }

func vUnhex(s any) []byte {
	str, _ := s.(string)
	b, err := hex.DecodeString(str)
	if err != nil {
		panic(fmt.Sprintf("verif: bad hex %q", str))
	}
	return b
}

func vInt(v any) int64 {
	switch x := v.(type) {
	case float64:
		return int64(x)
	case int:
		return int64(x)
	case int64:
		return x
	case nil:
		return 0
	}
	panic(fmt.Sprintf("verif: not a number: %v", v))
}

func vBool(v any) bool {
	b, _ := v.(bool)
	return b
}

func vStr(v any) string {
	s, _ := v.(string)
	return s
}

func vList(v any) []any {
	l, _ := v.([]any)
	return l
}

func vHexList(v any) [][]byte {
	var out [][]byte
	for _, x := range vList(v) {
		out = append(out, vUnhex(x))
	}
	return out
}

func vStrList(v any) []string {
	out := []string{}
	for _, x := range vList(v) {
		out = append(out, string(vUnhex(x)))
	}
	return out
}

// vDirSizes lists the sizes of the regular files in dir, sorted.
func vDirSizes(dir string) []int64 {
	entries, err := os.ReadDir(dir)
	if err != nil {
		return nil
	}
	sizes := []int64{}
	for _, e := range entries {
		info, err := e.Info()
		if err == nil && info.Mode().IsRegular() {
			sizes = append(sizes, info.Size())
		}
	}
	sort.Slice(sizes, func(i, j int) bool { return sizes[i] < sizes[j] })
	return sizes
}

// TestVerifNothing exists so that `./check setup` can build the harness.
func TestVerifNothing(t *testing.T) {}
