package server

// C12 under faults of the file system and leftovers of an earlier crash (real
// scheduler, real files; commands one after the other):
//
//	"fsize": n      the command runs with RLIMIT_FSIZE = n bytes: the snapshot's
//	                write is cut short and fails with EFBIG (a full disk, a quota)
//	"pre_tmp": s    before the command a file <state>.tmp exists, as a process
//	                killed between creating and renaming the temporary file leaves
//	                it: "partial" (half a JSON document) or "complete" (an older
//	                complete snapshot)
//	{"op":"restart"}  a new Router restored from the directory as it is
//
// After every step: the parsed state file, the configuration in force (what an
// atomic snapshot taken now would hold), the files of the directory.  The
// monitor (corr/C12fault.v) reads only these.

import (
	"os"
	"os/signal"
	"path/filepath"
	"syscall"
	"testing"
)

func c12faultRun(t *testing.T, sc map[string]any) map[string]any {
	dir := t.TempDir()
	s := newSim(t, dir)
	restore := s.install()
	defer restore()
	s.router = NewRouter(s.statePath)
	tmp := s.statePath + ".tmp"

	steps := []any{}
	for k, st := range vList(sc["steps"]) {
		c := st.(map[string]any)
		id := vStr(c["id"])
		before := c12Config(s.router)
		fileBefore := c12Parse(os.ReadFile(s.statePath))
		rec := map[string]any{"k": k, "id": id, "op": vStr(c["op"]), "cfg_before": before, "file_before": fileBefore}
		switch vStr(c["pre_tmp"]) {
		case "partial":
			b, _ := os.ReadFile(s.statePath)
			if len(b) < 8 {
				b = []byte(`[{"name":"ghost","options":{"hosts":["g.example.com"]`)
			}
			os.WriteFile(tmp, b[:len(b)/2], 0o644)
			rec["pre_tmp"] = "partial"
		case "complete":
			os.WriteFile(tmp, []byte("[]\n"), 0o644)
			rec["pre_tmp"] = "complete"
		}
		if vStr(c["op"]) == "restart" {
			s.mu.Lock()
			old := append([]*Target{}, s.targets...)
			s.mu.Unlock()
			for _, tg := range old {
				tg.stopHealthChecks()
			}
			s.router = NewRouter(s.statePath)
			// what a kill DURING this start would leave: the state file is read at every file-system step a snapshot
			// makes while the restore runs (a start-up must not rewrite the file it is restoring from, let alone with
			// a configuration that is not complete yet)
			during := []any{}
			oldEv := verifEventFn
			verifEventFn = func(kind string, args ...any) {
				if kind == "snap-create" || kind == "snap-write" || kind == "snap-rename" {
					during = append(during, c12Parse(os.ReadFile(s.statePath)))
				}
				oldEv(kind, args...)
			}
			err := s.router.RestoreLastSavedState()
			verifEventFn = oldEv
			rec["during"] = during
			rec["result"] = vErrName(err)
		} else {
			var old syscall.Rlimit
			limited := false
			if n := vInt(c["fsize"]); n > 0 {
				if err := syscall.Getrlimit(syscall.RLIMIT_FSIZE, &old); err == nil {
					signal.Ignore(syscall.SIGXFSZ)
					if err := syscall.Setrlimit(syscall.RLIMIT_FSIZE, &syscall.Rlimit{Cur: uint64(n), Max: old.Max}); err == nil {
						limited = true
						rec["fsize"] = n
					}
				}
			}
			s.mu.Lock()
			s.gidNames[vGoid()] = id
			s.mu.Unlock()
			r := s.runCommand(id, c)
			s.mu.Lock()
			delete(s.gidNames, vGoid())
			s.mu.Unlock()
			if limited {
				syscall.Setrlimit(syscall.RLIMIT_FSIZE, &old)
				signal.Reset(syscall.SIGXFSZ)
			}
			rec["result"] = r["result"]
		}
		raw, rerr := os.ReadFile(s.statePath)
		rec["file_after"] = c12Parse(raw, rerr)
		rec["raw_len"] = len(raw)
		rec["cfg_after"] = c12Config(s.router)
		others := []string{}
		entries, _ := os.ReadDir(dir)
		for _, e := range entries {
			if e.Name() != filepath.Base(s.statePath) {
				others = append(others, e.Name())
			}
		}
		rec["other_files"] = others
		steps = append(steps, rec)
	}
	s.cleanup()
	return map[string]any{"steps": steps}
}

func TestVerifC12Fault(t *testing.T) {
	cases := verifCases(t)
	out := verifOpenOut(t)
	defer out.close()
	vMakeAssets(t)
	for i, sc := range cases {
		res := c12faultRun(t, sc)
		res["i"] = i
		out.emit(res)
	}
}
