package main

// lockfacts <LockFacts.v> [facts.json]
//
// Loads $VERIF_REPO/internal/server (default /repo) with the default build
// tags (so the `verif` hooks are the empty functions), type-checks it from
// source and writes the facts as a Coq file (and optionally as JSON).

import (
	"encoding/json"
	"fmt"
	"go/ast"
	"go/build"
	"go/importer"
	"go/parser"
	"go/token"
	"go/types"
	"os"
	"path/filepath"
	"strings"
)

func load(dir string, fset *token.FileSet) ([]*ast.File, error) {
	ents, err := os.ReadDir(dir)
	if err != nil {
		return nil, err
	}
	ctxt := build.Default
	var files []*ast.File
	for _, e := range ents {
		n := e.Name()
		if !strings.HasSuffix(n, ".go") || strings.HasSuffix(n, "_test.go") {
			continue
		}
		if ok, err := ctxt.MatchFile(dir, n); err != nil || !ok {
			continue
		}
		f, err := parser.ParseFile(fset, filepath.Join(dir, n), nil, parser.SkipObjectResolution)
		if err != nil {
			return nil, err
		}
		files = append(files, f)
	}
	return files, nil
}

// imp, when set, is reused (it caches the packages it has type-checked; it is
// bound to one FileSet).
var imp types.Importer

func check(fset *token.FileSet, path string, files []*ast.File) (*types.Package, *types.Info, error) {
	var errs []string
	if imp == nil {
		imp = importer.ForCompiler(fset, "source", nil)
	}
	conf := types.Config{Importer: imp,
		Error: func(err error) { errs = append(errs, err.Error()) }}
	info := &types.Info{Selections: map[*ast.SelectorExpr]*types.Selection{}, Uses: map[*ast.Ident]types.Object{},
		Defs: map[*ast.Ident]types.Object{}, Types: map[ast.Expr]types.TypeAndValue{}}
	pkg, _ := conf.Check(path, fset, files, info)
	if len(errs) > 0 {
		return nil, nil, fmt.Errorf("type errors:\n%s", strings.Join(errs, "\n"))
	}
	return pkg, info, nil
}

func main() {
	if len(os.Args) < 2 {
		fmt.Fprintln(os.Stderr, "usage: lockfacts <LockFacts.v> [facts.json]")
		os.Exit(2)
	}
	repo := os.Getenv("VERIF_REPO")
	if repo == "" {
		repo = "/repo"
	}
	dir := filepath.Join(repo, "internal", "server")
	for i := 1; i < len(os.Args); i++ {
		if abs, err := filepath.Abs(os.Args[i]); err == nil {
			os.Args[i] = abs
		}
	}
	if err := os.Chdir(dir); err != nil { // the source importer resolves imports relative to the module
		fmt.Fprintln(os.Stderr, err)
		os.Exit(1)
	}
	fset := token.NewFileSet()
	files, err := load(dir, fset)
	if err == nil && len(files) == 0 {
		err = fmt.Errorf("no Go files in %s", dir)
	}
	var facts []Fact
	if err == nil {
		var pkg *types.Package
		var info *types.Info
		pkg, info, err = check(fset, "github.com/basecamp/kamal-proxy/internal/server", files)
		if err == nil {
			// testing.go holds test helpers (and one variable the package needs):
			// it is type-checked but its functions are not analysed.
			facts = analyze(fset, pkg, info, files, map[string]bool{"testing.go": true})
		}
	}
	if err != nil {
		fmt.Fprintln(os.Stderr, "lockfacts:", err)
		os.Exit(1)
	}
	text, names := coqFile(facts)
	if err := os.WriteFile(os.Args[1], []byte(text), 0o644); err != nil {
		fmt.Fprintln(os.Stderr, err)
		os.Exit(1)
	}
	if len(os.Args) > 2 {
		b, _ := json.MarshalIndent(map[string]any{"names": names, "facts": facts}, "", " ")
		if err := os.WriteFile(os.Args[2], b, 0o644); err != nil {
			fmt.Fprintln(os.Stderr, err)
			os.Exit(1)
		}
	}
}

// ---- Coq output ------------------------------------------------------------

// Identifiers are interned: id 0 is reserved ("does not occur"), ids are given
// in order of first use.
type namer struct {
	ids   map[string]int
	order []string
}

func (n *namer) id(s string) string {
	if v, ok := n.ids[s]; ok {
		return fmt.Sprint(v)
	}
	n.order = append(n.order, s)
	n.ids[s] = len(n.order)
	return fmt.Sprint(len(n.order))
}

func strLit(s string) string {
	if s == "" {
		return "[]"
	}
	parts := make([]string, len(s))
	for i := 0; i < len(s); i++ {
		parts[i] = fmt.Sprintf("x%02x", s[i])
	}
	return "[" + strings.Join(parts, ";") + "]"
}

func heldText(h []Held) string {
	xs := []string{}
	for _, x := range h {
		xs = append(xs, x.St+"."+x.Fld+":"+x.Mode)
	}
	return strings.Join(xs, ",")
}

func coqFile(facts []Fact) (string, []string) {
	n := &namer{ids: map[string]int{}}
	held := func(h []Held) string {
		xs := []string{}
		for _, x := range h {
			m := "LW"
			if x.Mode == "R" {
				m = "LR"
			}
			xs = append(xs, fmt.Sprintf("((%s, %s), %s)", n.id(x.St), n.id(x.Fld), m))
		}
		return "[" + strings.Join(xs, "; ") + "]"
	}
	base := map[string]string{"local": "BLocal", "recv": "BRecv", "shared": "BShared", "": "BShared"}
	var lines []string
	for _, f := range facts {
		pos := fmt.Sprintf("(%s, %d)", n.id(f.File), f.Line)
		at := fmt.Sprintf("%s:%d", f.File, f.Line)
		var l, c string
		switch f.Kind {
		case "func":
			l = fmt.Sprintf("FFunc %s %s", n.id(f.F), pos)
			c = "func " + f.F
		case "root":
			l = fmt.Sprintf("FRoot %s %s", n.id(f.F), n.id(f.Why))
			c = "root " + f.F + " (" + f.Why + ")"
		case "access":
			rw := "Rd"
			if f.RW == "W" {
				rw = "Wr"
			}
			l = fmt.Sprintf("FAccess %s %s %s %s %s %s %s", n.id(f.F), n.id(f.St), n.id(f.Fld), rw, held(f.Held), base[f.Base], pos)
			c = fmt.Sprintf("%s: %s %s.%s [%s] %s %s", f.F, f.RW, f.St, f.Fld, heldText(f.Held), f.Base, at)
		case "call":
			l = fmt.Sprintf("FCall %s %s %s %s %s", n.id(f.F), n.id(f.G), held(f.Held), base[f.Base], pos)
			c = fmt.Sprintf("%s -> %s [%s] %s %s", f.F, f.G, heldText(f.Held), f.Base, at)
		case "go":
			l = fmt.Sprintf("FGo %s %s %s", n.id(f.F), n.id(f.G), pos)
			c = fmt.Sprintf("%s: go %s %s", f.F, f.G, at)
		case "acquire":
			m := "LW"
			if f.RW == "R" {
				m = "LR"
			}
			l = fmt.Sprintf("FAcquire %s (%s, %s) %s %s %s", n.id(f.F), n.id(f.St), n.id(f.Fld), m, held(f.Held), pos)
			c = fmt.Sprintf("%s: acquire %s.%s:%s [%s] %s", f.F, f.St, f.Fld, f.RW, heldText(f.Held), at)
		case "chan":
			op := map[string]string{"send": "ChSend", "recv": "ChRecv", "close": "ChClose"}[f.RW]
			l = fmt.Sprintf("FChan %s %s %s %s %s %s", n.id(f.F), op, n.id(f.St), n.id(f.Fld), held(f.Held), pos)
			c = fmt.Sprintf("%s: %s %s.%s [%s] %s", f.F, f.RW, f.St, f.Fld, heldText(f.Held), at)
		case "sync":
			l = fmt.Sprintf("FSync %s %s %s %s", n.id(f.F), n.id(f.RW), n.id(f.Why), pos)
			c = fmt.Sprintf("%s: sync %s %s %s", f.F, f.RW, f.Why, at)
		case "unbalanced":
			l = fmt.Sprintf("FUnbalanced %s (%s, %s) %s", n.id(f.F), n.id(f.St), n.id(f.Fld), pos)
			c = fmt.Sprintf("%s: unbalanced %s.%s (%s) %s", f.F, f.St, f.Fld, f.Why, at)
		default:
			panic("unknown fact kind " + f.Kind)
		}
		lines = append(lines, fmt.Sprintf("  (* %s *)\n  %s", strings.ReplaceAll(c, "*)", "* )"), l))
	}
	var b strings.Builder
	b.WriteString("(* GENERATED by /verif/harness/lockfacts from internal/server -- do not edit. *)\n")
	b.WriteString("From KP Require Import model.Base model.Locks.\nLocal Open Scope N_scope.\n\n")
	b.WriteString("Definition names : names := [\n")
	for i, s := range n.order {
		sep := ";"
		if i == len(n.order)-1 {
			sep = ""
		}
		fmt.Fprintf(&b, "  (%d, %s)%s (* %s *)\n", i+1, strLit(s), sep, strings.ReplaceAll(s, "*)", "* )"))
	}
	b.WriteString("].\n\nDefinition facts : list fact := [\n")
	b.WriteString(strings.Join(lines, ";\n"))
	b.WriteString("\n].\n")
	return b.String(), n.order
}
