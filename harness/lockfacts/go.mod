module lockfacts

go 1.24.2
