package main

// Unit cases of the translator: tiny Go programs -> expected facts.

import (
	"go/ast"
	"go/parser"
	"go/token"
	"strings"
	"testing"
)

const prelude = `package p

import (
	"encoding/json"
	"net/http"
	"sync"
	"sync/atomic"
)

var _ = json.Marshal
var _ http.Handler
var _ atomic.Bool

type Opts struct{ Flag bool; Names []string }

type T struct {
	mu   sync.Mutex
	rw   sync.RWMutex
	n    int
	m    map[string]int
	opts Opts
	ch   chan bool
	next *T
	Exp  int
}

type U struct {
	lock sync.Mutex
	t    *T
}
`

var testFset = token.NewFileSet() // shared with the importer, see check

func run(t *testing.T, body string) []Fact {
	t.Helper()
	fset := testFset
	f, err := parser.ParseFile(fset, "p.go", prelude+body, parser.SkipObjectResolution)
	if err != nil {
		t.Fatal(err)
	}
	pkg, info, err := check(fset, "p", []*ast.File{f})
	if err != nil {
		t.Fatal(err)
	}
	return analyze(fset, pkg, info, []*ast.File{f}, map[string]bool{})
}

func heldStr(h []Held) string {
	xs := []string{}
	for _, x := range h {
		xs = append(xs, x.St+"."+x.Fld+":"+x.Mode)
	}
	return strings.Join(xs, ",")
}

// line renders a fact without its position.
func line(f Fact) string {
	switch f.Kind {
	case "access":
		return "access " + f.F + " " + f.RW + " " + f.St + "." + f.Fld + " [" + heldStr(f.Held) + "] " + f.Base
	case "call":
		return "call " + f.F + " -> " + f.G + " [" + heldStr(f.Held) + "] " + f.Base
	case "go":
		return "go " + f.F + " -> " + f.G
	case "acquire":
		return "acquire " + f.F + " " + f.St + "." + f.Fld + ":" + f.RW + " [" + heldStr(f.Held) + "]"
	case "root":
		return "root " + f.F + " " + f.Why
	case "chan":
		return "chan " + f.F + " " + f.RW + " " + f.St + "." + f.Fld + " [" + heldStr(f.Held) + "]"
	case "sync":
		return "sync " + f.F + " " + f.RW
	case "unbalanced":
		return "unbalanced " + f.F + " " + f.St + "." + f.Fld
	case "func":
		return "func " + f.F
	}
	return f.Kind
}

func want(t *testing.T, facts []Fact, lines ...string) {
	t.Helper()
	have := map[string]bool{}
	all := []string{}
	for _, f := range facts {
		have[line(f)] = true
		all = append(all, line(f))
	}
	for _, l := range lines {
		neg := strings.HasPrefix(l, "!")
		l = strings.TrimPrefix(l, "!")
		if have[l] == neg {
			t.Errorf("expected %v: %q\nfacts:\n  %s", !neg, l, strings.Join(all, "\n  "))
		}
	}
}

func TestLockDeferUnlock(t *testing.T) {
	fs := run(t, `
func (t *T) Get() int { t.mu.Lock(); defer t.mu.Unlock(); return t.n }
func (t *T) Set(v int) { t.mu.Lock(); defer t.mu.Unlock(); t.n = v; t.m["a"] = v; delete(t.m, "b") }
func (t *T) Peek() int { return t.n }
`)
	want(t, fs,
		"acquire T.Get T.mu:W []",
		"access T.Get R T.n [T.mu:W] recv",
		"access T.Set W T.n [T.mu:W] recv",
		"access T.Set W T.m [T.mu:W] recv",
		"access T.Peek R T.n [] recv",
		"!unbalanced T.Get T.mu")
}

func TestRWLockAndExplicitUnlock(t *testing.T) {
	fs := run(t, `
func (t *T) Get() int { t.rw.RLock(); v := t.n; t.rw.RUnlock(); return v + t.Exp }
func (t *T) Early(b bool) int {
	t.mu.Lock()
	if b {
		t.mu.Unlock()
		return 0
	}
	v := t.n
	t.mu.Unlock()
	return v
}
`)
	want(t, fs,
		"acquire T.Get T.rw:R []",
		"access T.Get R T.n [T.rw:R] recv",
		"access T.Get R T.Exp [] recv",
		"access T.Early R T.n [T.mu:W] recv",
		"!unbalanced T.Early T.mu")
}

func TestHelperClosureAndCallee(t *testing.T) {
	fs := run(t, `
func (t *T) with(fn func()) { t.mu.Lock(); defer t.mu.Unlock(); fn() }
func (t *T) Bump() { t.with(func() { t.n++; t.bump2() }) }
func (t *T) bump2() { t.n++ }
func (t *T) Direct() { t.mu.Lock(); t.bump2(); t.mu.Unlock(); t.bump2() }
`)
	want(t, fs,
		"call T.Bump -> T.Bump$1 [T.mu:W] recv",
		"access T.Bump$1 W T.n [] shared",
		"call T.Bump$1 -> T.bump2 [] shared",
		"call T.Direct -> T.bump2 [T.mu:W] recv",
		"call T.Direct -> T.bump2 [] recv")
}

func TestGoAndDeferredClosure(t *testing.T) {
	fs := run(t, `
func spawn(fns ...func()) { for _, fn := range fns { go func() { fn() }() } }
func (t *T) Work() {
	t.mu.Lock()
	defer t.mu.Unlock()
	defer func() { _ = t.n }()
	go func() { t.n = 1 }()
	go t.Other()
	spawn(func() { t.n = 2 })
}
func (t *T) Other() {}
`)
	want(t, fs,
		"call T.Work -> T.Work$1 [T.mu:W] recv",
		"access T.Work$1 R T.n [] recv",
		"go T.Work -> T.Work$2",
		"access T.Work$2 W T.n [] shared",
		"go T.Work -> T.Other",
		"go T.Work -> T.Work$3",
		"!call T.Work -> T.Work$3 [T.mu:W] recv")
}

func TestFreshness(t *testing.T) {
	fs := run(t, `
var registry []*T
func NewT() *T { t := &T{}; t.n = 1; t.init(); return t }
func (t *T) init() { t.m = map[string]int{} }
func NewPublished() *T { t := &T{}; registry = append(registry, t); t.n = 2; return t }
func Use() { a := NewT(); a.n = 3; b := NewPublished(); b.n = 4; var o Opts; o.Flag = true }
`)
	want(t, fs,
		"access NewT W T.n [] local",
		"call NewT -> T.init [] local",
		"access T.init W T.m [] recv",
		"access NewPublished W T.n [] shared",
		"access Use W T.n [] local",
		"access Use W T.n [] shared",
		"access Use W Opts.Flag [] local")
}

func TestNestedLocksPathsChannelsSync(t *testing.T) {
	fs := run(t, `
func (u *U) Both() { u.lock.Lock(); defer u.lock.Unlock(); u.t.mu.Lock(); u.t.opts.Flag = true; u.t.mu.Unlock(); close(u.t.ch) }
func (t *T) Wait() { var wg sync.WaitGroup; var b atomic.Bool; wg.Add(1); b.Store(true); <-t.ch; t.ch <- true; wg.Wait() }
func (t *T) Bad() { t.mu.Unlock() }
func (t *T) Leak() { t.mu.Lock() }
`)
	want(t, fs,
		"acquire U.Both T.mu:W [U.lock:W]",
		"access U.Both R U.t [U.lock:W] recv",
		"access U.Both W T.opts.Flag [U.lock:W,T.mu:W] shared",
		"chan U.Both close T.ch [U.lock:W]",
		"chan T.Wait recv T.ch []",
		"chan T.Wait send T.ch []",
		"sync T.Wait WaitGroup",
		"sync T.Wait atomic",
		"unbalanced T.Bad T.mu",
		"unbalanced T.Leak T.mu")
}

// A lock released explicitly at the end but not on an early return leaks on that path.
func TestEarlyReturnLeak(t *testing.T) {
	fs := run(t, `
func (t *T) Claim(refuse bool) int {
	t.mu.Lock()
	if refuse {
		return 0
	}
	t.n++
	t.mu.Unlock()
	return 1
}
func (t *T) Fine(refuse bool) int {
	t.mu.Lock()
	if refuse {
		t.mu.Unlock()
		return 0
	}
	t.n++
	t.mu.Unlock()
	return 1
}
`)
	want(t, fs,
		"unbalanced T.Claim T.mu",
		"!unbalanced T.Fine T.mu")
}

func TestJSONAndRoots(t *testing.T) {
	fs := run(t, `
type S struct{ name string; t *T }
func (s *S) MarshalJSON() ([]byte, error) { return json.Marshal(struct{ T *T }{s.t}) }
func (s *S) ServeHTTP(w http.ResponseWriter, r *http.Request) {}
func Save(all []*S) { json.Marshal(all) }
func Handler(s *S) http.Handler { return http.HandlerFunc(s.handle) }
func (s *S) handle(w http.ResponseWriter, r *http.Request) {}
`)
	want(t, fs,
		"access S.MarshalJSON R T.Exp [] shared",
		"call Save -> S.MarshalJSON [] shared",
		"root S.ServeHTTP http",
		"root S.handle escapes")
}
