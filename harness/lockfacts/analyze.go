// Package main: lockfacts — extracts lock / access / call facts from one Go
// package (kamal-proxy's internal/server) for the Coq checker coq/model/Locks.v.
//
// What is extracted (one Fact per item; see coq/model/Locks.v for the meaning):
//
//	func       every function, method and function literal ("Parent$1")
//	root       concurrent entry points: net/rpc methods, ServeHTTP methods,
//	           function values that escape (method values, stored literals)
//	access     struct-field (and package variable) reads / writes with the locks
//	           held LEXICALLY in the enclosing function at that point, and
//	           whether the base object is private to the function
//	call       static call edges (interface calls: every implementation in the
//	           package) with the locks held at the call site
//	go         go statements (the callee runs with no lock held)
//	acquire    Lock/RLock with the locks already held (lock order)
//	chan       close / send / receive
//	sync       sync.WaitGroup, sync.Once, sync.Pool, sync/atomic uses
//	unbalanced Unlock of a lock not taken in the function, or a lock still held
//	           (without defer) when the function ends
//
// Locks are identified by (struct type, mutex field); held sets are tracked
// block-structurally: Lock adds, Unlock removes, `defer Unlock` keeps to the
// end; after a compound statement the held set is the intersection of the
// non-terminating branches.
package main

import (
	"fmt"
	"go/ast"
	"go/token"
	"go/types"
	"path/filepath"
	"sort"
	"strings"
)

type Held struct {
	St, Fld, Mode string // Mode "R" or "W"
	deferred      bool
}

type Fact struct {
	Kind string `json:"kind"`
	F    string `json:"f,omitempty"`
	G    string `json:"g,omitempty"`
	St   string `json:"st,omitempty"`
	Fld  string `json:"fld,omitempty"`
	RW   string `json:"rw,omitempty"`   // access: R/W; chan: send/recv/close; sync: kind; acquire: R/W
	Held []Held `json:"held,omitempty"` // locks held lexically
	Base string `json:"base,omitempty"` // local | recv | shared
	File string `json:"file,omitempty"`
	Line int    `json:"line,omitempty"`
	Why  string `json:"why,omitempty"`
}

type inv struct {
	held []Held
	inGo bool
}

type pendingLit struct {
	caller string
	lit    string // closure name, or method name for escaping values
	callee *types.Func
	idx    int
	held   []Held
	file   string
	line   int
}

type analyzer struct {
	fset      *token.FileSet
	pkg       *types.Package
	info      *types.Info
	skip      map[string]bool // base names of files whose functions are not analysed
	facts     []Fact
	retFresh  map[*types.Func]bool
	recvLeaks map[*types.Func]bool
	allDecls  map[*types.Func]*ast.FuncDecl // including the files whose functions are not analysed
	decls     map[*types.Func]*ast.FuncDecl
	paramInv  map[*types.Var][]inv
	pending   []pendingLit
	roots     map[string]bool
}

func analyze(fset *token.FileSet, pkg *types.Package, info *types.Info, files []*ast.File, skip map[string]bool) []Fact {
	a := &analyzer{fset: fset, pkg: pkg, info: info, skip: skip, retFresh: map[*types.Func]bool{},
		recvLeaks: map[*types.Func]bool{}, allDecls: map[*types.Func]*ast.FuncDecl{},
		decls: map[*types.Func]*ast.FuncDecl{}, paramInv: map[*types.Var][]inv{}, roots: map[string]bool{}}
	var decls []*ast.FuncDecl
	for _, f := range files {
		skipped := skip[filepath.Base(fset.Position(f.Pos()).Filename)]
		for _, d := range f.Decls {
			if fd, ok := d.(*ast.FuncDecl); ok && fd.Body != nil {
				if fn, ok := info.Defs[fd.Name].(*types.Func); ok {
					a.allDecls[fn] = fd
					if !skipped {
						a.decls[fn] = fd
						decls = append(decls, fd)
					}
				}
			}
		}
	}
	// which methods hand out their receiver, which functions return a fresh
	// object: fixpoint, starting from "leaks" / "not fresh"
	for fn := range a.decls {
		a.recvLeaks[fn] = true
	}
	for round := 0; round < 8; round++ {
		for fn, fd := range a.decls {
			a.recvLeaks[fn] = a.computeRecvLeaks(fd)
		}
		for fn, fd := range a.decls {
			a.retFresh[fn] = a.computeRetFresh(fd)
		}
	}
	for _, fd := range decls {
		fn := info.Defs[fd.Name].(*types.Func)
		c := &fctx{a: a, name: funcName(fn), fresh: a.freshLocals(fd.Body), lits: new(int)}
		if sig := fn.Type().(*types.Signature); sig.Recv() != nil {
			c.recv = sig.Recv()
		}
		c.scope = fd
		a.emit(Fact{Kind: "func", F: c.name, File: a.file(fd.Pos()), Line: a.line(fd.Pos())})
		a.ruleRoots(fn, c.name)
		c.block(fd.Body.List)
		c.endOfFunc(fd.End())
	}
	a.resolvePending()
	a.ifaceRoots(files)
	return a.facts
}

// ifaceRoots: library code calls the package back through interfaces declared
// elsewhere (http.Handler, http.Hijacker, io.ReadCloser, httputil.BufferPool...).
// Every such interface that the source names, that is a parameter type of a
// library function the package calls, or a field type of a library struct the
// package builds, makes the implementing methods of every type of the package
// concurrent roots.
func (a *analyzer) ifaceRoots(files []*ast.File) {
	var ifaces []*types.Interface
	seen := map[*types.Interface]bool{}
	add := func(t types.Type) {
		if t == nil {
			return
		}
		if n, ok := types.Unalias(t).(*types.Named); ok && n.Obj().Pkg() == a.pkg {
			return
		}
		if it, ok := t.Underlying().(*types.Interface); ok && it.NumMethods() > 0 && !seen[it] {
			seen[it] = true
			ifaces = append(ifaces, it)
		}
	}
	for _, f := range files {
		ast.Inspect(f, func(n ast.Node) bool {
			switch x := n.(type) {
			case *ast.Ident:
				if tn, ok := a.info.Uses[x].(*types.TypeName); ok && tn.Pkg() != nil && tn.Pkg() != a.pkg {
					add(tn.Type())
				}
			case *ast.CallExpr:
				if sig, ok := a.info.TypeOf(x.Fun).(*types.Signature); ok {
					var callee types.Object
					switch f := ast.Unparen(x.Fun).(type) {
					case *ast.Ident:
						callee = a.info.Uses[f]
					case *ast.SelectorExpr:
						callee = a.info.Uses[f.Sel]
					}
					if callee != nil && callee.Pkg() != nil && callee.Pkg() != a.pkg {
						for i := 0; i < sig.Params().Len(); i++ {
							t := sig.Params().At(i).Type()
							if sl, ok := t.(*types.Slice); ok && sig.Variadic() && i == sig.Params().Len()-1 {
								t = sl.Elem()
							}
							add(t)
						}
					}
				}
			case *ast.CompositeLit:
				if n := namedOf(a.info.TypeOf(x)); n != nil && n.Obj().Pkg() != a.pkg {
					if st := structOf(n); st != nil {
						for i := 0; i < st.NumFields(); i++ {
							add(st.Field(i).Type())
						}
					}
				}
			}
			return true
		})
	}
	sc := a.pkg.Scope()
	names := sc.Names()
	sort.Strings(names)
	for _, nm := range names {
		tn, ok := sc.Lookup(nm).(*types.TypeName)
		if !ok || tn.IsAlias() {
			continue
		}
		if _, isIface := tn.Type().Underlying().(*types.Interface); isIface {
			continue
		}
		pt := types.NewPointer(tn.Type())
		for _, it := range ifaces {
			if !types.Implements(pt, it) && !types.Implements(tn.Type(), it) {
				continue
			}
			for i := 0; i < it.NumMethods(); i++ {
				if o, _, _ := types.LookupFieldOrMethod(pt, true, a.pkg, it.Method(i).Name()); o != nil {
					if m, ok := o.(*types.Func); ok && m.Pkg() == a.pkg && a.decls[m] != nil {
						a.emit(Fact{Kind: "root", F: funcName(m), Why: "iface"})
					}
				}
			}
		}
	}
}

func (a *analyzer) emit(f Fact) {
	if f.Kind == "root" {
		if a.roots[f.F] {
			return
		}
		a.roots[f.F] = true
	}
	a.facts = append(a.facts, f)
}

func (a *analyzer) file(p token.Pos) string { return filepath.Base(a.fset.Position(p).Filename) }
func (a *analyzer) line(p token.Pos) int    { return a.fset.Position(p).Line }

func funcName(fn *types.Func) string {
	sig := fn.Type().(*types.Signature)
	if sig.Recv() != nil {
		if n := namedOf(sig.Recv().Type()); n != nil {
			return n.Obj().Name() + "." + fn.Name()
		}
	}
	return fn.Name()
}

func namedOf(t types.Type) *types.Named {
	for {
		switch x := t.(type) {
		case *types.Pointer:
			t = x.Elem()
		case *types.Named:
			return x
		case *types.Alias:
			t = types.Unalias(x)
		default:
			return nil
		}
	}
}

func isPtr(t types.Type) bool { _, ok := t.Underlying().(*types.Pointer); return ok }

func structOf(t types.Type) *types.Struct {
	if p, ok := t.Underlying().(*types.Pointer); ok {
		t = p.Elem()
	}
	s, _ := t.Underlying().(*types.Struct)
	return s
}

// isSyncType: sync.Mutex, sync.RWMutex, sync.WaitGroup, sync.Once, sync.Pool, atomic.*
func isSyncType(t types.Type) bool {
	n := namedOf(t)
	if n == nil || n.Obj().Pkg() == nil {
		return false
	}
	p := n.Obj().Pkg().Path()
	return p == "sync" || p == "sync/atomic"
}

// ---- rule-based roots ------------------------------------------------------

func (a *analyzer) ruleRoots(fn *types.Func, name string) {
	sig := fn.Type().(*types.Signature)
	if sig.Recv() == nil {
		return
	}
	if fn.Name() == "ServeHTTP" && sig.Params().Len() == 2 &&
		types.TypeString(sig.Params().At(0).Type(), nil) == "net/http.ResponseWriter" {
		a.emit(Fact{Kind: "root", F: name, Why: "http"})
	}
}

// rpcRoots: the exported methods (args, *reply) error of the type registered
// with net/rpc.
func (a *analyzer) rpcRoots(t types.Type) {
	n := namedOf(t)
	if n == nil {
		return
	}
	ms := types.NewMethodSet(types.NewPointer(n))
	for i := 0; i < ms.Len(); i++ {
		fn, ok := ms.At(i).Obj().(*types.Func)
		if !ok || !fn.Exported() || fn.Pkg() != a.pkg {
			continue
		}
		sig := fn.Type().(*types.Signature)
		if sig.Params().Len() == 2 && isPtr(sig.Params().At(1).Type()) && sig.Results().Len() == 1 &&
			types.TypeString(sig.Results().At(0).Type(), nil) == "error" {
			a.emit(Fact{Kind: "root", F: funcName(fn), Why: "rpc"})
		}
	}
}

// ---- freshness -------------------------------------------------------------
//
// A pointer-typed local is FRESH while it holds an object allocated in this
// function (&T{...}, new(T), or the result of a function that returns a fresh
// object) that has not been handed out yet.  It is handed out ("leaks") when it
// is passed as an argument (except to functions with an empty body, i.e. the
// verification hooks), mentioned by a go statement or a stored function
// literal, stored into a field / element / composite literal, sent on a
// channel, copied to another variable, or when a method is called on it that
// leaks its receiver by the same rules.  Freshness is position-sensitive: the
// variable counts as fresh up to the end of the first leaking expression.

const never = token.Pos(1 << 40)

func (a *analyzer) freshExpr(e ast.Expr, fresh map[*types.Var]token.Pos, at token.Pos) bool {
	switch x := ast.Unparen(e).(type) {
	case *ast.UnaryExpr:
		if x.Op == token.AND {
			_, ok := ast.Unparen(x.X).(*ast.CompositeLit)
			return ok
		}
	case *ast.CallExpr:
		if id, ok := x.Fun.(*ast.Ident); ok {
			if id.Name == "new" && a.info.Uses[id] == types.Universe.Lookup("new") {
				return true
			}
			if fn, ok := a.info.Uses[id].(*types.Func); ok {
				return a.retFresh[fn]
			}
		}
	case *ast.Ident:
		if x.Name == "nil" {
			return true
		}
		if v, ok := a.info.Uses[x].(*types.Var); ok && fresh != nil {
			lp, ok := fresh[v]
			return ok && at < lp
		}
	}
	return false
}

func (a *analyzer) emptyBody(fn *types.Func) bool {
	fd := a.allDecls[fn]
	return fd != nil && fd.Body != nil && len(fd.Body.List) == 0
}

// isVar: e is (a parenthesised / address-of) use of v
func (a *analyzer) isVar(e ast.Expr, v *types.Var) bool {
	switch x := ast.Unparen(e).(type) {
	case *ast.Ident:
		return a.info.Uses[x] == v
	case *ast.UnaryExpr:
		return x.Op == token.AND && a.isVar(x.X, v)
	}
	return false
}

func (a *analyzer) mentions(n ast.Node, v *types.Var) bool {
	found := false
	ast.Inspect(n, func(m ast.Node) bool {
		if id, ok := m.(*ast.Ident); ok && a.info.Uses[id] == v {
			found = true
		}
		return !found
	})
	return found
}

// leakPos: the end of the first expression in body that hands v out.
func (a *analyzer) leakPos(body ast.Node, v *types.Var) token.Pos {
	lp := never
	leak := func(p token.Pos) {
		if p < lp {
			lp = p
		}
	}
	immediate := map[*ast.FuncLit]bool{}
	ast.Inspect(body, func(n ast.Node) bool {
		switch s := n.(type) {
		case *ast.GoStmt:
			if a.mentions(s.Call, v) {
				leak(s.Pos())
			}
		case *ast.FuncLit:
			if !immediate[s] && a.mentions(s, v) {
				leak(s.Pos())
			}
		case *ast.SendStmt:
			if a.isVar(s.Value, v) {
				leak(s.End())
			}
		case *ast.CompositeLit:
			for _, el := range s.Elts {
				if kv, ok := el.(*ast.KeyValueExpr); ok {
					el = kv.Value
				}
				if a.isVar(el, v) {
					leak(s.End())
				}
			}
		case *ast.AssignStmt:
			for i, r := range s.Rhs {
				if a.isVar(r, v) {
					_ = i
					leak(s.End())
				}
			}
		case *ast.CallExpr:
			if lit, ok := ast.Unparen(s.Fun).(*ast.FuncLit); ok {
				immediate[lit] = true
			}
			var callee *types.Func
			switch f := ast.Unparen(s.Fun).(type) {
			case *ast.Ident:
				callee, _ = a.info.Uses[f].(*types.Func)
			case *ast.SelectorExpr:
				if sel := a.info.Selections[f]; sel != nil && sel.Kind() == types.MethodVal {
					callee, _ = sel.Obj().(*types.Func)
					if a.isVar(f.X, v) { // a method call on v
						if callee == nil || callee.Pkg() != a.pkg || a.allDecls[callee] == nil || a.recvLeaks[callee] {
							leak(s.End())
						}
					}
				} else if sel == nil {
					callee, _ = a.info.Uses[f.Sel].(*types.Func)
				}
			}
			for _, arg := range s.Args {
				if a.isVar(arg, v) && !(callee != nil && a.emptyBody(callee)) {
					if tv, ok := a.info.Types[s.Fun]; ok && tv.IsType() {
						continue // a conversion
					}
					leak(s.End())
				}
			}
		}
		return true
	})
	return lp
}

// freshLocals: candidate variable -> position up to which it is fresh.
func (a *analyzer) freshLocals(body *ast.BlockStmt) map[*types.Var]token.Pos {
	cand := map[*types.Var]bool{}
	bad := map[*types.Var]bool{}
	assign := func(lhs ast.Expr, rhs ast.Expr, tupleCall bool, idx int) {
		id, ok := ast.Unparen(lhs).(*ast.Ident)
		if !ok {
			return
		}
		v, _ := a.info.ObjectOf(id).(*types.Var)
		if v == nil || v.IsField() || !isPtr(v.Type()) || structOf(v.Type()) == nil {
			return
		}
		if n := namedOf(v.Type()); n == nil || n.Obj().Pkg() != a.pkg {
			return
		}
		if tupleCall {
			ok = idx == 0 && a.freshExpr(rhs, nil, 0)
		} else {
			ok = a.freshExpr(rhs, nil, 0)
		}
		if ok {
			cand[v] = true
		} else {
			bad[v] = true
		}
	}
	ast.Inspect(body, func(n ast.Node) bool {
		switch s := n.(type) {
		case *ast.AssignStmt:
			if len(s.Rhs) == 1 && len(s.Lhs) > 1 {
				for i, l := range s.Lhs {
					assign(l, s.Rhs[0], true, i)
				}
			} else {
				for i, l := range s.Lhs {
					if i < len(s.Rhs) {
						assign(l, s.Rhs[i], false, 0)
					}
				}
			}
		case *ast.RangeStmt:
			for _, l := range []ast.Expr{s.Key, s.Value} {
				if id, ok := l.(*ast.Ident); ok {
					if v, _ := a.info.ObjectOf(id).(*types.Var); v != nil {
						bad[v] = true
					}
				}
			}
		}
		return true
	})
	out := map[*types.Var]token.Pos{}
	for v := range cand {
		if !bad[v] {
			out[v] = a.leakPos(body, v)
		}
	}
	return out
}

func (a *analyzer) computeRetFresh(fd *ast.FuncDecl) bool {
	fn := a.info.Defs[fd.Name].(*types.Func)
	sig := fn.Type().(*types.Signature)
	if sig.Results().Len() == 0 || !isPtr(sig.Results().At(0).Type()) || structOf(sig.Results().At(0).Type()) == nil {
		return false
	}
	fresh := a.freshLocals(fd.Body)
	ok, any := true, false
	ast.Inspect(fd.Body, func(n ast.Node) bool {
		switch s := n.(type) {
		case *ast.FuncLit:
			return false
		case *ast.ReturnStmt:
			if len(s.Results) == 0 {
				ok = false
				return false
			}
			any = true
			if !a.freshExpr(s.Results[0], fresh, s.Pos()) {
				ok = false
			}
		}
		return true
	})
	return ok && any
}

func (a *analyzer) computeRecvLeaks(fd *ast.FuncDecl) bool {
	fn := a.info.Defs[fd.Name].(*types.Func)
	recv := fn.Type().(*types.Signature).Recv()
	if recv == nil {
		return false
	}
	return a.leakPos(fd.Body, recv) != never
}

// ---- per-function walk -----------------------------------------------------

type fctx struct {
	a      *analyzer
	name   string
	recv   *types.Var
	fresh  map[*types.Var]token.Pos
	alias  map[*types.Var]*types.Var // range variable over a []func parameter -> the parameter
	scope  ast.Node                  // the FuncDecl / FuncLit whose locals are private
	inGo   bool                      // runs (possibly) in another goroutine than the enclosing function
	goLit  bool                      // this literal is a go target / escapes / is handed to another function
	lits   *int
	held   []Held
	parent *fctx
}

func copyHeld(h []Held) []Held { return append([]Held(nil), h...) }

func pubHeld(h []Held) []Held {
	out := []Held{}
	for _, x := range h {
		out = append(out, Held{St: x.St, Fld: x.Fld, Mode: x.Mode})
	}
	return out
}

// deferHeld: locks still held when deferred calls registered now will run
// (those whose Unlock was deferred earlier).
func (c *fctx) deferHeld() []Held {
	out := []Held{}
	for _, x := range c.held {
		if x.deferred {
			out = append(out, x)
		}
	}
	return out
}

func intersect(a, b []Held) []Held {
	out := []Held{}
	for _, x := range a {
		for _, y := range b {
			if x.St == y.St && x.Fld == y.Fld && x.Mode == y.Mode {
				x.deferred = x.deferred && y.deferred
				out = append(out, x)
				break
			}
		}
	}
	return out
}

func (c *fctx) emit(f Fact, pos token.Pos) {
	f.F = c.name
	f.File = c.a.file(pos)
	f.Line = c.a.line(pos)
	c.a.emit(f)
}

func (c *fctx) endOfFunc(end token.Pos) {
	for _, h := range c.held {
		if !h.deferred {
			c.emit(Fact{Kind: "unbalanced", St: h.St, Fld: h.Fld, Why: "still held at the end of the function"}, end)
		}
	}
}

// block walks statements in order; reports whether control cannot fall out of it.
func (c *fctx) block(list []ast.Stmt) bool {
	for _, s := range list {
		if c.stmt(s) {
			return true
		}
	}
	return false
}

// branch runs f on a copy of the held set; returns the held set after it and
// whether it terminates.
func (c *fctx) branch(f func() bool) ([]Held, bool) {
	saved := copyHeld(c.held)
	term := f()
	out := c.held
	c.held = saved
	return out, term
}

func (c *fctx) merge(outs [][]Held) {
	if len(outs) == 0 {
		return
	}
	h := outs[0]
	for _, o := range outs[1:] {
		h = intersect(h, o)
	}
	c.held = h
}

func (c *fctx) stmt(s ast.Stmt) bool {
	switch s := s.(type) {
	case nil:
		return false
	case *ast.ExprStmt:
		if call, ok := ast.Unparen(s.X).(*ast.CallExpr); ok {
			if c.lockOp(call, false) {
				return false
			}
			if id, ok := call.Fun.(*ast.Ident); ok && id.Name == "panic" {
				c.expr(s.X)
				return true
			}
		}
		c.expr(s.X)
	case *ast.DeferStmt:
		if c.lockOp(s.Call, true) {
			return false
		}
		c.call(s.Call, c.deferHeld(), "call")
	case *ast.GoStmt:
		c.call(s.Call, nil, "go")
	case *ast.AssignStmt:
		for _, r := range s.Rhs {
			c.expr(r)
		}
		for _, l := range s.Lhs {
			if s.Tok == token.DEFINE {
				if _, ok := l.(*ast.Ident); ok {
					continue
				}
			}
			c.lhs(l)
		}
	case *ast.IncDecStmt:
		c.lhs(s.X)
	case *ast.SendStmt:
		c.chanOp("send", s.Chan, s.Pos())
		c.expr(s.Chan)
		c.expr(s.Value)
	case *ast.ReturnStmt:
		for _, r := range s.Results {
			if lit, ok := ast.Unparen(r).(*ast.FuncLit); ok {
				// a returned literal: treated as running within this call (rule)
				c.closure(lit, "call", pubHeld(c.held), "recv")
				continue
			}
			c.expr(r)
		}
		// a return with a lock taken in this function and neither released nor
		// covered by a deferred Unlock: the lock leaks on this path
		for _, h := range c.held {
			if !h.deferred {
				c.emit(Fact{Kind: "unbalanced", St: h.St, Fld: h.Fld, Why: "still held at a return statement"}, s.Pos())
			}
		}
		return true
	case *ast.BranchStmt:
		return s.Tok != token.FALLTHROUGH
	case *ast.BlockStmt:
		return c.block(s.List)
	case *ast.LabeledStmt:
		return c.stmt(s.Stmt)
	case *ast.DeclStmt:
		if gd, ok := s.Decl.(*ast.GenDecl); ok {
			for _, sp := range gd.Specs {
				if vs, ok := sp.(*ast.ValueSpec); ok {
					for _, v := range vs.Values {
						c.expr(v)
					}
				}
			}
		}
	case *ast.IfStmt:
		c.stmt(s.Init)
		c.expr(s.Cond)
		var outs [][]Held
		o, t := c.branch(func() bool { return c.block(s.Body.List) })
		if !t {
			outs = append(outs, o)
		}
		allTerm := t
		if s.Else != nil {
			o, t = c.branch(func() bool { return c.stmt(s.Else) })
			if !t {
				outs = append(outs, o)
			}
			allTerm = allTerm && t
		} else {
			outs = append(outs, copyHeld(c.held))
			allTerm = false
		}
		if allTerm {
			return true
		}
		c.merge(outs)
	case *ast.ForStmt:
		c.stmt(s.Init)
		if s.Cond != nil {
			c.expr(s.Cond)
		}
		o, t := c.branch(func() bool { r := c.block(s.Body.List); c.stmt(s.Post); return r })
		outs := [][]Held{copyHeld(c.held)}
		if !t {
			outs = append(outs, o)
		}
		c.merge(outs)
	case *ast.RangeStmt:
		c.expr(s.X)
		// for _, fn := range fns  (fns a []func parameter): fn is the parameter
		if id, ok := ast.Unparen(s.X).(*ast.Ident); ok {
			if pv, ok := c.a.info.Uses[id].(*types.Var); ok {
				if vid, ok := s.Value.(*ast.Ident); ok {
					if vv, ok := c.a.info.Defs[vid].(*types.Var); ok {
						if _, isSig := vv.Type().Underlying().(*types.Signature); isSig {
							if c.alias == nil {
								c.alias = map[*types.Var]*types.Var{}
							}
							c.alias[vv] = pv
						}
					}
				}
			}
		}
		if s.Tok == token.ASSIGN {
			if s.Key != nil {
				c.lhs(s.Key)
			}
			if s.Value != nil {
				c.lhs(s.Value)
			}
		}
		o, t := c.branch(func() bool { return c.block(s.Body.List) })
		outs := [][]Held{copyHeld(c.held)}
		if !t {
			outs = append(outs, o)
		}
		c.merge(outs)
	case *ast.SwitchStmt:
		c.stmt(s.Init)
		if s.Tag != nil {
			c.expr(s.Tag)
		}
		return c.clauses(s.Body.List)
	case *ast.TypeSwitchStmt:
		c.stmt(s.Init)
		c.stmt(s.Assign)
		return c.clauses(s.Body.List)
	case *ast.SelectStmt:
		return c.clauses(s.Body.List)
	default:
		_ = s
	}
	return false
}

// clauses of switch / select: each clause is a branch.
func (c *fctx) clauses(list []ast.Stmt) bool {
	var outs [][]Held
	hasDefault := false
	isSelect := false
	allTerm := true
	for _, cl := range list {
		var body []ast.Stmt
		switch cc := cl.(type) {
		case *ast.CaseClause:
			for _, e := range cc.List {
				c.expr(e)
			}
			if cc.List == nil {
				hasDefault = true
			}
			body = cc.Body
		case *ast.CommClause:
			isSelect = true
			if cc.Comm == nil {
				hasDefault = true
			}
			body = append([]ast.Stmt{cc.Comm}, cc.Body...)
		}
		o, t := c.branch(func() bool {
			term := c.block(body)
			// a `break` out of the switch is not the end of the function
			if term && len(body) > 0 {
				if b, ok := body[len(body)-1].(*ast.BranchStmt); ok && b.Tok == token.BREAK && b.Label == nil {
					return false
				}
			}
			return term
		})
		if !t {
			outs = append(outs, o)
			allTerm = false
		}
	}
	if !hasDefault && !isSelect {
		outs = append(outs, copyHeld(c.held))
		allTerm = false
	}
	if allTerm && len(list) > 0 && (hasDefault || isSelect) {
		return true
	}
	c.merge(outs)
	return false
}

// ---- locks -----------------------------------------------------------------

// lockRef of a mutex expression: (struct type, field) for x.f; ("", text) otherwise.
func (c *fctx) lockRef(x ast.Expr) (string, string) {
	if se, ok := ast.Unparen(x).(*ast.SelectorExpr); ok {
		if sel := c.a.info.Selections[se]; sel != nil && sel.Kind() == types.FieldVal {
			if n := namedOf(sel.Recv()); n != nil {
				return n.Obj().Name(), se.Sel.Name
			}
		}
	}
	return "", types.ExprString(x)
}

// lockOp handles x.Lock / RLock / Unlock / RUnlock of sync.Mutex / RWMutex.
func (c *fctx) lockOp(call *ast.CallExpr, deferred bool) bool {
	se, ok := ast.Unparen(call.Fun).(*ast.SelectorExpr)
	if !ok {
		return false
	}
	sel := c.a.info.Selections[se]
	if sel == nil || sel.Kind() != types.MethodVal {
		return false
	}
	fn := sel.Obj().(*types.Func)
	if fn.Pkg() == nil || fn.Pkg().Path() != "sync" {
		return false
	}
	rn := namedOf(fn.Type().(*types.Signature).Recv().Type())
	if rn == nil || (rn.Obj().Name() != "Mutex" && rn.Obj().Name() != "RWMutex") {
		return false
	}
	st, fld := c.lockRef(se.X)
	c.exprNoAccess(se.X)
	mode := "W"
	switch fn.Name() {
	case "RLock", "RUnlock":
		mode = "R"
	}
	switch fn.Name() {
	case "Lock", "RLock":
		if deferred {
			c.emit(Fact{Kind: "unbalanced", St: st, Fld: fld, Why: "deferred Lock"}, call.Pos())
			return true
		}
		c.emit(Fact{Kind: "acquire", St: st, Fld: fld, RW: mode, Held: pubHeld(c.held)}, call.Pos())
		c.held = append(c.held, Held{St: st, Fld: fld, Mode: mode})
	case "Unlock", "RUnlock":
		found := false
		for i := len(c.held) - 1; i >= 0; i-- {
			h := c.held[i]
			if h.St == st && h.Fld == fld && h.Mode == mode && !h.deferred {
				found = true
				if deferred {
					c.held[i].deferred = true
				} else {
					c.held = append(copyHeld(c.held[:i]), c.held[i+1:]...)
				}
				break
			}
		}
		if !found {
			c.emit(Fact{Kind: "unbalanced", St: st, Fld: fld, Why: "Unlock of a lock not held here"}, call.Pos())
		}
	default: // TryLock etc.: not understood
		c.emit(Fact{Kind: "unbalanced", St: st, Fld: fld, Why: "unsupported " + fn.Name()}, call.Pos())
	}
	return true
}

// exprNoAccess walks the base of a mutex / sync object expression: the object
// holding the mutex is read, the mutex field itself is not an access.
func (c *fctx) exprNoAccess(x ast.Expr) {
	if se, ok := ast.Unparen(x).(*ast.SelectorExpr); ok {
		c.expr(se.X)
		return
	}
	if u, ok := ast.Unparen(x).(*ast.UnaryExpr); ok && u.Op == token.AND {
		c.exprNoAccess(u.X)
	}
}

// ---- accesses --------------------------------------------------------------

// classify the base object of an access / the receiver of a call.
func (c *fctx) classify(x ast.Expr) string {
	x = ast.Unparen(x)
	switch e := x.(type) {
	case *ast.StarExpr:
		return c.classify(e.X)
	case *ast.UnaryExpr:
		if e.Op == token.AND {
			return c.classify(e.X)
		}
	case *ast.CallExpr: // conversion T(x)
		if tv, ok := c.a.info.Types[e.Fun]; ok && tv.IsType() && len(e.Args) == 1 {
			return c.classify(e.Args[0])
		}
	case *ast.Ident:
		v, ok := c.a.info.Uses[e].(*types.Var)
		if !ok || v.IsField() {
			return "shared"
		}
		if v.Parent() == c.a.pkg.Scope() {
			return "shared"
		}
		for k := c; k != nil; k = k.parent {
			if k.recv != nil && v == k.recv {
				if c.inGoSince(k) {
					return "shared"
				}
				return "recv"
			}
		}
		declaredHere := c.scope != nil && v.Pos() >= c.scope.Pos() && v.Pos() <= c.scope.End()
		if !isPtr(v.Type()) && structOf(v.Type()) != nil {
			// a struct value: a private copy, unless it belongs to an enclosing
			// function and we run in another goroutine
			if declaredHere || !c.inGo {
				return "local"
			}
			return "shared"
		}
		if lp, ok := c.fresh[v]; ok && e.Pos() < lp && (declaredHere || !c.inGo) {
			return "local"
		}
	}
	return "shared"
}

// inGoSince: is there a go / escaping literal between c and its ancestor k?
func (c *fctx) inGoSince(k *fctx) bool {
	for x := c; x != nil && x != k; x = x.parent {
		if x.goLit {
			return true
		}
	}
	return false
}

type resolved struct {
	owner *types.Named
	path  string
	base  string
	sync  bool
}

// resolveField: owner struct, field path and base kind of the field selection e.
func (c *fctx) resolveField(e *ast.SelectorExpr) (resolved, bool) {
	sel := c.a.info.Selections[e]
	if sel == nil || sel.Kind() != types.FieldVal {
		return resolved{}, false
	}
	return c.resolveSel(e, sel, len(sel.Index())), true
}

// resolveSel follows the first n entries of sel.Index() from e.X.
func (c *fctx) resolveSel(e *ast.SelectorExpr, sel *types.Selection, n int) resolved {
	var r resolved
	var cur *types.Struct
	x := ast.Unparen(e.X)
	nested := false
	if xs, ok := x.(*ast.SelectorExpr); ok {
		if s2 := c.a.info.Selections[xs]; s2 != nil && s2.Kind() == types.FieldVal && !isPtr(s2.Type()) && structOf(s2.Type()) != nil {
			r = c.resolveSel(xs, s2, len(s2.Index()))
			r.path += "."
			cur = structOf(s2.Type())
			nested = true
		}
	}
	if !nested {
		c.expr(x)
		r = resolved{owner: namedOf(sel.Recv()), base: c.classify(x)}
		cur = structOf(sel.Recv())
	}
	for i := 0; i < n && cur != nil; i++ {
		f := cur.Field(sel.Index()[i])
		if i == n-1 {
			r.path += f.Name()
			r.sync = isSyncType(f.Type())
			return r
		}
		// embedded hop
		if isPtr(f.Type()) {
			c.emitAccess(resolved{owner: r.owner, path: r.path + f.Name(), base: r.base}, "R", e.Sel.Pos())
			r = resolved{owner: namedOf(f.Type()), base: "shared"}
		} else {
			r.path += f.Name() + "."
		}
		cur = structOf(f.Type())
	}
	return r
}

func (c *fctx) emitAccess(r resolved, rw string, pos token.Pos) {
	if r.sync || r.owner == nil || r.owner.Obj().Pkg() != c.a.pkg {
		return
	}
	c.emit(Fact{Kind: "access", St: r.owner.Obj().Name(), Fld: r.path, RW: rw, Held: pubHeld(c.held), Base: r.base}, pos)
}

// lhs: e is assigned to.
func (c *fctx) lhs(e ast.Expr) {
	switch x := ast.Unparen(e).(type) {
	case *ast.SelectorExpr:
		if r, ok := c.resolveField(x); ok {
			c.emitAccess(r, "W", x.Sel.Pos())
			return
		}
		c.expr(x)
	case *ast.IndexExpr: // m[k] = v, s[i] = v : a write to the map / slice held in the field
		c.expr(x.Index)
		c.lhs(x.X)
	case *ast.StarExpr:
		c.expr(x.X)
	case *ast.Ident:
		if v, ok := c.a.info.Uses[x].(*types.Var); ok && v.Parent() == c.a.pkg.Scope() && v.Pkg() == c.a.pkg {
			c.emit(Fact{Kind: "access", St: "", Fld: v.Name(), RW: "W", Held: pubHeld(c.held), Base: "shared"}, x.Pos())
		}
	default:
		c.expr(e)
	}
}

func (c *fctx) chanOp(op string, ch ast.Expr, pos token.Pos) {
	st, fld := "", types.ExprString(ch)
	if se, ok := ast.Unparen(ch).(*ast.SelectorExpr); ok {
		if r, ok := c.resolveFieldQuiet(se); ok && r.owner != nil && r.owner.Obj().Pkg() == c.a.pkg {
			st, fld = r.owner.Obj().Name(), r.path
		}
	}
	c.emit(Fact{Kind: "chan", RW: op, St: st, Fld: fld, Held: pubHeld(c.held)}, pos)
}

// resolveFieldQuiet: like resolveField but without emitting the reads of the base.
func (c *fctx) resolveFieldQuiet(e *ast.SelectorExpr) (resolved, bool) {
	n := len(c.a.facts)
	r, ok := c.resolveField(e)
	c.a.facts = c.a.facts[:n]
	return r, ok
}

// expr walks an expression evaluated for its value (reads).
func (c *fctx) expr(e ast.Expr) {
	switch x := e.(type) {
	case nil:
	case *ast.ParenExpr:
		c.expr(x.X)
	case *ast.Ident:
		switch o := c.a.info.Uses[x].(type) {
		case *types.Var:
			if o.Parent() == c.a.pkg.Scope() && o.Pkg() == c.a.pkg {
				c.emit(Fact{Kind: "access", St: "", Fld: o.Name(), RW: "R", Held: pubHeld(c.held), Base: "shared"}, x.Pos())
			}
		case *types.Func: // a function used as a value
			if o.Pkg() == c.a.pkg {
				c.a.emit(Fact{Kind: "root", F: funcName(o), Why: "escapes"})
			}
		}
	case *ast.SelectorExpr:
		sel := c.a.info.Selections[x]
		switch {
		case sel == nil: // package-qualified name
		case sel.Kind() == types.FieldVal:
			r, _ := c.resolveField(x)
			c.emitAccess(r, "R", x.Sel.Pos())
		default: // method value: escapes
			c.methodHops(x, sel)
			for _, fn := range c.callees(sel) {
				c.a.emit(Fact{Kind: "root", F: funcName(fn), Why: "escapes"})
			}
		}
	case *ast.CallExpr:
		c.call(x, pubHeld(c.held), "call")
	case *ast.FuncLit: // a literal stored somewhere: escapes
		name := c.closure(x, "escape", nil, "shared")
		c.a.emit(Fact{Kind: "root", F: name, Why: "escapes"})
	case *ast.UnaryExpr:
		switch x.Op {
		case token.ARROW:
			c.chanOp("recv", x.X, x.Pos())
			c.expr(x.X)
		case token.AND:
			if se, ok := ast.Unparen(x.X).(*ast.SelectorExpr); ok {
				if r, ok := c.resolveField(se); ok { // address of a field: may be written through
					c.emitAccess(r, "W", se.Sel.Pos())
					return
				}
			}
			c.expr(x.X)
		default:
			c.expr(x.X)
		}
	case *ast.BinaryExpr:
		c.expr(x.X)
		c.expr(x.Y)
	case *ast.StarExpr:
		c.expr(x.X)
	case *ast.IndexExpr:
		c.expr(x.X)
		c.expr(x.Index)
	case *ast.IndexListExpr:
		c.expr(x.X)
	case *ast.SliceExpr:
		c.expr(x.X)
		c.expr(x.Low)
		c.expr(x.High)
		c.expr(x.Max)
	case *ast.TypeAssertExpr:
		c.expr(x.X)
	case *ast.KeyValueExpr:
		c.expr(x.Value)
	case *ast.CompositeLit:
		for _, el := range x.Elts {
			if kv, ok := el.(*ast.KeyValueExpr); ok {
				if _, isStruct := c.a.info.TypeOf(x).Underlying().(*types.Struct); !isStruct {
					c.expr(kv.Key)
				}
				c.expr(kv.Value)
			} else {
				c.expr(el)
			}
		}
	}
}

// methodHops: reads of the base and of the embedded fields passed on the way to
// a (promoted) method.
func (c *fctx) methodHops(x *ast.SelectorExpr, sel *types.Selection) {
	if len(sel.Index()) > 1 {
		r := c.resolveSel(x, sel, len(sel.Index())-1)
		c.emitAccess(r, "R", x.Sel.Pos())
		return
	}
	if isSyncType(sel.Recv()) {
		c.exprNoAccess(x.X)
		return
	}
	c.expr(x.X)
}

// callees: the in-package functions a method selection may denote.
func (c *fctx) callees(sel *types.Selection) []*types.Func {
	fn := sel.Obj().(*types.Func)
	recv := sel.Recv()
	if len(sel.Index()) > 1 { // promoted: the receiver is the embedded field's type
		recv = fn.Type().(*types.Signature).Recv().Type()
	}
	if iface, ok := recv.Underlying().(*types.Interface); ok {
		var out []*types.Func
		sc := c.a.pkg.Scope()
		names := sc.Names()
		sort.Strings(names)
		for _, nm := range names {
			tn, ok := sc.Lookup(nm).(*types.TypeName)
			if !ok || tn.IsAlias() {
				continue
			}
			if _, isIface := tn.Type().Underlying().(*types.Interface); isIface {
				continue
			}
			for _, t := range []types.Type{tn.Type(), types.NewPointer(tn.Type())} {
				if types.Implements(t, iface) {
					if o, _, _ := types.LookupFieldOrMethod(t, true, c.a.pkg, fn.Name()); o != nil {
						if m, ok := o.(*types.Func); ok && m.Pkg() == c.a.pkg && c.a.decls[m] != nil {
							out = append(out, m)
						}
					}
					break
				}
			}
		}
		return out
	}
	if fn.Pkg() == c.a.pkg {
		return []*types.Func{fn}
	}
	return nil
}

func (c *fctx) closure(lit *ast.FuncLit, mode string, held []Held, recvKind string) string {
	*c.lits++
	k := &fctx{a: c.a, name: fmt.Sprintf("%s$%d", c.name, *c.lits), recv: nil, fresh: c.fresh, alias: c.alias,
		scope: lit, inGo: c.inGo || mode != "call", goLit: mode != "call", lits: new(int), parent: c}
	c.a.emit(Fact{Kind: "func", F: k.name, File: c.a.file(lit.Pos()), Line: c.a.line(lit.Pos())})
	switch mode {
	case "call":
		c.emit(Fact{Kind: "call", G: k.name, Held: held, Base: recvKind}, lit.Pos())
	case "go":
		c.emit(Fact{Kind: "go", G: k.name}, lit.Pos())
	}
	k.block(lit.Body.List)
	k.endOfFunc(lit.End())
	return k.name
}

// paramOf: v is a func-typed parameter (or an alias of one) of an enclosing function.
func (c *fctx) paramOf(v *types.Var) *types.Var {
	for k := c; k != nil; k = k.parent {
		if p, ok := k.alias[v]; ok {
			v = p
		}
	}
	if _, ok := v.Type().Underlying().(*types.Signature); ok {
		return v
	}
	if sl, ok := v.Type().Underlying().(*types.Slice); ok {
		if _, ok := sl.Elem().Underlying().(*types.Signature); ok {
			return v
		}
	}
	return nil
}

func (c *fctx) call(call *ast.CallExpr, held []Held, mode string) {
	info := c.a.info
	fun := ast.Unparen(call.Fun)
	if held == nil {
		held = []Held{}
	}
	held = pubHeld(held)
	// conversion
	if tv, ok := info.Types[fun]; ok && tv.IsType() {
		for _, a := range call.Args {
			c.expr(a)
		}
		return
	}
	var callee *types.Func // for binding literal arguments
	edge := func(fn *types.Func, recvKind string) {
		if fn.Pkg() != c.a.pkg || c.a.decls[fn] == nil {
			return
		}
		if mode == "go" {
			c.emit(Fact{Kind: "go", G: funcName(fn)}, call.Pos())
		} else {
			c.emit(Fact{Kind: "call", G: funcName(fn), Held: held, Base: recvKind}, call.Pos())
		}
	}
	switch f := fun.(type) {
	case *ast.FuncLit:
		c.closure(f, mode, held, "recv")
	case *ast.Ident:
		switch o := info.Uses[f].(type) {
		case *types.Builtin:
			switch o.Name() {
			case "close":
				c.chanOp("close", call.Args[0], call.Pos())
			case "delete":
				c.lhs(call.Args[0])
				c.expr(call.Args[1])
				return
			}
		case *types.Func:
			callee = o
			edge(o, "shared")
		case *types.Var:
			if p := c.paramOf(o); p != nil && !o.IsField() {
				c.a.paramInv[p] = append(c.a.paramInv[p], inv{held: pubHeld(c.held), inGo: c.inGo || mode == "go"})
			}
		}
	case *ast.SelectorExpr:
		sel := info.Selections[f]
		switch {
		case sel == nil: // pkg.Func
			if o, ok := info.Uses[f.Sel].(*types.Func); ok {
				callee = o
				c.external(o, call)
			}
		case sel.Kind() == types.FieldVal: // a func-typed field: read, unknown callee
			c.expr(f)
		default:
			c.methodHops(f, sel)
			m := sel.Obj().(*types.Func)
			callee = m
			if m.Pkg() != nil && (m.Pkg().Path() == "sync" || m.Pkg().Path() == "sync/atomic") {
				rn := namedOf(m.Type().(*types.Signature).Recv().Type())
				kind := "atomic"
				if rn != nil && m.Pkg().Path() == "sync" {
					kind = rn.Obj().Name()
				}
				c.emit(Fact{Kind: "sync", RW: kind, Why: types.ExprString(f.X) + "." + m.Name()}, call.Pos())
			}
			c.external(m, call)
			recvKind := c.classify(f.X)
			for _, fn := range c.callees(sel) {
				edge(fn, recvKind)
			}
		}
	default:
		c.expr(fun)
	}
	for i, a := range call.Args {
		if lit, ok := ast.Unparen(a).(*ast.FuncLit); ok && callee != nil {
			name := c.closure(lit, "bound", nil, "")
			idx := i
			if sig := callee.Type().(*types.Signature); sig.Variadic() && idx >= sig.Params().Len()-1 {
				idx = sig.Params().Len() - 1
			}
			c.a.pending = append(c.a.pending, pendingLit{caller: c.name, lit: name, callee: callee, idx: idx,
				held: held, file: c.a.file(lit.Pos()), line: c.a.line(lit.Pos())})
			continue
		}
		c.expr(a)
	}
}

// external: rules for library calls that matter.
func (c *fctx) external(fn *types.Func, call *ast.CallExpr) {
	if fn.Pkg() == nil {
		return
	}
	switch fn.Pkg().Path() {
	case "sync/atomic":
		if fn.Type().(*types.Signature).Recv() == nil {
			c.emit(Fact{Kind: "sync", RW: "atomic", Why: fn.Name()}, call.Pos())
		}
	case "net/rpc":
		if (fn.Name() == "Register" || fn.Name() == "RegisterName") && len(call.Args) > 0 {
			c.a.rpcRoots(c.a.info.TypeOf(call.Args[len(call.Args)-1]))
		}
	case "encoding/json":
		switch fn.Name() {
		case "Marshal", "MarshalIndent", "Encode":
			if len(call.Args) > 0 {
				a := call.Args[0]
				c.reflect(c.a.info.TypeOf(a), true, c.valueIsPrivate(a), c.classify(a), call.Pos(), map[types.Type]bool{})
			}
		case "Unmarshal", "Decode":
			if len(call.Args) > 0 {
				a := call.Args[len(call.Args)-1]
				c.reflect(c.a.info.TypeOf(a), false, false, c.classify(a), call.Pos(), map[types.Type]bool{})
			}
		}
	}
}

// valueIsPrivate: a struct VALUE handed to json.Marshal is a copy.
func (c *fctx) valueIsPrivate(a ast.Expr) bool {
	t := c.a.info.TypeOf(a)
	return t != nil && !isPtr(t) && structOf(t) != nil
}

// reflect: what encoding/json touches when given a value of type t (rule).
// Marshal: a type with MarshalJSON is called; other structs have their exported
// fields read, recursively.  Unmarshal: a type with UnmarshalJSON is called
// (receiver: the argument's own object at top level, an object allocated by the
// decoder below it); the exported fields of the object the argument points to
// are written.  private: the value is a copy owned by the caller.
func (c *fctx) reflect(t types.Type, marshal bool, private bool, base string, pos token.Pos, seen map[types.Type]bool) {
	c.reflectAt(t, marshal, private, base, true, pos, seen)
}

func (c *fctx) reflectAt(t types.Type, marshal, private bool, base string, top bool, pos token.Pos, seen map[types.Type]bool) {
	if t == nil {
		return
	}
	n, _ := types.Unalias(t).(*types.Named)
	if n != nil {
		if seen[n] {
			return
		}
		seen[n] = true
	}
	inPkg := n != nil && n.Obj().Pkg() == c.a.pkg
	if inPkg {
		mname := "UnmarshalJSON"
		if marshal {
			mname = "MarshalJSON"
		}
		if o, _, _ := types.LookupFieldOrMethod(types.NewPointer(n), true, c.a.pkg, mname); o != nil {
			if m, ok := o.(*types.Func); ok && c.a.decls[m] != nil {
				rk := "shared"
				if !marshal {
					rk = "local"
					if top {
						rk = base
					}
				}
				c.emit(Fact{Kind: "call", G: funcName(m), Held: pubHeld(c.held), Base: rk, Why: "encoding/json"}, pos)
				return
			}
		}
	}
	switch u := t.Underlying().(type) {
	case *types.Pointer:
		b := "shared"
		if top {
			b = base
		}
		if n != nil { // a defined pointer type without methods: the element's methods are not consulted
			if st, ok := u.Elem().Underlying().(*types.Struct); ok {
				c.reflectStruct(namedOf(u.Elem()), st, marshal, false, b, top, pos, seen)
				return
			}
		}
		c.reflectAt(u.Elem(), marshal, false, b, top, pos, seen)
	case *types.Slice:
		c.reflectAt(u.Elem(), marshal, false, "shared", false, pos, seen)
	case *types.Array:
		c.reflectAt(u.Elem(), marshal, private, base, false, pos, seen)
	case *types.Map:
		c.reflectAt(u.Elem(), marshal, false, "shared", false, pos, seen)
	case *types.Struct:
		c.reflectStruct(n, u, marshal, private, base, top, pos, seen)
	}
}

func (c *fctx) reflectStruct(n *types.Named, st *types.Struct, marshal, private bool, base string, top bool, pos token.Pos, seen map[types.Type]bool) {
	for i := 0; i < st.NumFields(); i++ {
		f := st.Field(i)
		if !f.Exported() || strings.HasPrefix(st.Tag(i), "json:\"-\"") {
			continue
		}
		if n != nil && n.Obj().Pkg() == c.a.pkg && !private && (marshal || top) && !isSyncType(f.Type()) {
			rw := "W"
			if marshal {
				rw = "R"
			}
			c.emit(Fact{Kind: "access", St: n.Obj().Name(), Fld: f.Name(), RW: rw, Held: pubHeld(c.held), Base: base, Why: "encoding/json"}, pos)
		}
		ft := f.Type()
		if !isPtr(ft) && structOf(ft) != nil { // nested struct value: part of the same object
			c.reflectAt(ft, marshal, private, base, false, pos, seen)
		} else {
			c.reflectAt(ft, marshal, false, "shared", false, pos, seen)
		}
	}
}

// resolvePending: literals passed as arguments.  In-package callee: by the way
// the callee uses the parameter (called directly with locks H held: call edge
// with H added; called inside a go statement: go edge; otherwise the literal
// escapes).  Library callee: called synchronously by rule, except the
// functions known to call back from another goroutine.
func (a *analyzer) resolvePending() {
	async := map[string]bool{"time.AfterFunc": true, "context.AfterFunc": true}
	for _, p := range a.pending {
		if p.callee.Pkg() == a.pkg && a.decls[p.callee] != nil {
			sig := p.callee.Type().(*types.Signature)
			invs := a.paramInv[sig.Params().At(p.idx)]
			if len(invs) == 0 {
				a.emit(Fact{Kind: "root", F: p.lit, Why: "escapes"})
				continue
			}
			for _, iv := range invs {
				if iv.inGo {
					a.facts = append(a.facts, Fact{Kind: "go", F: p.caller, G: p.lit, File: p.file, Line: p.line})
				} else {
					a.facts = append(a.facts, Fact{Kind: "call", F: p.caller, G: p.lit, Held: append(pubHeld(p.held), pubHeld(iv.held)...),
						Base: "recv", File: p.file, Line: p.line, Why: "via " + funcName(p.callee)})
				}
			}
			continue
		}
		full := p.callee.Name()
		if p.callee.Pkg() != nil {
			full = p.callee.Pkg().Name() + "." + full
		}
		if async[full] {
			a.facts = append(a.facts, Fact{Kind: "go", F: p.caller, G: p.lit, File: p.file, Line: p.line})
		} else {
			a.facts = append(a.facts, Fact{Kind: "call", F: p.caller, G: p.lit, Held: pubHeld(p.held), Base: "recv",
				File: p.file, Line: p.line, Why: "callback of " + full})
		}
	}
}
