package server

// C06 — "a command that reports an error changes nothing and leaves nothing running", for commands that FAIL BECAUSE
// ANOTHER COMMAND GOT IN BETWEEN, under the real scheduler.  Two shapes, round after round:
//   A  a service with rollout targets; `remove` and a redeploy issued together while the lock of the balancer being
//      replaced is held for a moment (whatever either command does with that balancer takes a while);
//   B  a rollout deploy whose targets turn healthy late, and a `remove` of the service issued while it waits.
// Whichever command reports an error: the targets it named must no longer be probed once it has returned, and every
// target the table still holds for the service (active and rollout) must still be probed — counted per host over a window.

import (
	"io"
	"net/http"
	"os"
	"path/filepath"
	"strconv"
	"strings"
	"sync"
	"testing"
	"time"
)

type c06RaceTransport struct {
	mu sync.Mutex
	n  map[string]int
}

func (c *c06RaceTransport) RoundTrip(req *http.Request) (*http.Response, error) {
	c.mu.Lock()
	c.n[req.URL.Host]++
	k := c.n[req.URL.Host]
	c.mu.Unlock()
	status := 200
	if strings.HasPrefix(req.URL.Host, "late") && k <= 6 { // healthy from the 7th probe on
		status = 503
	}
	return &http.Response{StatusCode: status, Status: strconv.Itoa(status), Proto: "HTTP/1.1", ProtoMajor: 1, ProtoMinor: 1,
		Header: http.Header{}, Body: io.NopCloser(strings.NewReader("")), Request: req}, nil
}

func (c *c06RaceTransport) count(host string) int {
	c.mu.Lock()
	defer c.mu.Unlock()
	return c.n[host]
}

func TestVerifC06Race(t *testing.T) {
	if os.Getenv("VERIF_OUT") == "" {
		t.Skip("VERIF_OUT not set")
	}
	rounds, _ := strconv.Atoi(os.Getenv("VERIF_ROUNDS"))
	if rounds == 0 {
		rounds = 30
	}
	out := verifOpenOut(t)
	defer out.close()
	tr := &c06RaceTransport{n: map[string]int{}}
	oldT := http.DefaultTransport
	http.DefaultTransport = tr
	defer func() { http.DefaultTransport = oldT }()

	router := NewRouter(filepath.Join(t.TempDir(), "state.json"))
	topts := TargetOptions{HealthCheckConfig: HealthCheckConfig{Path: "/up", Interval: 2 * time.Millisecond, Timeout: time.Second},
		ResponseTimeout: time.Second}
	sopts := ServiceOptions{Hosts: []string{"c06.test"}}
	// probes of `hosts` over a window: which of them are (not) being probed
	probed := func(hosts []string) map[string]bool {
		before := map[string]int{}
		for _, h := range hosts {
			before[h] = tr.count(h)
		}
		time.Sleep(40 * time.Millisecond)
		res := map[string]bool{}
		for _, h := range hosts {
			res[h] = tr.count(h) >= before[h]+3 // a live loop sends ~20 probes in the window; 1-2 stragglers are not a loop
		}
		return res
	}
	// the targets the table holds for the service now (active and rollout)
	held := func() []string {
		hs := []string{}
		if sv := router.serviceForName("svc"); sv != nil {
			active, rollout, _ := sv.slots()
			if active != nil {
				hs = append(hs, active.Targets().Names()...)
			}
			if rollout != nil {
				hs = append(hs, rollout.Targets().Names()...)
			}
		}
		return hs
	}
	for round := 0; round < rounds; round++ {
		n := strconv.Itoa(round)
		row := map[string]any{"round": round}
		failedNames := []string{} // targets named by a command that reported an error
		if round%2 == 0 {
			row["shape"] = "remove-vs-redeploy-with-rollout"
			if err := router.DeployService("svc", []string{"a" + n + ":80"}, sopts, topts, time.Second, 5*time.Millisecond); err != nil {
				t.Fatalf("verif: deploy: %v", err)
			}
			if err := router.SetRolloutTargets("svc", []string{"r" + n + ":80"}, time.Second, 5*time.Millisecond); err != nil {
				t.Fatalf("verif: rollout deploy: %v", err)
			}
			var wg sync.WaitGroup
			var errD, errR error
			lb := router.serviceForName("svc").active
			lb.lock.Lock()
			wg.Add(2)
			go func() { defer wg.Done(); errR = router.RemoveService("svc") }()
			time.Sleep(time.Duration(200+100*(round%5)) * time.Microsecond)
			go func() {
				defer wg.Done()
				errD = router.DeployService("svc", []string{"b" + n + ":80"}, sopts, topts, time.Second, 5*time.Millisecond)
			}()
			// hold the lock until the redeploy has probed its target and is (or is about to be) at the table
			deadline := time.Now().Add(200 * time.Millisecond)
			for tr.count("b"+n+":80") < 2 && time.Now().Before(deadline) {
				time.Sleep(200 * time.Microsecond)
			}
			time.Sleep(time.Duration(300+200*(round%3)) * time.Microsecond)
			lb.lock.Unlock()
			wg.Wait()
			row["remove"], row["deploy"] = vErrName(errR), vErrName(errD)
			if errD != nil {
				failedNames = append(failedNames, "b"+n+":80")
			}
			row["a_command_failed"] = errD != nil || errR != nil
		} else {
			row["shape"] = "remove-during-rollout-deploy"
			if err := router.DeployService("svc", []string{"a" + n + ":80"}, sopts, topts, time.Second, 5*time.Millisecond); err != nil {
				t.Fatalf("verif: deploy: %v", err)
			}
			var wg sync.WaitGroup
			var errO, errR error
			wg.Add(1)
			go func() {
				defer wg.Done()
				errO = router.SetRolloutTargets("svc", []string{"late" + n + ":80"}, time.Second, 5*time.Millisecond)
			}()
			deadline := time.Now().Add(200 * time.Millisecond)
			for tr.count("late"+n+":80") < 2 && time.Now().Before(deadline) {
				time.Sleep(200 * time.Microsecond)
			}
			errR = router.RemoveService("svc")
			wg.Wait()
			row["remove"], row["rollout_deploy"] = vErrName(errR), vErrName(errO)
			if errO != nil {
				failedNames = append(failedNames, "late"+n+":80")
			}
			row["a_command_failed"] = errO != nil || errR != nil
		}
		time.Sleep(20 * time.Millisecond) // probes already on their way when the commands returned have landed
		live := held()
		p := probed(append(append([]string{}, live...), failedNames...))
		stillProbed, noLongerProbed := []string{}, []string{}
		for _, h := range failedNames {
			isLive := false
			for _, l := range live {
				isLive = isLive || l == h
			}
			if p[h] && !isLive {
				stillProbed = append(stillProbed, h)
			}
		}
		if row["a_command_failed"] == true {
			for _, h := range live {
				if !p[h] {
					noLongerProbed = append(noLongerProbed, h)
				}
			}
		}
		row["targets_in_the_table"] = live
		row["rejected_targets_still_probed"] = stillProbed
		row["live_targets_no_longer_probed_after_a_failed_command"] = noLongerProbed
		out.emit(row)
		router.RemoveService("svc")
		time.Sleep(5 * time.Millisecond)
	}
}
