package server

import (
	"crypto/ecdsa"
	"crypto/elliptic"
	"crypto/rand"
	"crypto/x509"
	"crypto/x509/pkix"
	"encoding/pem"
	"math/big"
	"os"
	"path/filepath"
	"testing"
	"time"
)

// vAssets: a directory with a loadable certificate pair and two custom
// error-page directories (one valid, one that does not parse).
var vAssets string

func vMakeAssets(t *testing.T) {
	if vAssets != "" {
		return
	}
	dir, err := os.MkdirTemp("", "verif-assets-")
	if err != nil {
		t.Fatal(err)
	}
	t.Cleanup(func() { os.RemoveAll(dir); vAssets = "" })
	key, _ := ecdsa.GenerateKey(elliptic.P256(), rand.Reader)
	tmpl := &x509.Certificate{
		SerialNumber: big.NewInt(1), Subject: pkix.Name{CommonName: "verif"},
		NotBefore: time.Unix(0, 0), NotAfter: time.Unix(4000000000, 0),
		DNSNames: []string{"example.com"},
	}
	der, err := x509.CreateCertificate(rand.Reader, tmpl, tmpl, &key.PublicKey, key)
	if err != nil {
		t.Fatal(err)
	}
	kb, _ := x509.MarshalECPrivateKey(key)
	os.WriteFile(filepath.Join(dir, "cert.pem"), pem.EncodeToMemory(&pem.Block{Type: "CERTIFICATE", Bytes: der}), 0o600)
	os.WriteFile(filepath.Join(dir, "key.pem"), pem.EncodeToMemory(&pem.Block{Type: "EC PRIVATE KEY", Bytes: kb}), 0o600)
	os.MkdirAll(filepath.Join(dir, "pages_good"), 0o700)
	os.WriteFile(filepath.Join(dir, "pages_good", "503.html"), []byte("custom503[{{ .Message }}]"), 0o600)
	vPagesVersion = 1
	os.WriteFile(filepath.Join(dir, "pages_good", "404.html"), []byte("custom404"), 0o600)
	os.WriteFile(filepath.Join(dir, "pages_good", "502.html"), []byte("custom502"), 0o600)
	// custom pages for some statuses only: every other status falls back to the built-in page
	os.MkdirAll(filepath.Join(dir, "pages_partial"), 0o700)
	os.WriteFile(filepath.Join(dir, "pages_partial", "404.html"), []byte("custom404"), 0o600)
	os.WriteFile(filepath.Join(dir, "pages_partial", "502.html"), []byte("custom502"), 0o600)
	os.MkdirAll(filepath.Join(dir, "pages_bad"), 0o700)
	os.WriteFile(filepath.Join(dir, "pages_bad", "503.html"), []byte("broken {{ .Message "), 0o600)
	vAssets = dir
}

// vWritePages replaces the custom 503 page of the valid directory in place:
// version 1 is the page vMakeAssets wrote, version 2 a different one.
var vPagesVersion int

func vWritePages(version int) {
	if vAssets == "" || version == vPagesVersion {
		return
	}
	page := "custom503[{{ .Message }}]"
	if version == 2 {
		page = "second503(({{ .Message }}))"
	}
	os.WriteFile(filepath.Join(vAssets, "pages_good", "503.html"), []byte(page), 0o600)
	vPagesVersion = version
}
