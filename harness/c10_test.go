package server

// C10 — rollout split.  A real Router with services deployed through
// DeployService / SetRolloutTargets / SetRolloutSplit / StopRollout in front
// of httptest backends that name themselves in a response header.  Requests
// are built with the generated raw `Cookie` header values and handed to
// Router.ServeHTTP; the observable is which backend answered.  A second
// observation (the balancer returned by Service.loadBalancerForRequest) covers
// header values that http.Transport refuses to forward (control bytes).
// PercentageSplitPoint is read back from the state file the router writes.

import (
	"encoding/json"
	"errors"
	"io"
	"log/slog"
	"math"
	"math/big"
	"net/http"
	"net/http/httptest"
	"os"
	"path/filepath"
	"strconv"
	"sync"
	"sync/atomic"
	"testing"
	"time"
)

const vC10BackendHeader = "X-Verif-Backend"

type vC10Pool struct {
	urls []string
}

func vC10NewPool(t *testing.T, n int) *vC10Pool {
	p := &vC10Pool{}
	for i := 0; i < n; i++ {
		id := strconv.Itoa(i)
		_, u := testBackendWithHandler(t, func(w http.ResponseWriter, r *http.Request) {
			w.Header().Set(vC10BackendHeader, id)
			w.WriteHeader(http.StatusOK)
			io.WriteString(w, id)
		})
		p.urls = append(p.urls, u)
	}
	return p
}

func vC10TargetOptions() TargetOptions {
	o := defaultTargetOptions
	o.HealthCheckConfig = HealthCheckConfig{Path: DefaultHealthCheckPath, Interval: time.Minute, Timeout: 5 * time.Second}
	return o
}

func vC10Request(lines []string) *http.Request {
	req := httptest.NewRequest(http.MethodGet, "http://example.com/", nil)
	if len(lines) > 0 {
		req.Header["Cookie"] = lines
	}
	return req
}

// vC10Serve sends one request through the router: backend id (>= 0) that
// answered, or -status for an answer of the proxy itself, or -1 for a panic.
func vC10Serve(router *Router, lines []string) (res int) {
	defer func() {
		if e := recover(); e != nil {
			res = -1
		}
	}()
	w := httptest.NewRecorder()
	router.ServeHTTP(w, vC10Request(lines))
	resp := w.Result()
	if b := resp.Header.Get(vC10BackendHeader); b != "" && resp.StatusCode == http.StatusOK {
		id, err := strconv.Atoi(b)
		if err == nil {
			return id
		}
	}
	return -resp.StatusCode
}

// vC10Pick asks the service which balancer it would use: 0 active, 1 rollout, 2 neither / panic.
func vC10Pick(svc *Service, lines []string) (res int) {
	defer func() {
		if e := recover(); e != nil {
			res = 2
		}
	}()
	lb := svc.loadBalancerForRequest(vC10Request(lines))
	switch {
	case lb == svc.active:
		return 0
	case lb == svc.rollout:
		return 1
	}
	return 2
}

// vC10StateController reads the rollout controller of a service from the state file.
func vC10StateController(statePath, name string) (present bool, percentage string, floor string, err error) {
	data, err := os.ReadFile(statePath)
	if err != nil {
		return false, "", "", err
	}
	var services []map[string]json.RawMessage
	if err := json.Unmarshal(data, &services); err != nil {
		return false, "", "", err
	}
	for _, s := range services {
		var n string
		json.Unmarshal(s["name"], &n)
		if n != name {
			continue
		}
		raw, ok := s["rollout_controller"]
		if !ok || string(raw) == "null" {
			return false, "", "", nil
		}
		var rc struct {
			Percentage           json.Number `json:"percentage"`
			PercentageSplitPoint float64     `json:"percentage_split_point"`
		}
		if err := json.Unmarshal(raw, &rc); err != nil {
			return false, "", "", err
		}
		fl := new(big.Float).SetFloat64(math.Floor(rc.PercentageSplitPoint))
		return true, rc.Percentage.String(), fl.Text('f', 0), nil
	}
	return false, "", "", errors.New("service not in state file")
}

func vC10ErrClass(err error) string {
	switch {
	case err == nil:
		return "ok"
	case errors.Is(err, ErrorRolloutTargetNotSet):
		return "norollout"
	}
	return "other:" + err.Error()
}

func vC10SideOf(served int, active, rollout int) int {
	switch served {
	case active:
		return 0
	case rollout:
		return 1
	}
	return 2
}

func TestVerifC10(t *testing.T) {
	cases := verifCases(t)
	out := verifOpenOut(t)
	defer out.close()

	prev := slog.Default()
	slog.SetDefault(slog.New(slog.NewTextHandler(io.Discard, nil)))
	defer slog.SetDefault(prev)

	// probe results applied so far (hook event): a restart waits for the first result of every restored target, so that
	// a later "health" step is not overtaken by it
	var applied atomic.Int64
	verifEventFn = func(kind string, args ...any) {
		if kind == "probe-apply" {
			applied.Add(1)
		}
	}
	defer func() { verifEventFn = nil }()

	pool := vC10NewPool(t, 10)
	topts := vC10TargetOptions()
	dir := t.TempDir()

	// One service with active = backend 0 and rollout = backend 1 for all split cases.
	splitState := filepath.Join(dir, "split.json")
	splitRouter := NewRouter(splitState)
	if err := splitRouter.DeployService("split", []string{pool.urls[0]}, defaultServiceOptions, topts, DefaultDeployTimeout, DefaultDrainTimeout); err != nil {
		t.Fatalf("verif: deploy: %v", err)
	}
	if err := splitRouter.SetRolloutTargets("split", []string{pool.urls[1]}, DefaultDeployTimeout, DefaultDrainTimeout); err != nil {
		t.Fatalf("verif: rollout deploy: %v", err)
	}
	defer splitRouter.RemoveService("split")

	for i, c := range cases {
		res := map[string]any{"i": i, "kind": c["kind"]}
		switch vStr(c["kind"]) {
		case "split":
			allow := vStrList(c["allow"])
			var reqs [][]string
			for _, r := range vList(c["reqs"]) {
				reqs = append(reqs, vStrList(r))
			}
			per := []any{}
			for _, ps := range vList(c["pcts"]) {
				pct, err := strconv.ParseInt(vStr(ps), 10, 64)
				if err != nil {
					t.Fatalf("verif: bad percentage %v", ps)
				}
				o := map[string]any{}
				o["set"] = vC10ErrClass(splitRouter.SetRolloutSplit("split", int(pct), allow))
				present, back, floor, err := vC10StateController(splitState, "split")
				o["ctrl_in_state"] = present
				o["pct_back"] = back
				o["floor"] = floor
				if err != nil {
					o["state_err"] = err.Error()
				}
				svc := splitRouter.serviceForName("split")
				lbs, served := []int{}, []int{}
				for _, lines := range reqs {
					lbs = append(lbs, vC10Pick(svc, lines))
					served = append(served, vC10SideOf(vC10Serve(splitRouter, lines), 0, 1))
				}
				o["lb"] = lbs
				o["served"] = served
				if vBool(c["concurrent"]) {
					// the same requests decided by 8 goroutines at once, 25 times each: the decision is a function of the
					// cookie value - every concurrent decision must be the one just made for that value sequentially
					mism := 0
					var mu sync.Mutex
					var wg sync.WaitGroup
					for g := 0; g < 8; g++ {
						wg.Add(1)
						go func(g int) {
							defer wg.Done()
							for rep := 0; rep < 25; rep++ {
								for k := range reqs {
									j := (k + g*3 + rep) % len(reqs)
									if vC10Pick(svc, reqs[j]) != lbs[j] {
										mu.Lock()
										mism++
										mu.Unlock()
									}
								}
							}
						}(g)
					}
					wg.Wait()
					o["concurrent_decisions"] = 8 * 25 * len(reqs)
					o["concurrent_mismatches"] = mism
				}
				per = append(per, o)
			}
			res["per"] = per

		case "hist":
			name := "h" + strconv.Itoa(i)
			statePath := filepath.Join(dir, name+".json")
			router := NewRouter(statePath)
			obs := []any{}
			deploy := func(id int64) string {
				return vC10ErrClass(router.DeployService(name, []string{pool.urls[id]}, defaultServiceOptions, topts, DefaultDeployTimeout, DefaultDrainTimeout))
			}
			if e := deploy(vInt(c["init"])); e != "ok" {
				t.Fatalf("verif: initial deploy: %s", e)
			}
			for _, opv := range vList(c["ops"]) {
				op, _ := opv.(map[string]any)
				switch vStr(op["op"]) {
				case "deploy":
					obs = append(obs, map[string]any{"res": deploy(vInt(op["id"]))})
				case "rollout_deploy":
					err := router.SetRolloutTargets(name, []string{pool.urls[vInt(op["id"])]}, DefaultDeployTimeout, DefaultDrainTimeout)
					obs = append(obs, map[string]any{"res": vC10ErrClass(err)})
				case "set":
					pct, _ := strconv.ParseInt(vStr(op["pct"]), 10, 64)
					err := router.SetRolloutSplit(name, int(pct), vStrList(op["allow"]))
					obs = append(obs, map[string]any{"res": vC10ErrClass(err)})
				case "stop":
					obs = append(obs, map[string]any{"res": vC10ErrClass(router.StopRollout(name))})
				case "restart":
					old := router
					if svc := old.serviceForName(name); svc != nil {
						svc.Dispose() // the old process is gone: its probe loops with it
					}
					before := applied.Load()
					router = NewRouter(statePath)
					err := router.RestoreLastSavedState()
					if svc := router.serviceForName(name); svc != nil {
						n := int64(len(svc.active.Targets()))
						if svc.rollout != nil {
							n += int64(len(svc.rollout.Targets()))
						}
						for w0 := time.Now(); applied.Load() < before+n && time.Since(w0) < 5*time.Second; {
							time.Sleep(200 * time.Microsecond)
						}
					}
					obs = append(obs, map[string]any{"res": vC10ErrClass(err)})
				case "health":
					// every target of one side has just failed / passed a probe (the probe path itself: HealthCheckCompleted)
					if svc := router.serviceForName(name); svc != nil {
						lb := svc.active
						if vStr(op["side"]) == "rollout" {
							lb = svc.rollout
						}
						if lb != nil {
							for _, tg := range lb.Targets() {
								tg.HealthCheckCompleted(vBool(op["healthy"]))
							}
						}
					}
					obs = append(obs, map[string]any{"res": "ok"})
				case "request":
					obs = append(obs, map[string]any{"served": vC10Serve(router, vStrList(op["lines"]))})
				default:
					t.Fatalf("verif: unknown op %v", op["op"])
				}
			}
			res["obs"] = obs
			router.RemoveService(name)

		default:
			t.Fatalf("verif: unknown case kind %v", c["kind"])
		}
		out.emit(res)
	}
}
