package cmd

// C20 differential harness for getEnvInt / getEnvBool (util.go).  Lives in
// /verif/harness and is compiled into package cmd through `go test -overlay`;
// nothing here is committed to /repo.
//
// Input  (VERIF_IN,  JSON lines): {"key": hex, "pref": hex|null, "bare": hex|null,
//                                  "def_int": "decimal", "def_bool": bool}
// Output (VERIF_OUT, JSON lines): {"i": n, "int": "decimal", "bool": bool}

import (
	"bufio"
	"encoding/hex"
	"encoding/json"
	"os"
	"strconv"
	"testing"
)

type vC20Case struct {
	Key     string  `json:"key"`
	Pref    *string `json:"pref"`
	Bare    *string `json:"bare"`
	DefInt  string  `json:"def_int"`
	DefBool bool    `json:"def_bool"`
}

func vC20Unhex(t *testing.T, s string) string {
	b, err := hex.DecodeString(s)
	if err != nil {
		t.Fatalf("verif: bad hex %q", s)
	}
	return string(b)
}

func vC20Set(t *testing.T, name string, v *string) {
	if v == nil {
		if err := os.Unsetenv(name); err != nil {
			t.Fatalf("verif: unsetenv %q: %v", name, err)
		}
		return
	}
	if err := os.Setenv(name, vC20Unhex(t, *v)); err != nil {
		t.Fatalf("verif: setenv %q: %v", name, err)
	}
}

func TestVerifC20Env(t *testing.T) {
	in := os.Getenv("VERIF_IN")
	if in == "" {
		t.Skip("VERIF_IN not set")
	}
	f, err := os.Open(in)
	if err != nil {
		t.Fatalf("verif: cannot open cases: %v", err)
	}
	defer f.Close()
	outf, err := os.Create(os.Getenv("VERIF_OUT"))
	if err != nil {
		t.Fatalf("verif: cannot create output: %v", err)
	}
	defer outf.Close()
	w := bufio.NewWriterSize(outf, 1<<20)
	defer w.Flush()

	sc := bufio.NewScanner(f)
	sc.Buffer(make([]byte, 1<<20), 1<<26)
	i := 0
	for sc.Scan() {
		if len(sc.Bytes()) == 0 {
			continue
		}
		var c vC20Case
		if err := json.Unmarshal(sc.Bytes(), &c); err != nil {
			t.Fatalf("verif: bad case line: %v", err)
		}
		key := vC20Unhex(t, c.Key)
		vC20Set(t, ENV_PREFIX+key, c.Pref)
		vC20Set(t, key, c.Bare)
		def, err := strconv.ParseInt(c.DefInt, 10, 64)
		if err != nil {
			t.Fatalf("verif: bad default %q", c.DefInt)
		}
		res := map[string]any{
			"i":    i,
			"int":  strconv.FormatInt(int64(getEnvInt(key, int(def))), 10),
			"bool": getEnvBool(key, c.DefBool),
		}
		b, _ := json.Marshal(res)
		w.Write(b)
		w.WriteByte('\n')
		os.Unsetenv(ENV_PREFIX + key)
		os.Unsetenv(key)
		i++
	}
}
