package server

import (
	"math/rand"
	"net/http"
	"os"
	"strconv"
	"sync"
	"testing"
	"time"
)

// TestVerifC09Race: the probe results of several targets of one balancer are
// applied concurrently (real scheduler); when all of them have been applied the
// rotation must be exactly the targets whose state is healthy, in target order.
func TestVerifC09Race(t *testing.T) {
	if os.Getenv("VERIF_OUT") == "" {
		t.Skip("VERIF_OUT not set")
	}
	rounds, _ := strconv.Atoi(os.Getenv("VERIF_ROUNDS"))
	if rounds == 0 {
		rounds = 200
	}
	seed, _ := strconv.ParseInt(os.Getenv("VERIF_SEED"), 10, 64)
	rnd := rand.New(rand.NewSource(seed))
	out := verifOpenOut(t)
	defer out.close()
	const n = 8
	for round := 0; round < rounds; round++ {
		names := []string{}
		for i := 0; i < n; i++ {
			names = append(names, "tg"+strconv.Itoa(i)+":80")
		}
		opts := TargetOptions{HealthCheckConfig: HealthCheckConfig{Path: "/up", Interval: 1 << 40, Timeout: 1 << 30}}
		tl, err := NewTargetList(names, opts)
		if err != nil {
			t.Fatal(err)
		}
		// wire the targets to the balancer the way NewLoadBalancer does, without starting probe loops
		lb := &LoadBalancer{healthy: TargetList{}, all: tl}
		for _, tg := range tl {
			tg.stateConsumer = lb
			tg.becameHealthy = make(chan bool)
		}
		// every target first becomes healthy, then the outcomes of one more probe each are applied together
		for _, tg := range tl {
			tg.HealthCheckCompleted(true)
		}
		outcomes := make([][]bool, n)
		for i := range outcomes {
			k := 1 + rnd.Intn(3)
			for j := 0; j < k; j++ {
				outcomes[i] = append(outcomes[i], rnd.Intn(2) == 0)
			}
		}
		var wg sync.WaitGroup
		start := make(chan struct{})
		for i, tg := range tl {
			wg.Add(1)
			go func(tg *Target, os []bool) {
				defer wg.Done()
				<-start
				for _, ok := range os {
					tg.HealthCheckCompleted(ok)
				}
			}(tg, outcomes[i])
		}
		if round%4 == 3 {
			// the balancer's lock is busy (a claim or another rebuild in progress) while the results arrive: the rebuilds
			// they call for must wait for it, not be given up
			lb.lock.Lock()
			close(start)
			time.Sleep(2 * time.Millisecond)
			lb.lock.Unlock()
		} else {
			close(start)
		}
		wg.Wait()
		want, got := []string{}, []string{}
		for _, tg := range tl {
			if tg.State() == TargetStateHealthy {
				want = append(want, tg.Target())
			}
		}
		lb.lock.Lock()
		for _, tg := range lb.healthy {
			got = append(got, tg.Target())
		}
		lb.lock.Unlock()
		out.emit(map[string]any{"round": round, "healthy_targets": want, "rotation": got})
	}
}

// TestVerifC09ClaimRace: many requests claim a target of one balancer at the
// same time (real scheduler).  Whatever the interleaving, the claims are handed
// out in strict rotation: with k healthy targets and a total that is a multiple
// of k, every target is claimed exactly total/k times.
func TestVerifC09ClaimRace(t *testing.T) {
	if os.Getenv("VERIF_OUT") == "" {
		t.Skip("VERIF_OUT not set")
	}
	rounds, _ := strconv.Atoi(os.Getenv("VERIF_ROUNDS"))
	if rounds == 0 {
		rounds = 20
	}
	out := verifOpenOut(t)
	defer out.close()
	for round := 0; round < rounds; round++ {
		k := 2 + round%4
		workers, per := 12, 600*k
		names := []string{}
		for i := 0; i < k; i++ {
			names = append(names, "tc"+strconv.Itoa(i)+":80")
		}
		opts := TargetOptions{HealthCheckConfig: HealthCheckConfig{Path: "/up", Interval: 1 << 40, Timeout: 1 << 30}}
		tl, err := NewTargetList(names, opts)
		if err != nil {
			t.Fatal(err)
		}
		lb := &LoadBalancer{healthy: TargetList{}, all: tl}
		for _, tg := range tl {
			tg.stateConsumer = lb
			tg.becameHealthy = make(chan bool)
		}
		for _, tg := range tl {
			tg.HealthCheckCompleted(true)
		}
		counts := make([][]int, workers)
		var wg sync.WaitGroup
		start := make(chan struct{})
		for w := 0; w < workers; w++ {
			wg.Add(1)
			counts[w] = make([]int, k)
			go func(w int) {
				defer wg.Done()
				r, _ := http.NewRequest(http.MethodGet, "http://x/", nil)
				<-start
				for i := 0; i < per; i++ {
					tg, req, err := lb.claimTarget(r)
					if err != nil {
						continue
					}
					for j, x := range tl {
						if x == tg {
							counts[w][j]++
						}
					}
					tg.endInflightRequest(req)
				}
			}(w)
		}
		close(start)
		wg.Wait()
		total := make([]int, k)
		for w := range counts {
			for j, c := range counts[w] {
				total[j] += c
			}
		}
		out.emit(map[string]any{"round": round, "targets": k, "claims": workers * per, "per_target": total, "expected_each": workers * per / k})
	}
}
