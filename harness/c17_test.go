package server

// C17: scenario op "c17_flush" appends the event log recorded so far to the
// file named by VERIF_PARTIAL (one JSON line per call).  tools/c17.py puts it at
// the end of every scenario: when a mutant's probe loops never stop, the
// synctest bubble never ends and the regular output is never written, but the
// traces of the scenarios that did run are still available to the monitor.

import (
	"encoding/json"
	"os"
)

func init() {
	vExtraOps["c17_flush"] = func(s *vSim, id string, c map[string]any) {
		path := os.Getenv("VERIF_PARTIAL")
		if path == "" {
			return
		}
		s.mu.Lock()
		b, err := json.Marshal(map[string]any{"events": s.events})
		s.mu.Unlock()
		if err != nil {
			return
		}
		f, err := os.OpenFile(path, os.O_APPEND|os.O_CREATE|os.O_WRONLY, 0o644)
		if err != nil {
			return
		}
		f.Write(append(b, '\n'))
		f.Close()
	}
}
