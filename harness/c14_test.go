package server

import (
	"bytes"
	"errors"
	"fmt"
	"io"
	"net"
	"net/http"
	"net/http/httptest"
	"os"
	"path/filepath"
	"strconv"
	"testing"
	"time"
)

type vChunkReader struct {
	chunks [][]byte
	fail   bool
	closed bool
}

func (r *vChunkReader) Read(p []byte) (int, error) {
	for len(r.chunks) > 0 && len(r.chunks[0]) == 0 {
		r.chunks = r.chunks[1:]
	}
	if len(r.chunks) == 0 {
		if r.fail {
			return 0, errors.New("verif: client aborted")
		}
		return 0, io.EOF
	}
	n := copy(p, r.chunks[0])
	r.chunks[0] = r.chunks[0][n:]
	return n, nil
}

func (r *vChunkReader) Close() error { r.closed = true; return nil }

func vErrClass(err error) string {
	switch {
	case err == nil:
		return "ok"
	case errors.Is(err, ErrMaximumSizeExceeded):
		return "max"
	case errors.Is(err, ErrWriteAfterRead):
		return "afterread"
	}
	return "other"
}

func TestVerifC14(t *testing.T) {
	cases := verifCases(t)
	out := verifOpenOut(t)
	defer out.close()

	tmp := t.TempDir()
	t.Setenv("TMPDIR", tmp)

	for i, c := range cases {
		res := map[string]any{"i": i, "kind": c["kind"]}
		switch vStr(c["kind"]) {
		case "buf":
			b := NewBufferedWriteCloser(vInt(c["maxb"]), vInt(c["maxm"]))
			steps := []any{}
			for _, chunk := range vHexList(c["chunks"]) {
				n, err := b.Write(chunk)
				steps = append(steps, map[string]any{
					"n": n, "err": vErrClass(err), "over": b.Overflowed(), "files": vDirSizes(tmp),
				})
			}
			res["steps"] = steps
			var sent bytes.Buffer
			err := b.Send(&sent)
			res["send_err"] = vErrClass(err)
			res["sent"] = vHex(sent.Bytes())
			b.Close()
			res["files_after_close"] = vDirSizes(tmp)
			b.Close()
			res["files_after_close2"] = vDirSizes(tmp)

		case "req", "resp":
			hit := false
			var got []byte
			respChunks := vHexList(c["resp_chunks"])
			respStatus := int(vInt(c["resp_status"]))
			sse := vBool(c["sse"])
			_, targetURL := testBackendWithHandler(t, func(w http.ResponseWriter, r *http.Request) {
				hit = true
				got, _ = io.ReadAll(r.Body)
				if ct := vStr(c["ctype"]); ct != "" {
					w.Header()["Content-Type"] = []string{ct} // as the target spells it
				} else if sse {
					w.Header().Set("Content-Type", "text/event-stream; charset=utf-8")
				} else {
					w.Header().Set("Content-Type", "application/octet-stream")
				}
				if hl, ok := c["head_len"]; ok {
					// answer to a HEAD request: the resource's length is declared, no body follows
					w.Header().Set("Content-Length", strconv.FormatInt(vInt(hl), 10))
				}
				for _, st := range vList(c["interim"]) {
					// informational responses ahead of the final one (100 Continue, 102, 103 Early Hints)
					w.WriteHeader(int(vInt(st)))
				}
				w.WriteHeader(respStatus)
				for _, ch := range respChunks {
					w.Write(ch)
					if f, ok := w.(http.Flusher); ok {
						f.Flush()
					}
				}
			})
			opts := TargetOptions{
				BufferRequests:      vBool(c["buffer_req"]),
				BufferResponses:     vBool(c["buffer_resp"]),
				MaxMemoryBufferSize: vInt(c["maxm"]),
				MaxRequestBodySize:  vInt(c["max_req"]),
				MaxResponseBodySize: vInt(c["max_resp"]),
				HealthCheckConfig:   defaultHealthCheckConfig,
			}
			target, err := NewTarget(targetURL, opts)
			if err != nil {
				t.Fatalf("verif: NewTarget: %v", err)
			}
			body := &vChunkReader{chunks: vHexList(c["req_chunks"]), fail: vBool(c["abort"])}
			req := httptest.NewRequest(http.MethodPost, "/", body)
			if _, ok := c["head_len"]; ok {
				req = httptest.NewRequest(http.MethodHead, "/", nil)
			}
			if vBool(c["expect_continue"]) {
				req.Header.Set("Expect", "100-continue")
			}
			if vBool(c["offer_upgrade"]) {
				// the client OFFERS a protocol upgrade; the target declines and answers normally: nothing is upgraded, the
				// exchange is buffered and limited like any other
				req.Header.Set("Connection", "Upgrade")
				req.Header.Set("Upgrade", "h2c")
			}
			w := httptest.NewRecorder()
			filesDuring := []int64{}
			_ = filesDuring
			r2, err := target.StartRequest(req)
			if err != nil {
				t.Fatalf("verif: StartRequest: %v", err)
			}
			// The error-page middleware normally turns SetErrorResponse into a
			// response; without it the fallback http.Error is used.
			// (a real server passes informational responses on and keeps waiting for the final status; the recorder
			// would take the first WriteHeader for the status: they are recorded apart)
			iw := &vC14Interim{ResponseRecorder: w}
			target.SendRequest(iw, r2)
			res["interim_seen"] = iw.interim
			res["status"] = w.Code
			res["body"] = vHex(w.Body.Bytes())
			res["flushed"] = w.Flushed
			res["hit"] = hit
			res["got"] = vHex(got)
			res["files_after"] = vDirSizes(tmp)
			res["clen"] = w.Header().Get("Content-Length")
		case "abort":
			// a response that has already spilled to disk when the exchange is torn down: the target drops
			// the connection mid-body ("target") or the client goes away ("client"). Needs a real front
			// server: only there does ReverseProxy abort the handler with a panic.
			pre := int(vInt(c["pre"]))
			who := vStr(c["who"])
			release := make(chan struct{})
			_, targetURL := testBackendWithHandler(t, func(w http.ResponseWriter, r *http.Request) {
				w.Header().Set("Content-Type", "application/octet-stream")
				w.Header().Set("Content-Length", strconv.Itoa(pre*2+10))
				w.WriteHeader(200)
				w.Write(bytes.Repeat([]byte("x"), pre))
				if f, ok := w.(http.Flusher); ok {
					f.Flush()
				}
				if who == "target" {
					time.Sleep(150 * time.Millisecond) // let the proxy buffer (and spill) what was sent
					if hj, ok := w.(http.Hijacker); ok {
						conn, _, _ := hj.Hijack()
						conn.Close()
					}
					return
				}
				<-release // client abort: keep the response open until the client has gone
			})
			opts := TargetOptions{BufferResponses: true, MaxMemoryBufferSize: vInt(c["maxm"]), MaxResponseBodySize: 0,
				HealthCheckConfig: defaultHealthCheckConfig, ResponseTimeout: 5 * time.Second}
			target, err := NewTarget(targetURL, opts)
			if err != nil {
				t.Fatalf("verif: NewTarget: %v", err)
			}
			done := make(chan struct{})
			spilled := make(chan []int64, 1)
			front := httptest.NewServer(http.HandlerFunc(func(w http.ResponseWriter, r *http.Request) {
				defer close(done)
				r2, err := target.StartRequest(r)
				if err != nil {
					return
				}
				target.SendRequest(w, r2)
			}))
			conn, err := net.Dial("tcp", front.Listener.Addr().String())
			if err != nil {
				t.Fatalf("verif: dial: %v", err)
			}
			fmt.Fprintf(conn, "GET / HTTP/1.1\r\nHost: x\r\n\r\n")
			// wait until the spill file exists (the body has passed the memory limit)
			go func() {
				for k := 0; k < 400; k++ {
					if f := vDirSizes(tmp); len(f) > 0 {
						spilled <- f
						return
					}
					time.Sleep(5 * time.Millisecond)
				}
				spilled <- nil
			}()
			during := <-spilled
			if who == "client" {
				conn.Close()
			}
			select {
			case <-done:
			case <-time.After(8 * time.Second):
				res["hung"] = true
			}
			close(release)
			conn.Close()
			front.Close()
			res["files_during"] = during
			res["files_after"] = vDirSizes(tmp)
			for _, e := range vDirSizes(tmp) { // keep later cases independent of a leak
				_ = e
			}
			if ents, _ := os.ReadDir(tmp); len(ents) > 0 {
				for _, e := range ents {
					os.Remove(filepath.Join(tmp, e.Name()))
				}
			}
		default:
			t.Fatalf("verif: unknown case kind %v", c["kind"])
		}
		out.emit(res)
	}
}

// vC14Interim: a client-side recorder that, like a real connection, keeps informational responses (1xx other than 101)
// apart from the final status.
type vC14Interim struct {
	*httptest.ResponseRecorder
	interim []int
}

func (w *vC14Interim) WriteHeader(code int) {
	if code >= 100 && code <= 199 && code != http.StatusSwitchingProtocols {
		w.interim = append(w.interim, code)
		return
	}
	w.ResponseRecorder.WriteHeader(code)
}
