package server

import (
	"bytes"
	"errors"
	"io"
	"net/http"
	"net/http/httptest"
	"testing"
)

type vChunkReader struct {
	chunks [][]byte
	fail   bool
	closed bool
}

func (r *vChunkReader) Read(p []byte) (int, error) {
	for len(r.chunks) > 0 && len(r.chunks[0]) == 0 {
		r.chunks = r.chunks[1:]
	}
	if len(r.chunks) == 0 {
		if r.fail {
			return 0, errors.New("verif: client aborted")
		}
		return 0, io.EOF
	}
	n := copy(p, r.chunks[0])
	r.chunks[0] = r.chunks[0][n:]
	return n, nil
}

func (r *vChunkReader) Close() error { r.closed = true; return nil }

func vErrClass(err error) string {
	switch {
	case err == nil:
		return "ok"
	case errors.Is(err, ErrMaximumSizeExceeded):
		return "max"
	case errors.Is(err, ErrWriteAfterRead):
		return "afterread"
	}
	return "other"
}

func TestVerifC14(t *testing.T) {
	cases := verifCases(t)
	out := verifOpenOut(t)
	defer out.close()

	tmp := t.TempDir()
	t.Setenv("TMPDIR", tmp)

	for i, c := range cases {
		res := map[string]any{"i": i, "kind": c["kind"]}
		switch vStr(c["kind"]) {
		case "buf":
			b := NewBufferedWriteCloser(vInt(c["maxb"]), vInt(c["maxm"]))
			steps := []any{}
			for _, chunk := range vHexList(c["chunks"]) {
				n, err := b.Write(chunk)
				steps = append(steps, map[string]any{
					"n": n, "err": vErrClass(err), "over": b.Overflowed(), "files": vDirSizes(tmp),
				})
			}
			res["steps"] = steps
			var sent bytes.Buffer
			err := b.Send(&sent)
			res["send_err"] = vErrClass(err)
			res["sent"] = vHex(sent.Bytes())
			b.Close()
			res["files_after_close"] = vDirSizes(tmp)
			b.Close()
			res["files_after_close2"] = vDirSizes(tmp)

		case "req", "resp":
			hit := false
			var got []byte
			respChunks := vHexList(c["resp_chunks"])
			respStatus := int(vInt(c["resp_status"]))
			sse := vBool(c["sse"])
			_, targetURL := testBackendWithHandler(t, func(w http.ResponseWriter, r *http.Request) {
				hit = true
				got, _ = io.ReadAll(r.Body)
				if sse {
					w.Header().Set("Content-Type", "text/event-stream; charset=utf-8")
				} else {
					w.Header().Set("Content-Type", "application/octet-stream")
				}
				w.WriteHeader(respStatus)
				for _, ch := range respChunks {
					w.Write(ch)
					if f, ok := w.(http.Flusher); ok {
						f.Flush()
					}
				}
			})
			opts := TargetOptions{
				BufferRequests:      vBool(c["buffer_req"]),
				BufferResponses:     vBool(c["buffer_resp"]),
				MaxMemoryBufferSize: vInt(c["maxm"]),
				MaxRequestBodySize:  vInt(c["max_req"]),
				MaxResponseBodySize: vInt(c["max_resp"]),
				HealthCheckConfig:   defaultHealthCheckConfig,
			}
			target, err := NewTarget(targetURL, opts)
			if err != nil {
				t.Fatalf("verif: NewTarget: %v", err)
			}
			body := &vChunkReader{chunks: vHexList(c["req_chunks"]), fail: vBool(c["abort"])}
			req := httptest.NewRequest(http.MethodPost, "/", body)
			w := httptest.NewRecorder()
			filesDuring := []int64{}
			_ = filesDuring
			r2, err := target.StartRequest(req)
			if err != nil {
				t.Fatalf("verif: StartRequest: %v", err)
			}
			// The error-page middleware normally turns SetErrorResponse into a
			// response; without it the fallback http.Error is used.
			target.SendRequest(w, r2)
			res["status"] = w.Code
			res["body"] = vHex(w.Body.Bytes())
			res["flushed"] = w.Flushed
			res["hit"] = hit
			res["got"] = vHex(got)
			res["files_after"] = vDirSizes(tmp)
		default:
			t.Fatalf("verif: unknown case kind %v", c["kind"])
		}
		out.emit(res)
	}
}
