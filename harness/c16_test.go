package server

// C16: scenario operation "getcert" for the virtual-clock scenario runner
// (sim_test.go): asks the real Router.GetCertificate for a list of server
// names and classifies each answer.
//
//   refused    the router or the certificate manager's host policy / name
//              checks turned the name down (no certificate, nothing requested)
//   static     a certificate was returned (static certificate manager)
//   automatic  the autocert manager accepted the name: it went on to obtain a
//              certificate (observed as a request to the ACME directory, which
//              the harness makes unreachable) or it still remembers the failed
//              attempt for that name
//
// The ACME directory of every service deployed by the runner is
// https://127.0.0.1:1/dir; the ACME client uses http.DefaultClient, i.e.
// http.DefaultTransport, which is swapped for the duration of the call so that
// a directory fetch is recorded and fails at once (no network, no timers).

import (
	"crypto/tls"
	"errors"
	"net/http"
	"os"
	"path/filepath"
	"strings"
	"sync/atomic"
	"time"
)

// "cert_files" {"state": "gone" | "back"}: the static certificate pair of the assets directory becomes unreadable
// (renamed away) / readable again - what a certificate directory that is not mounted at the next start looks like.
func vCertFiles(s *vSim, id string, c map[string]any) {
	for _, f := range []string{"cert.pem", "key.pem"} {
		p := filepath.Join(vAssets, f)
		if vStr(c["state"]) == "gone" {
			os.Rename(p, p+".off")
		} else {
			os.Rename(p+".off", p)
		}
	}
	s.record(map[string]any{"id": id, "op": "cert_files", "state": vStr(c["state"])})
}

func init() {
	vExtraOps["cert_files"] = vCertFiles
	vExtraOps["getcert"] = vGetCert
}

type vAcmeRT struct {
	hits *int32
	next http.RoundTripper
}

func (rt vAcmeRT) RoundTrip(req *http.Request) (*http.Response, error) {
	if req.URL.Host == "127.0.0.1:1" {
		atomic.AddInt32(rt.hits, 1)
		return nil, errors.New("verif: ACME directory unreachable")
	}
	return rt.next.RoundTrip(req)
}

func vClassifyCert(cert *tls.Certificate, err error, hits int32) string {
	switch {
	case err == nil && cert != nil:
		return "static"
	case err == nil:
		return "other:nil-nil"
	case errors.Is(err, ErrorNoServerName), errors.Is(err, ErrorUnknownServerName):
		return "refused"
	}
	msg := err.Error()
	switch {
	case strings.Contains(msg, "not configured in HostWhitelist"),
		strings.Contains(msg, "server name component count invalid"),
		strings.Contains(msg, "server name contains invalid character"),
		strings.Contains(msg, "missing server name"):
		if hits != 0 {
			return "other:refused-after-acme-request"
		}
		return "refused"
	case hits > 0:
		return "automatic"
	case strings.Contains(msg, "acme/autocert: missing certificate"):
		// an earlier attempt for the same name failed less than a minute ago
		return "automatic"
	}
	return "other:" + msg
}

func vGetCert(s *vSim, id string, c map[string]any) {
	answers := []any{}
	t0 := s.now()
	for _, n := range vHexList(c["names"]) {
		name := string(n)
		var hits int32
		old := http.DefaultTransport
		http.DefaultTransport = vAcmeRT{&hits, old}
		type res struct {
			cert *tls.Certificate
			err  error
			pan  string
		}
		done := make(chan res, 1)
		router := s.router
		go func() {
			var r res
			defer func() {
				if p := recover(); p != nil {
					r.pan = "panic"
				}
				done <- r
			}()
			r.cert, r.err = router.GetCertificate(&tls.ClientHelloInfo{ServerName: name})
		}()
		var a string
		select {
		case r := <-done:
			if r.pan != "" {
				a = "other:panic"
			} else {
				a = vClassifyCert(r.cert, r.err, atomic.LoadInt32(&hits))
			}
		case <-time.After(10 * time.Second): // virtual time
			a = "other:timeout"
		}
		http.DefaultTransport = old
		answers = append(answers, map[string]any{"name": vHex(n), "answer": a, "acme_requests": atomic.LoadInt32(&hits)})
	}
	s.record(map[string]any{"id": id, "op": "getcert", "answers": answers, "t0": t0, "t1": s.now()})
}
