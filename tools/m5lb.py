"""Shared by c01.py and c09.py: run scenarios on the real code (virtual clock),
turn the event traces into Coq terms and evaluate the load-balancer acceptor
(coq/model/M5lb.v) and the monitors (corr/C01corr.v, corr/C09corr.v) on them."""
import contextlib
from concurrent.futures import ThreadPoolExecutor

import m4x
import m5
from vlib import *

SEC, MS = m5.SEC, m5.MS
H = m5.H
LB_POINTS = ["probe:applied", "deploy:healthy", "deploy:slot-updated", "deploy:installed", "req:routed", "req:lb-picked"]

IMPORTS = ("From KP Require Import model.Base model.Trace model.M5lb corr.C01corr corr.C09corr.\n"
           "Local Open Scope nat_scope.\n")
IMPORTS_MODEL = "From KP Require Import model.Base model.Trace model.M5lb.\nLocal Open Scope nat_scope.\n"


@contextlib.contextmanager
def yield_points(points):
    """While active, m5.Gen arms (and finally releases) only these yield points."""
    old = m5.POINTS
    m5.POINTS = list(points)
    try:
        yield
    finally:
        m5.POINTS = old


def random_scenarios(rnd, n, profiles=None, lo=10, hi=40):
    """n scenarios from m5.Gen with yields restricted to the deploy / claim path."""
    profiles = profiles or [None]
    out = []
    with yield_points(LB_POINTS):
        for i in range(n):
            out.append(m5.Gen(rnd, profiles[i % len(profiles)]).gen(rnd.randint(lo, hi)))
    return out


def coq_eval_traces(work, imports, outs, expr, tag, shard=8, defs=""):
    """Evaluate `expr` (a Coq function on traces) on the event trace of every output."""
    terms = [m5.trace_term(o["events"]) for o in outs]
    return m4x.coq_map(work, imports, defs, terms, expr, tag, shard=shard)


def n_events(outs):
    return sum(len(o["events"]) for o in outs)


def event_at(o, k):
    """The harness event behind index k of the converted trace (the converter
    inserts KSvcName / KTargetName / KParams items)."""
    seen = set()
    i = 0
    for e in o["events"]:
        for a in e["args"]:
            for x in (a if isinstance(a, list) else [a]):
                if isinstance(x, str) and re.fullmatch(r"[ST]\d+:.*", x, re.S) and x not in seen:
                    seen.add(x)
                    if i == k:
                        return {"inserted": "name of " + x, "before": e}
                    i += 1
        if i == k:
            return e
        i += 1
        if e["kind"] == "issue" and len(e["args"]) >= 6:
            if i == k:
                return {"inserted": "params", "of": e}
            i += 1
    return None
