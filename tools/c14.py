"""C14 — buffering: correspondence of model/Buffer.v with buffer.go and the two
buffer middlewares, plus the proof obligations of props/C14.v."""
import itertools
import random

from vlib import *


def body_bytes(start, n):
    return bytes(((start + i) % 251) for i in range(n))


def compositions(n):
    """All ways to split n bytes into non-empty chunk lengths."""
    if n == 0:
        yield []
        return
    for first in range(1, n + 1):
        for rest in compositions(n - first):
            yield [first] + rest


def split(body, lens):
    out, i = [], 0
    for l in lens:
        out.append(body[i:i + l])
        i += l
    return out


def gen_cases(seed, tier):
    rnd = random.Random(seed)
    cases = []
    mm, mb, ml = (3, 5, 5) if tier == "quick" else (4, 6, 7)
    # exhaustive small scope at Buffer level
    for maxm in range(0, mm + 1):
        for maxb in range(0, mb + 1):
            for n in range(0, ml + 1):
                body = body_bytes(7, n)
                for lens in compositions(n):
                    cases.append({"kind": "buf", "maxb": maxb, "maxm": maxm,
                                  "chunks": [c.hex() for c in split(body, lens)]})
    # zero-length chunks and writes after a rejected chunk
    for _ in range(150 if tier == "quick" else 1500):
        maxm = rnd.randint(0, 6)
        maxb = rnd.choice([0, 0, rnd.randint(1, 12)])
        chunks = [body_bytes(rnd.randint(0, 250), rnd.choice([0, 0, 1, 2, 3, 5, 8])) for _ in range(rnd.randint(0, 6))]
        cases.append({"kind": "buf", "maxb": maxb, "maxm": maxm, "chunks": [c.hex() for c in chunks]})
    # Target level
    n_http = 160 if tier == "quick" else 2500
    for k in range(n_http):
        big = (k % 20 == 19)
        if big:
            maxm = rnd.choice([100, 32768, 32769, 40000])
            lim = rnd.choice([0, 32768, 65536, 70000])
            sizes = [0, 1, maxm - 1, maxm, maxm + 1, 32767, 32768, 32769, 65536, 65537, 70000, 70001]
        else:
            maxm = rnd.randint(0, 8)
            lim = rnd.choice([0, rnd.randint(1, 14)])
            sizes = list(range(0, 18))
        req_len = rnd.choice(sizes)
        resp_len = rnd.choice(sizes)
        max_req = rnd.choice([lim, 0, req_len, max(req_len - 1, 0), req_len + 1])
        max_resp = rnd.choice([lim, 0, resp_len, max(resp_len - 1, 0), resp_len + 1])

        def chunked(body):
            out = []
            i = 0
            while i < len(body):
                l = rnd.choice([1, 2, 3, 5, 1000, 32768, 40000]) if big else rnd.randint(1, 6)
                out.append(body[i:i + l])
                i += l
            return out
        buffer_req = rnd.random() < 0.75
        buffer_resp = rnd.random() < 0.75
        abort = buffer_req and rnd.random() < 0.1
        sse = rnd.random() < 0.15
        ctype = None
        if rnd.random() < 0.2:
            # the target's own spelling of the Content-Type: event streams with sloppy parameters (still streams: only the
            # part before the first ';' counts) and near misses (not streams); the model decides from the string
            ctype = rnd.choice(STREAM_TYPES + NEAR_MISSES)
            sse = ctype.split(";")[0] == "text/event-stream"
        rs, ps = rnd.randint(0, 250), rnd.randint(0, 250)
        if k % 12 == 7:
            # a HEAD exchange: the target declares the resource's length (below / at / above max-response-body) and sends no
            # body; status and headers must pass whatever the limit says
            hl = rnd.choice([0, 1, max_resp, max_resp + 1, max_resp + 5000, 70000])
            cases.append({"kind": "req", "buffer_req": buffer_req, "buffer_resp": buffer_resp, "maxm": maxm, "max_req": max_req,
                          "max_resp": max_resp, "req_chunks": [], "abort": False, "resp_status": rnd.choice([200, 200, 404, 302]),
                          "sse": False, "resp_chunks": [], "head_len": hl, "_req": [0, 0], "_resp": [0, 0]})
            continue
        cases.append({
            "kind": "req", "buffer_req": buffer_req, "buffer_resp": buffer_resp, "maxm": maxm,
            "max_req": max_req, "max_resp": max_resp,
            "req_chunks": [c.hex() for c in chunked(body_bytes(rs, req_len))], "abort": abort,
            "resp_status": rnd.choice([200, 200, 201, 404, 500, 302]), "sse": sse, "ctype": ctype,
            "resp_chunks": [c.hex() for c in chunked(body_bytes(ps, resp_len))],
            "_req": [rs, req_len], "_resp": [ps, resp_len],
            # the client offers a protocol upgrade that the target declines (it answers normally): buffered and limited as usual
            "offer_upgrade": (not sse) and rnd.random() < 0.2,
        })
        if rnd.random() < 0.15 and not sse and not abort:
            # informational responses ahead of the final one: they are passed on and do not fix the status
            cases[-1]["interim"] = rnd.choice([[103], [100], [100], [102, 103], [100, 103]])
            cases[-1]["expect_continue"] = 100 in cases[-1]["interim"] and rnd.random() < 0.7
            cases[-1]["offer_upgrade"] = False
    # torn-down exchanges behind a real front server (spill file must be gone afterwards)
    for k in range(6 if tier == "quick" else 60):
        maxm = rnd.choice([10, 100, 1000])
        cases.append({"kind": "abort", "maxm": maxm, "pre": maxm + rnd.choice([1, 50, 5000]), "who": rnd.choice(["target", "client"])})
    return cases


ERR = {"ok": "WOk", "max": "WMaxExceeded", "afterread": "WAfterRead", "other": "WAfterRead"}


def nlist(xs):
    return "[" + ";".join("%d" % x for x in (xs or [])) + "]"


def big_str(bs):
    """Coq term for a possibly large byte string: recognise pattern bodies - also bodies that are a few pattern RUNS one after
    the other (what an implementation that reorders or repeats parts of a pattern body delivers): the term stays small whatever
    the implementation did (a 40 KB literal overflows coqc's stack)."""
    if len(bs) <= 64:
        return str_lit(bs)
    runs, i = [], 0
    while i < len(bs):
        j = i + 1
        while j < len(bs) and bs[j] == (bs[j - 1] + 1) % 251 and bs[j - 1] < 251:
            j += 1
        runs.append((i, j))
        i = j
    parts, lit = [], b""
    for a, b in runs:
        if b - a >= 16 and bs[a] < 251:
            if lit:
                parts.append(str_lit(lit))
                lit = b""
            parts.append("(pat %d %d)" % (bs[a], b - a))
        else:
            lit += bs[a:b]
    if lit:
        parts.append(str_lit(lit))
    if len(parts) > 400:        # not pattern-like at all: literal pieces of 1,000 bytes
        parts = [str_lit(bs[k:k + 1000]) for k in range(0, len(bs), 1000)]
    return parts[0] if len(parts) == 1 else "(" + " ++ ".join(parts) + ")"


STREAM_TYPES = ["text/event-stream", "text/event-stream;", "text/event-stream;charset", "text/event-stream; charset=utf-8",
                "text/event-stream; profile=app/v1", "text/event-stream; charset=utf-8; charset=UTF-8", 'text/event-stream; x="unterminated',
                "text/event-stream;;"]
NEAR_MISSES = ["Text/Event-Stream", "text/event-stream ; charset=utf-8", "text/event-streams", "text/event-strea", "text/plain; text/event-stream",
               "application/json"]


def chunks_lit(hexes):
    return list_lit([big_str(bytes.fromhex(h)) for h in hexes])


def case_term(c, o):
    if c["kind"] == "abort":
        return "CaseAbort %d %d %s %s" % (c["maxm"], c["pre"], nlist(o.get("files_during")), nlist(o["files_after"]))
    if c["kind"] == "buf":
        steps = list_lit(["mkWobs %s %s %s" % (ERR[s["err"]], bool_lit(s["over"]), nlist(s["files"])) for s in o["steps"]])
        obs = "(mkBufObs %s %s %s %s)" % (steps, big_str(bytes.fromhex(o["sent"])), nlist(o["files_after_close"]),
                                          nlist(o["files_after_close2"]))
        return "CaseBuf %d %d %s %s" % (c["maxb"], c["maxm"], chunks_lit(c["chunks"]), obs)
    i = "(mkHttpIn %s %s %d %d %d %s %s %d %s %s)" % (
        bool_lit(c["buffer_req"]), bool_lit(c["buffer_resp"]), c["maxm"], c["max_req"], c["max_resp"],
        chunks_lit(c["req_chunks"]), bool_lit(c["abort"]), c["resp_status"],
        "(event_stream_of %s)" % str_lit(c["ctype"].encode()) if c.get("ctype") else bool_lit(c["sse"]),
        chunks_lit(c["resp_chunks"]))
    obs = "(mkHttpObs %d %s %s %s %s %s)" % (
        o["status"], big_str(bytes.fromhex(o["body"])), bool_lit(o["flushed"]), bool_lit(o["hit"]),
        big_str(bytes.fromhex(o["got"])), nlist(o["files_after"]))
    return "CaseHttp %s %s" % (i, obs)


def run(tier, seed):
    res = Result("C14", tier, seed)
    work = Work("C14")
    try:
        ok, blog = coq_build(["props/C14.vo", "props/C14link.vo", "props/C14ctype.vo", "corr/C14corr.vo", "corr/C14head.vo"])
        proofs_ok, pa = proof_obligations(work, res, "C14.v", ok, blog)
        n1, names1 = res.coverage["obligations"], res.coverage["theorems"]
        d1 = res.coverage["discharged"]
        ok2, pa2 = proof_obligations(work, res, "C14link.v", ok, blog)     # monitor-of-model link theorems
        n2, names2, d2 = res.coverage["obligations"], res.coverage["theorems"], res.coverage["discharged"]
        ok3, pa3 = proof_obligations(work, res, "C14ctype.v", ok, blog)    # what event_stream_of means
        ok2 = ok2 and ok3
        pa2 += pa3
        res.coverage.update({"obligations": n2 + res.coverage["obligations"], "discharged": d2 + res.coverage["discharged"],
                             "theorems": names2 + res.coverage["theorems"]})
        proofs_ok = proofs_ok and ok2
        pa += pa2
        res.coverage.update({"obligations": n1 + res.coverage["obligations"], "discharged": d1 + res.coverage["discharged"],
                             "theorems": names1 + res.coverage["theorems"]})
        cases = gen_cases(seed, tier)
        write_jsonl(work.path("cases.jsonl"), cases)
        rc, out = go_test(work, ["common_test.go", "c14_test.go"], "^TestVerifC14$",
                          {"VERIF_IN": work.path("cases.jsonl"), "VERIF_OUT": work.path("obs.jsonl")})
        harness_ok = rc == 0 and os.path.exists(work.path("obs.jsonl"))
        obs = read_jsonl(work.path("obs.jsonl")) if harness_ok else []
        if harness_ok and len(obs) != len(cases):
            harness_ok = False
        failing = []
        if harness_ok and ok:
            shard = 400
            jobs = []
            for s in range(0, len(cases), shard):
                terms = [case_term(cases[j], obs[j]) for j in range(s, min(s + shard, len(cases)))]
                jobs.append((s, terms))
            from concurrent.futures import ThreadPoolExecutor

            def ev(job):
                s, terms = job
                body = "Definition cases : list c14_case := %s.\nDefinition R := Eval vm_compute in failures cases.\n" % (
                    "[\n" + ";\n".join(terms) + "]")
                txt = coq_eval(work, "Cases_%d" % s,
                               "From KP Require Import model.Base model.Buffer corr.C14corr.\nLocal Open Scope N_scope.", body, "R")
                return s, txt
            with ThreadPoolExecutor(max_workers=16) as ex:
                for s, txt in ex.map(ev, jobs):
                    for (j, a, m) in parse_failures(txt):
                        failing.append((s + j, a, m))
        # HEAD exchanges: status and declared Content-Length reach the client unchanged (corr/C14head.v)
        head_idx = [j for j, c in enumerate(cases) if "head_len" in c]
        head_bad = []
        if harness_ok and ok and head_idx:
            def hn(x):
                return "(Some %d)" % int(x) if (x or "").isdigit() else "None"
            terms = ["(%d, %d, %d, %s)" % (cases[j]["resp_status"], cases[j]["head_len"], obs[j]["status"], hn(obs[j].get("clen"))) for j in head_idx]
            txt = coq_eval(work, "Head", "From KP Require Import model.Base corr.C14head.\nLocal Open Scope N_scope.",
                           "Definition R := Eval vm_compute in c14_head_bad [%s].\n" % "; ".join(terms), "R")
            head_bad = [head_idx[int(x)] for x in re.findall(r"\d+", txt.replace("%nat", ""))]
        kinds = {}
        for c in cases:
            k = c["kind"] + ("/big" if c["kind"] == "req" and c["maxm"] >= 100 else "")
            kinds[k] = kinds.get(k, 0) + 1
        distinct = len({json.dumps(c, sort_keys=True) for c in cases})
        outcomes = {}
        for c, o in zip(cases, obs):
            if c["kind"] == "abort":
                key = "abort:%s spilled=%s left=%s" % (c["who"], bool(o.get("files_during")), bool(o["files_after"]))
            elif c["kind"] == "req":
                key = "status=%s hit=%s" % (o["status"], o["hit"])
            else:
                key = "buf over=%s spill=%s" % (any(s["over"] for s in o["steps"]), any(s["files"] for s in o["steps"]))
            outcomes[key] = outcomes.get(key, 0) + 1
        res.coverage.update({
            "evaluations": len(cases), "distinct_nontrivial": distinct,
            "rule": "exhaustive Buffer-level scope (all limits and all chunkings of short bodies, exhaustive=%s for that part) "
                    "+ random zero-length/rejected-chunk sequences + random Target-level exchanges (small limits, and "
                    "sizes around the 32 KiB copy buffer); a case is distinct by its JSON" % True,
            "input_distribution": kinds, "outcome_distribution": outcomes,
            "samples": [cases[0], cases[len(cases) // 2], cases[-1]],
            "correspondence": {"cases": len(cases), "disagreements": len([f for f in failing if not f[1]]),
                               "monitor_failures": len([f for f in failing if not f[2]])},
            "content_type_spellings": {"event_streams_with_sloppy_parameters": len([c for c in cases if c.get("ctype") in STREAM_TYPES]),
                                       "near_misses": len([c for c in cases if c.get("ctype") in NEAR_MISSES]),
                                       "decided_by": "corr/C14corr.event_stream_of on the Content-Type string"},
            "head_exchanges": {"cases": len([c for c in cases if "head_len" in c]),
                               "declared_length_above_the_response_limit": len([c for c in cases if "head_len" in c and c["buffer_resp"]
                                                                                and 0 < c["max_resp"] < c["head_len"]]),
                               "monitor_failures": len(head_bad),
                               "declared_length_reached_the_client": len([1 for c, o in zip(cases, obs) if "head_len" in c
                                                                          and o.get("clen") == str(c["head_len"])])},
        })
        res.assumptions = [
            "model/Buffer.v is hand-written; tied to buffer.go and the two middlewares only by this correspondence run",
            "net/http, httputil.ReverseProxy and os temp files are not modelled; chunking of response bodies on the wire is not controlled",
        ]
        mon_fail = [f for f in failing if not f[2]]
        disagree = [f for f in failing if f[2] and not f[1]]
        if head_bad and not mon_fail:
            j = head_bad[0]
            res.violation("head-%d" % j, {"property": "C14", "what": "HEAD exchange: the target's status / declared Content-Length did not reach the client "
                                                                   "unchanged (corr/C14head.head_ok)", "case": cases[j], "observed": obs[j], "seed": seed, "tier": tier})
        elif mon_fail:
            j = mon_fail[0][0]
            res.violation("monitor-%d" % j, {"property": "C14", "what": "monitor false on an implementation trace",
                                             "case": cases[j], "observed": obs[j], "seed": seed, "tier": tier})
        elif disagree or not harness_ok or not proofs_ok:
            what = ("model and implementation disagree" if disagree else
                    "harness does not build/run against the tree" if not harness_ok else "proof obligations of props/C14.v do not check")
            payload = {"property": "C14", "what": what, "seed": seed, "tier": tier,
                       "broken": "corr.C14corr.check_case (model/Buffer.v vs buffer.go)" if disagree or not harness_ok else "props/C14.v"}
            if disagree:
                j = disagree[0][0]
                payload.update({"case": cases[j], "observed": obs[j]})
            if not harness_ok:
                payload["harness_output"] = out[-3000:]
            if not proofs_ok:
                payload["coq_output"] = (blog + pa)[-3000:]
            res.violation("broken", payload, no_input=True)
        return res.finish()
    finally:
        work.cleanup()
