"""Dev tool (not a check): does the linkage view model/M5cmd.v accept the real traces?

usage: c03link_dev.py [--seeds 1,2,3] [--n 100] [--no-forced] [--views] [--dump I] [--keep]

Runs, per seed, N random scenarios of the C03 profiles (tools/c03.py PROFILES, generator m5.Gen) and once the
hand-forced schedules of tools/forced.py, all with m5.LINK_EVENTS = True (VERIF_LINK=1: the harness records the
command <-> drain linkage events), and reports how many traces M5cmd.accepted accepts; for a rejected trace the
first rejected event with the events before it and the view's state there.  With --views the same traces are
also offered to M5full (as they are) and M5time (Trace.unlinked).  VERIF_REPO selects the tree (mutation runs).
"""
import sys, os, re, json, random, argparse
sys.path.insert(0, '/verif/tools')
from vlib import Work, coq_eval, coq_build
import m5, forced, c03

SEC = 1000000000


def forced_scenarios():
    return [("d2_served_by_replaced", forced.d2_served_by_replaced()),
            ("d2_refused_during_redeploy", forced.d2_refused_during_redeploy()),
            ("d3_refused_by_pause", forced.d3_refused_by_pause()),
            ("d3_served_while_paused", forced.d3_served_while_paused()),
            ("deploy_waits_for_rotation", forced.deploy_waits_for_rotation()),
            ("pause_drains_stopped_rollout", forced.pause_drains_stopped_rollout()),
            ("drain_grants_the_drain_timeout", forced.drain_grants_the_drain_timeout()),
            ("drain_covers_unhealthy_targets", forced.drain_covers_unhealthy_targets()),
            ("pause_covers_unhealthy_targets", forced.pause_covers_unhealthy_targets()),
            ("drain_cuts_connections_upgraded_during_the_drain", forced.drain_cuts_connections_upgraded_during_the_drain()),
            ("stale_probe_result_after_the_deploy", forced.stale_probe_result_after_the_deploy()),
            ("pause_after_stop_still_holds", forced.pause_after_stop_still_holds()),
            ("pause_after_stop_still_holds(first_pause)", forced.pause_after_stop_still_holds(first_pause=True)),
            ("rollout_redeploy_grants_the_drain_timeout", forced.rollout_redeploy_grants_the_drain_timeout()),
            ("rollout_redeploy_grants_the_drain_timeout(5s,1s)",
             forced.rollout_redeploy_grants_the_drain_timeout(deploy_timeout=5 * SEC, drain_timeout=SEC)),
            ("record_of_an_ended_request_is_not_the_new_one", forced.record_of_an_ended_request_is_not_the_new_one()),
            ("streamed_response_runs_on_while_draining", forced.streamed_response_runs_on_while_draining())]


def items_of(events):
    """the event list as trace_term numbers it (names and params are extra items)"""
    items, seen = [], set()
    for e in events:
        if m5.kind_term(e) is None:
            continue
        for a in e["args"]:
            for x in (a if isinstance(a, list) else [a]):
                if isinstance(x, str) and re.fullmatch(r"[ST]\d+:.*", x, re.S) and x not in seen:
                    seen.add(x)
                    items.append(("name", x))
        items.append(e)
        if e["kind"] == "issue" and len(e["args"]) >= 6:
            items.append(("params", e["args"]))
    return items


def evaluate(work, tag, events, views):
    body = ("Definition tr : trace := %s.\n"
            "Definition R := Eval vm_compute in (match first_reject M5cmd.step M5cmd.init tr 0 with None => None | Some k => "
            "Some (k, nth_error tr k, match run M5cmd.step M5cmd.init (firstn k tr) with Some st => Some (M5cmd.dbg st) | None => None end) end"
            "%s).\n") % (m5.trace_term(events), ", M5full.accepted tr, M5time.accepted (unlinked tr)" if views else ", true, true")
    return coq_eval(work, tag, "From KP Require Import model.Base model.Trace.\nFrom KP Require model.M5cmd model.M5full model.M5time.",
                    body, "R")


def main():
    ap = argparse.ArgumentParser()
    ap.add_argument("--seeds", default="1,2,3")
    ap.add_argument("--n", type=int, default=100)
    ap.add_argument("--no-forced", action="store_true")
    ap.add_argument("--views", action="store_true", help="also M5full.accepted tr and M5time.accepted (unlinked tr)")
    ap.add_argument("--dump", type=int, default=None, help="print the Coq term of trace I and stop")
    ap.add_argument("--keep", action="store_true")
    ap.add_argument("--show", type=int, default=5, help="how many rejections to print in full")
    a = ap.parse_args()
    ok, log = coq_build(["model/M5cmd.vo", "model/M5full.vo", "model/M5time.vo"])
    if not ok:
        print(log[-3000:])
        sys.exit(2)
    m5.LINK_EVENTS = True
    scen = []
    if not a.no_forced:
        scen += [("forced:" + n, s) for n, s in forced_scenarios()]
    for seed in [int(x) for x in a.seeds.split(",") if x]:
        rnd = random.Random(seed)
        for i in range(a.n):
            prof = rnd.choice(c03.PROFILES)
            scen.append(("seed%d:%d" % (seed, i), m5.Gen(rnd, prof).gen(rnd.randint(*prof.get("actions", (12, 45))))))
    work = Work("c03link")
    try:
        okr, gout, outs = m5.run_scenarios(work, [s for _, s in scen])
        if not okr:
            print("harness run failed:\n" + gout[-3000:])
            sys.exit(2)
        if a.dump is not None:
            print(m5.trace_term(outs[a.dump]["events"]))
            return
        from concurrent.futures import ThreadPoolExecutor
        nev = sum(len(o["events"]) for o in outs)
        kinds = {}
        cmdres = {}
        for o in outs:
            for e in o["events"]:
                if e["kind"] in m5.LINK_KINDS:
                    kinds[e["kind"]] = kinds.get(e["kind"], 0) + 1
            for r in o["results"]:
                if "result" in r and r.get("op") != "request":
                    k = "%s:%s" % (r["op"], "ok" if r["result"] in ("ok", "", None) else "err")
                    cmdres[k] = cmdres.get(k, 0) + 1
        parked = sum(1 for o in outs if any(e["kind"] == "parked" for e in o["events"]))
        with ThreadPoolExecutor(max_workers=12) as ex:
            res = list(ex.map(lambda i: evaluate(work, "lk_%d" % i, outs[i]["events"], a.views), range(len(outs))))
        rej, full_rej, time_rej, shown = 0, 0, 0, 0
        for i, txt in enumerate(res):
            m = re.match(r"\((.*),\s*(true|false),\s*(true|false)\)\s*$", txt.strip(), re.S)
            first, fa, ta = m.group(1).strip(), m.group(2), m.group(3)
            full_rej += fa == "false"
            time_rej += ta == "false"
            if fa == "false" or ta == "false":
                print("trace %d (%s): M5full %s, M5time(unlinked) %s" % (i, scen[i][0], fa, ta))
            if first != "None":
                rej += 1
                k = int(re.search(r"(\d+)", first).group(1))
                items = items_of(outs[i]["events"])
                print("REJECTED trace %d (%s) at item %d: %s" % (i, scen[i][0], k, items[k] if k < len(items) else None))
                if shown < a.show:
                    shown += 1
                    for it in items[max(0, k - 25):k + 1]:
                        if isinstance(it, dict):
                            print("      %.9f %-6s %-18s %s" % (it["t"] / 1e9, it["g"], it["kind"], it["args"]))
                    print("   view: " + first[:2500])
        print("link events: %s" % json.dumps(kinds, sort_keys=True))
        print("command results: %s; traces with parked goroutines: %d" % (json.dumps(cmdres, sort_keys=True), parked))
        print("traces %d (events %d): M5cmd accepted %d, rejected %d%s" %
              (len(outs), nev, len(outs) - rej, rej,
               ("; M5full rejected %d; M5time(unlinked) rejected %d" % (full_rej, time_rej)) if a.views else ""))
    finally:
        if not a.keep:
            work.cleanup()
        else:
            print("kept", work.dir)


if __name__ == "__main__":
    main()
