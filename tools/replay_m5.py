#!/usr/bin/env python3
"""Re-run the scenario of a trace-based replay file (C01-C03, C07, C09, C17) on the real code and print its event trace.
usage: replay_m5.py <replay.json> [filter-substring ...]     (VERIF_REPO selects the tree)"""
import json
import sys

import m5
from vlib import Work


def main():
    d = json.load(open(sys.argv[1]))
    sc = d.get("scenario") or d.get("scenario_that_did_not_end", {}).get("scenario")
    flt = sys.argv[2:]
    work = Work("replay")
    try:
        ok, gout, outs = m5.run_scenarios(work, [sc])
        if not ok:
            print(gout[-3000:])
            return 1
        for i, e in enumerate(outs[0]["events"]):
            line = "%4d %12d %-8s %-18s %s" % (i, e["t"], e["g"], e["kind"], json.dumps(e["args"]))
            if not flt or any(f in line for f in flt):
                print(line)
        for r in outs[0]["results"]:
            if r.get("op") in ("request",) or "result" in r:
                print("RESULT", {k: r[k] for k in r if k in ("id", "op", "status", "result", "served_by", "t0", "t1")})
        return 0
    finally:
        work.cleanup()


if __name__ == "__main__":
    sys.exit(main())
