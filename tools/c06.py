"""C06 — a command that fails changes nothing and leaves nothing running."""
from m4check import run_property


def D(name, hosts, targets, prefixes=()):
    return {"op": "deploy", "name": name, "hosts": hosts, "prefixes": list(prefixes), "tls": False, "tls_redirect": False, "strip": True,
            "cert": "none", "pages": "none", "topts": 0, "targets": [{"name": t, "healthy": ok} for t, ok in targets]}


def directed():
    """failing commands whose clean-up must not touch what is live: a host conflict on the redeploy of a service that HAS rollout
    targets (their probing must go on); failing deploys / rollout deploys that name one target twice (nothing may keep probing
    it); a failing rollout deploy beside live active targets"""
    h, g = b"a.example.com", b"b.example.com"
    rd = lambda name, targets: {"op": "rollout_deploy", "name": name, "targets": [{"name": t, "healthy": ok} for t, ok in targets]}
    return [
        [D(b"web", [h], [(b"ta:80", True), (b"tb:80", True)]), rd(b"web", [(b"tc:8080", True)]), D(b"api", [g], [(b"td:80", True)]),
         D(b"web", [g], [(b"te:80", True)]), {"op": "rollout_set", "name": b"web", "pct": 100, "allow": []},
         D(b"web", [h, g], [(b"tf_1:80", True)]), rd(b"web", [(b"tg:80", True)])],
        [D(b"web", [h], [(b"ta:80", True)]), D(b"api", [g], [(b"tx_1:80", False), (b"tx_1:80", False)]),
         D(b"web", [h], [(b"ty_1:80", False), (b"tb:80", True), (b"ty_1:80", False)]),
         rd(b"web", [(b"tz_1:80", False), (b"tz_1:80", False)]), D(b"api", [g], [(b"tc:80", True), (b"tc:80", True)])],
        [D(b"web", [h], [(b"ta:80", True)]), rd(b"web", [(b"tb:80", True), (b"tc_1:80", False)]), rd(b"web", [(b"tb:80", True)]),
         D(b"api", [h], [(b"td:80", True)]), rd(b"web", [(b"te_1:80", False)])],
        # a failing rollout deploy on a service whose rollout targets carry traffic (split in force): the rollout group must stay
        # on them, `rollout set` must go on working, and the next snapshot must still list them
        [D(b"web", [h], [(b"ta:80", True)]), rd(b"web", [(b"tb:80", True)]), {"op": "rollout_set", "name": b"web", "pct": 100, "allow": [b"alice"]},
         rd(b"web", [(b"te_1:80", False)]), {"op": "rollout_set", "name": b"web", "pct": 50, "allow": [b"alice"]},
         rd(b"web", [(b"tc:8080", True), (b"tg_1:80", False)]), D(b"api", [g], [(b"td:80", True)])],
    ]


def run(tier, seed):
    return run_property(
        "C06", tier, seed, ["C06.v", "M4link.v"], ["props/C06.vo", "props/M4link.vo"],
        profile={"deploy": 6, "deploy_fail": 9, "redeploy_same_fail": 5, "remove": 2, "restart": 1, "rollout_deploy": 3, "rollout_set": 3,
                 "rollout_stop": 1, "pause": 2, "stop": 2, "resume": 2},
        monitor="c06_ok None h", n_quick=40, n_thorough=600, fixed=directed())
