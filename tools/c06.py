"""C06 — a command that fails changes nothing and leaves nothing running."""
import json
import os

from m4check import run_property
from vlib import *


def D(name, hosts, targets, prefixes=()):
    return {"op": "deploy", "name": name, "hosts": hosts, "prefixes": list(prefixes), "tls": False, "tls_redirect": False, "strip": True,
            "cert": "none", "pages": "none", "topts": 0, "targets": [{"name": t, "healthy": ok} for t, ok in targets]}


def directed():
    """failing commands whose clean-up must not touch what is live: a host conflict on the redeploy of a service that HAS rollout
    targets (their probing must go on); failing deploys / rollout deploys that name one target twice (nothing may keep probing
    it); a failing rollout deploy beside live active targets"""
    h, g = b"a.example.com", b"b.example.com"
    rd = lambda name, targets: {"op": "rollout_deploy", "name": name, "targets": [{"name": t, "healthy": ok} for t, ok in targets]}
    return [
        [D(b"web", [h], [(b"ta:80", True), (b"tb:80", True)]), rd(b"web", [(b"tc:8080", True)]), D(b"api", [g], [(b"td:80", True)]),
         D(b"web", [g], [(b"te:80", True)]), {"op": "rollout_set", "name": b"web", "pct": 100, "allow": []},
         D(b"web", [h, g], [(b"tf_1:80", True)]), rd(b"web", [(b"tg:80", True)])],
        [D(b"web", [h], [(b"ta:80", True)]), D(b"api", [g], [(b"tx_1:80", False), (b"tx_1:80", False)]),
         D(b"web", [h], [(b"ty_1:80", False), (b"tb:80", True), (b"ty_1:80", False)]),
         rd(b"web", [(b"tz_1:80", False), (b"tz_1:80", False)]), D(b"api", [g], [(b"tc:80", True), (b"tc:80", True)])],
        [D(b"web", [h], [(b"ta:80", True)]), rd(b"web", [(b"tb:80", True), (b"tc_1:80", False)]), rd(b"web", [(b"tb:80", True)]),
         D(b"api", [h], [(b"td:80", True)]), rd(b"web", [(b"te_1:80", False)])],
        # a failing rollout deploy on a service whose rollout targets carry traffic (split in force): the rollout group must stay
        # on them, `rollout set` must go on working, and the next snapshot must still list them
        [D(b"web", [h], [(b"ta:80", True)]), rd(b"web", [(b"tb:80", True)]), {"op": "rollout_set", "name": b"web", "pct": 100, "allow": [b"alice"]},
         rd(b"web", [(b"te_1:80", False)]), {"op": "rollout_set", "name": b"web", "pct": 50, "allow": [b"alice"]},
         rd(b"web", [(b"tc:8080", True), (b"tg_1:80", False)]), D(b"api", [g], [(b"td:80", True)])],
        # a refused redeploy that names the SAME targets with the same target options as the live service (only the hosts differ,
        # one of them owned by another service): whatever the failure path cleans up, the live targets must go on being probed
        [D(b"web", [h], [(b"ta:80", True), (b"tb:80", True)]), D(b"api", [g], [(b"td:80", True)]),
         D(b"web", [h, g], [(b"ta:80", True), (b"tb:80", True)]), D(b"web", [g], [(b"ta:80", True), (b"tb:80", True)]),
         dict(D(b"web", [h], [(b"ta:80", True), (b"tb:80", True)]), pages="bad"), rd(b"web", [(b"tc:8080", True)]),
         D(b"web", [h, g], [(b"ta:80", True), (b"tb:80", True)]), rd(b"web", [(b"tc:8080", True), (b"tx_1:80", False)])],
        # a failing deploy one of whose targets was healthy for a moment and is out of the rotation again when the deploy gives up
        # (beside one that never answers): nothing may keep probing either of them; the same for a rollout deploy
        [D(b"web", [h], [(b"ta:80", True)]),
         dict(D(b"web", [h], [(b"tf_1:80", False), (b"tn_1:80", False)]),
              targets=[{"name": b"tf_1:80", "healthy": False, "probes": ["ok", "refused"]}, {"name": b"tn_1:80", "healthy": False}]),
         {"op": "rollout_deploy", "name": b"web", "targets": [{"name": b"tg_1:80", "healthy": False, "probes": ["ok", "status:500"]},
                                                             {"name": b"tm_1:80", "healthy": False}]},
         D(b"api", [g], [(b"tb:80", True)])],
        # failing redeploys that keep the service options and change only the TARGET options (health path, buffering, timeouts):
        # the live service keeps the target options it had - seen at the next snapshot, after a restart, and by a rollout deploy
        # (whose targets get the service's target options)
        [D(b"web", [h], [(b"ta:80", True)]), dict(D(b"web", [h], [(b"tx_1:80", False)]), topts=1), {"op": "pause", "name": b"web", "fail_after": 1000000000},
         {"op": "resume", "name": b"web"}, dict(D(b"web", [h], [(b"ty_1:80", False), (b"tb:80", True)]), topts=2),
         rd(b"web", [(b"tc:8080", True)]), {"op": "restart"}, dict(D(b"web", [h], [(b"tz_1:80", False)]), topts=1), {"op": "restart"},
         dict(D(b"web", [h], [(b"td:80", True)]), topts=1)],
    ]


FAULT_CMDS = ["deploy_new", "redeploy", "redeploy_move", "deploy_unhealthy", "deploy_conflict", "rollout_deploy", "rollout_set",
              "rollout_stop", "pause", "stop", "resume", "remove"]


def fault_cases(res, work, tier):
    """Every command under a file-system fault that makes the snapshot fail (and, for reference, without one): a command that
    reports an error must have changed nothing (corr/C06fault.c06_fault_ok); the result must be the one without the fault (the
    pinned code ignores a failed snapshot)."""
    import m4x
    from vlib import coq_build
    cases = [{"cmd": c, "fault": f} for c in FAULT_CMDS for f in ("none", "tmpdir", "statedir")]
    write_jsonl(work.path("fault.jsonl"), cases)
    rc, out = go_test(work, ["common_test.go", "sim_test.go", "simrun_test.go", "assets_test.go", "c06_fault_test.go"], "^TestVerifC06Fault$",
                      {"VERIF_IN": work.path("fault.jsonl"), "VERIF_OUT": work.path("fault-out.jsonl"), "GODEBUG": "", "GOGC": "100"},
                      timeout=600, synctest=True)   # synctest only so that the shared harness files compile
    if rc != 0 or not os.path.exists(work.path("fault-out.jsonl")):
        return False, [], out
    rows = read_jsonl(work.path("fault-out.jsonl"))
    ok, blog = coq_build(["corr/C06fault.vo"])
    if not ok or len(rows) != len(cases):
        return False, [], blog if not ok else out
    ref = {r["cmd"]: r["result"] for r in rows if r["fault"] == "none"}
    terms = ["(mkFobs %s %s %s %s, %s, %s)" % (bool_lit(r["err"]), bool_lit(r["same_list"]), bool_lit(r["same_config"]), bool_lit(r["same_routing"]),
                                               str_lit(r["result"].encode()), str_lit(ref[r["cmd"]].encode())) for r in rows]
    vals = m4x.coq_map(work, "From KP Require Import model.Base corr.C06fault.", "", terms,
                       "fun x => match x with (o, a, b) => (c06_fault_ok o, c06_fault_agrees a b) end", "C06fault", shard=40)
    bad = [dict(r, what="a command that reported an error changed the list / a service's configuration / the routing (state file cannot be "
                        "replaced: %s)" % r["fault"], replay_note="harness/c06_fault_test.go TestVerifC06Fault, case cmd=%s fault=%s" % (r["cmd"], r["fault"]))
           for r, v in zip(rows, vals) if not v[0]]
    differ = [r for r, v in zip(rows, vals) if v[0] and not v[1]]
    mix = {}
    for r in rows:
        k = "%s/%s" % (r["fault"], r["result"].split(":")[0])
        mix[k] = mix.get(k, 0) + 1
    res.coverage["file_system_faults"] = {"cases": len(rows), "commands": len(FAULT_CMDS), "faults": ["none", "tmpdir", "statedir"],
                                          "result_mix": mix, "monitor_failures": len(bad), "results_differing_from_the_fault_free_run": len(differ)}
    if bad:
        return True, bad, out
    if differ:
        return False, [], "CORRESPONDENCE: under a failing snapshot a command's result differs from its result without the fault (the pinned code ignores a failed snapshot): " + json.dumps(differ[0])[:1500]
    return True, [], out


def race_cases(res, work, tier):
    """Commands that fail because another command got in between (harness/c06_race_test.go, real scheduler): the targets named
    by the failed command are no longer probed, the targets the table still holds still are."""
    outp = work.path("c06race.jsonl")
    rc, out = go_test(work, ["common_test.go", "sim_test.go", "simrun_test.go", "assets_test.go", "c06_race_test.go"], "^TestVerifC06Race$",
                      {"VERIF_OUT": outp, "VERIF_ROUNDS": "24" if tier == "quick" else "240", "GODEBUG": "", "GOGC": "100"},
                      timeout=900, synctest=True)   # synctest only so that the shared harness files compile
    if rc != 0 or not os.path.exists(outp):
        return False, [], out
    rows = read_jsonl(outp)
    bad = [dict(r, what="a command that failed because another command got in between (real scheduler): the proxy keeps probing the targets "
                        "the failed command named, or has stopped probing targets the table still holds",
                replay_note="go test -run TestVerifC06Race (harness/c06_race_test.go), real scheduler, round %d" % r["round"])
           for r in rows if r["rejected_targets_still_probed"] or r["live_targets_no_longer_probed_after_a_failed_command"]]
    mix = {}
    for r in rows:
        k = "%s: %s" % (r["shape"], " ".join("%s=%s" % (c, r[c]) for c in ("remove", "deploy", "rollout_deploy") if c in r))
        mix[k] = mix.get(k, 0) + 1
    res.coverage["commands_failing_because_of_another_command"] = {"rounds": len(rows), "outcomes": mix,
                                                                  "rounds_with_a_failed_command": sum(1 for r in rows if r["a_command_failed"]),
                                                                  "bad_rounds": len(bad)}
    return True, bad, out


def both_extras(res, work, tier):
    ok, bad, out = fault_cases(res, work, tier)
    if not ok or bad:
        return ok, bad, out
    return race_cases(res, work, tier)


def run(tier, seed):
    return run_property(
        "C06", tier, seed, ["C06.v", "M4link.v"], ["props/C06.vo", "props/M4link.vo"],
        profile={"deploy": 6, "deploy_fail": 9, "redeploy_same_fail": 5, "remove": 2, "restart": 1, "rollout_deploy": 3, "rollout_set": 3,
                 "rollout_stop": 1, "pause": 2, "stop": 2, "resume": 2},
        monitor="c06_ok None h", n_quick=40, n_thorough=600, fixed=directed(), extra=both_extras)
