"""C06 — a command that fails changes nothing and leaves nothing running."""
from m4check import run_property


def run(tier, seed):
    return run_property(
        "C06", tier, seed, ["C06.v", "M4link.v"], ["props/C06.vo", "props/M4link.vo"],
        profile={"deploy": 6, "deploy_fail": 9, "redeploy_same_fail": 5, "remove": 2, "restart": 1, "rollout_deploy": 3, "rollout_set": 3,
                 "rollout_stop": 1, "pause": 2, "stop": 2, "resume": 2},
        monitor="c06_ok None h", n_quick=40, n_thorough=600)
