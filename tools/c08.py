"""C08 — a stopped service answers 503 with the operator's message until
resumed.  Proof obligations of props/C08.v; correspondence of model/Seq.v +
model/Html.v with the real router on histories of stop / pause / resume /
deploy / rollout commands (virtual clock), including byte-for-byte comparison
of every 503 body with render503; the monitor corr/C08corr.c08_monitor on the
observed histories."""
import collections
import random

import m4
import m4x
from vlib import *

SEC = m4.SEC
PROFILE = {"deploy": 6, "deploy_fail": 1, "rollout_deploy": 2, "rollout_set": 1, "rollout_stop": 1,
           "pause": 2, "stop": 7, "resume": 4, "remove": 1, "restart": 1}

MARKUP = [b"<b>", b"</p>", b"<script>alert(1)</script>", b"<!--", b"-->", b"<img src=x onerror=alert(1)>", b"<", b">",
          b"\"", b"'", b"&", b"&amp;", b"&lt;", b"&#34;", b"&#x3c;", b"&unknown;", b"+", b"=", b"`", b"\\", b"%s", b";"]
TEMPLATE = [b"{{", b"}}", b"{{ .Message }}", b"{{.Message}}", b"{{ if .Message }}x{{ end }}", b"{{ template \"404.html\" . }}",
            b"{{/* c */}}", b"{{ define \"503.html\" }}owned{{ end }}", b"{{ . }}", b"{{ printf \"%s\" .Message }}", b"{{-", b"-}}"]
TEXT = [b"down for maintenance", b"back at 10:00", b" ", b"\r\n", b"\t", "café".encode(), "日本語".encode(),
        "\U0001f600".encode(), b"\xef\xbf\xbd", " ".encode(), b"\x7f", b"\x01"]
NUL = [b"\x00", b"a\x00b"]
INVALID = [b"\xff", b"\xc3", b"\xe2\x82", b"\xc0\xaf", b"\xed\xa0\x80", b"\xf5", b"\x80", b"\xf0\x9f\x98", b"\xc3<", b"\xe2&\x82"]


def gen_msg(rnd, raw):
    """Stop message from the grammar; raw=True also draws bytes that are not valid UTF-8."""
    x = rnd.random()
    if x < 0.12:
        return b""
    pools = [MARKUP, TEMPLATE, TEXT, TEXT, NUL] + ([INVALID, INVALID] if raw else [])
    if x < 0.2:   # long text
        out = b""
        while len(out) < rnd.choice([600, 2000, 5000]):
            out += rnd.choice(rnd.choice(pools)) + rnd.choice([b"", b" "])
        return out
    return b"".join(rnd.choice(rnd.choice(pools)) for _ in range(rnd.randint(1, 6)))


def msg_class(m):
    c = []
    if m == b"":
        return "empty"
    if any(ch in m for ch in (b"<", b">", b"&", b"\"", b"'", b"+")):
        c.append("markup")
    if b"{{" in m:
        c.append("template")
    if b"\x00" in m:
        c.append("nul")
    if not m4x.go_valid_utf8(m):
        c.append("invalid-utf8")
    elif any(b >= 0x80 for b in m):
        c.append("utf8")
    if len(m) > 500:
        c.append("long")
    return "+".join(c) or "plain"


def concrete(h):
    if h == b"":
        return b"whatever.test"
    return h.replace(b"*", b"sub")


def gen_matrix(rnd, hist, i, k):
    """Requests sent after command i: aimed at the services deployed so far."""
    latest = {}
    for c in hist[:i + 1]:
        if c["op"] == "deploy":
            latest[c["name"]] = c
        elif c["op"] == "remove" and rnd.random() < 0.7:
            latest.pop(c["name"], None)
    deployed = list(latest.values()) or [c for c in hist[:i + 1] if c["op"] == "deploy"]
    reqs = []
    for _ in range(k):
        c = rnd.choice(deployed) if deployed else None
        host = concrete(rnd.choice(c["hosts"] or [b""])) if c and rnd.random() < 0.93 else b"unknown.org"
        if rnd.random() < 0.2:
            host += rnd.choice([b":80", b":8080"])
        pre = b"/" + rnd.choice((c["prefixes"] if c else None) or [b"/"]).strip(b"/")
        health = m4.TOPTS[c["topts"]]["health_path"] if c else b"/up"
        x = rnd.random()
        if pre == b"/":
            if x < 0.4:
                uri = health + rnd.choice([b"", b"", b"?x=1"])
            elif x < 0.55:
                uri = rnd.choice([b"/up", b"/health", b"/up/", b"/upx", b"/UP", b"/health/", b"/healthz", b"//up"])
            else:
                uri = rnd.choice([b"/", b"/other?q=1", b"/docs/a", b"/x/y"])
        else:
            if x < 0.35:
                uri = pre
            elif x < 0.8:
                uri = pre + rnd.choice([b"/x", b"/", health, b"/a/b?c=d"])
            else:
                uri = rnd.choice([health, b"/", pre + b"x"])
        reqs.append({"host": host, "uri": uri, "tls": rnd.random() < 0.25,
                     "cookie": rnd.choice([None, None, None, b"alice", b"zed"]),
                     "method": rnd.choice(["GET", "GET", "GET", "POST", "HEAD", "PUT"])})
    return reqs


def gen_histories(seed, tier):
    rnd = random.Random(seed)
    n_clean, n_raw = (72, 24) if tier == "quick" else (900, 300)
    hists, mats, raws = [], [], []
    for j in range(n_clean + n_raw):
        raw = j >= n_clean
        prof = dict(PROFILE)
        if raw:
            prof["restart"] = 0      # the state file cannot hold such a message (see assumptions)
        h = m4.gen_history(rnd, rnd.randint(5, 12), prof)
        if not any(c["op"] == "deploy" for c in h[:2]):
            h.insert(0, m4.gen_history(rnd, 1, {k: 0 for k in prof} | {"deploy": 1})[0])
        seen = []
        for c in h:
            if c["op"] == "deploy":
                if c["name"] not in seen:
                    seen.append(c["name"])
            elif "name" in c and seen and rnd.random() < 0.85:
                c["name"] = rnd.choice(seen)      # aim the command at a service that was deployed
            if c["op"] == "stop":
                c["msg"] = gen_msg(rnd, raw)
        hists.append(h)
        mats.append([gen_matrix(rnd, h, i, 7) for i in range(len(h))])
        raws.append(raw)
    return hists, mats, raws


PAGE_RE = re.compile(rb"\A(.*)\{\{ if \.Message \}\}(.*?)\{\{ \.Message \}\}(.*?)\{\{ else \}\}(.*?)\{\{ end \}\}(.*)\Z", re.S)


def read_page():
    """internal/pages/503.html cut at its {{ if .Message }} block; None when the
    file no longer has that shape."""
    try:
        data = open(os.path.join(REPO, "internal/pages/503.html"), "rb").read()
    except OSError:
        return None
    m = PAGE_RE.match(data)
    if not m or any(b"{{" in g or b"}}" in g for g in m.groups()):
        return None
    return m.groups()


CUSTOM = (b"custom503[", b"]")


def custom_page_ok():
    src = open(os.path.join(HARNESS, "assets_test.go"), "rb").read()
    return b'"custom503[{{ .Message }}]"' in src


IMPORTS = ("From KP Require Import model.Base model.ServiceMap model.Seq model.Html corr.M4corr corr.C08corr.\n"
           "Local Open Scope N_scope.\n")


def gen_held(rnd, n):
    """Requests that are being held by a pause when the stop arrives (a second pause in between in half of the cases): once the
    stop has taken effect each of them must have been answered 503 with the rendered message (200 for GET health), none forwarded,
    none left to run into the pause timeout; after a resume the service forwards again."""
    H = m4.H
    out = []
    for i in range(n):
        custom = i % 2 == 1
        to = rnd.randrange(len(m4.TOPTS))
        health = m4.TOPTS[to]["health_path"]
        prefix = rnd.choice([None, None, b"/app"])
        msg = gen_msg(rnd, False)
        dep = {"op": "deploy", "id": "c0", "name": H(b"web"), "hosts": [H(b"a.example.com")], "prefixes": [H(prefix)] if prefix else [],
               "tls": False, "tls_redirect": False, "strip": rnd.random() < 0.5, "cert": "none", "pages": "good" if custom else "none",
               "targets": [{"name": H(b"ta:80"), "probes": ["ok"]}], "deploy_timeout": m4.DEPLOY_TIMEOUT, "drain_timeout": SEC,
               "topts": {k: (H(v) if isinstance(v, bytes) else v) for k, v in m4.TOPTS[to].items() if k != "tag"}}
        steps, reqs = [dep], []

        def request(kind):
            rid = "h%d" % len(reqs)
            base = prefix or b""
            if kind == "health":
                method, uri = "GET", (health if not prefix else rnd.choice([health, base + health]))
                # only a GET whose path is exactly the health path is exempt; under a prefix the service is not even routed for it
                if prefix and uri == health:
                    uri = base + b"/x"
                    kind = "plain"
                elif prefix:
                    kind = "plain"       # /app/up is not the health path /up
            if kind == "plain":
                method = rnd.choice(["GET", "POST", "PUT", "HEAD"]) if not prefix else rnd.choice(["GET", "POST"])
                uri = base + rnd.choice([b"/", b"/x?y=1", b"/docs/a"]) if not (prefix and reqs and False) else base + b"/x"
            if kind == "posthealth":
                method, uri = "POST", base + health
            steps.append({"op": "request", "id": rid, "async": True, "host": H(b"a.example.com"), "uri": H(uri), "tls": False,
                          "method": method, "headers": []})
            reqs.append({"id": rid, "health": kind == "health" and method == "GET", "method": method})
        steps.append({"op": "pause", "id": "c1", "name": H(b"web"), "fail_after": rnd.choice([20, 30]) * SEC, "drain_timeout": SEC})
        for _ in range(rnd.randint(1, 3)):
            request(rnd.choice(["plain", "plain", "health", "posthealth"]))
        steps.append({"op": "sleep", "ns": rnd.choice([SEC // 10, SEC])})
        if i % 4 >= 2:      # the pause is repeated while requests are waiting
            steps.append({"op": "pause", "id": "c2", "name": H(b"web"), "fail_after": rnd.choice([20, 40]) * SEC, "drain_timeout": SEC})
            for _ in range(rnd.randint(0, 2)):
                request(rnd.choice(["plain", "health"]))
            steps.append({"op": "sleep", "ns": SEC // 2})
        steps.append({"op": "stop", "id": "c3", "name": H(b"web"), "msg": H(msg), "drain_timeout": SEC})
        n_held = len(reqs)
        steps.append({"op": "sleep", "ns": SEC})
        request("plain")             # arrives while stopped
        steps.append({"op": "sleep", "ns": 45 * SEC})       # anything still waiting runs into its pause timeout (504)
        steps.append({"op": "resume", "id": "c4", "name": H(b"web")})
        steps.append({"op": "request", "id": "after", "async": False, "host": H(b"a.example.com"), "uri": H((prefix or b"") + b"/x"),
                      "tls": False, "method": "GET", "headers": []})
        out.append({"scenario": {"steps": steps}, "reqs": reqs, "custom": custom, "msg": msg, "held": n_held, "repeat": i % 4 >= 2})
    return out


CUSTOM2 = (b"second503((", b"))")


def gen_pages(rnd, n):
    """The operator REPLACES the custom error pages in place (same directory) between deploys, services are deployed with the
    directory that has a 503 page / one without / none, stopped, resumed, asked.  What each request must be answered is NOT
    decided here: the history is handed to model/Pages.v as a list of operations (`pops`, Coq terms) and corr/C08pages.c08_pages_bad
    compares the model's answers with the observed ones (`asks`: request ids in the order of the PAsk operations)."""
    H = m4.H
    SV = {b"web": (0, b"a.example.com", b""), b"api": (1, b"b.example.com", b""), b"app": (2, b"a.example.com", b"/app")}
    out = []
    for i in range(n):
        steps, pops, asks = [], [], []
        ncmd, ntgt = [0], [0]

        def cid():
            ncmd[0] += 1
            return "c%d" % ncmd[0]

        def deploy(name, pages="good"):
            k, host, base = SV[name]
            ntgt[0] += 1
            steps.append({"op": "deploy", "id": cid(), "name": H(name), "hosts": [H(host)], "prefixes": [H(base)] if base else [], "tls": False,
                          "tls_redirect": False, "strip": False, "cert": "none", "pages": pages,
                          "targets": [{"name": H(b"t%d:80" % ntgt[0]), "probes": ["ok"]}],
                          "deploy_timeout": m4.DEPLOY_TIMEOUT, "drain_timeout": SEC,
                          "topts": {k2: (H(v) if isinstance(v, bytes) else v) for k2, v in m4.TOPTS[0].items() if k2 != "tag"}})
            pops.append("PDeploy %d %s" % (k, {"good": "DGood", "partial": "DPartial", "none": "DNone"}[pages]))

        def ask(name):
            k, host, base = SV[name]
            rid = "p%d" % len(asks)
            steps.append({"op": "request", "id": rid, "async": False, "host": H(host), "uri": H(base + rnd.choice([b"/", b"/x?y=1"])), "tls": False,
                          "method": rnd.choice(["GET", "POST"]), "headers": []})
            pops.append("PAsk %d" % k)
            asks.append(rid)

        def stop(name):
            msg = gen_msg(rnd, False)
            steps.append({"op": "stop", "id": cid(), "name": H(name), "msg": H(msg), "drain_timeout": SEC})
            pops.append("PStop %d %s" % (SV[name][0], str_lit(msg)))

        def resume(name):
            steps.append({"op": "resume", "id": cid(), "name": H(name)})
            pops.append("PResume %d" % SV[name][0])

        def write(v):
            steps.append({"op": "write_pages", "version": v})
            pops.append("PWrite %d" % v)

        def stopped(name):
            stop(name)
            for _ in range(rnd.randint(1, 2)):
                ask(name)
            resume(name)
            if rnd.random() < 0.5:
                ask(name)
        variant = i % 7
        if variant == 4:      # custom pages for other statuses only (no 503.html): root-path service and one under a prefix
            deploy(b"web", "partial")
            deploy(b"app", "partial")
            stopped(b"web")
            stopped(b"app")
        elif variant < 4:
            deploy(b"web")
            stopped(b"web")
            write(2)
            if variant == 0:      # redeploy: the new page
                deploy(b"web")
                stopped(b"web")
            elif variant == 1:    # no redeploy: the page read at deploy time stays
                stopped(b"web")
            elif variant == 2:    # another service deployed after the replacement; the first keeps its page
                deploy(b"api")
                stopped(b"api")
                stopped(b"web")
            else:                 # replaced twice, redeployed each time; a redeploy while stopped keeps the message
                deploy(b"web")
                stop(b"web")
                ask(b"web")
                write(1)
                deploy(b"web")
                ask(b"web")
                resume(b"web")
                ask(b"web")
        else:                     # random histories over the three services
            live = []
            for _ in range(rnd.randint(8, 16)):
                k = rnd.random()
                name = rnd.choice([b"web", b"api", b"app"])
                if k < 0.3 or not live:
                    deploy(name, rnd.choice(["good", "good", "partial", "none"]))
                    if name not in live:
                        live.append(name)
                elif k < 0.45:
                    write(rnd.choice([1, 2]))
                elif k < 0.65:
                    stop(rnd.choice(live))
                elif k < 0.75:
                    resume(rnd.choice(live))
                else:
                    ask(rnd.choice(live))
            for name in live:
                ask(name)
        out.append({"scenario": {"steps": steps}, "pops": pops, "asks": asks, "variant": variant})
    return out


def run(tier, seed):
    res = Result("C08", tier, seed)
    work = Work("C08")
    try:
        t_phase = [time.time()]
        ok, blog = coq_build(["props/C08.vo", "props/C08held.vo", "props/C08pages.vo", "corr/C08corr.vo", "corr/C08held.vo", "corr/C08pages.vo"])
        t_phase.append(time.time())
        proofs_ok, pa = proof_obligations_multi(work, res, ["C08.v", "C08held.v", "C08pages.v"], ok, blog)
        gate = m4x.gate_for(["props/C08.v", "corr/C08corr.v"])
        if gate:
            proofs_ok = False
            pa += "\nforbidden constructs: " + "; ".join(gate[:10])
        page = read_page()
        corr_broken = []
        if page is None:
            corr_broken.append("internal/pages/503.html no longer has the shape prefix {{ if .Message }} .. {{ .Message }} .. "
                               "{{ else }} .. {{ end }} suffix: model/Html.render503 does not describe it")
        if not custom_page_ok():
            corr_broken.append("harness custom 503 page is not custom503[{{ .Message }}]")
        hists, mats, raws = gen_histories(seed, tier)
        scenarios = [m4.to_scenario(h, m) for h, m in zip(hists, mats)]
        t_phase.append(time.time())
        harness_ok, gout, outs = m4x.go_run(work, scenarios)
        t_phase.append(time.time())
        results = []
        if harness_ok and ok and page is not None:
            pre, suf = page[0], page[4]

            def lit(b):
                if len(b) >= len(pre) + len(suf) and len(pre) > 64 and b.startswith(pre) and b.endswith(suf):
                    return "(pg_pre ++ %s ++ pg_suf)" % str_lit(b[len(pre):len(b) - len(suf)])
                return str_lit(b)
            with m4x.body_literals(lit):
                terms = [m4.history_term(h, m, o) for h, m, o in zip(hists, mats, outs)]
            defs = ("Definition pg_pre : str := %s.\nDefinition pg_suf : str := %s.\n"
                    "Definition env := mkEnv (mkPage pg_pre %s %s %s pg_suf) (%s, %s).\nDefinition ig := %s.\n"
                    % (str_lit(pre), str_lit(suf), str_lit(page[1]), str_lit(page[2]), str_lit(page[3]),
                       str_lit(CUSTOM[0]), str_lit(CUSTOM[1]), m4.simple_in_group()))
            expr = ("fun h => (map (fun m => (mi_step m, mi_what m)) (check_history ig fixed h), "
                    "c08_body_mismatches env ig fixed h, c08_snapshot_mismatches fixed h, c08_monitor env h, "
                    "(stopped_answers_from ig fixed init_state (upto_panic h), stopped_judged_from [] (upto_panic h)))")
            results = m4x.coq_map(work, IMPORTS, defs, terms, expr, "C08", shard=4)
        t_phase.append(time.time())
        # ---- requests held by a pause when the stop arrives (corr/C08held.v)
        held = gen_held(random.Random(seed * 31 + 5), 8 if tier == "quick" else 80)
        held_bad, held_n = [], 0
        if harness_ok and ok and page is not None:
            h_ok, h_out, h_outs = m4x.go_run(work, [x["scenario"] for x in held])
            if not h_ok:
                harness_ok, gout = False, h_out
            else:
                items = []
                for x, o in zip(held, h_outs):
                    rs = {r["id"]: r for r in o["results"]}
                    obs = []
                    for q in x["reqs"]:
                        r = rs.get(q["id"], {})
                        body = bytes.fromhex(r.get("body", "")) if q["method"] != "HEAD" else None
                        obs.append("(%s, (%d)%%N, %s, %s)" % (bool_lit(q["health"]), r.get("status", 0), bool_lit(bool(r.get("served_by"))),
                                                             str_lit(body) if body is not None else "render503 (e_page env) (custom_of_pages env %s) %s"
                                                             % (bool_lit(x["custom"]), str_lit(x["msg"]))))
                    held_n += len(obs)
                    items.append("(%s, %s, [%s])" % (bool_lit(x["custom"]), str_lit(x["msg"]), "; ".join(obs)))
                defs_h = ("Definition pg_pre : str := %s.\nDefinition pg_suf : str := %s.\n"
                          "Definition env := mkEnv (mkPage pg_pre %s %s %s pg_suf) (%s, %s).\n"
                          % (str_lit(page[0]), str_lit(page[4]), str_lit(page[1]), str_lit(page[2]), str_lit(page[3]),
                             str_lit(CUSTOM[0]), str_lit(CUSTOM[1])))
                rows = m4x.coq_map(work, IMPORTS.replace("corr.C08corr.", "corr.C08corr corr.C08held."), defs_h, items,
                                   "fun x => let '(c, m, l) := x in c08_held_bad env c m l", "C08held", shard=4)
                for j, bad in enumerate(rows):
                    rs = {r["id"]: r for r in h_outs[j]["results"]}
                    after = rs.get("after", {})
                    if bad or after.get("status") != 200 or not after.get("served_by"):
                        held_bad.append((j, bad, after))
        # ---- custom error pages replaced in place between deploys (same monitor, the page version of the service's latest deploy)
        pgs = gen_pages(random.Random(seed * 37 + 3), 21 if tier == "quick" else 140)
        pages_bad, pages_n = [], 0
        if harness_ok and ok and page is not None:
            p_ok, p_out, p_outs = m4x.go_run(work, [x["scenario"] for x in pgs])
            if not p_ok:
                harness_ok, gout = False, p_out
            else:
                items = []
                for j, (x, o) in enumerate(zip(pgs, p_outs)):
                    rs = {r["id"]: r for r in o["results"]}
                    obs = ["((%d)%%N, %s, (%s : str))" % (rs.get(i, {}).get("status", 0), bool_lit(bool(rs.get(i, {}).get("served_by"))),
                                                 str_lit(bytes.fromhex(rs.get(i, {}).get("body", "")) if not rs.get(i, {}).get("served_by") else b""))
                           for i in x["asks"]]
                    pages_n += len(obs)
                    items.append("([%s], [%s])" % ("; ".join(x["pops"]), "; ".join(obs)))
                defs_p = ("Definition pg_pre : str := %s.\nDefinition pg_suf : str := %s.\n"
                          "Definition pg := mkPage pg_pre %s %s %s pg_suf.\n"
                          "Definition customs : list (nat * (str * str)) := [(1%%nat, (%s, %s)); (2%%nat, (%s, %s))].\n"
                          % (str_lit(page[0]), str_lit(page[4]), str_lit(page[1]), str_lit(page[2]), str_lit(page[3]),
                             str_lit(CUSTOM[0]), str_lit(CUSTOM[1]), str_lit(CUSTOM2[0]), str_lit(CUSTOM2[1])))
                rows = m4x.coq_map(work, IMPORTS.replace("corr.C08corr.", "model.Trace model.Pages corr.C08corr corr.C08held corr.C08pages."),
                                   defs_p, items,
                                   "fun x : list pop * list page_obs => let '(ops, obs) := x in c08_pages_bad pg customs ops obs", "C08pages", shard=4)
                for j, bad in enumerate(rows):
                    if bad:
                        pages_bad.append((j, bad))
        res.coverage["custom_pages_replaced_between_deploys"] = {"scenarios": len(pgs), "answers_judged": pages_n, "bad": len(pages_bad)}
        # ---- many answers at once, real scheduler (harness/c08_race_test.go): distinct answers judged by the same rendering
        race_bad, race_rows = [], []
        if harness_ok and ok and page is not None:
            rr = random.Random(seed * 41 + 9)
            race_msgs = []
            while len(race_msgs) < 3:
                m = gen_msg(rr, False)
                if len(m) >= 8 and m not in race_msgs:
                    race_msgs.append(m)
            race_msgs[2] = race_msgs[2] * 40          # one long message: rendering it takes a while
            renv = {"VERIF_OUT": work.path("c08race.jsonl"), "VERIF_ROUNDS": "250" if tier == "quick" else "2500"}
            renv.update({"VERIF_MSG_%d" % i: m.hex() for i, m in enumerate(race_msgs)})
            rc_r, race_out = go_test(work, m4x.SIM_FILES + ["c08_race_test.go"], "^TestVerifC08Race$", renv, synctest=True, timeout=900)
            if rc_r != 0 or not os.path.exists(work.path("c08race.jsonl")):
                harness_ok, gout = False, race_out
            else:
                race_rows = read_jsonl(work.path("c08race.jsonl"))
                # (a tree that mixes pages up yields hundreds of distinct answers: the 24 shortest are judged)
                stopped = sorted([r for r in race_rows if r["stopped"]], key=lambda r: (len(r["body"]), r["host"], r["body"]))[:24]
                items = ["(%s, %s, [(false, (%d)%%N, false, %s)])" % (bool_lit(r["custom"]), str_lit(bytes.fromhex(r["msg"])), max(r["status"], 0),
                                                                   str_lit(bytes.fromhex(r["body"]))) for r in stopped]
                defs_r = ("Definition pg_pre : str := %s.\nDefinition pg_suf : str := %s.\n"
                          "Definition env := mkEnv (mkPage pg_pre %s %s %s pg_suf) (%s, %s).\n"
                          % (str_lit(page[0]), str_lit(page[4]), str_lit(page[1]), str_lit(page[2]), str_lit(page[3]),
                             str_lit(CUSTOM[0]), str_lit(CUSTOM[1])))
                rows = m4x.coq_map(work, IMPORTS.replace("corr.C08corr.", "corr.C08corr corr.C08held."), defs_r, items,
                                   "fun x : bool * str * list held_obs => let '(c, m, l) := x in c08_held_bad env c m l", "C08race", shard=4)
                race_bad = [r for r, bad in zip(stopped, rows) if bad]
                nobody = [r for r in race_rows if not r["stopped"]]
                if len(nobody) > 1 or any(r["status"] != 404 for r in nobody):
                    race_bad += sorted(nobody, key=lambda r: r["count"])[:max(1, len(nobody) - 1)]
        res.coverage["many_answers_at_once_real_scheduler"] = {
            "answers": sum(r["count"] for r in race_rows), "distinct_answers": len(race_rows),
            "per_host": {h: sum(r["count"] for r in race_rows if r["host"] == h) for h in sorted({r["host"] for r in race_rows})},
            "wrong_distinct_answers": len(race_bad)}
        res.coverage["held_by_a_pause_when_stopped"] = {"scenarios": len(held), "answers_judged": held_n,
                                                        "with_a_repeated_pause": sum(1 for x in held if x["repeat"]), "bad": len(held_bad)}
        # ---- judge
        mon_fail, disagree = [], []
        n_stopped_model = n_stopped_mon = 0
        for j, r in enumerate(results):
            mis, body, snap, mon, (a, b) = r
            n_stopped_model += a
            n_stopped_mon += b
            if raws[j]:
                mis = [x for x in mis if x[1] != 3]      # replaced by the coerced snapshot comparison
                mis += [(s, 3) for s in snap]
            if mon:
                mon_fail.append((j, mon))
            if mis or body:
                disagree.append((j, mis, body))
        statuses, cmds, classes, nreq = {}, {}, {}, 0
        for h, m, o in zip(hists, mats, outs):
            rs = {r["id"]: r for r in o["results"]}
            for i, c in enumerate(h):
                key = c["op"] + ":" + rs["c%d" % i]["result"]
                cmds[key] = cmds.get(key, 0) + 1
                if c["op"] == "stop":
                    k = msg_class(c["msg"])
                    classes[k] = classes.get(k, 0) + 1
                for q in range(len(m[i])):
                    st = rs["q%d_%d" % (i, q)]["status"]
                    statuses[str(st)] = statuses.get(str(st), 0) + 1
                    nreq += 1
        distinct = len({json.dumps(s, sort_keys=True) for s in scenarios})
        res.coverage.update({
            "evaluations": nreq, "distinct_nontrivial": distinct,
            "rule": "one evaluation = one request answered by the real router after a command of a generated history "
                    "(%d histories of 5-12 commands, 7 requests after each; %d of them with stop messages that are not valid "
                    "UTF-8 and no restart); distinct = distinct scenarios by JSON" % (len(hists), sum(raws)),
            "input_distribution": {"commands": cmds, "stop_message_classes": classes,
                                   "custom_pages_deploys": sum(1 for h in hists for c in h if c["op"] == "deploy" and c["pages"] == "good")},
            "outcome_distribution": {"status": statuses,
                                     "answers_for_stopped_service_compared_with_render503": n_stopped_model,
                                     "requests_judged_against_a_stopped_service_by_monitor": n_stopped_mon},
            "phase_s": dict(zip(["coq_build_incl_lock_wait", "proof_obligations_and_generation", "go_harness", "coq_evaluation"],
                                [round(b - a, 1) for a, b in zip(t_phase, t_phase[1:])])),
            "samples": [{"history": [m4.cmd_term(c) for c in hists[0]][:6]}],
            "correspondence": {"histories": len(hists), "model_disagreements": len(disagree),
                               "monitor_failures": len(mon_fail), "page_shape_ok": page is not None},
        })
        res.assumptions = [
            "model/Seq.v and model/Html.v are hand-written; tied to the router, pause controller, error page middleware and "
            "html/template only by this correspondence run (real code on a virtual clock, testing/synctest)",
            "a stop message that is not valid UTF-8 is kept byte for byte in memory and in the 503 body, but the JSON state "
            "file holds it with each undecodable byte as U+FFFD (corr/C08corr.json_coerce); histories with such messages "
            "contain no restart and their state file is compared through json_coerce",
            "requests under /.well-known/acme-challenge/ to a root-path service with automatic TLS are answered by autocert "
            "before any policy or the stopped gate; not modelled, not generated",
            "custom error page directories without a 503.html (fallback to the built-in page) are not generated",
            "net/http, html/template and encoding/json are modelled, not verified",
        ]

        def replay_payload(j, what, extra):
            rs = {r["id"]: r for r in outs[j]["results"]} if j < len(outs) else {}
            p = {"property": "C08", "what": what, "seed": seed, "tier": tier, "raw_messages": raws[j],
                 "history": [m4.cmd_term(c) for c in hists[j]], "scenario": scenarios[j]}
            p.update(extra)
            for (st, k) in extra.get("failing", [])[:3]:
                q = mats[j][st][k]
                rr = rs.get("q%d_%d" % (st, k), {})
                body = bytes.fromhex(rr.get("body", ""))
                p.setdefault("observed", []).append({
                    "after_command": m4.cmd_term(hists[j][st]), "command_result": rs.get("c%d" % st, {}).get("result"),
                    "request": {k2: (v.decode("latin-1") if isinstance(v, bytes) else v) for k2, v in q.items()},
                    "status": rr.get("status"), "served_by": rr.get("served_by"), "location": rr.get("location"),
                    "body_len": len(body), "body_excerpt": (body if len(body) < 400 else body[-400:]).decode("latin-1")})
            return p
        if race_bad and not mon_fail and not held_bad and not pages_bad:
            res.violation("race", {
                "property": "C08", "seed": seed, "tier": tier,
                "what": "requests for stopped services answered at the same moment (16 goroutines, real scheduler): every answer must be 503 "
                        "with the page of that service rendered with that service's message (corr/C08held.c08_held_bad); an unknown host 404",
                "stop_messages": [m.decode("latin1") for m in race_msgs],
                "wrong_answers": [{"host": r["host"], "status": r["status"], "times": r["count"],
                                   "body": bytes.fromhex(r["body"]).decode("latin1")[:400]} for r in race_bad[:5]],
                "replay": "VERIF_MSG_0..2=<hex of the messages> go test -tags verif -overlay ... -run ^TestVerifC08Race$ (harness/c08_race_test.go)"})
        if pages_bad and not mon_fail and not held_bad:
            j, bad = pages_bad[0]
            rs = {r["id"]: r for r in p_outs[j]["results"]}
            x = pgs[j]
            res.violation("pages-%d" % j, {
                "property": "C08", "seed": seed, "tier": tier,
                "what": "custom error pages replaced in place between deploys: a stopped service must answer 503 with the page its own "
                        "latest deploy read (the built-in page if that directory has no 503 page), rendered with the message of its latest "
                        "stop; a running one forwards (model/Pages.v, corr/C08pages.c08_pages_bad)",
                "scenario": x["scenario"], "history_as_given_to_the_model": x["pops"],
                "wrong_answers": [{"request": x["asks"][k] if k < len(x["asks"]) else None,
                                   "status": rs.get(x["asks"][k], {}).get("status") if k < len(x["asks"]) else None,
                                   "served_by": rs.get(x["asks"][k], {}).get("served_by") if k < len(x["asks"]) else None,
                                   "body": bytes.fromhex(rs.get(x["asks"][k], {}).get("body", "")).decode("latin1")[:300] if k < len(x["asks"]) else None}
                                  for k in bad[:4]]})
        if held_bad and not mon_fail:
            j, bad, after = held_bad[0]
            x = held[j]
            rs = {r["id"]: r for r in h_outs[j]["results"]}
            res.violation("held-%d" % j, {
                "property": "C08", "seed": seed, "tier": tier,
                "what": "requests held by a pause when the service was stopped: once the stop has taken effect each must have been answered "
                        "503 with the rendered message (GET health: 200), none forwarded or left to its pause timeout; after the resume "
                        "the service must forward again (corr/C08held.c08_held_bad)",
                "scenario": x["scenario"], "stop_message": x["msg"].decode("latin1"), "custom_page": x["custom"],
                "wrong_answers": [{"request": x["reqs"][k], "status": rs.get(x["reqs"][k]["id"], {}).get("status"),
                                   "served_by": rs.get(x["reqs"][k]["id"], {}).get("served_by")} for k in bad],
                "request_after_resume": {"status": after.get("status"), "served_by": after.get("served_by")}})
        elif mon_fail:
            j, mon = mon_fail[0]
            res.violation("monitor-%d" % j, replay_payload(j, "monitor c08_monitor false on an implementation history: a request "
                                                              "routed to a stopped service was not answered 503 with the rendered "
                                                              "message (or 200 on GET health), or a running service did not forward",
                                                           {"failing": [list(x) for x in mon]}))
        elif disagree or not harness_ok or not proofs_ok or corr_broken:
            what = ("model and implementation disagree" if disagree else
                    "harness does not build/run against the tree" if not harness_ok else
                    "proof obligations of props/C08.v do not check" if not proofs_ok else corr_broken[0])
            payload = {"property": "C08", "what": what, "seed": seed, "tier": tier,
                       "broken": "corr.M4corr.check_history / corr.C08corr.c08_body_mismatches (model/Seq.v, model/Html.v vs the router)"
                                 if (disagree or not harness_ok or corr_broken) else "props/C08.v"}
            if disagree:
                j, mis, body = disagree[0]
                payload = replay_payload(j, what, {"failing": [[s, w - 5] for (s, w) in mis if w >= 5][:3] + [list(x) for x in body][:3],
                                                   "model_mismatches": [list(x) for x in mis], "body_mismatches": [list(x) for x in body],
                                                   "broken": payload["broken"]})
            if not harness_ok:
                payload["harness_output"] = gout[-3000:]
            if not proofs_ok:
                payload["coq_output"] = (blog + pa)[-3000:]
            res.violation("broken", payload, no_input=True)
        return res.finish()
    finally:
        work.cleanup()
