"""C12 — the state file is always one complete, current snapshot.

Crash points: at every snapshot:* yield of every command of generated
histories (commands one at a time) and of overlapping pairs of commands under
generated/enumerated schedules of their snapshot steps, the harness
(harness/c12_test.go) copies the state directory, restores a fresh Router from
the copy and records what it serves.  The monitor (corr/C12corr.v: c12_ok) is
evaluated on those observations alone; the event trace of the same execution
is run through the snapshot view (model/M5snap.v) and compared."""
import ast
import itertools
import random
from concurrent.futures import ThreadPoolExecutor

import m4
import m5
from vlib import *

FILES = ["common_test.go", "sim_test.go", "simrun_test.go", "assets_test.go", "c12_test.go"]
POINTS = ["snapshot:collected", "snapshot:created", "snapshot:written", "snapshot:renamed"]
SEC = m4.SEC
IMPORTS = "From KP Require Import model.Base model.Trace model.M5snap corr.C12corr.\n"
CLASSES = {1: "the file is not one complete snapshot (empty/truncated/mixed)",
           2: "the file is empty/truncated/missing: the next start serves nothing, although a non-empty configuration was in force "
              "before the command in progress and is in force now",
           3: "stale: every command has returned and the file is not the configuration in force",
           4: "the file is a configuration that was not in force at any observed instant of the window",
           5: "restore failed, or the restored router lists something else than the file's configuration"}


# ------------------------------------------------------------ scenarios ----

def cmd_step(c, cid):
    st = dict(m4.to_scenario([c], [[]])["steps"][0])
    st["id"] = cid
    return st


def seq_scenario(hist):
    """Commands one at a time; every snapshot yield of every command is a crash point."""
    steps = []
    for i, c in enumerate(hist):
        cid = "c%d" % i
        for p in POINTS:
            steps.append({"op": "arm", "point": p, "n": 1})
        steps.append({"op": "c12_crash", "id": "b%d" % i})
        steps.append({"op": "c12_issue", "id": "i%d" % i, "cmd": cmd_step(c, cid)})
        for p in POINTS:
            steps.append({"op": "c12_crash", "id": "k%d@%s" % (i, p)})
            steps.append({"op": "c12_release", "id": "r%d@%s" % (i, p), "point": p, "who": cid})
        steps.append({"op": "c12_drain", "id": "d%d" % i})
        steps.append({"op": "sleep", "ns": 4 * SEC})
    steps.append({"op": "c12_crash", "id": "final"})
    return {"steps": steps}


def kind_histories(rnd):
    """Histories in which every kind of command does change the configuration
    (resume after pause/stop, rollout set/stop with rollout targets, remove of
    an existing service, redeploy with other targets), so that a command that
    does not save what it changed is seen as a stale file."""
    t = lambda k: [{"name": x, "healthy": True} for x in rnd.sample(m4.GOOD_TARGETS, k)]
    a, b = rnd.sample([b"web", b"api", b"admin"], 2)
    ha, hb = rnd.sample([b"a.example.com", b"b.example.com", b"x.io"], 2)
    h1 = [dep(a, ha, [x["name"] for x in t(rnd.choice([1, 2]))]),
          {"op": "pause", "name": a, "fail_after": SEC}, {"op": "resume", "name": a},
          {"op": "stop", "name": a, "msg": rnd.choice(m4.MESSAGES)}, {"op": "resume", "name": a},
          {"op": "rollout_deploy", "name": a, "targets": t(1)},
          {"op": "rollout_set", "name": a, "pct": 100, "allow": [b"alice"]}, {"op": "rollout_stop", "name": a},
          dep(a, ha, [x["name"] for x in t(1)]), {"op": "remove", "name": a}]
    h2 = [dep(a, ha, [x["name"] for x in t(1)]), dep(b, hb, [x["name"] for x in t(2)]),
          {"op": "stop", "name": b, "msg": b"down"}, {"op": "pause", "name": a, "fail_after": 2 * SEC},
          {"op": "rollout_deploy", "name": b, "targets": t(2)}, {"op": "resume", "name": b},
          {"op": "rollout_set", "name": b, "pct": 0, "allow": []}, {"op": "remove", "name": a},
          {"op": "resume", "name": a}, {"op": "rollout_stop", "name": b}, {"op": "pause", "name": b, "fail_after": SEC},
          {"op": "remove", "name": b}]
    return [h1, h2]


def dep(name, host, targets, **kw):
    c = {"op": "deploy", "name": name, "hosts": [host] if host else [], "prefixes": [], "tls": False, "tls_redirect": False,
         "strip": True, "cert": "none", "pages": "none", "topts": 0,
         "targets": [{"name": t, "healthy": True} for t in targets]}
    c.update(kw)
    return c


def gen_pair(rnd):
    """setup commands + two commands that will overlap.  No command of the pair
    needs the virtual clock before its snapshot (targets answer their first probe)."""
    setup = [dep(b"web", b"a.example.com", rnd.sample(m4.GOOD_TARGETS[:3], rnd.choice([1, 2])))]
    two = rnd.random() < 0.7
    if two:
        setup.append(dep(b"api", b"b.example.com", [m4.GOOD_TARGETS[3]]))
    if rnd.random() < 0.4:
        setup.append({"op": "rollout_deploy", "name": b"web", "targets": [{"name": m4.GOOD_TARGETS[4], "healthy": True}]})
    if rnd.random() < 0.3:
        setup.append(rnd.choice([{"op": "pause", "name": b"web", "fail_after": SEC}, {"op": "stop", "name": b"web", "msg": b"down"}]))
    names = [b"web", b"api"] if two else [b"web"]

    def one():
        n = rnd.choice(names)
        k = rnd.choice(["deploy", "deploy", "deploy_new", "pause", "stop", "resume", "remove", "rollout_deploy", "rollout_set",
                        "rollout_stop"])
        if k == "deploy":
            return dep(n, b"a.example.com" if n == b"web" else b"b.example.com", [rnd.choice(m4.GOOD_TARGETS)],
                       strip=rnd.random() < 0.5)
        if k == "deploy_new":
            return dep(b"admin", rnd.choice([b"x.io", b"a.example.com"]), [m4.GOOD_TARGETS[5]])
        if k == "pause":
            return {"op": "pause", "name": n, "fail_after": 2 * SEC}
        if k == "stop":
            return {"op": "stop", "name": n, "msg": rnd.choice(m4.MESSAGES)}
        if k == "rollout_deploy":
            return {"op": "rollout_deploy", "name": n, "targets": [{"name": rnd.choice(m4.GOOD_TARGETS), "healthy": True}]}
        if k == "rollout_set":
            return {"op": "rollout_set", "name": n, "pct": rnd.choice([0, 100]), "allow": [b"alice"]}
        return {"op": k, "name": n}
    return setup, one(), one()


def all_schedules(n_a=5, n_b=5):
    """every interleaving of A's steps (issue, 4 releases) with B's"""
    out = []
    for pos in itertools.combinations(range(n_a + n_b), n_a):
        s, ia, ib = [], 0, 0
        for k in range(n_a + n_b):
            if k in pos:
                s.append(("A", ia))
                ia += 1
            else:
                s.append(("B", ib))
                ib += 1
        out.append(s)
    return out


def pair_scenario(setup, a, b, schedule):
    steps = []
    for i, c in enumerate(setup):
        steps.append(cmd_step(c, "c%d" % i))
    ids = {"A": "c10", "B": "c11"}
    cmds = {"A": a, "B": b}
    for p in POINTS:
        steps.append({"op": "arm", "point": p, "n": 2})
    steps.append({"op": "c12_crash", "id": "q0"})
    for n, (who, k) in enumerate(schedule):
        if k == 0:
            steps.append({"op": "c12_issue", "id": "i%s" % who, "cmd": cmd_step(cmds[who], ids[who])})
        else:
            steps.append({"op": "c12_release", "id": "r%d" % n, "point": POINTS[k - 1], "who": ids[who]})
        steps.append({"op": "c12_crash", "id": "k%d:%s%d" % (n, who, k)})
    steps.append({"op": "c12_drain", "id": "drain"})
    steps.append({"op": "sleep", "ns": 3 * SEC})
    steps.append({"op": "c12_crash", "id": "final"})
    return {"steps": steps}


# ------------------------------------------- file-system granularity ----

FS_FLAGS = [(0x100, "FsCreate"), (0x200, "FsDelete"), (0x2, "FsModify"), (0x40, "FsMovedFrom"), (0x80, "FsMovedTo"),
            (0x8, "FsCloseWrite"), (0x4, "FsAttrib")]
IN_ISDIR = 0x40000000


def fs_case(rnd, n_cmds):
    """commands on a real Router under the real scheduler (harness/c12fs_test.go);
    some steps run two commands concurrently.  No target fails its probe (real time)."""
    names = [b"web", b"api", b"admin"]
    hosts = {b"web": b"a.example.com", b"api": b"b.example.com", b"admin": b"x.io"}

    def one():
        n = rnd.choice(names)
        k = rnd.choice(["deploy", "deploy", "deploy", "pause", "stop", "resume", "resume", "remove", "rollout_deploy",
                        "rollout_set", "rollout_stop"])
        if k == "deploy":
            return dep(n, hosts[n], rnd.sample(m4.GOOD_TARGETS, rnd.choice([1, 2])), strip=rnd.random() < 0.5)
        if k == "pause":
            return {"op": "pause", "name": n, "fail_after": 2 * SEC}
        if k == "stop":
            return {"op": "stop", "name": n, "msg": rnd.choice(m4.MESSAGES)}
        if k == "rollout_deploy":
            return {"op": "rollout_deploy", "name": n, "targets": [{"name": rnd.choice(m4.GOOD_TARGETS), "healthy": True}]}
        if k == "rollout_set":
            return {"op": "rollout_set", "name": n, "pct": rnd.choice([0, 100]), "allow": [b"alice"]}
        return {"op": k, "name": n}
    cmds = [dep(b"web", hosts[b"web"], [b"ta:80"]), dep(b"api", hosts[b"api"], [b"tb:80"])]
    steps, k = [], 0
    groups = [[c] for c in cmds]
    while sum(len(g) for g in groups) < n_cmds:
        groups.append([one(), one()] if rnd.random() < 0.25 else [one()])
    for g in groups:
        sts = []
        for c in g:
            sts.append(cmd_step(c, "c%d" % k))
            k += 1
        steps.append(sts[0] if len(sts) == 1 else {"par": sts})
    return {"steps": steps}, jsonable(groups)


def fs_burst_case(k):
    """many quick commands at once (eight `rollout set` / pause / resume on two services per group, several groups): whichever
    snapshot is taken last must reach the state file - the next one's temporary file is not anybody else's to clean up"""
    hosts = {b"web": b"a.example.com", b"api": b"b.example.com"}
    groups = [[dep(b"web", hosts[b"web"], [b"ta:80"])], [dep(b"api", hosts[b"api"], [b"tb:80"])],
              [{"op": "rollout_deploy", "name": b"web", "targets": [{"name": b"tc:8080", "healthy": True}]}],
              [{"op": "rollout_deploy", "name": b"api", "targets": [{"name": b"td:80", "healthy": True}]}]]
    for g in range(12 + k % 3):
        grp = []
        for j in range(8):
            n = [b"web", b"api"][(j + g) % 2]
            if (g + k) % 2 == 0 or j < 6:
                grp.append({"op": "rollout_set", "name": n, "pct": (10 * j + g) % 101, "allow": [b"alice"] if j % 2 else []})
            else:
                grp.append({"op": "rollout_stop", "name": n})
        groups.append(grp)
    steps, i = [], 0
    for g in groups:
        sts = []
        for c in g:
            sts.append(cmd_step(c, "c%d" % i))
            i += 1
        steps.append(sts[0] if len(sts) == 1 else {"par": sts})
    return {"steps": steps, "no_hooks": True}, jsonable(groups)


def fs_term(out):
    """Coq term list (fsk * fsname) of the inotify events of one case (one term per flag set)."""
    items, shown = [], []
    for mask, name in out["fs_events"]:
        if mask & IN_ISDIR:
            continue
        nm = "FsLive" if name == out["state_name"] else "FsTemp"
        ks = [k for bit, k in FS_FLAGS if mask & bit] or ["FsOther"]
        for k in ks:
            items.append("(%s, %s)" % (k, nm))
            shown.append([k[2:], name])
    return "[" + "; ".join(items) + "]", shown


def fs_check(work, terms, shard=10):
    jobs = [(s, terms[s:s + shard]) for s in range(0, len(terms), shard)]

    def ev(job):
        s, ts = job
        body = "Definition cases : list (list (fsk * fsname)) := [\n%s].\n" % ";\n".join(ts)
        body += ("Definition R := Eval vm_compute in map (fun evs => (c12_fs_failures evs, count_fs FsMovedTo FsLive evs, "
                 "count_fs FsCreate FsTemp evs)) cases.\n")
        txt = coq_eval(work, "C12fs_%d" % s, IMPORTS, body, "R")
        return s, ast.literal_eval(txt.strip().replace(";", ","))
    res = [None] * len(terms)
    with ThreadPoolExecutor(max_workers=16) as ex:
        for s, vs in ex.map(ev, jobs):
            if len(vs) != len(terms[s:s + shard]):
                raise RuntimeError("fs verdict count mismatch")
            res[s:s + len(vs)] = vs
    return res


def run_burst(work, tier):
    """harness/c12fs_test.go TestVerifC12Burst: rounds of eight commands at once, hooks inert; rows of stale rounds + a summary"""
    outp = work.path("burst.jsonl")
    rc, gout = go_test(work, FILES + ["c12fs_test.go"], "^TestVerifC12Burst$",
                       {"VERIF_OUT": outp, "VERIF_ROUNDS": "120" if tier == "quick" else "1500", "GODEBUG": "", "GOGC": "100"},
                       synctest=True, timeout=900)
    if rc != 0 or not os.path.exists(outp):
        return False, gout, []
    return True, gout, read_jsonl(outp)


def boot_race(work, tier):
    """The built binary, restarted on a large saved state with a client command sent the moment the command socket exists
    (`remove` of an unknown service: it fails, and still takes a snapshot): the start must have restored the saved state before it
    accepts commands, or that snapshot - of a router still empty or half restored - replaces the full state file.
    Returns (ok, log, observation)."""
    import c20
    binary, blog = c20.build_binary(work)
    if not binary:
        return False, "kamal-proxy does not build:\n" + blog[-2000:], {}
    n = 400 if tier == "quick" else 1500
    be = c20.Backends(1)
    obs = {"services_saved": n}
    try:
        ports = c20.free_ports(2)
        px = c20.Proxy(binary, work.path("boot"), ["--http-port", str(ports[0]), "--https-port", str(ports[1])])
        if not px.start():
            return False, "kamal-proxy run does not start:\n" + px.stderr().decode("latin1")[-1500:], obs
        env = c20.base_env(px.home, px.runtime)
        rc, out, err = c20.run_cmd(binary, ["deploy", "svc0", "--target", "127.0.0.1:%d" % be.ports[0], "--host", "svc0.test"], env)
        px.stop()
        st = px.state()
        if rc != 0 or not isinstance(st, list) or len(st) != 1:
            return False, "could not produce a saved service (deploy exit %s): %s" % (rc, err.decode("latin1")[-500:]), obs
        dead = "127.0.0.1:%d" % c20.closed_port()
        saved = []
        for i in range(n):
            sv = json.loads(json.dumps(st[0]).replace("127.0.0.1:%d" % be.ports[0], dead))
            sv["name"] = "svc%d" % i
            sv["options"] = dict(sv["options"], hosts=["svc%d.test" % i])
            saved.append(sv)
        state_path = os.path.join(px.home, ".config", "kamal-proxy", "kamal-proxy.state")
        with open(state_path, "w") as f:
            json.dump(saved, f)
        sock = os.path.join(px.runtime, "kamal-proxy.sock")
        if os.path.exists(sock):
            os.remove(sock)
        so, se = open(px.stdout_path, "wb"), open(px.stderr_path, "wb")
        p = c20._register(subprocess.Popen([binary, "run"] + px.argv, env=px.env, stdout=so, stderr=se))
        px.p, px.so, px.se = p, so, se
        t0 = time.time()
        while not os.path.exists(sock) and time.time() - t0 < 60 and p.poll() is None:
            time.sleep(0.0005)
        obs["socket_after_s"] = round(time.time() - t0, 3)
        early = []
        for _ in range(3):
            rc, out, err = c20.run_cmd(binary, ["remove", "no-such-service"], env, timeout=60)
            early.append(rc)
        obs["early_remove_exits"] = early
        listed = 0
        t1 = time.time()
        while time.time() - t1 < 60:
            rc, out, err = c20.run_cmd(binary, ["list"], env, timeout=60)
            listed = max(0, len([l for l in out.decode("latin1").splitlines() if l.strip()]) - 1)
            if listed >= n:
                break
            time.sleep(0.2)
        obs["services_listed"] = listed
        px.stop()
        after = px.state()
        obs["services_in_state_file_after"] = len(after) if isinstance(after, list) else None
        return True, "", obs
    finally:
        be.close()
        c20.kill_all()


def run_fs(work, cases):
    write_jsonl(work.path("fs.jsonl"), cases)
    rc, gout = go_test(work, FILES + ["c12fs_test.go"], "^TestVerifC12FS$",
                       {"VERIF_IN": work.path("fs.jsonl"), "VERIF_OUT": work.path("fsout.jsonl")}, synctest=True)
    if rc != 0 or not os.path.exists(work.path("fsout.jsonl")):
        return False, gout, []
    outs = read_jsonl(work.path("fsout.jsonl"))
    return len(outs) == len(cases), gout, outs


# ------------------------------------- faults and crash leftovers ----

def fault_case(rnd, n_cmds):
    """sequential commands on a real Router; some run with a file-size limit that cuts the snapshot's write short (EFBIG), some
    find a temporary file left by an earlier crash, some steps are restarts (harness/c12fault_test.go)"""
    c, groups = fs_case(rnd, n_cmds)
    steps = []
    for st in c["steps"]:
        for x in (st["par"] if "par" in st else [st]):
            x = dict(x)
            r = rnd.random()
            if len(steps) >= 2 and r < 0.22:
                x["fsize"] = rnd.choice([1, 40, 200, 600, 1500])
            elif len(steps) >= 1 and r < 0.4:
                x["pre_tmp"] = rnd.choice(["partial", "complete"])
            steps.append(x)
            if len(steps) >= 2 and rnd.random() < 0.12:
                rs = {"op": "restart", "id": "x%d" % len(steps)}
                if rnd.random() < 0.5:
                    rs["pre_tmp"] = rnd.choice(["partial", "complete"])
                steps.append(rs)
    return {"steps": steps}


def run_fault(work, cases):
    write_jsonl(work.path("faultcases.jsonl"), cases)
    rc, gout = go_test(work, FILES + ["c12fault_test.go"], "^TestVerifC12Fault$",
                       {"VERIF_IN": work.path("faultcases.jsonl"), "VERIF_OUT": work.path("faultout.jsonl")}, timeout=900, synctest=True)
    if rc != 0 or not os.path.exists(work.path("faultout.jsonl")):
        return False, gout, []
    outs = read_jsonl(work.path("faultout.jsonl"))
    return len(outs) == len(cases), gout, outs


def fault_terms(out):
    cfgs = Intern(canon_cfg([]))

    def ff(f):
        if isinstance(f, dict):
            return "FAbsent" if f.get("error") == "absent" else "FUndecodable"
        return "(FCfg %d)" % cfgs(canon_cfg(f))

    def cf(c):
        return cfgs(canon_cfg(c)) if isinstance(c, list) else 999999
    return "[%s]" % "; ".join("mkFStep %s %s %s %s %d %d [%s]" % (bool_lit(r["op"] == "restart"), bool_lit("fsize" in r), ff(r["file_before"]),
                                                                 ff(r["file_after"]), cf(r["cfg_before"]), cf(r["cfg_after"]),
                                                                 "; ".join(ff(x) for x in r.get("during") or [])) for r in out["steps"])


def fault_check(work, outs):
    terms = [fault_terms(o) for o in outs]
    body = "Definition cases : list (list fstep) := [\n%s].\nDefinition R := Eval vm_compute in map c12_fault_bad cases.\n" % ";\n".join(terms)
    txt = coq_eval(work, "C12fault", "From KP Require Import model.Base corr.C12fault.\n", body, "R")
    v = ast.literal_eval(txt.strip().replace(";", ",").replace("%nat", ""))
    if not isinstance(v, list) or len(v) != len(outs):
        raise RuntimeError("unexpected fault verdicts: " + txt[:200])
    return v


# ------------------------------------------------------- observations ----

def trace_items(events):
    """Coq terms of the events (as tools/m5.py: trace_term) and, for every
    harness sequence number, how many terms precede it."""
    items, seen, idx = [], set(), []
    for e in events:
        idx.append(len(items))
        for a in e["args"]:
            for x in (a if isinstance(a, list) else [a]):
                if isinstance(x, str) and re.fullmatch(r"[ST]\d+:.*", x, re.S) and x not in seen:
                    seen.add(x)
                    items.append("mkEv %d AEnv (%s %d %s)" % (e["t"], "KSvcName" if x[0] == "S" else "KTargetName", m5.idn(x),
                                                              str_lit(x.split(":", 1)[1].encode("utf-8", "surrogateescape"))))
        items.append("mkEv %d %s (%s)" % (e["t"], m5.actor_term(e["g"]), m5.kind_term(e)))
    idx.append(len(items))
    return items, idx


def canon_cfg(v):
    return json.dumps(sorted(v, key=lambda s: s.get("name", "")), sort_keys=True)


class Intern:
    def __init__(self, zero):
        self.t = {zero: 0}

    def __call__(self, key):
        return self.t.setdefault(key, len(self.t))


def crash_records(out):
    return [r for r in out["results"] if r.get("op") == "c12_crash"]


def obs_terms(out, idx):
    cfgs, lists = Intern(canon_cfg([])), Intern(json.dumps({}))
    terms = []
    for r in crash_records(out):
        f = r["file"]
        if isinstance(f, dict):
            fo = "FAbsent" if f.get("error") == "absent" else "FUndecodable"
        else:
            fo = "(FCfg %d)" % cfgs(canon_cfg(f))
        live = r["cfg"]
        cfg = cfgs(canon_cfg(live)) if isinstance(live, list) else 999999
        tmp = len([x for x in r["files"] if x[0] != "kamal-proxy.state"])
        terms.append("mkCrash %d %s %s %d %d %d [%s] %d" % (
            idx[r["seq"]], fo, bool_lit(r["restore"] == "ok"), lists(json.dumps(r["restored_list"], sort_keys=True)), cfg,
            lists(json.dumps(r["list"], sort_keys=True)), ";".join("%d" % m5.rid(c) for c in r["in_progress"]), tmp))
    return terms


def summary(cfg):
    if isinstance(cfg, dict):
        return cfg
    return [{"name": s.get("name"), "active_targets": s.get("active_targets"), "rollout_targets": s.get("rollout_targets"),
             "pause_state": (s.get("pause_controller") or {}).get("state"),
             "rollout": s.get("rollout_controller")} for s in sorted(cfg, key=lambda s: s.get("name", ""))]


def record_summary(r):
    return {"crash_point": r["id"], "parked_at": r["parked"], "commands_in_progress": r["in_progress"],
            "state_directory": r["files"], "state_file": summary(r["file"]), "restore": r["restore"],
            "restored_router_lists": sorted(bytes.fromhex(k).decode("latin1") for k in r["restored_list"]),
            "configuration_in_force": summary(r["cfg"])}


def parse_verdicts(txt):
    t = txt.strip().replace(";", ",")
    v = ast.literal_eval(t)
    if not isinstance(v, list):
        raise RuntimeError("unexpected verdict term: " + txt[:200])
    out = []
    for it in v:
        rej, mon, view = it
        out.append({"reject": None if rej == 0 else rej - 1, "monitor": [tuple(x) for x in mon], "view": [tuple(x) for x in view]})
    return out


def coq_check(work, variant, scen_terms, shard=6):
    jobs = [(s, scen_terms[s:s + shard]) for s in range(0, len(scen_terms), shard)]

    def ev(job):
        s, terms = job
        body = "Definition cases : list (trace * list crash_obs) := [\n%s].\n" % ";\n".join(terms)
        body += ("Definition R := Eval vm_compute in map (fun p => let v := check_scenario %s (fst p) (snd p) in "
                 "(match vd_reject v with None => 0 | Some n => S n end, vd_monitor v, vd_view v)) cases.\n" % variant)
        return s, parse_verdicts(coq_eval(work, "C12_%d" % s, IMPORTS, body, "R"))
    res = [None] * len(scen_terms)
    with ThreadPoolExecutor(max_workers=16) as ex:
        for s, vs in ex.map(ev, jobs):
            if len(vs) != len(scen_terms[s:s + shard]):
                raise RuntimeError("verdict count mismatch")
            res[s:s + len(vs)] = vs
    return res


# ------------------------------------------------------------------ run ----

def jsonable(x):
    return json.loads(json.dumps(x, default=lambda b: b.decode("latin1") if isinstance(b, bytes) else str(b)))


def run(tier, seed):
    res = Result("C12", tier, seed)
    work = Work("C12")
    try:
        ok, blog = coq_build(["props/C12.vo", "corr/C12corr.vo", "corr/C12fault.vo"])
        proofs_ok, pa = proof_obligations(work, res, "C12.v", ok, blog)
        rnd = random.Random(seed)
        quick = tier == "quick"
        scen, meta = [], []
        # (1) histories, one command at a time
        profile = {"restart": 0, "deploy": 8, "deploy_fail": 2, "rollout_deploy": 3, "rollout_set": 2, "rollout_stop": 1,
                   "pause": 3, "stop": 2, "resume": 3, "remove": 2}
        hists = [m4.gen_history(rnd, rnd.randint(3, 8), profile) for _ in range(12 if quick else 100)]
        for _ in range(1 if quick else 10):
            hists += kind_histories(rnd)
        for h in hists:
            scen.append(seq_scenario(h))
            meta.append({"kind": "history", "history": jsonable(h)})
        # (2) overlapping pairs: random pairs under random schedules
        scheds = all_schedules()
        for _ in range(40 if quick else 300):
            setup, a, b = gen_pair(rnd)
            s = rnd.choice(scheds)
            scen.append(pair_scenario(setup, a, b, s))
            meta.append({"kind": "pair", "setup": jsonable(setup), "A": jsonable(a), "B": jsonable(b), "schedule": s})
        # (3) pairs under ALL schedules of their snapshot steps
        fixed = [([dep(b"web", b"a.example.com", [b"ta:80"])], {"op": "pause", "name": b"web", "fail_after": SEC},
                  dep(b"api", b"b.example.com", [b"tb:80"]))]
        if not quick:
            for _ in range(3):
                fixed.append(gen_pair(rnd))
        for setup, a, b in fixed:
            for s in (scheds if not quick else rnd.sample(scheds, 60)):
                scen.append(pair_scenario(setup, a, b, s))
                meta.append({"kind": "pair-enumerated", "setup": jsonable(setup), "A": jsonable(a), "B": jsonable(b), "schedule": s})

        # (4) file-system granularity: inotify on the state directory, real scheduler
        fs_cases, fs_meta = [], []
        for _ in range(12 if quick else 60):
            c, g = fs_case(rnd, rnd.randint(15, 30))
            fs_cases.append(c)
            fs_meta.append(g)

        for k in range(4 if quick else 20):
            c, g = fs_burst_case(k)
            fs_cases.append(c)
            fs_meta.append(g)

        # (5) faults of the file system (the snapshot's write cut short) and leftovers of an earlier crash, restarts
        fault_cases = [fault_case(rnd, rnd.randint(8, 16)) for _ in range(10 if quick else 80)]

        harness_ok, gout, outs = m5.run_scenarios(work, scen, FILES)
        fs_ok, fs_gout, fs_outs = run_fs(work, fs_cases)
        bu_ok, bu_gout, bu_rows = run_burst(work, tier)
        bt_ok, bt_log, bt_obs = boot_race(work, tier)
        ft_ok, ft_gout, ft_outs = run_fault(work, fault_cases)
        ft_bad = fault_check(work, ft_outs) if (ft_ok and ok) else []
        if not ft_ok:
            fs_ok, fs_gout = False, ft_gout
        fs_verdicts, fs_shown = [], []
        if fs_ok and ok:
            fts = [fs_term(o) for o in fs_outs]
            fs_shown = [x[1] for x in fts]
            fs_verdicts = fs_check(work, [x[0] for x in fts])
        verdicts, variant, n_crash, n_inside = [], "Repaired", 0, 0
        dist_point, dist_file, dist_cmd, unsettled, stuck = {}, {}, {}, 0, 0
        distinct = set()
        if harness_ok:
            repaired = any(e["kind"] == "snap-rename" for o in outs for e in o["events"])
            variant = "Repaired" if repaired else "Pinned"
            terms = []
            for sc, o in zip(scen, outs):
                items, idx = trace_items(o["events"])
                terms.append("([%s],\n [%s])" % (";\n ".join(items), ";\n ".join(obs_terms(o, idx))))
                if o["pending_at_end"]:
                    stuck += 1
                for r in o["results"]:
                    if r.get("op") in ("c12_issue", "c12_release") and not r.get("settled", True):
                        unsettled += 1
                    if "result" in r and r.get("op") not in ("c12_crash",):
                        key = "%s:%s" % (r["op"], r["result"])
                        dist_cmd[key] = dist_cmd.get(key, 0) + 1
                for r in crash_records(o):
                    n_crash += 1
                    pts = sorted(p[0] for p in r["parked"]) or ["(nothing parked)"]
                    for p in pts:
                        dist_point[p] = dist_point.get(p, 0) + 1
                    f = r["file"]
                    fk = ("absent" if f.get("error") == "absent" else "undecodable") if isinstance(f, dict) else \
                        ("current" if canon_cfg(f) == canon_cfg(r["cfg"]) else "older")
                    dist_file[fk] = dist_file.get(fk, 0) + 1
                    if r["parked"]:
                        n_inside += 1
                        distinct.add(json.dumps([r["parked"], r["in_progress"], summary(r["file"]), summary(r["cfg"])], sort_keys=True))
            if ok:
                verdicts = coq_check(work, variant, terms)
        kinds = {}
        for m in meta:
            kinds[m["kind"]] = kinds.get(m["kind"], 0) + 1
        mon = [(i, v["monitor"]) for i, v in enumerate(verdicts) if v["monitor"]]
        fs_mon = [(i, v[0]) for i, v in enumerate(fs_verdicts) if v[0]]
        def stale(f, c):
            return not isinstance(f, list) or not isinstance(c, list) or canon_cfg(f) != canon_cfg(c)
        fs_stale = [i for i, o in enumerate(fs_outs) if fs_ok and (stale(o["final_state_file"], o["final_cfg"]) or
                    any(stale(x["state_file"], x["cfg"]) for x in o.get("after_par", [])))]
        fs_repaired = any(o["hooks"].get("snap-rename", 0) for o in fs_outs)
        fs_differ = [i for i, (o, v) in enumerate(zip(fs_outs, fs_verdicts))
                     if o["overflow"] or (not o.get("no_hooks") and (
                         (o["hooks"].get("snap-collect", 0) > 0 and v[1] + v[2] == 0 and not v[0]) or
                         (fs_repaired and (v[1] != o["hooks"].get("snap-rename", 0) or v[2] != o["hooks"].get("snap-create", 0)))))]
        fs_cmds, fs_kinds, fs_par = 0, {}, 0
        for o, c in zip(fs_outs, fs_cases):
            fs_par += sum(1 for st in c["steps"] if "par" in st)
            for r in o["results"]:
                if "result" in r:
                    fs_cmds += 1
            for k, _ in fs_shown[fs_outs.index(o)] if fs_shown else []:
                fs_kinds[k] = fs_kinds.get(k, 0) + 1
        rejected = [(i, v["reject"]) for i, v in enumerate(verdicts) if v["reject"] is not None]
        differ = [(i, v["view"]) for i, v in enumerate(verdicts) if v["view"]]
        res.coverage.update({
            "evaluations": n_crash, "distinct_nontrivial": len(distinct),
            "rule": "crash points (state directory copied, fresh Router restored from the copy) before, at every snapshot:* yield of, and "
                    "after every command of random histories (one command at a time), and after every step of random and of enumerated "
                    "schedules of the snapshot steps of two overlapping commands; a crash point is non-trivial when a command is parked "
                    "inside its snapshot, distinct by (yield, commands in progress, file content, configuration in force)",
            "scenarios": len(scen), "scenario_kinds": kinds, "tree_variant_detected": variant,
            "input_distribution": {"scenario_kinds": kinds, "crash_points_by_yield": dist_point, "commands_and_results": dist_cmd},
            "outcome_distribution": dist_file,
            "crash_points_by_yield": dist_point, "file_at_crash_point": dist_file, "command_results": dist_cmd,
            "steps_that_hit_the_settle_bound": unsettled, "scenarios_with_goroutines_left_parked": stuck,
            "traces_validated_against_impl": len(verdicts),
            "samples": [meta[0], meta[len(meta) // 2]] if meta else [],
            "correspondence": {"scenarios": len(scen), "monitor_failures": len(mon), "traces_rejected_by_view": len(rejected),
                               "view_observation_mismatches": len(differ)},
            "file_system_granularity": {
                "rule": "inotify watch (IN_CREATE|IN_DELETE|IN_MODIFY|IN_MOVED_FROM|IN_MOVED_TO|IN_CLOSE_WRITE|IN_ATTRIB) on the state "
                        "directory while random commands, a quarter of the steps two at once, run on a real Router under the real "
                        "scheduler; monitor c12_fs_ok on the event list alone; the numbers of renames onto the state file and of "
                        "temporary files created are compared with the snap-rename / snap-create hook events",
                "cases": len(fs_cases), "commands": fs_cmds, "steps_with_two_concurrent_commands": fs_par,
                "directory_events_by_kind": fs_kinds, "monitor_failures": len(fs_mon), "stale_at_end": len(fs_stale),
                "bursts_of_eight_commands": ([x for x in bu_rows if x.get("summary")] or [{}])[0],
                "restart_of_the_built_binary_with_an_early_command": bt_obs,
                "disagreements_with_hooks": len(fs_differ),
                "sample": fs_shown[0][:40] if fs_shown else []},
        })
        res.coverage["faults_and_crash_leftovers"] = {
            "rule": "sequential commands on a real Router (real files); a fifth of the commands run under a file-size limit that cuts the "
                    "snapshot's write short (EFBIG), others find a <state>.tmp left by an earlier crash (half a document / an older complete "
                    "one), restarts in between; monitor corr/C12fault.c12_fault_bad on (file before/after, configuration before/after)",
            "cases": len(fault_cases), "steps": sum(len(o["steps"]) for o in ft_outs),
            "commands_with_a_failing_write": sum(1 for o in ft_outs for r in o["steps"] if "fsize" in r),
            "of_which_left_the_file_as_it_was": sum(1 for o in ft_outs for r in o["steps"] if "fsize" in r and
                                                    json.dumps(r["file_before"], sort_keys=True) == json.dumps(r["file_after"], sort_keys=True)),
            "steps_with_a_leftover_temporary_file": sum(1 for o in ft_outs for r in o["steps"] if "pre_tmp" in r),
            "restarts": sum(1 for o in ft_outs for r in o["steps"] if r["op"] == "restart"),
            "cases_with_a_bad_step": sum(1 for b in ft_bad if b)}
        res.assumptions = [
            "process-kill semantics only: what the kernel holds survives (no power loss, no fsync ordering); crash points are the hook "
            "yields snapshot:collected/created/written/renamed, i.e. the boundaries of the file-system calls of saveStateSnapshot",
            "model/M5snap.v is hand-written; tied to router.go by the event trace of every scenario being accepted by the view and by "
            "the view's disk state agreeing with the copied state file at every crash point",
            "configuration in force = json.Marshal of the live router's services at that instant (the code's own MarshalJSON)",
            "Go runtime, os and encoding/json modelled not verified; GOMAXPROCS(1) + testing/synctest: goroutines interleave at yields only",
        ]

        def payload(i, what):
            p = {"property": "C12", "what": what, "seed": seed, "tier": tier, "scenario_index": i, "case": meta[i],
                 "scenario": scen[i], "tree_variant_detected": variant}
            return p
        if mon:
            # report the most telling failure: services lost (2), stale (3), never in force (4), then the rest
            prio = {2: 0, 3: 1, 4: 2, 1: 3, 5: 4}
            i, fails = min(mon, key=lambda m: (min(prio.get(c, 9) for _, c in m[1]), m[0]))
            fails = sorted(fails, key=lambda f: (prio.get(f[1], 9), f[0]))
            recs = crash_records(outs[i])
            p = payload(i, "monitor false on an implementation observation")
            p["failing_crash_points"] = [dict(record_summary(recs[n]), why=CLASSES.get(c, str(c))) for n, c in fails[:4]]
            w0 = max(0, fails[0][0] - 3)
            p["observations_before"] = [record_summary(r) for r in recs[w0:fails[0][0]]]
            p["monitor_failures_in_run"] = {"scenarios": len(mon),
                                            "by_class": {CLASSES[c]: sum(1 for _, fs in mon for _, cc in fs if cc == c) for c in CLASSES
                                                         if any(cc == c for _, fs in mon for _, cc in fs)}}
            res.violation("monitor-%d" % i, p)
        elif any(ft_bad):
            i = next(j for j, b in enumerate(ft_bad) if b)
            k = ft_bad[i][0]
            r = ft_outs[i]["steps"][k]
            res.violation("fault-%d-%d" % (i, k), {
                "property": "C12", "seed": seed, "tier": tier, "case_index": i, "case": jsonable(fault_cases[i]), "failing_step": k,
                "what": "the state file is not what C12 allows after this step (corr/C12fault.fstep_ok): it must be one complete snapshot; after a "
                        "command whose snapshot could be written it describes the configuration in force - whatever an earlier crash left "
                        "lying in the directory; after a command whose write failed it is the previous snapshot or the current one; a "
                        "restart restores what the state file describes",
                "step": {"op": r["op"], "id": r["id"], "result": r.get("result"), "write_cut_short_at_bytes": r.get("fsize"),
                         "leftover_temporary_file": r.get("pre_tmp"), "state_file_before": summary(r["file_before"]),
                         "state_file_after": summary(r["file_after"]), "raw_length_after": r.get("raw_len"),
                         "configuration_before": summary(r["cfg_before"]), "configuration_after": summary(r["cfg_after"]),
                         "other_files_in_directory": r.get("other_files")}})
        elif fs_mon or fs_stale:
            i = fs_mon[0][0] if fs_mon else fs_stale[0]
            o = fs_outs[i]
            p = {"property": "C12", "seed": seed, "tier": tier, "case_index": i, "commands": fs_meta[i], "case": fs_cases[i],
                 "what": "monitor false on an implementation observation (state directory events, corr.C12corr.c12_fs_ok)" if fs_mon
                         else "stale: every command has returned and the state file is not the configuration in force (real scheduler)",
                 "state_file_name": o["state_name"], "directory_events": fs_shown[i]}
            if fs_mon:
                bad = fs_mon[0][1]
                p["offending_events"] = [{"index": n, "event": fs_shown[i][n], "preceding": fs_shown[i][max(0, n - 6):n]} for n in bad[:3]]
                p["why"] = ("after its first appearance the state file may only be replaced by a rename onto it (IN_MOVED_TO); a delete or "
                            "move away leaves a window without a state file, a write in place a window with a partial one: a process "
                            "killed there restarts with no services")
                p["monitor_failures_in_run"] = {"cases": len(fs_mon), "events": sum(len(b) for _, b in fs_mon)}
            else:
                p["final_state_file"] = summary(o["final_state_file"])
                p["configuration_in_force"] = summary(o["final_cfg"])
            res.violation("fs-monitor-%d" % i, p)
        elif bu_ok and any(not r.get("summary") for r in bu_rows):
            r = [x for x in bu_rows if not x.get("summary")][0]
            sm = [x for x in bu_rows if x.get("summary")][0]
            res.violation("burst-%d" % r["round"], {
                "property": "C12", "seed": seed, "tier": tier,
                "what": "stale: eight clients issued four `rollout set` commands each at the same time, 48 services (real scheduler, hooks inert); all of "
                        "them have returned and the state file is not the configuration in force",
                "round": r["round"], "state_file": r["state_file"][:3000], "configuration_in_force": r["configuration_in_force"][:3000],
                "stale_rounds": sm["stale_rounds"], "rounds": sm["rounds"],
                "replay": "VERIF_ROUNDS=%d go test -tags verif -overlay ... -run ^TestVerifC12Burst$ (harness/c12fs_test.go)" % sm["rounds"]})
        elif bt_ok and bt_obs.get("services_in_state_file_after") != bt_obs.get("services_saved"):
            res.violation("boot", {
                "property": "C12", "seed": seed, "tier": tier,
                "what": "the built binary was restarted on a saved state of %d services and a client command (`remove` of an unknown service) "
                        "was sent the moment the command socket existed: afterwards the state file no longer holds the saved "
                        "configuration - the next start would restore less than a full configuration" % bt_obs.get("services_saved", 0),
                "observation": bt_obs,
                "replay": "tools/c12.py boot_race: kamal-proxy run on a state file with N services; `kamal-proxy remove no-such-service` as "
                          "soon as $XDG_RUNTIME_DIR/kamal-proxy.sock exists; stop; count the services in the state file"})
        elif not bt_ok:
            res.violation("broken", {"property": "C12", "seed": seed, "tier": tier,
                                     "what": "the restart-with-an-early-command run of the built binary could not be completed",
                                     "log": bt_log[-3000:]}, no_input=True)
        elif not bu_ok:
            res.violation("broken", {"property": "C12", "seed": seed, "tier": tier,
                                     "what": "burst harness (harness/c12fs_test.go TestVerifC12Burst) does not build/run against the tree",
                                     "harness_output": bu_gout[-3000:]}, no_input=True)
        elif not fs_ok or fs_differ:
            p = {"property": "C12", "seed": seed, "tier": tier,
                 "what": "file-system harness (harness/c12fs_test.go) does not build/run against the tree" if not fs_ok else
                         "state directory events and hook events disagree (renames onto the state file vs snap-rename, temporary files "
                         "created vs snap-create), inotify queue overflow, or no directory event at all"}
            if not fs_ok:
                p["harness_output"] = fs_gout[-3000:]
            else:
                i = fs_differ[0]
                p.update({"case_index": i, "hooks": fs_outs[i]["hooks"], "directory_events": fs_shown[i][:200]})
            res.violation("broken", p, no_input=True)
        elif rejected or differ or not harness_ok or not proofs_ok or stuck or unsettled:
            what = ("the snapshot view (model/M5snap.v, %s) rejects an implementation trace" % variant if rejected else
                    "view and observation differ at a crash point (corr.C12corr.view_mismatch)" if differ else
                    "harness does not build/run against the tree" if not harness_ok else
                    "goroutines left parked at the end of a scenario" if stuck else
                    "a scenario step did not come to rest within the settle bound (harness anomaly)" if unsettled else
                    "proof obligations of props/C12.v do not check")
            if rejected or differ:
                i = (rejected or differ)[0][0]
                p = payload(i, what)
                if rejected:
                    items, _ = trace_items(outs[i]["events"])
                    k = rejected[0][1]
                    p["rejected_event"] = {"index": k, "event": items[k] if k < len(items) else None,
                                           "preceding": items[max(0, k - 12):k]}
                else:
                    recs = crash_records(outs[i])
                    p["mismatches"] = [dict(record_summary(recs[n]), code=c) for n, c in differ[0][1][:4]]
            else:
                p = {"property": "C12", "what": what, "seed": seed, "tier": tier}
            if not harness_ok:
                p["harness_output"] = gout[-3000:]
            if not proofs_ok:
                p["coq_output"] = (blog + pa)[-3000:]
            res.violation("broken", p, no_input=True)
        return res.finish()
    finally:
        work.cleanup()
