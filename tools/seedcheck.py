#!/usr/bin/env python3
"""Confirm a seeded change and run the checks against it.
usage: seedcheck.py <PROP> <src-dir with patch.diff + demo file + README.md> <seed-id> [--checks C04,C05] [--tier quick]

Steps (all in a scratch worktree of /repo HEAD, removed afterwards):
 1. pristine: the demonstration passes;   2. with the patch: builds, the repo's suite passes, the demonstration fails;
 3. `VERIF_REPO=<worktree> ./check <P> <tier>` for the property (and any extra checks): exit status and VIOLATION lines.
Writes /verif/seeded/<seed-id>/{patch.diff, demo file, README.md, meta.json}."""
import glob
import json
import os
import shutil
import subprocess
import sys

VERIF = "/verif"


def sh(cmd, cwd=None, env=None, timeout=3600):
    e = dict(os.environ)
    e.update({"GOFLAGS": "-mod=mod", "GOPROXY": "off"})
    e.pop("GOTOOLCHAIN", None)
    if env:
        e.update(env)
    p = subprocess.run(cmd, cwd=cwd, env=e, shell=isinstance(cmd, str), stdout=subprocess.PIPE, stderr=subprocess.STDOUT,
                       text=True, timeout=timeout)
    return p.returncode, p.stdout


def main():
    prop, src, sid = sys.argv[1], sys.argv[2], sys.argv[3]
    checks = [prop]
    tier = "quick"
    if "--checks" in sys.argv:
        checks = sys.argv[sys.argv.index("--checks") + 1].split(",")
    if "--tier" in sys.argv:
        tier = sys.argv[sys.argv.index("--tier") + 1]
    wt = "/var/tmp/seed-eval-%s" % sid.replace("/", "_")
    sh(["git", "-C", "/repo", "worktree", "remove", "--force", wt])
    rc, out = sh(["git", "-C", "/repo", "worktree", "add", "-q", "--detach", wt, "HEAD"])
    assert rc == 0, out
    meta = {"property": prop, "seed_id": sid, "repo_head": sh(["git", "-C", "/repo", "log", "--format=%h", "-1"])[1].strip()}
    try:
        demos = [f for f in glob.glob(os.path.join(src, "*")) if os.path.basename(f) not in ("patch.diff", "README.md", "meta.json")]
        go_demos = [f for f in demos if f.endswith("_test.go")]
        readme = open(os.path.join(src, "README.md")).read() if os.path.exists(os.path.join(src, "README.md")) else ""
        # where does the demo test go? default internal/server; README may say internal/cmd
        pkg = "internal/cmd" if any("package cmd" in open(f).read() for f in go_demos) else "internal/server"

        def run_demo():
            for f in go_demos:
                shutil.copy(f, os.path.join(wt, pkg, "zz_seed_" + os.path.basename(f)))
            names = []
            for f in go_demos:
                import re
                names += re.findall(r"^func (Test\w+)\(", open(f).read(), re.M)
            tags = ["-tags", "verif"] if any("go:build verif" in open(f).read() for f in go_demos) else []
            if any("go:build race" in open(f).read() for f in go_demos):
                tags = tags + ["-race"]
            rc, out = sh(["go", "test", "-vet=off", "-count=1"] + tags + ["-run", "^(%s)$" % "|".join(names), "./" + pkg], cwd=wt, timeout=1200)
            for f in go_demos:
                os.remove(os.path.join(wt, pkg, "zz_seed_" + os.path.basename(f)))
            return rc, out[-1500:]
        if go_demos:
            rc, out = run_demo()
            meta["demo_on_pristine"] = {"rc": rc, "tail": out[-400:]}
        rc, out = sh(["git", "apply", os.path.abspath(os.path.join(src, "patch.diff"))], cwd=wt)
        if rc != 0:      # written against an earlier HEAD (before a later hook commit): try a three-way merge
            rc, out = sh(["git", "apply", "-3", os.path.abspath(os.path.join(src, "patch.diff"))], cwd=wt)
            meta["applied_three_way"] = rc == 0
        meta["patch_applies"] = rc == 0
        if rc != 0:
            meta["apply_output"] = out[-800:]
        rc, out = sh("go build ./... && go build -tags verif ./...", cwd=wt)
        meta["builds"] = rc == 0
        suite = []
        for _ in range(3):
            rc, out = sh("go test -vet=off -count=1 ./... 2>&1 | grep -E '^(--- FAIL|FAIL|ok|panic)'", cwd=wt, timeout=1200)
            suite.append(out.strip().splitlines())
        meta["suite_runs"] = suite
        meta["suite_passes"] = any(all(not l.startswith(("--- FAIL", "FAIL", "panic")) for l in r) for r in suite)
        if go_demos:
            rc, out = run_demo()
            meta["demo_with_patch"] = {"rc": rc, "tail": out[-600:]}
        meta["confirmed"] = bool(meta["patch_applies"] and meta["builds"] and meta["suite_passes"] and
                                 (not go_demos or (meta["demo_on_pristine"]["rc"] == 0 and meta["demo_with_patch"]["rc"] != 0)))
        results = {}
        for c in checks:
            rc, out = sh(["./check", c, tier], cwd=VERIF, env={"VERIF_REPO": wt, "VERIF_SEED": os.environ.get("VERIF_SEED", "1")}, timeout=3600)
            lines = [l for l in out.splitlines() if l.startswith(("VIOLATION", "KNOWN-FINDING"))]
            results[c] = {"exit": rc, "lines": [l[:300] for l in lines]}
        meta["checks"] = results
        meta["detected_by"] = [c for c, r in results.items() if r["exit"] != 0 and any(l.startswith("VIOLATION") for l in r["lines"])]
        meta["what_was_run"] = ("scratch worktree of /repo HEAD; git apply patch.diff; go build (with and without -tags verif); repo suite x3; "
                                "demonstration on pristine and patched tree; VERIF_REPO=<worktree> ./check <P> %s" % tier)
        dst = os.path.join(VERIF, "seeded", sid)
        os.makedirs(dst, exist_ok=True)
        for f in ["patch.diff", "README.md"] + [os.path.basename(x) for x in demos]:
            if os.path.exists(os.path.join(src, f)):
                shutil.copy(os.path.join(src, f), os.path.join(dst, f if not f.endswith("_test.go") else f + ".txt"))
        json.dump(meta, open(os.path.join(dst, "meta.json"), "w"), indent=1)
        print(json.dumps({k: meta[k] for k in ("seed_id", "confirmed", "detected_by", "suite_passes")}, indent=None))
        for c, r in results.items():
            print(" ", c, "exit", r["exit"], r["lines"][:2])
    finally:
        sh(["git", "-C", "/repo", "worktree", "remove", "--force", wt])


if __name__ == "__main__":
    main()
