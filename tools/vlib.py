"""Shared machinery of the /verif checks: Coq build, Go harness runs through
`go test -overlay`, evaluation of generated case files inside Coq, verdicts,
known findings and evidence files."""
import fcntl
import json
import os
import re
import shutil
import subprocess
import sys
import tempfile
import time

VERIF = os.path.dirname(os.path.dirname(os.path.abspath(__file__)))
REPO = os.environ.get("VERIF_REPO", "/repo")
COQ = os.environ.get("VERIF_COQ", os.path.join(VERIF, "coq"))    # VERIF_COQ: a scratch copy of the development (dev only)
HARNESS = os.path.join(VERIF, "harness")
WORKROOT = os.path.join(VERIF, ".work")

GO_ENV = {
    "GOFLAGS": "-mod=mod",
    "GOPROXY": "off",
    "GOTOOLCHAIN": "local",
    "GONOSUMDB": "*",
    "GONOSUMCHECK": "1",
    "GOFLAGS_EXTRA": "",
}


def log(*a):
    print(*a, file=sys.stderr, flush=True)


class Work:
    """Scratch directory under /verif/.work, removed on exit."""

    def __init__(self, tag):
        os.makedirs(WORKROOT, exist_ok=True)
        self.dir = tempfile.mkdtemp(prefix=tag + "-", dir=WORKROOT)

    def path(self, *p):
        return os.path.join(self.dir, *p)

    def cleanup(self):
        shutil.rmtree(self.dir, ignore_errors=True)


# ---------------------------------------------------------------- Coq ----

def coq_build(targets=None, timeout=3000):
    """Full .vo build (incremental through make) under an exclusive lock.
    Returns (ok, log)."""
    os.makedirs(WORKROOT, exist_ok=True)
    with open(os.path.join(WORKROOT, "coq.lock"), "w") as lk:
        fcntl.flock(lk, fcntl.LOCK_EX)
        cmd = [os.path.join(COQ, "build.sh")]
        if targets:
            cmd += targets
        p = subprocess.run(cmd, cwd=COQ, stdout=subprocess.PIPE, stderr=subprocess.STDOUT,
                           text=True, timeout=timeout)
        return p.returncode == 0, p.stdout


def coq_theorems(work, prop_file):
    """Names of the Theorem statements in props/<file> and the
    Print Assumptions output of a fresh compilation of that file."""
    path = os.path.join(COQ, "props", prop_file)
    src = open(path).read()
    names = re.findall(r"^\s*Theorem\s+([A-Za-z0-9_']+)", src, re.M)
    p = subprocess.run(["coqc", "-Q", COQ, "KP", "-w", "-notation-overridden", "-no-glob",
                        "-o", work.path(prop_file + "o"), path],
                       cwd=work.dir, stdout=subprocess.PIPE, stderr=subprocess.STDOUT, text=True, timeout=1800)
    return names, p.returncode == 0, p.stdout


def coq_gate():
    """Refuse axioms, admits and disabled checks anywhere in the development."""
    bad = re.compile(r"\b(Admitted|admit|Axiom|Axioms|Parameter|Parameters|Conjecture|Conjectures)\b|"
                     r"Unset\s+Guard|bypass_check|Admit\s+Obligations|type-in-type|impredicative-set|"
                     r"Unset\s+Universe\s+Checking|Unset\s+Positivity")
    hits = []
    for root, _, files in os.walk(COQ):
        for f in files:
            if f.endswith(".v"):
                txt = open(os.path.join(root, f)).read()
                txt = re.sub(r"\(\*.*?\*\)", "", txt, flags=re.S)
                for m in bad.finditer(txt):
                    hits.append("%s: %s" % (os.path.join(root, f), m.group(0)))
                # Variable/Hypothesis outside a section
                depth = 0
                for line in txt.splitlines():
                    if re.match(r"\s*Section\b", line):
                        depth += 1
                    elif re.match(r"\s*End\b", line) and depth > 0:
                        depth -= 1
                    elif depth == 0 and re.match(r"\s*(Variable|Variables|Hypothesis|Hypotheses|Context)\b", line):
                        hits.append("%s: %s outside section" % (f, line.strip()))
    return hits


def byte_lit(b):
    return "x%02x" % b


def str_lit(bs):
    """Coq term of type str for a bytes object."""
    if len(bs) == 0:
        return "[]"
    return "[" + ";".join("x%02x" % b for b in bs) + "]"


def list_lit(items):
    return "[" + "; ".join(items) + "]"


def bool_lit(b):
    return "true" if b else "false"


def coq_eval(work, name, imports, body, print_name, timeout=1800):
    """Write a .v file that defines `print_name` by vm_compute and prints it;
    returns the printed term text (everything after '=')."""
    path = work.path(name + ".v")
    with open(path, "w") as f:
        f.write(imports + "\n" + body + "\nSet Printing Width 1000000.\nSet Printing Depth 1000000.\nPrint %s.\n" % print_name)
    p = subprocess.run(["coqc", "-Q", COQ, "KP", "-w", "-notation-overridden", path],
                       cwd=work.dir, stdout=subprocess.PIPE, stderr=subprocess.STDOUT, text=True, timeout=timeout)
    if p.returncode != 0:
        raise RuntimeError("coqc failed on %s:\n%s" % (path, p.stdout[-4000:]))
    out = p.stdout
    m = re.search(re.escape(print_name) + r"\s*=\s*(.*?)\n\s*:\s", out, re.S)
    if not m:
        raise RuntimeError("cannot parse coqc output:\n" + out[-2000:])
    return m.group(1).strip()


# ----------------------------------------------------------------- Go ----

def go_env():
    """The repository's own toolchain (go.mod says 1.24.2; /usr/bin/go switches to
    the cached toolchain).  GOTOOLCHAIN=local or GOSUMDB=off would break that switch."""
    env = dict(os.environ)
    env.update({"GOFLAGS": "-mod=mod", "GOPROXY": "off"})
    env.pop("GOTOOLCHAIN", None)
    env.pop("GOSUMDB", None)
    return env


def overlay_file(work, files, pkgdir="internal/server"):
    """Overlay mapping harness files into the package directory of /repo."""
    replace = {}
    for f in files:
        src = os.path.join(HARNESS, f)
        base = os.path.basename(f)
        dst = os.path.join(REPO, pkgdir, "zz_verif_" + base)
        replace[dst] = src
    path = work.path("overlay-%s.json" % pkgdir.replace("/", "_"))
    with open(path, "w") as fh:
        json.dump({"Replace": replace}, fh)
    return path


def go_test(work, files, run, env_extra, pkgdir="internal/server", timeout=1800, race=False, extra_args=None,
            synctest=False):
    """Build /repo's package from the current working tree with the harness
    overlaid and run one harness test.  Returns (returncode, output)."""
    ov = overlay_file(work, files, pkgdir)
    env = go_env()
    env.update(env_extra)
    if synctest:
        env["GOEXPERIMENT"] = "synctest"
        # virtual-clock scenarios record event traces whose reading is "one lock region = one step": besides
        # GOMAXPROCS(1) (set by the harness) goroutines must not be switched by async preemption or at GC safepoints
        env.setdefault("GODEBUG", "asyncpreemptoff=1")
        env.setdefault("GOGC", "off")
    cmd = ["go", "test", "-tags", "verif", "-overlay", ov, "-count=1", "-vet=off",
           "-run", run, "-timeout", "%ds" % timeout]
    if race:
        cmd.append("-race")
    prof = None
    if os.environ.get("VERIF_COVER") == "1" and not race:
        # statement coverage of /repo's packages under this harness run (evidence only: which modelled code the
        # correspondence run actually exercised)
        prof = work.path("cover-%d.out" % len(COVER_RUNS))
        COVER_RUNS.append(prof)
        cmd += ["-covermode=set", "-coverpkg=./internal/...", "-coverprofile=" + prof]
    if extra_args:
        cmd += extra_args
    cmd.append("./" + pkgdir)
    p = subprocess.run(cmd, cwd=REPO, env=env, stdout=subprocess.PIPE, stderr=subprocess.STDOUT,
                       text=True, timeout=timeout + 120)
    if prof and os.path.exists(prof):
        cover_merge(prof)
    return p.returncode, p.stdout


COVER_RUNS = []
COVER_BLOCKS = {}      # "file:range" -> [statements, hit?]


def cover_merge(path):
    with open(path) as f:
        for line in f:
            if line.startswith("mode:"):
                continue
            parts = line.rsplit(" ", 2)
            if len(parts) != 3:
                continue
            b = COVER_BLOCKS.setdefault(parts[0], [int(parts[1]), 0])
            b[1] = b[1] or int(parts[2])


def cover_summary(work, prop):
    """Per-file and per-function statement coverage of the merged profiles; functions of the property's anchor files that the
    run did not fully exercise are listed."""
    if not COVER_BLOCKS:
        return None
    merged = work.path("cover-merged.out")
    with open(merged, "w") as f:
        f.write("mode: set\n")
        for k, (n, c) in sorted(COVER_BLOCKS.items()):
            f.write("%s %d %d\n" % (k, n, 1 if c else 0))
    p = subprocess.run(["go", "tool", "cover", "-func=" + merged], cwd=REPO, env=go_env(), stdout=subprocess.PIPE,
                       stderr=subprocess.STDOUT, text=True, timeout=300)
    anchors = []
    try:
        for l in open(os.path.join(VERIF, "properties.jsonl")):
            pr = json.loads(l)
            if pr["id"] == prop:
                anchors = pr["anchors"]["files"]
    except Exception:
        pass
    files = {}
    for k, (n, c) in COVER_BLOCKS.items():
        fn = k.split(":")[0].split("kamal-proxy/")[-1]
        t = files.setdefault(fn, [0, 0])
        t[0] += n
        t[1] += n if c else 0
    partial = []
    nfun = full = 0
    for line in p.stdout.splitlines():
        m = re.match(r"^\S*kamal-proxy/(\S+?):(\d+):\s+(\S+)\s+([0-9.]+)%$", line)
        if not m:
            continue
        nfun += 1
        if m.group(4) == "100.0":
            full += 1
        elif m.group(1) in anchors:
            partial.append("%s:%s %s %s%%" % (m.group(1), m.group(2), m.group(3), m.group(4)))
    return {"harness_runs_measured": len(COVER_RUNS), "functions": nfun, "functions_fully_covered": full,
            "anchor_files": {f: "%d/%d statements" % (files[f][1], files[f][0]) for f in anchors if f in files},
            "anchor_functions_not_fully_covered": partial[:60],
            "note": "statement coverage (go test -cover, -coverpkg=./internal/...) of /repo under the harness runs of this check; "
                    "evidence about the correspondence run only, not part of any verdict"}


def read_jsonl(path):
    out = []
    with open(path) as f:
        for line in f:
            line = line.strip()
            if line:
                out.append(json.loads(line))
    return out


def write_jsonl(path, items):
    with open(path, "w") as f:
        for it in items:
            f.write(json.dumps(it) + "\n")


# ------------------------------------------------------------ verdicts ----

def known_findings(prop=None):
    """Entries of /verif/known_findings/*.json (committed; never written at run
    time).  Each file: {"findings": [{"property":..,"id":..,"what":..,"pattern":..}, ...],
    "fixed": [...]}.  `fixed` entries suppress nothing."""
    d = os.path.join(VERIF, "known_findings")
    out = []
    if os.path.isdir(d):
        for f in sorted(os.listdir(d)):
            if f.endswith(".json"):
                for e in json.load(open(os.path.join(d, f))).get("findings", []):
                    if prop is None or e.get("property") == prop:
                        out.append(e)
    return out


HANGS = []        # scenarios the harness' watchdog abandoned because they did not end (m5.read_hang, m4check.go_run)
HANG_PROPS = {"C01": "a deploy whose targets do not become healthy must REPORT failure",
              "C02": "every request must be answered", "C03": "the command must return and the cut-off requests be answered",
              "C07": "every held request gets exactly one outcome", "C09": "every request must be answered (503 when no target is healthy)",
              "C05": "racing and interleaved deploys must each return"}
PANICS = []       # panics of the proxy observed while a scenario ran (note_panics)


def note_panics(scenarios, outs):
    """A request handler or a command of the real code panicked during a scenario (net/http's own abort signal apart):
    whatever property the scenario was generated for, the request / command did not get its proper answer."""
    for j, o in enumerate(outs):
        for r in o.get("results", []):
            pv = r.get("panic")
            if pv and "abort Handler" not in str(pv):
                PANICS.append({"scenario": scenarios[j] if j < len(scenarios) else None, "step": r.get("id"), "op": r.get("op"),
                               "panic": str(pv)[:2000]})


def note_crash(out_path, scenarios, rc, gout):
    """The harness process itself died while scenario k ran (a panic in a goroutine that is neither a request handler nor a
    command - a probe loop, a drain helper - or a fatal runtime error such as 'concurrent map writes', 'unlock of unlocked
    mutex', 'all goroutines are asleep'): on the real proxy that ends the process, every request in flight and every later one
    goes unanswered.  The scenario is the failing input.  Returns the record or None."""
    cur = out_path + ".cur"
    k = None
    if os.path.exists(cur):
        try:
            k = int(open(cur).read().strip())
        except ValueError:
            k = None
        os.remove(cur)
    if rc == 0 or k is None:
        return None
    m = re.search(r"^(panic: .*|fatal error: .*)$", gout, re.M)
    if not m or "test timed out" in m.group(1):
        return None
    at = gout.find(m.group(0))
    rec = {"scenario": scenarios[k] if k < len(scenarios) else None, "index": k, "process_crash": True,
           "panic": m.group(1)[:500], "stack": gout[at:at + 4000]}
    PANICS.append(rec)
    return rec


class Result:
    def __init__(self, prop, tier, seed):
        self.prop = prop
        self.tier = tier
        self.seed = seed
        self.t0 = time.time()
        self.violations = []      # (replay_path, suffix)
        self.known = []           # strings
        self.coverage = {}
        self.assumptions = []
        self.notes = []

    def replay_path(self, tag):
        d = os.path.join(VERIF, "replay")
        os.makedirs(d, exist_ok=True)
        return os.path.join(d, "%s-%s.json" % (self.prop, tag))

    def violation(self, tag, payload, no_input=False):
        path = self.replay_path(tag)
        with open(path, "w") as f:
            json.dump(payload, f, indent=1, sort_keys=True, default=lambda b: b.decode("latin1") if isinstance(b, bytes) else str(b))
        self.violations.append((path, " no-failing-input-found" if no_input else ""))

    def known_finding(self, what):
        if what not in self.known:
            self.known.append(what)

    def finish(self, level="proof"):
        if HANGS and self.prop in HANG_PROPS and not any(sfx == "" for _, sfx in self.violations):
            # a scenario of this check does not end on this tree (a command that never returns, a request that is never
            # answered, a goroutine that never stops): that scenario is the failing input
            self.violations = []
            self.violation("hang-%s" % HANGS[0].get("index"), {
                "property": self.prop, "seed": self.seed, "tier": self.tier,
                "what": "this scenario does not end on the real code (virtual clock; abandoned by the real-time watchdog): "
                        + HANG_PROPS[self.prop], "hang": json.loads(json.dumps(HANGS[0], default=lambda b: b.decode("latin1")))})
        if PANICS and not any(sfx == "" for _, sfx in self.violations):
            # no concrete failing input so far: the scenario during which the proxy panicked is one
            self.violations = []
            self.violation("panic", {"property": self.prop, "seed": self.seed, "tier": self.tier,
                                     "what": "the proxy panicked while serving a request / executing a command of this scenario "
                                             "(the client gets no answer; a panic in a command handler ends the process)",
                                     "panics": len(PANICS), "first": json.loads(json.dumps(PANICS[0], default=lambda b: b.decode("latin1")))})
        ev = {
            "property_id": self.prop,
            "tier": self.tier,
            "seed": self.seed,
            "level": level,
            "coverage": self.coverage,
            "assumptions": self.assumptions,
            "wall_s": round(time.time() - self.t0, 2),
            "violations": len(self.violations),
        }
        if self.notes:
            ev["coverage"]["notes"] = self.notes
        if self.known:
            ev["coverage"]["known_findings_reported"] = self.known
        if COVER_BLOCKS and os.environ.get("VERIF_COVER_DUMP"):
            # development aid: the raw block table of this run (union over checks: tools/coverunion.py)
            with open(os.path.join(os.environ["VERIF_COVER_DUMP"], self.prop + ".blocks.json"), "w") as f:
                json.dump(COVER_BLOCKS, f)
        if COVER_BLOCKS:
            cw = Work(self.prop + "-cover")
            try:
                cs = cover_summary(cw, self.prop)
                if cs:
                    ev["coverage"]["code_coverage"] = cs
            except Exception as ex:       # evidence only
                ev["coverage"]["code_coverage"] = {"error": str(ex)[:300]}
            finally:
                cw.cleanup()
        # evidence/ describes runs against /repo itself; a run against another tree (VERIF_REPO: seeded changes, harmless
        # rewrites) leaves its record under .work/ instead
        # (likewise a run on a scratch copy of the Coq development, VERIF_COQ: development aid)
        own = os.path.realpath(REPO) == "/repo" and os.path.realpath(COQ) == os.path.realpath(os.path.join(VERIF, "coq"))
        evdir = os.path.join(VERIF, "evidence") if own else os.path.join(WORKROOT, "evidence-other-tree")
        os.makedirs(evdir, exist_ok=True)
        with open(os.path.join(evdir, self.prop + ".json"), "w") as f:
            json.dump(ev, f, indent=1, sort_keys=True)
        for k in self.known:
            print("KNOWN-FINDING: property=%s %s" % (self.prop, k))
        for path, suffix in self.violations:
            print("VIOLATION property=%s replay=%s%s" % (self.prop, path, suffix))
        sys.stdout.flush()
        return 1 if self.violations else 0


def proof_obligations(work, res, prop_file, coq_ok, coq_log):
    """Record the theorem obligations of props/<file>; a build failure is a
    broken proof obligation."""
    names, ok, out = coq_theorems(work, prop_file)
    closed = out.count("Closed under the global context")
    axioms = set()
    in_ax = False
    for line in out.splitlines():
        if line.startswith("Axioms:"):
            in_ax = True
            continue
        if line.startswith("Closed under") or (line and not line[0].isspace() and not re.match(r"^[A-Za-z_][A-Za-z0-9_.']*\s*:", line) and not in_ax):
            in_ax = False
        if in_ax:
            m = re.match(r"^([A-Za-z_][A-Za-z0-9_.']*)\s*:", line)
            if m:
                axioms.add(m.group(1))
    axioms = sorted(axioms)
    res.coverage.update({
        "obligations": len(names),
        "discharged": len(names) if (ok and coq_ok) else 0,
        "theorems": names,
        "checker_cmd": "cd /verif/coq && ./build.sh  (coq_makefile + make, full .vo build; coqc 8.16.1) ; coqc props/%s" % prop_file,
        "trusted_base": ["Coq 8.16.1 kernel incl. vm_compute (no native_compute)",
                         "Print Assumptions: %d theorem(s) closed under the global context" % closed]
                        + (["axioms reported: " + ", ".join(axioms)] if axioms else []),
    })
    return ok and coq_ok, out


def proof_obligations_multi(work, res, prop_files, coq_ok, coq_log):
    """proof_obligations over several statement files: obligations / discharged / theorems / axioms are summed."""
    all_ok, outs = True, ""
    ob = {"obligations": 0, "discharged": 0, "theorems": []}
    tb = []
    for pf in prop_files:
        p_ok, out = proof_obligations(work, res, pf, coq_ok, coq_log)
        all_ok = all_ok and p_ok
        outs += out
        ob["obligations"] += res.coverage["obligations"]
        ob["discharged"] += res.coverage["discharged"]
        ob["theorems"] += res.coverage["theorems"]
        tb += [x for x in res.coverage["trusted_base"][2:]]
    res.coverage.update(ob)
    res.coverage["checker_cmd"] = ("cd /verif/coq && ./build.sh  (coq_makefile + make, full .vo build; coqc 8.16.1) ; coqc props/"
                                   + " props/".join(prop_files))
    res.coverage["trusted_base"] = ["Coq 8.16.1 kernel incl. vm_compute (no native_compute)",
                                    "Print Assumptions: %d of %d theorem(s) closed under the global context"
                                    % (outs.count("Closed under the global context"), ob["obligations"])] + sorted(set(tb))
    return all_ok, outs


def parse_failures(txt):
    """Parse the printed value of a `list (nat * bool * bool)`; strict: anything
    unexpected raises instead of reading as 'no failures'."""
    t = txt.strip()
    if t in ("[]", "nil"):
        return []
    if not (t.startswith("[") and t.endswith("]")):
        raise RuntimeError("unexpected failures term: " + t[:200])
    items = [x.strip() for x in t[1:-1].split(";")]
    out = []
    for it in items:
        m = re.fullmatch(r"\((\d+)(?:%nat)?, (true|false), (true|false)\)", it)
        if not m:
            raise RuntimeError("unexpected failures item: " + it[:200])
        out.append((int(m.group(1)), m.group(2) == "true", m.group(3) == "true"))
    return out
