"""Development helper: acceptance statistics of model/M5lb.v on random scenarios.
usage: m5lbdev.py <seed> <n> [--profile k] [--show]"""
import sys; sys.path.insert(0, '/verif/tools')
import random, collections, json, time
from vlib import *
import m5, m5lb

PROFILES = [None, {"yields": 2.0}, {"requests": 3.0, "flap": 1.0, "yields": 1.5}, {"deploys": 2.0, "rollout": 1.0, "yields": 1.5, "pause": 0.2},
            {"services": [b"web"], "hosts": [b"a.example.com"], "requests": 3.0, "yields": 2.0, "flap": 1.5}]

seed = int(sys.argv[1]); n = int(sys.argv[2])
rnd = random.Random(seed)
scs = m5lb.random_scenarios(rnd, n, PROFILES)
work = Work("m5lbdev")
try:
    t0 = time.time()
    ok, gout, outs = m5.run_scenarios(work, scs)
    print("go", ok, round(time.time() - t0, 1), "" if ok else gout[-2000:])
    t0 = time.time()
    expr = sys.argv[sys.argv.index("--expr") + 1] if "--expr" in sys.argv else "fun tr => reject_at tr"
    imports = m5lb.IMPORTS if "--mon" in sys.argv else m5lb.IMPORTS_MODEL
    rs = m5lb.coq_eval_traces(work, imports, outs, expr, "dev")
    print("coq", round(time.time() - t0, 1), "events", m5lb.n_events(outs))
    bad = [(i, r) for i, r in enumerate(rs) if not (r in (None, True) or (isinstance(r, tuple) and all(x is None for x in r)))]
    print("scenarios", len(outs), "not-ok", len(bad))
    for i, r in bad[:5]:
        print("scenario", i, "->", r)
        if isinstance(r, tuple) and r[0] == "Some":
            k = r[1]
            # show the converted-trace neighbourhood
            for j in range(max(0, k - 12), k + 1):
                print("  ", j, json.dumps(m5lb.event_at(outs[i], j))[:300])
    if "--save" in sys.argv and bad:
        json.dump({"scenario": scs[bad[0][0]], "out": outs[bad[0][0]]}, open("/var/tmp/m5lb-bad.json", "w"))
finally:
    work.cleanup()
