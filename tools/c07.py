"""C07 — A paused service holds requests and releases them intact.

Proof obligations of props/C07.v (theorems over ALL traces accepted by the
gate view model/M5gate.v and the path view model/M5path.v; the health-check
shortcut on model/Seq.v).  Correspondence: random and forced schedules of
request arrivals interleaved with pause / resume / stop / repeated pause /
redeploy and the expiry of each request's own max-pause timer, run on the real
Router / Service / PauseController / LoadBalancer / Target under the virtual
clock (harness/sim_test.go); every recorded event trace must be accepted by both
views, and the monitor corr/C07corr.c07_check (the property on the observed
trace alone) is evaluated on it in the Coq kernel.  Monitor failures matching
the narrow patterns of known_findings/C07.json are reported as known findings."""
import random

import m4x
import m5
from vlib import *

SEC, MS, H = m5.SEC, m5.MS, m5.H
HOSTS = {b"web": b"a.example.com", b"api": b"b.example.com"}
HEALTH = b"/up"
YIELDS = ["req:routed", "req:gate-passed", "pause:gate-set", "req:lb-picked", "req:gate-woken"]
# event kinds that a view or the monitor looks at (model/M5path.v: kept; props/C07.v: c07_dropped_events_ignored);
# the others are dropped before the trace term is built
KEPT = {"issue", "return", "respond", "routed", "svc-copy", "slot", "install", "removed", "pick", "gate-set", "gate-read",
        "gate-wake", "gate-result", "lb-new", "lb-claim", "claim", "claim-refused", "probe-apply", "state-set"}


# ------------------------------------------------------------ scenario steps ----

def st_deploy(cid, name, targets, drain=3 * SEC, async_=False, dt=5 * SEC, probes=None):
    return {"op": "deploy", "id": cid, "async": async_, "name": H(name), "hosts": [H(HOSTS[name])], "prefixes": [],
            "tls": False, "tls_redirect": False, "strip": True, "cert": "none", "pages": "none",
            "targets": [{"name": H(t), "probes": probes or ["ok"]} for t in targets],
            "deploy_timeout": dt, "drain_timeout": drain, "topts": {"interval": SEC, "timeout": 5 * SEC}}


def st_req(rid, name=b"web", uri=b"/", beh="reply", method="GET"):
    return {"op": "request", "id": rid, "async": True, "host": H(HOSTS[name]), "uri": H(uri), "behaviour": beh,
            "headers": [], "method": method}


def st_pause(cid, name, fa, drain=3 * SEC, async_=True):
    return {"op": "pause", "id": cid, "async": async_, "name": H(name), "fail_after": fa, "drain_timeout": drain}


def st_stop(cid, name, drain=3 * SEC, async_=True, msg=b"stopped"):
    return {"op": "stop", "id": cid, "async": async_, "name": H(name), "msg": H(msg), "drain_timeout": drain}


def st_resume(cid, name, async_=True):
    return {"op": "resume", "id": cid, "async": async_, "name": H(name)}


def st_arm(p, n=1):
    return {"op": "arm", "point": p, "n": n}


def st_rel(p, who=""):
    return {"op": "release", "point": p, "who": who}


def st_sleep(ns):
    return {"op": "sleep", "ns": ns} if ns > 0 else {"op": "settle"}


def st_end():
    out = [st_arm(p, -1000) for p in YIELDS + ["drain:marked"]]      # disarm: nothing parks any more
    for _ in range(8):
        for p in YIELDS + ["drain:marked"]:
            out.append(st_rel(p))
    return out + [st_sleep(45 * SEC), {"op": "observe", "id": "final"}]


# -------------------------------------------------------- forced schedules ----

def forced():
    d10 = "delay:%d" % (10 * SEC)
    sc = {}
    # D3: r2 passed the gate, pause sets the gate and drains (r1 in flight keeps the target draining), r2 claims => 503
    sc["d3-refused"] = [st_deploy("c1", b"web", [b"ta:80"]), st_req("r1", beh=d10), st_arm("req:gate-passed"), st_req("r2"),
                        st_pause("c2", b"web", 4 * SEC), st_rel("req:gate-passed"), st_sleep(SEC), st_resume("c3", b"web")]
    # D3, other face: the drain is over, r2 is forwarded while the service is paused
    sc["d3-forwarded"] = [st_deploy("c1", b"web", [b"ta:80"]), st_arm("req:gate-passed"), st_req("r2"),
                          st_pause("c2", b"web", 4 * SEC), st_rel("req:gate-passed"), st_sleep(SEC), st_resume("c3", b"web")]
    sc["d3-lb-picked"] = [st_deploy("c1", b"web", [b"ta:80"]), st_req("r1", beh=d10), st_arm("req:lb-picked"), st_req("r2"),
                          st_pause("c2", b"web", 4 * SEC), st_rel("req:lb-picked"), st_sleep(4 * SEC), st_resume("c3", b"web")]
    sc["d3-stop"] = [st_deploy("c1", b"web", [b"ta:80"]), st_req("r1", beh=d10), st_arm("req:gate-passed"), st_req("r2"),
                     st_stop("c2", b"web"), st_rel("req:gate-passed"), st_sleep(4 * SEC), st_resume("c3", b"web")]
    # D2: r1 is held, the service is redeployed, resume => r1 goes to the replaced balancer
    sc["d2-resume"] = [st_deploy("c1", b"web", [b"ta:80"]), st_pause("c2", b"web", 30 * SEC), st_req("r1"),
                       st_deploy("c3", b"web", [b"tb:80"]), st_sleep(SEC), st_resume("c4", b"web"), st_req("r2")]
    sc["d2-resume-2"] = [st_deploy("c1", b"web", [b"ta:80", b"tb:80"]), st_pause("c2", b"web", 30 * SEC, async_=False),
                         st_req("r1"), st_req("r2"), st_req("r3", method="POST"),
                         st_deploy("c3", b"web", [b"tc:80"]), st_deploy("c4", b"web", [b"td:80"]), st_sleep(2 * SEC),
                         st_resume("c5", b"web"), st_req("r4")]
    # overlap: resume while the pause is still draining; new and released requests meet a draining target
    sc["overlap"] = [st_deploy("c1", b"web", [b"ta:80"]), st_req("r1", beh=d10), st_pause("c2", b"web", 4 * SEC), st_req("r2"),
                     st_sleep(500 * MS), st_resume("c3", b"web"), st_req("r3"), st_sleep(5 * SEC), st_req("r4")]
    # timers: +-1 ns around a resume; repeated pause changes the max-pause for later arrivals only
    sc["timers"] = [st_deploy("c1", b"web", [b"ta:80"]), st_pause("c2", b"web", 2 * SEC, async_=False), st_req("r1"),
                    st_sleep(1), st_req("r2"), st_sleep(SEC), st_pause("c3", b"web", 5 * SEC, async_=False), st_req("r3"),
                    st_sleep(SEC - 1), st_resume("c4", b"web"), st_req("r5", uri=HEALTH), st_sleep(1), st_req("r4")]
    sc["timers-2"] = [st_deploy("c1", b"web", [b"ta:80"]), st_pause("c2", b"web", 2 * SEC, async_=False), st_req("r1"),
                      st_sleep(1), st_req("r2"), st_sleep(2), st_req("r3"), st_sleep(2 * SEC - 2), st_resume("c4", b"web"),
                      st_req("r4"), st_sleep(SEC), st_pause("c5", b"web", 0, async_=False), st_req("r6"), st_sleep(SEC),
                      st_pause("c6", b"web", 1, async_=False), st_req("r7"), st_sleep(1), st_stop("c7", b"web"), st_req("r8")]
    sc["stop"] = [st_deploy("c1", b"web", [b"ta:80"]), st_pause("c2", b"web", 2 * SEC, async_=False), st_req("r1"),
                  st_req("r2", uri=HEALTH), st_req("r3", uri=HEALTH, method="POST"), st_req("r9", uri=b"/up/"), st_sleep(SEC),
                  st_stop("c3", b"web", async_=False), st_req("r4"), st_req("r5", uri=HEALTH),
                  st_pause("c4", b"web", SEC, async_=False), st_req("r6"), st_sleep(SEC), st_resume("c5", b"web", async_=False),
                  st_req("r7")]
    # stop then resume before the released request runs on: the re-read decides
    sc["reread"] = [st_deploy("c1", b"web", [b"ta:80"]), st_pause("c2", b"web", 5 * SEC, async_=False), st_req("r1"), st_req("r2"),
                    st_sleep(SEC), {"op": "stop", "id": "c3", "async": False, "name": H(b"web"), "msg": H(b"x"), "drain_timeout": 0},
                    st_sleep(SEC), st_pause("c4", b"web", 3 * SEC, async_=False), st_req("r3"), st_sleep(SEC),
                    st_deploy("c5", b"web", [b"tb:80"]), st_req("r4"), st_sleep(SEC), st_resume("c6", b"web", async_=False)]
    # a resume wakes r1; before r1 runs on, the service is paused again: r1's outcome was decided by the resume (D3 face on the
    # real code: it goes on although paused again); it must not be held for a second max-pause
    sc["woken-then-paused"] = [st_deploy("c1", b"web", [b"ta:80"]), st_pause("c2", b"web", 2 * SEC, async_=False), st_req("r1"),
                               st_sleep(SEC), st_arm("req:gate-woken"), st_resume("c3", b"web", async_=False), st_sleep(0),
                               st_pause("c4", b"web", 5 * SEC, async_=False), st_rel("req:gate-woken"), st_req("r2"),
                               st_sleep(3 * SEC), st_resume("c5", b"web", async_=False)]
    sc["woken-then-stopped"] = [st_deploy("c1", b"web", [b"ta:80"]), st_pause("c2", b"web", 2 * SEC, async_=False), st_req("r1"),
                                st_sleep(SEC), st_arm("req:gate-woken"), st_resume("c3", b"web", async_=False), st_sleep(0),
                                st_stop("c4", b"web", async_=False), st_rel("req:gate-woken"), st_sleep(SEC),
                                st_resume("c5", b"web", async_=False)]
    # held requests released by a stop WITHOUT a message (the default): they are answered 503 like with any other message
    sc["stop-empty-message"] = [st_deploy("c1", b"web", [b"ta:80"]), st_pause("c2", b"web", 20 * SEC, async_=False), st_req("r1"),
                                st_req("r2"), st_sleep(SEC),
                                {"op": "stop", "id": "c3", "async": False, "name": H(b"web"), "msg": H(b""), "drain_timeout": SEC},
                                st_req("r3"), st_sleep(SEC), st_resume("c4", b"web", async_=False), st_req("r4")]
    # the rollout split / the rollout targets change while requests are held: on resume each held request goes to the targets
    # the service selects for it THEN ("expect": request -> target that must answer it)
    rd = lambda cid, t: {"op": "rollout_deploy", "id": cid, "async": False, "name": H(b"web"), "targets": [{"name": H(t), "probes": ["ok"]}],
                         "deploy_timeout": 5 * SEC, "drain_timeout": SEC}
    rset = lambda cid, pct: {"op": "rollout_set", "id": cid, "async": False, "name": H(b"web"), "pct": pct, "allow": []}
    cookie = lambda rid: dict(st_req(rid), headers=[[H(b"Cookie"), H(b"kamal-rollout=alice")]])
    out = [(k, {"steps": v + st_end()}) for k, v in sc.items()]
    out.append(("held-rollout-stopped", {"steps": [st_deploy("c1", b"web", [b"ta:80"]), rd("c2", b"tr:80"), rset("c3", 100),
                                                   st_pause("c4", b"web", 20 * SEC, async_=False), cookie("r1"), st_req("r2"), st_sleep(SEC),
                                                   {"op": "rollout_stop", "id": "c5", "async": False, "name": H(b"web")}, st_sleep(SEC),
                                                   st_resume("c6", b"web", async_=False), cookie("r3")] + st_end(),
                                         "expect": {"r1": "ta:80", "r2": "ta:80", "r3": "ta:80"}}))
    out.append(("held-rollout-set", {"steps": [st_deploy("c1", b"web", [b"ta:80"]), rd("c2", b"tr:80"),
                                               st_pause("c4", b"web", 20 * SEC, async_=False), cookie("r1"), st_req("r2"), st_sleep(SEC),
                                               rset("c5", 100), st_sleep(SEC), st_resume("c6", b"web", async_=False), cookie("r3")] + st_end(),
                                     "expect": {"r1": "tr:80", "r2": "ta:80", "r3": "tr:80"}}))
    out.append(("held-rollout-redeployed", {"steps": [st_deploy("c1", b"web", [b"ta:80"]), rd("c2", b"tr:80"), rset("c3", 100),
                                                      st_pause("c4", b"web", 20 * SEC, async_=False), cookie("r1"), st_sleep(SEC),
                                                      rd("c5", b"ts:80"), st_sleep(SEC), st_resume("c6", b"web", async_=False), cookie("r3")] + st_end(),
                                            "expect": {"r1": "ts:80", "r3": "ts:80"}}))
    # "releases them intact": requests with a body (declared length / chunked) held by a pause and released by a resume
    # reach the target with that body (the scripted target transport compares length and checksum)
    body = lambda rid, n, chunked=False: dict(st_req(rid), method="POST", body=H(bytes((7 * i + n) % 251 for i in range(n))), chunked=chunked)
    out.append(("held-with-body", {"steps": [st_deploy("c1", b"web", [b"ta:80"]), body("r1", 8), st_sleep(SEC // 10),
                                             st_pause("c2", b"web", 20 * SEC, async_=False), body("r2", 8), body("r3", 70000), body("r4", 300, True),
                                             st_sleep(SEC), st_resume("c3", b"web", async_=False), body("r5", 17)] + st_end(),
                                   "expect": {"r1": "ta:80", "r2": "ta:80", "r3": "ta:80", "r4": "ta:80", "r5": "ta:80"}}))
    # a repeated pause replaces the max-pause in force: requests arriving after it are held for the NEW max-pause
    out.append(("repeated-pause-shorter", {"steps": [st_deploy("c1", b"web", [b"ta:80"]), st_pause("c2", b"web", 10 * SEC, async_=False),
                                                     st_pause("c3", b"web", SEC // 5, async_=False), st_req("r1"), st_sleep(2 * SEC),
                                                     st_resume("c4", b"web", async_=False), st_req("r2")] + st_end()}))
    out.append(("repeated-pause-longer", {"steps": [st_deploy("c1", b"web", [b"ta:80"]), st_pause("c2", b"web", SEC // 5, async_=False),
                                                    st_pause("c3", b"web", 10 * SEC, async_=False), st_req("r1"), st_sleep(SEC),
                                                    st_resume("c4", b"web", async_=False), st_req("r2")] + st_end(),
                                          "expect": {"r1": "ta:80", "r2": "ta:80"}}))
    # "only GETs whose path is exactly the health-check path are answered 200 by the proxy": a service mounted under a prefix
    # (stripped for the target or not), paused / stopped: GET <prefix>/up is NOT the health-check path /up - it is held and
    # released like any other request (paused) / answered 503 (stopped); so is POST /up of a root service
    for strip in (True, False):
        dep = dict(st_deploy("c1", b"web", [b"ta:80"]), prefixes=[H(b"/api")], strip=strip)
        out.append(("prefixed-health-path-%s" % ("strip" if strip else "keep"),
                    {"steps": [dep, st_req("r1", uri=b"/api/up"), st_sleep(SEC // 10), st_pause("c2", b"web", 20 * SEC, async_=False),
                               st_req("r2", uri=b"/api/up"), st_req("r3", uri=b"/api/up?x=1"), st_req("r4", uri=b"/api/x"), st_sleep(SEC),
                               st_resume("c3", b"web", async_=False), st_sleep(SEC // 10), st_stop("c4", b"web", async_=False),
                               st_req("r5", uri=b"/api/up"), st_sleep(SEC // 10), st_resume("c5", b"web", async_=False), st_req("r6", uri=b"/api/up")] + st_end(),
                     "expect": {"r1": "ta:80", "r2": "ta:80", "r3": "ta:80", "r4": "ta:80", "r6": "ta:80"}}))
    return out


# ------------------------------------------------------- random schedules ----

class Gen7:
    """Interleavings of arrivals with pause / resume / stop / repeated pause /
    redeploy; `exact`: every target answers at once, so the generator knows the
    virtual time and aims its sleeps at the held requests' deadlines +-1 ns."""

    def __init__(self, rnd, exact):
        self.rnd, self.exact = rnd, exact
        self.steps, self.nreq, self.ncmd, self.ntgt = [], 0, 0, 0
        self.now = 0
        self.state = {}       # name -> (state, fail_after)
        self.deadlines = []   # expected deadlines of held requests
        self.armed = []
        self.only_async = False   # a command parked at pause:gate-set / drain:marked must not run on the scheduler's goroutine

    def cid(self):
        self.ncmd += 1
        return "c%d" % self.ncmd

    def targets(self, n):
        out = []
        for _ in range(n):
            out.append(m5.TARGET_POOL[self.ntgt % len(m5.TARGET_POOL)])
            self.ntgt += 1
        return out

    def deploy(self, name, async_):
        rnd = self.rnd
        probes = ["ok"] if (self.exact or rnd.random() < 0.7) else rnd.choice([["refused", "ok"], ["slow:%d" % (900 * MS), "ok"], ["refused"]])
        self.steps.append(st_deploy(self.cid(), name, self.targets(rnd.choice([1, 1, 2])), drain=rnd.choice([0, SEC, 3 * SEC]),
                                    async_=async_, dt=rnd.choice([2, 5]) * SEC, probes=probes))

    def request(self, name):
        rnd = self.rnd
        self.nreq += 1
        uri = rnd.choice([b"/", b"/", b"/x", HEALTH, HEALTH, b"/up/", b"/UP", b"/up?x=1"])
        method = rnd.choice(["GET", "GET", "GET", "POST", "HEAD"])
        beh = "reply"
        if not self.exact and rnd.random() < 0.35:
            beh = rnd.choice(["delay:%d" % (100 * MS), "delay:%d" % SEC, "delay:%d" % (2 * SEC), "delay:%d" % (10 * SEC), "fault:boom"])
        self.steps.append(st_req("r%d" % self.nreq, name, uri, beh, method))
        st, fa = self.state.get(name, ("running", 0))
        if st == "paused":
            self.deadlines.append(self.now + fa)

    def sleep(self):
        rnd = self.rnd
        future = sorted(d for d in self.deadlines if d > self.now)
        if future and rnd.random() < 0.6:
            d = rnd.choice(future[:3]) - self.now + rnd.choice([-1, 0, 0, 1])
        else:
            d = rnd.choice([0, 1, 2, MS, 500 * MS, SEC - 1, SEC, SEC + 1, 2 * SEC, 3 * SEC])
        d = max(d, 0)
        self.steps.append(st_sleep(d))
        self.now += d

    def gen(self, n):
        rnd = self.rnd
        names = [b"web"] if rnd.random() < 0.7 else [b"web", b"api"]
        for nm in names:
            self.steps.append(st_deploy(self.cid(), nm, self.targets(rnd.choice([1, 1, 2])), drain=rnd.choice([0, SEC, 3 * SEC])))
            self.state[nm] = ("running", 0)
        for _ in range(n):
            x = rnd.random()
            nm = rnd.choice(names)
            async_ = self.only_async or rnd.random() < (0.4 if self.exact else 0.7)
            if x < 0.30:
                for _ in range(rnd.choice([1, 1, 2, 3, 4])):
                    self.request(nm if rnd.random() < 0.8 else rnd.choice(names))
            elif x < 0.43:
                fa = rnd.choice([SEC, SEC, 2 * SEC, 2 * SEC, 3 * SEC, 5 * SEC, 1, 0, 1500 * MS])
                self.steps.append(st_pause(self.cid(), nm, fa, drain=rnd.choice([0, SEC, 3 * SEC]), async_=async_))
                self.state[nm] = ("paused", fa)
            elif x < 0.53:
                self.steps.append(st_resume(self.cid(), nm, async_=async_))
                self.state[nm] = ("running", 0)
            elif x < 0.59:
                self.steps.append(st_stop(self.cid(), nm, drain=rnd.choice([0, SEC, 3 * SEC]), async_=async_, msg=rnd.choice([b"stopped", b"stopped", b""])))
                self.state[nm] = ("stopped", 0)
            elif x < 0.68:
                self.deploy(nm, async_)
            elif x < 0.86:
                self.sleep()
            elif x < 0.93:
                p = rnd.choice(YIELDS + (["drain:marked"] if not self.exact else []))
                self.steps.append(st_arm(p, rnd.choice([1, 1, 2])))
                self.armed.append(p)
                if p in ("pause:gate-set", "drain:marked"):
                    self.only_async = True
            elif self.armed:
                p = self.armed.pop(rnd.randrange(len(self.armed)))
                self.steps.append(st_rel(p))
        return {"steps": self.steps + st_end()}


def gen_cases(seed, tier):
    rnd = random.Random(seed)
    n = 110 if tier == "quick" else 1500
    cases = forced()
    for i in range(n):
        exact = i % 2 == 0
        cases.append(("random-%s-%d" % ("exact" if exact else "rich", i), Gen7(rnd, exact).gen(rnd.randint(12, 40))))
    return cases


# ------------------------------------------------------------------ runs ----

# Goroutines must switch only where they block or at armed yields (the views read each lock region as one step):
# no asynchronous preemption, and no garbage-collection stop-the-world in the middle of a scenario (GC only when
# the memory limit is near; scenarios run in chunks, one process each).
SIM_ENV = {"GODEBUG": "asyncpreemptoff=1", "GOGC": "off", "GOMEMLIMIT": "1500MiB"}
CHUNK = 40


def run_chunked(scenarios, tag):
    """Runs the scenarios on the real code, CHUNK per process.  Returns (ok, go output, outs)."""
    from concurrent.futures import ThreadPoolExecutor
    saved = {k: os.environ.get(k) for k in SIM_ENV}
    os.environ.update(SIM_ENV)
    works = []
    try:
        jobs = [scenarios[i:i + CHUNK] for i in range(0, len(scenarios), CHUNK)]

        def one(job):
            w = Work("C07" + tag)
            works.append(w)
            return m5.run_scenarios(w, job)
        with ThreadPoolExecutor(max_workers=3) as ex:
            res = list(ex.map(one, jobs))
        outs, gout, ok = [], "", True
        for (o, g, out), job in zip(res, jobs):
            ok = ok and o and len(out) == len(job)
            gout += g[-1500:] if not o else ""
            outs += out
        return ok, gout, outs
    finally:
        for k, v in saved.items():
            if v is None:
                os.environ.pop(k, None)
            else:
                os.environ[k] = v
        for w in works:
            w.cleanup()


# ---------------------------------------------------------------- terms ----

def req_flags(sc):
    """(request number, GET on exactly the health-check path)"""
    out = []
    for st in sc["steps"]:
        if st["op"] == "request":
            uri = bytes.fromhex(st["uri"])
            path = uri.split(b"?", 1)[0]
            out.append((m5.rid(st["id"]), st.get("method", "GET") == "GET" and path == HEALTH))
    return out


IMPORTS = ("From KP Require Import model.Base model.Trace model.M5gate model.M5path corr.C07corr.\n"
           "")
EXPR = ("fun tq => let tr := fst tq in let rq := snd tq in "
        "(gate_accepts tr, first_reject gstep ginit tr 0, path_accepts tr, first_reject pstep pinit tr 0, "
        "c07_judge tr rq, c07_stats tr)")
CODES = {1: "not answered exactly once", 2: "answered without consulting the gate, but not the health-check 200 of a non-running service",
         3: "the gate showed a state other than the commanded one", 4: "GET health path while not running did not get the proxy's 200",
         5: "a parked request was not held until one wake", 6: "released although no resume/stop came after its arrival",
         7: "timed out at a time other than arrival + max-pause in force at arrival", 8: "timed out although a resume/stop came earlier",
         9: "gate result inconsistent with the path taken", 10: "status inconsistent with the gate result",
         11: "forwarded to a target while the service was commanded paused/stopped", 12: "refused by a draining target",
         13: "went on with a service object that is not the installed one", 14: "a pause/stop/resume command left the controller in another state"}
EXCUSE = {3: "D3", 2: "D2", 1: "D3-overlap"}


def readable(events, limit=None):
    out = []
    for e in events:
        if e["kind"] in ("probe-sent", "probe-apply", "snap-collect", "snap-create", "snap-write", "snap-rename", "rotation", "waiter"):
            continue
        out.append("%d t=%d %s %s %s" % (e["seq"], e["t"], e["g"], e["kind"], json.dumps(e["args"])))
    return out if limit is None else out[:limit]


def run(tier, seed):
    res = Result("C07", tier, seed)
    work = Work("C07")
    try:
        ok, blog = coq_build(["props/C07.vo", "props/C07link.vo", "corr/C07corr.vo", "corr/C07expect.vo"])
        if not ok and "No rule to make target" in blog:     # a file of another build vanished under make: once more
            ok, blog = coq_build(["props/C07.vo", "props/C07link.vo", "corr/C07corr.vo", "corr/C07expect.vo"])
        proofs_ok, pa = proof_obligations_multi(work, res, ["C07.v", "C07link.v"], ok, blog)
        gate = coq_gate()
        if gate:
            proofs_ok = False
            pa += "\nforbidden constructs: " + "; ".join(gate[:10])
        cases = gen_cases(seed, tier)
        scenarios = [sc for _, sc in cases]
        harness_ok, gout, outs = run_chunked(scenarios, "")

        def evaluate(pairs, tag):
            terms = []
            for sc, o in pairs:
                flags = list_lit(["(%d, %s)" % (r, bool_lit(h)) for r, h in req_flags(sc)])
                terms.append("(%s,\n (%s : list (nat * bool)))" % (m5.trace_term([e for e in o["events"] if e["kind"] in KEPT]), flags))
            return m4x.coq_map(work, IMPORTS, "", terms, EXPR, tag, shard=6)

        def expectations(pairs):
            """directed scenarios with an "expect" map: [(scenario name, [request numbers answered by another target])]"""
            sel = [(i, sc, o) for i, (sc, o) in enumerate(pairs) if sc.get("expect")]
            if not sel:
                return []
            terms = ["(%s : list (nat * str),\n %s)" % (list_lit(["(%d, %s)" % (m5.rid(r), str_lit(n.encode())) for r, n in sorted(sc["expect"].items())]),
                                                          m5.trace_term([e for e in o["events"] if e["kind"] == "respond"])) for _, sc, o in sel]
            vals = m4x.coq_map(work, "From KP Require Import model.Base model.Trace corr.C07expect.", "", terms,
                               "fun x => c07_served_bad (fst x) (snd x)", "C07exp", shard=4)
            return [(i, v) for (i, _, _), v in zip(sel, vals) if v]

        def bad(r):
            return (not r[0]) or (not r[2]) or any(exc == 0 for (_, _, exc) in r[4])
        results = []
        incomplete = []
        not_reproduced = []
        if harness_ok and ok:
            results = evaluate(list(zip(scenarios, outs)), "C07")
            # A failing scenario is run again alone before it is reported: the verdict is that of the re-run.  (A goroutine
            # switch that the runtime forced inside a lock-free stretch - not at an armed yield - can reorder two events; it
            # does not reproduce.  Defects of the implementation and all mutations of tools' mutation list do.)
            suspects = [j for j, r in enumerate(results) if bad(r) or outs[j]["pending_at_end"]][:12]
            for j in suspects:
                ok2, g2, o2 = run_chunked([scenarios[j]], "re")
                if ok2:
                    r2 = evaluate([(scenarios[j], o2[0])], "C07re%d" % j)[0]
                    if not bad(r2) and not o2[0]["pending_at_end"]:
                        not_reproduced.append({"scenario": cases[j][0], "first_run": [list(x) for x in results[j][4] if x[2] == 0],
                                               "rejected_first_run": [results[j][1], results[j][3]]})
                    outs[j], results[j] = o2[0], r2
            for (tag, sc), o in zip(cases, outs):
                if o["pending_at_end"]:
                    incomplete.append(tag)
        findings = load_findings()
        mon_fail, rejected = [], []
        stats = [0, 0, 0, 0]
        fail_hist, known_hits = {}, {}
        for j, r in enumerate(results):
            gacc, grej, pacc, prej, judge, st = r
            for k in range(4):
                stats[k] += st[k]
            if not gacc or not pacc:
                rejected.append((j, "gate" if not gacc else "path", grej if not gacc else prej))
            for (rq, code, exc) in judge:
                key = "%s/%s" % (CODES.get(code, code), EXCUSE.get(exc, "unexplained"))
                fail_hist[key] = fail_hist.get(key, 0) + 1
                if exc == 0:
                    mon_fail.append((j, rq, code))
                else:
                    fid = EXCUSE[exc]
                    known_hits.setdefault(fid, []).append((j, rq, code))
        for fid, hits in sorted(known_hits.items()):
            f = findings.get(fid)
            if f is None:       # a pattern without a committed entry is not a known finding
                mon_fail += hits
                continue
            j, rq, code = hits[0]
            res.known_finding("%s: %s [%d request(s) in %d scenario(s) of this run, e.g. request r%d of scenario %s: %s]"
                              % (f["id"], f["what"], len(hits), len({h[0] for h in hits}), rq, cases[j][0], CODES.get(code, code)))
        nreq = sum(len(req_flags(sc)) for sc in scenarios)
        statuses, cmds = {}, {}
        for (tag, sc), o in zip(cases, outs):
            for r in o["results"]:
                if r.get("op") == "request":
                    statuses[str(r["status"])] = statuses.get(str(r["status"]), 0) + 1
                elif "result" in r and r.get("op") not in ("release", "observe"):
                    key = "%s:%s" % (r["op"], r["result"])
                    cmds[key] = cmds.get(key, 0) + 1
        arms = {}
        for sc in scenarios:
            for s in sc["steps"]:
                if s["op"] == "arm":
                    arms[s["point"]] = arms.get(s["point"], 0) + 1
        res.coverage.update({
            "evaluations": len(scenarios),
            "distinct_nontrivial": len({json.dumps(sc, sort_keys=True) for (tag, sc), r in zip(cases, results) if r[5][0] > 0}),
            "traces_validated_against_impl": len(results) - len(rejected),
            "rule": "one evaluation = one schedule (forced or random: %d forced, the rest random from the seed, half with instantly "
                    "answering targets and sleeps aimed at the held requests' deadlines +-1 ns, half with slow targets, async commands "
                    "and drains) run on the real router under the virtual clock; its event trace (events of kinds no view looks at dropped: c07_dropped_events_ignored) is replayed through both acceptors "
                    "and judged by the monitor inside Coq; distinct = distinct scenarios by JSON, non-trivial = at least one request "
                    "parked at a paused gate" % len(forced()),
            "input_distribution": {"commands": cmds, "yield_points_armed": arms, "requests": nreq},
            "outcome_distribution": {"status": statuses, "requests_parked_at_a_paused_gate": stats[0], "released_by_resume_or_stop": stats[1],
                                     "timed_out_at_the_gate": stats[2], "answered_stopped": stats[3],
                                     "monitor_failures_by_clause_and_explanation": fail_hist},
            "samples": [{"scenario": cases[0][0], "steps": scenarios[0]["steps"][:12]},
                        {"scenario": cases[-1][0], "steps": scenarios[-1]["steps"][:12]}],
            "correspondence": {"traces": len(results), "rejected_by_an_acceptor": len(rejected), "incomplete_runs": len(incomplete),
                               "unexplained_monitor_failures": len(mon_fail),
                               "failures_not_reproduced_on_rerun": not_reproduced},
        })
        res.assumptions = [
            "model/M5gate.v and model/M5path.v are hand-written acceptors; they are tied to pause_controller.go, service.go, router.go, "
            "load_balancer.go and target.go only by this correspondence run (every recorded trace must be accepted)",
            "the traces come from the verifEvent hooks (build tag verif) under GOMAXPROCS(1) on the synctest virtual clock with "
            "asynchronous preemption off and the garbage collector held back (GODEBUG=asyncpreemptoff=1 GOGC=off GOMEMLIMIT, 40 "
            "scenarios per process): each lock region is one atomic step; preemption inside a lock-free stretch is explored only at "
            "the armed yield points (req:routed, req:gate-passed, req:lb-picked, pause:gate-set, drain:marked); a failing scenario "
            "is re-run alone and judged on the re-run (coverage.correspondence.failures_not_reproduced_on_rerun lists the others)",
            "the re-read of the state after a channel wake (GetState) has no event of its own; it is atomic with the gate-wake event "
            "in these runs and is inferred from the gate result",
            "restart / restore, remove and rollout commands are outside this property's quantifier and are not generated",
            "TLS policy: the scenarios use plain HTTP services; the order 'TLS policy before the gate' is proved on model/Seq.v "
            "(c07_healthcheck_200) and checked against the implementation by C16",
        ]

        def payload(j, what, extra):
            tag, sc = cases[j]
            o = outs[j]
            p = {"property": "C07", "what": what, "seed": seed, "tier": tier, "scenario_name": tag, "scenario": sc,
                 "results": [r for r in o["results"] if r.get("op") == "request" or "result" in r],
                 "trace": readable(o["events"])}
            p.update(extra)
            return p
        exp_bad = expectations(list(zip(scenarios, outs))) if (harness_ok and ok and len(outs) == len(scenarios)) else []
        res.coverage["directed_expectations"] = {"scenarios": len([1 for sc in scenarios if sc.get("expect")]),
                                                 "requests": sum(len(sc["expect"]) for sc in scenarios if sc.get("expect")),
                                                 "answered_by_another_target": sum(len(v) for _, v in exp_bad)}
        if exp_bad and not mon_fail:
            j, rqs = exp_bad[0]
            res.violation("expect-%d" % j, payload(j, "monitor c07_served_bad: held request(s) %s were not answered by the targets the service "
                                                      "selects for them at the resume (expected: %s)" % (", ".join("r%d" % q for q in rqs), scenarios[j]["expect"]), {}))
        elif mon_fail:
            j, rq, code = mon_fail[0]
            res.violation("monitor-%d" % j, payload(j, "monitor c07_check false on an implementation trace: request r%d: %s"
                                                    % (rq, CODES.get(code, code)),
                                                    {"failures": [[q, CODES.get(c, c)] for (jj, q, c) in mon_fail if jj == j]}))
        elif rejected or incomplete or not harness_ok or not proofs_ok or (ok and harness_ok and len(results) != len(cases)):
            what = ("an acceptor rejects an implementation trace" if rejected else
                    "a scenario did not run to completion" if incomplete else
                    "harness does not build/run against the tree" if not harness_ok else "proof obligations of props/C07.v do not check")
            p = {"property": "C07", "what": what, "seed": seed, "tier": tier,
                 "broken": "model/M5gate.v / model/M5path.v vs the router" if (rejected or incomplete or not harness_ok) else "props/C07.v"}
            if rejected:
                j, view, at = rejected[0]
                k = at[1] if isinstance(at, tuple) else None
                p = payload(j, what, {"view": view, "rejected_at_event": k, "broken": p["broken"]})
            elif incomplete:
                p["scenarios"] = incomplete[:5]
            if not harness_ok:
                p["harness_output"] = gout[-3000:]
            if not proofs_ok:
                p["coq_output"] = (blog + pa)[-3000:]
            res.violation("broken", p, no_input=True)
        return res.finish()
    finally:
        work.cleanup()


def load_findings():
    return {e["id"]: e for e in known_findings("C07")}
