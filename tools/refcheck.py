#!/usr/bin/env python3
"""Run the checks against a HARMLESS rewrite (behaviour-preserving change): they must stay quiet.
usage: refcheck.py <PROP> <src-dir with patch.diff + README.md> <id> [--checks C04,C05] [--tier quick]
Scratch worktree of /repo HEAD (removed afterwards); writes /verif/harmless/<id>/{patch.diff, README.md, meta.json}."""
import json
import os
import shutil
import sys
sys.path.insert(0, os.path.dirname(__file__))
from seedcheck import sh, VERIF


def main():
    prop, src, sid = sys.argv[1], sys.argv[2], sys.argv[3]
    checks = [prop]
    tier = "quick"
    if "--checks" in sys.argv:
        checks = sys.argv[sys.argv.index("--checks") + 1].split(",")
    if "--tier" in sys.argv:
        tier = sys.argv[sys.argv.index("--tier") + 1]
    wt = "/var/tmp/ref-eval-%s" % sid.replace("/", "_")
    sh(["git", "-C", "/repo", "worktree", "remove", "--force", wt])
    rc, out = sh(["git", "-C", "/repo", "worktree", "add", "-q", "--detach", wt, "HEAD"])
    assert rc == 0, out
    meta = {"property": prop, "id": sid, "repo_head": sh(["git", "-C", "/repo", "log", "--format=%h", "-1"])[1].strip()}
    try:
        rc, out = sh(["git", "apply", os.path.abspath(os.path.join(src, "patch.diff"))], cwd=wt)
        meta["patch_applies"] = rc == 0
        rc, out = sh("go build ./... && go build -tags verif ./...", cwd=wt)
        meta["builds"] = rc == 0
        suite = []
        for _ in range(2):
            rc, out = sh("go test -vet=off -count=1 ./... 2>&1 | grep -E '^(--- FAIL|FAIL|ok|panic)'", cwd=wt, timeout=1200)
            suite.append(out.strip().splitlines())
        meta["suite_passes"] = any(all(not l.startswith(("--- FAIL", "FAIL", "panic")) for l in r) for r in suite)
        results = {}
        for c in checks:
            rc, out = sh(["./check", c, tier], cwd=VERIF, env={"VERIF_REPO": wt, "VERIF_SEED": os.environ.get("VERIF_SEED", "1")}, timeout=3600)
            lines = [l for l in out.splitlines() if l.startswith(("VIOLATION", "KNOWN-FINDING"))]
            results[c] = {"exit": rc, "lines": [l[:300] for l in lines], "tail": out[-600:] if rc != 0 else ""}
        meta["checks"] = results
        meta["alarms"] = [c for c, r in results.items() if r["exit"] != 0]
        dst = os.path.join(VERIF, "harmless", sid)
        os.makedirs(dst, exist_ok=True)
        for f in ["patch.diff", "README.md"]:
            if os.path.exists(os.path.join(src, f)):
                shutil.copy(os.path.join(src, f), os.path.join(dst, f))
        json.dump(meta, open(os.path.join(dst, "meta.json"), "w"), indent=1)
        print(json.dumps({k: meta[k] for k in ("id", "patch_applies", "builds", "suite_passes", "alarms")}))
        for c, r in results.items():
            if r["exit"] != 0:
                print(" ", c, "exit", r["exit"], r["lines"][:3], r["tail"][-300:])
    finally:
        sh(["git", "-C", "/repo", "worktree", "remove", "--force", wt])


if __name__ == "__main__":
    main()
