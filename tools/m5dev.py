import sys; sys.path.insert(0,'/verif/tools')
from vlib import *
import m5, random, collections
seed=int(sys.argv[1]) if len(sys.argv)>1 else 1
n=int(sys.argv[2]) if len(sys.argv)>2 else 5
rnd=random.Random(seed)
scs=[m5.Gen(rnd).gen(rnd.randint(10,40)) for _ in range(n)]
work=Work("m5dev")
import time; t0=time.time()
ok,gout,outs=m5.run_scenarios(work,scs)
print(ok, time.time()-t0, gout[-1500:] if not ok else "")
kinds=collections.Counter(); stat=collections.Counter(); res=collections.Counter()
for o in outs:
    for e in o["events"]: kinds[e["kind"]]+=1
    for r in o["results"]:
        if r.get("op")=="request": stat[r["status"]]+=1
        elif "result" in r: res[(r["op"],r["result"])]+=1
    if o["pending_at_end"]: print("pending", o["pending_at_end"])
print(sorted(kinds.items())); print(sorted(stat.items())); print(sorted(res.items()))
if "--dump" in sys.argv:
    i=int(sys.argv[sys.argv.index("--dump")+1])
    for e in outs[i]["events"]: print(e["seq"], e["t"]/1e9, e["g"], e["kind"], e["args"])
work.cleanup()
