#!/bin/bash
# usage: seedrun.sh <seed-id> <CHECK> [tier]  -- applies /verif/seeded/<seed-id>/patch.diff in a scratch worktree and runs one check against it
S=$1; C=$2; T=${3:-quick}
WT=/var/tmp/seedrun-$S-$$
git -C /repo worktree add -q --detach $WT HEAD || exit 2
( cd $WT && { git apply /verif/seeded/$S/patch.diff 2>/dev/null || git apply -3 /verif/seeded/$S/patch.diff; } ) || { echo "patch does not apply"; git -C /repo worktree remove --force $WT; exit 2; }
( cd /verif && VERIF_REPO=$WT ./check $C $T 2>&1 | grep -E "^(VIOLATION|KNOWN-FINDING)" | cut -c1-220; echo "exit=${PIPESTATUS[0]}" )
git -C /repo worktree remove --force $WT
