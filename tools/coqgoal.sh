#!/bin/sh
# usage: coqgoal.sh <file.v relative to coq/> <line>  — print goals after that line
cd /verif/coq
f="$1"; n="$2"
tmp="$(dirname $f)/Tmpgoal_$$.v"
head -n "$n" "$f" > "$tmp"
printf '\nShow.\n' >> "$tmp"
timeout 300 coqc -Q . KP -w -notation-overridden "$tmp" 2>&1 | grep -v "pending proofs" | head -${3:-60}
rm -f "$tmp" "$(dirname $f)/Tmpgoal_$$".* "$(dirname $f)/.Tmpgoal_$$".*
